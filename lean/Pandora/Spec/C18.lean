/-
C18 — executable Spec over the observation (steps with their user-code events and results, final views).
The same predicates are evaluated on what the REAL registry did (Drv/C18) and proved of `Model.C18.run`
for every shape, form, world and number of calls (Props/C18).
-/
import Pandora.Model.C18

namespace Pandora.Spec.C18
open Pandora.Model.C18

/-- the registered defaults as the constructor should see them -/
def defaults (sh : Shape) (w : World) : Cfg :=
  match sh.dflt with
  | .fresh | .shared => w.dflt
  | _ => []

/-- defaults overlaid by the user's settings (when a fillConf is given) -/
def expected (sh : Shape) (w : World) : Cfg :=
  (if w.hasFill then w.user else []) ++ defaults sh w

def product? (s : Step) : Option Product :=
  match s.res with
  | .ok p => some p
  | _ => none

def products (steps : List Step) : List Product := steps.filterMap product?

/-- C18_config on an observation, for the listed fields (the theorem is about every field but `Mark`) -/
def configOk (inp : Input) (obs : Obs) (fields : List Nat) : Bool :=
  (products obs.steps).all fun p =>
    if inp.sh.cfg = .none then p.seen == []
    else fields.all fun f => f == markField || p.seen.get f == (expected inp.sh inp.w).get f

def isDflt : Ev → Bool | .dflt => true | _ => false
def isFill : Ev → Bool | .fill .. => true | _ => false
def isCtor : Ev → Bool | .ctor .. => true | _ => false
def isFact : Ev → Bool | .fact .. => true | _ => false

/-- the error a failing invocation returned -/
def evFail : Ev → Option Err
  | .fill i _ ok => if ok then none else some (.fill i)
  | .ctor i _ ok => if ok then none else some (.ctor i)
  | .fact i ok => if ok then none else some (.fact i)
  | .dflt => none

def fillAddrEv : Ev → Option Nat | .fill _ a _ => a | _ => none
def ctorConfEv : Ev → Option Nat | .ctor _ c _ => c | _ => none
/-- identity of the config fillConf was invoked on in this step -/
def fillAddr? (s : Step) : Option Nat := s.evs.findSome? fillAddrEv
/-- identity of the `*Conf` the constructor was invoked with in this step -/
def ctorConf? (s : Step) : Option Nat := s.evs.findSome? ctorConfEv
def prodCell? (s : Step) : Option Nat := (product? s).bind (·.cell)

def fillFailed (s : Step) : Bool := s.evs.any fun | .fill _ _ ok => !ok | _ => false
def ctorFailed (s : Step) : Bool := s.evs.any fun | .ctor _ _ ok => !ok | _ => false

/-- errors of one step: a failing invocation is the last thing that happens in the step and its error is the
step's result — as a panic iff `canPanic`; without a failing invocation the step succeeds -/
def stepErrOk (canPanic : Bool) (s : Step) : Bool :=
  match s.evs.filterMap evFail with
  | [] => (match s.res with | .made | .ok _ => true | _ => false)
  | [e] => (s.evs.getLast?.bind evFail == some e) && (s.res == if canPanic then .panic e else .err e)
  | _ => false

def isMade (s : Step) : Bool := s.res == .made
def isErr (s : Step) : Bool := match s.res with | .err _ => true | _ => false

/-- C18_errors on an observation -/
def errorsOk (inp : Input) (obs : Obs) : Bool :=
  match inp.form with
  | .component =>
      obs.steps.length == inp.k && obs.steps.all fun s => stepErrOk false s && !isMade s
  | form =>
      match obs.steps with
      | [] => false
      | c :: calls =>
        stepErrOk false c && (isMade c || isErr c) &&
        (if isMade c then calls.length == inp.k else calls.isEmpty) &&
        calls.all fun s => stepErrOk (form == .facNoErr) s && !isMade s

/-- one call that must work on a configuration of its own: the default-config function is invoked once (if there
is one), fillConf once on the new config, the constructor once unless fillConf failed, on that very config -/
def freshCallOk (sh : Shape) (w : World) (s : Step) : Bool :=
  s.evs.countP isDflt == (if sh.dflt = .absent then 0 else 1) &&
  s.evs.countP isFill == (if w.hasFill then 1 else 0) &&
  (!w.hasFill || (fillAddr? s).isSome) &&
  s.evs.countP isCtor == (if fillFailed s then 0 else 1) &&
  s.evs.countP isFact == (if sh.factory && !fillFailed s && !ctorFailed s then 1 else 0) &&
  (sh.cfg != .ptr || fillFailed s || ((ctorConf? s).isSome && (!w.hasFill || ctorConf? s == fillAddr? s))) &&
  (sh.cfg != .ptr || (product? s).isNone || prodCell? s == ctorConf? s)

def nodup (l : List Nat) : Bool := decide l.Nodup

/-- C18_fresh on an observation: shapes with a config whose requested form must reconfigure per product
(`New`, or a factory made from a component constructor) and whose default-config function does not hand out one
shared pointer -/
def freshApplies (inp : Input) : Bool :=
  inp.sh.cfg != .none && inp.sh.dflt != .shared && (inp.form == .component || !inp.sh.factory)

def callsOf (inp : Input) (obs : Obs) : List Step :=
  match inp.form with
  | .component => obs.steps
  | _ => obs.steps.drop 1

def freshOk (inp : Input) (obs : Obs) : Bool :=
  (inp.form == .component || (obs.steps.head?.map (·.evs)) == some []) &&
  (callsOf inp obs).all (freshCallOk inp.sh inp.w) &&
  nodup ((callsOf inp obs).filterMap fillAddr?) &&
  nodup ((callsOf inp obs).filterMap ctorConf?) &&
  nodup ((callsOf inp obs).filterMap prodCell?) &&
  obs.views.all (fun v => (v.1 : Int) == v.2) &&
  obs.views.length == ((callsOf inp obs).filterMap prodCell?).length

/-- C18_once on an observation: a factory made from a factory constructor -/
def onceApplies (inp : Input) : Bool := inp.sh.factory && inp.form != .component

/-- creation: the default-config function (if any), fillConf (if given) and — unless fillConf failed — the
registered factory constructor are invoked once each; the factory it returns is not invoked yet -/
def onceCreateOk (sh : Shape) (w : World) (c : Step) : Bool :=
  c.evs.countP isDflt == (if sh.cfg = .none || sh.dflt = .absent then 0 else 1) &&
  c.evs.countP isFill == (if w.hasFill then 1 else 0) &&
  c.evs.countP isCtor == (if fillFailed c then 0 else 1) &&
  c.evs.countP isFact == 0

/-- a call: exactly one invocation of user code, the registered factory -/
def onceCallOk (s : Step) : Bool := s.evs.length == 1 && s.evs.countP isFact == 1

def onceOk (inp : Input) (obs : Obs) : Bool :=
  match obs.steps with
  | [] => false
  | c :: calls => onceCreateOk inp.sh inp.w c && calls.all onceCallOk

/-- C18_percall: every call of a form that must configure per product has the per-call structure of `freshCallOk`
— also when the default-config function hands out one shared pointer (then the identities coincide, which is the
plugin author's doing; the registry still calls the default-config function, fillConf and the constructor once per
product, on the configuration that function returned) -/
def percallApplies (inp : Input) : Bool :=
  inp.sh.cfg != .none && (inp.form == .component || !inp.sh.factory)

def percallOk (inp : Input) (obs : Obs) : Bool :=
  (inp.form == .component || (obs.steps.head?.map (·.evs)) == some []) &&
  (callsOf inp obs).all (freshCallOk inp.sh inp.w)

/-! ### C18_struct: which user code runs in which operation, in which order — for EVERY shape -/

/-- kind of an invocation of user code -/
inductive K | d | f | c | r
deriving DecidableEq, Repr

def kindOf : Ev → K
  | .dflt => .d | .fill .. => .f | .ctor .. => .c | .fact .. => .r

/-- `defaultConfigContainer.Get`: the default-config function (if one is registered and a config is needed), then
fillConf (if given) -/
def getKinds (sh : Shape) (w : World) : List K :=
  (if sh.cfg = .none ∨ sh.dflt = .absent then [] else [K.d]) ++ (if w.hasFill then [K.f] else [])

/-- does one call of the requested form configure anew?  `New` always does (on an empty struct when the constructor
takes no config); a factory made from a component constructor does iff the constructor takes a config -/
def reconfigures (inp : Input) : Bool :=
  inp.form == .component || (!inp.sh.factory && inp.sh.cfg != .none)

/-- the invocations of user code one call consists of, in order (`ff`: did fillConf fail in this step) -/
def callKindsBy (ff : Step → Bool) (inp : Input) (s : Step) : List K :=
  if reconfigures inp then
    getKinds inp.sh inp.w ++
      (if ff s then [] else K.c :: (if inp.sh.factory && !ctorFailed s then [K.r] else []))
  else if inp.sh.factory then [K.r] else [K.c]

/-- the invocations of user code `NewFactory` itself consists of -/
def createKindsBy (ff : Step → Bool) (inp : Input) (s : Step) : List K :=
  if inp.sh.factory then getKinds inp.sh inp.w ++ (if ff s then [] else [K.c])
  else if inp.sh.cfg = .none && inp.w.hasFill then [K.f] else []

def callKinds := callKindsBy fillFailed
def createKinds := createKindsBy fillFailed

/-- a constructor without a config never sees one: fillConf works on the empty struct, the constructor gets nothing -/
def noAddr (s : Step) : Bool := s.evs.all fun e => (fillAddrEv e).isNone && (ctorConfEv e).isNone

def structOkBy (ff : Step → Bool) (inp : Input) (obs : Obs) : Bool :=
  (inp.form == .component ||
    match obs.steps.head? with
    | some c => c.evs.map kindOf == createKindsBy ff inp c
    | none => false) &&
  ((callsOf inp obs).all fun s => s.evs.map kindOf == callKindsBy ff inp s) &&
  (inp.sh.cfg != .none || obs.steps.all noAddr)

/-- C18_struct on an observation -/
def structOk := structOkBy fillFailed

/-- the step ended with fillConf's error (how a failed fillConf shows where fillConf invocations are not logged) -/
def resFill (s : Step) : Bool :=
  match s.res with
  | .err (.fill _) | .panic (.fill _) => true
  | _ => false

/-- verdict of the whole Spec on an observation (`none` = registration panicked) -/
def judge (inp : Input) (obs : Option Obs) (fields : List Nat) : String :=
  match obs with
  | none => if registerOk inp.sh then "fail:regpanic:valid registration panicked" else "ok"
  | some obs =>
    if !registerOk inp.sh then "fail:registered:invalid registration accepted"
    else if !errorsOk inp obs then "fail:errors:error not delivered as the error result / panic rule"
    else if !configOk inp obs fields then "fail:config:product config is not defaults overlaid by user settings"
    else if freshApplies inp && !freshOk inp obs then "fail:fresh:config not created+filled per product or shared between products"
    else if onceApplies inp && !onceOk inp obs then "fail:once:factory constructor not configured exactly once"
    else if percallApplies inp && !percallOk inp obs then "fail:fresh:a product not built by its own default-config + fillConf + constructor call"
    else if !structOk inp obs then "fail:counts:user code invoked in another number or order than the constructor shape prescribes"
    else "ok"

/-! ### histories: several creations on one registration -/

/-- identities of the configurations held by the products of a phase -/
def phaseCells (o : Obs) : List Nat := o.steps.filterMap prodCell?

/-- the configurations held by the products of all phases that must configure per product -/
def freshCellsH (h : HInput) : List Phase → List Obs → List Nat
  | p :: ps, o :: os => (if freshApplies (h.input p) then phaseCells o else []) ++ freshCellsH h ps os
  | _, _ => []

/-- the final views, phase by phase (a phase owns as many entries as it has pointer-holding products): every product
of a phase that must configure per product still reads its own serial number at the very end of the history -/
def finalViewsOk (h : HInput) : List Phase → List Obs → List (Nat × Int) → Bool
  | p :: ps, o :: os, vs =>
    (!freshApplies (h.input p) || (vs.take (phaseCells o).length).all (fun v => (v.1 : Int) == v.2)) &&
      finalViewsOk h ps os (vs.drop (phaseCells o).length)
  | _, _, _ => true

/-- across the phases: no two products of per-product-configuring phases hold the same configuration object, whichever
creations they come from, and none of them was disturbed by a later creation -/
def histCrossOk (h : HInput) (o : HObs) : Bool :=
  h.sh.dflt == .shared ||
    (nodup (freshCellsH h h.phases o.phases) && finalViewsOk h h.phases o.phases o.views)

/-- every phase on its own satisfies the whole single-creation Spec w.r.t. ITS user settings -/
def histPhasesOk (h : HInput) (fields : List Nat) : List Phase → List Obs → Bool
  | p :: ps, o :: os =>
    errorsOk (h.input p) o &&
    (h.sh.dflt == .shared || configOk (h.input p) o fields) &&
    (!freshApplies (h.input p) || freshOk (h.input p) o) &&
    (!onceApplies (h.input p) || onceOk (h.input p) o) &&
    (!percallApplies (h.input p) || percallOk (h.input p) o) &&
    structOk (h.input p) o &&
    histPhasesOk h fields ps os
  | [], [] => true
  | _, _ => false

/-- verdict on a history (`none` = registration panicked) -/
def judgeHist (h : HInput) (obs : Option HObs) (fields : List Nat) : String :=
  match obs with
  | none => if registerOk h.sh then "fail:regpanic:valid registration panicked" else "ok"
  | some o =>
    if !registerOk h.sh then "fail:registered:invalid registration accepted"
    else if !histPhasesOk h fields h.phases o.phases then "fail:history:a later creation on the same registration breaks the Spec of a single creation"
    else if !histCrossOk h o then "fail:fresh:products of different creations share a configuration object or a later creation disturbed an earlier product"
    else "ok"

end Pandora.Spec.C18
