/-
C20 — the property as an executable predicate over what the recording server and the aggregator observed.

For every grpc/json entry and every gRPC scenario call the server must have received exactly one call to the named
method, with the payload interpreted against the method's input type, with the entry's metadata (for scenarios: the
step's metadata TEMPLATES rendered with the variables of THAT shot) under the configured timeout; an unknown method
or an ill-fitting payload gives exactly one failed sample (code 0 / 400), no call, and leaves later entries alone.

The expectation is computed from the input alone, without any shared state except the `[next]` iterator of the
scenario (whose draws are part of the input's meaning).
-/
import Pandora.Model.C20
import Pandora.Model.C20Feed

namespace Pandora.Spec.C20
open Pandora.Model.C20 Pandora.Model.C20Conc

/-! ### grpc/json -/

/-- what the entry list must produce, entry by entry (no state carried from one entry to the next) -/
def expectedEntries (tmo : Nat) (es : List Entry) : List Outcome := es.map (shootEntry tmo)

def multisetText (os : List Outcome) : String × String :=
  (dash (String.intercalate "+" (sortStrs (os.flatMap (·.calls)))),
   dash (String.intercalate "+" (sortStrs (os.flatMap (·.samples)))))

def expectedJsonObs (tmo : Nat) (es : List Entry) : String :=
  let (c, s) := multisetText (expectedEntries tmo es)
  "run=- calls=" ++ c ++ " samples=" ++ s

/-- grpc/json entries fired by hand: entry `k` by instance `sched[k]`; which instance fires an entry (and through
which connection) makes no difference to what the entry must produce -/
def expectedJsonSched (tmo : Nat) (sched : List Nat) (es : List Entry) : List (Nat × Outcome) :=
  (sched.zip es).map fun (g, e) => (g, shootEntry tmo e)

/-- what the provider must put on its sink: when no line stops it and the passes are bounded, `passes` times the
per-line ammo of the file (every line decoded on its own, chosen cases only, an undecodable line as the empty invalid
ammo), cut at the limit — `C20_feed_isolated` proves that the reading loop delivers exactly this; otherwise (a line
stops the provider, or unlimited passes under a limit) what the model of the loop delivers (`fallback`) -/
def specFeed (cfg : ProvCfg) (raws : List Raw) (fallback : List Entry) : List Entry :=
  if cfg.passes != 0 && raws.all (rawOk cfg) then takeLim cfg.limit (passesItems cfg raws cfg.passes) else fallback

def stopText : Stop → String
  | .none => "ok"
  | .decode => "decode"
  | .scan => "scan"
  | .noammo => "noammo"

/-! ### scenarios -/

/-- the call a step must make given its variables: templates of the DEFINITION rendered with these variables -/
def specStep (c : Cfg) (scn : String) (cd : CallDef) (vars : Vars Char) : Outcome × Bool × Option (String × String) :=
  let payload := cd.payload.map fun (fname, kind, t) => (fname, pvalOf kind (String.ofList (render vars t)))
  let md := cd.md.map fun (k, t) => (k, String.ofList (render vars t))
  let tag := scn ++ "." ++ cd.tag
  if callBad cd then ({ calls := [], samples := [sampleText tag 0] }, false, none) else
  match lookupMethod cd.call with
  | none => ({ calls := [], samples := [sampleText tag 0] }, false, none)
  | some (m, fs) =>
    match decodeFields fs payload with
    | none => ({ calls := [], samples := [sampleText tag 400] }, false, none)
    | some vals =>
      let msg := canonMsg fs vals
      let code := serverCode m msg md
      let ret := if m == "Auth" && code == 200 then
          let login := ((stripPrefix? "s." (fieldVal msg "login")).getD "")
          some ("TOK" ++ login, login)
        else none
      ({ calls := [callText m msg (mdText md) c.tmo], samples := [sampleText tag code] }, !(assertFails cd code), ret)

/-- variables of a step and the iterator positions after its preprocessor: `u` is the next user of the iterator the
call draws from (if the call has a preprocessor), `A`/`I` what the shot's auth step returned, `G` the global constant -/
def stepVars (c : Cfg) (cd : CallDef) (iters : List (String × Nat)) (sv : ShotVars) : Vars Char × List (String × Nat) :=
  let ui := drawUser c cd iters
  (mkVars ui.1 (svFor cd sv) c.g c.gn, ui.2)

/-- the per-shot variables after a step: the step named `auth` (re)defines token and user id -/
def svNext (cd : CallDef) (ret : Option (String × String)) (sv : ShotVars) : ShotVars :=
  if cd.name == "auth" then (match ret with | some (a, i) => { a := some a, i := some i } | none => { a := none, i := none }) else sv

/-- one scenario shot: steps in order, the call's iterator advanced by every step with a preprocessor; a failing step
ends the shot. Returns the outcome and the iterator positions afterwards; `none` = outside the modelled fragment. -/
def specSteps (c : Cfg) (scn : String) : List CallDef → List (String × Nat) → ShotVars → Outcome → Option (Outcome × List (String × Nat))
  | [], iters, _, acc => some (acc, iters)
  | cd :: rest, iters, sv, acc =>
    if cd.pre && c.users.isEmpty then none else
    let vi := stepVars c cd iters sv
    let r := specStep c scn cd vi.1
    let acc' : Outcome := { calls := acc.calls ++ r.1.calls, samples := acc.samples ++ r.1.samples }
    if r.2.1 then specSteps c scn rest vi.2 (svNext cd r.2.2 sv) acc' else some (acc', vi.2)

/-- expected trace of shots fired one at a time by the guns `sched` -/
def expectedSched (c : Cfg) : List Nat → Nat → List (String × Nat) → List (Nat × Outcome) → Option (List (Nat × Outcome))
  | [], _, _, acc => some acc.reverse
  | gun :: rest, k, iters, acc =>
    let ammos := ammoList c
    match ammos[k % ammos.length]? with
    | none => none
    | some s =>
      match resolveReqs c s with
      | none => none
      | some cds =>
        match specSteps c s.name cds iters { a := none, i := none } { calls := [], samples := [] } with
        | none => none
        | some (o, iters') => expectedSched c rest (k + 1) iters' ((gun, o) :: acc)

/-! ### comparison of an observation with the expectation -/

def cutAt (s : String) (sep : Char) : String × String :=
  let cs := s.toList
  let a := cs.takeWhile (· != sep)
  (String.ofList a, String.ofList ((cs.drop a.length).drop 1))

def splitNE (s : String) (sep : String) : List String := if s.isEmpty || s == "-" then [] else s.splitOn sep

def proj (n : Nat) (call : String) : String := String.intercalate "|" ((call.splitOn "|").take n)

/-- which part of the wire image differs first: method, message, metadata, timeout (multisets of calls) -/
def diffCalls (exp impl : List String) : Option String :=
  if exp.length != impl.length then some s!"count:expected {exp.length} calls, server received {impl.length}"
  else if sortStrs (exp.map (proj 1)) != sortStrs (impl.map (proj 1)) then some "method:calls went to other methods than named"
  else if sortStrs (exp.map (proj 2)) != sortStrs (impl.map (proj 2)) then some "message:request message differs from the payload"
  else if sortStrs (exp.map (proj 3)) != sortStrs (impl.map (proj 3)) then
    let bad := (sortStrs impl).filter fun c => !(exp.contains c)
    some ("metadata:received " ++ (bad.headD "?") )
  else if sortStrs exp != sortStrs impl then some "timeout:deadline differs from the configured timeout"
  else none

def diffSamples (exp impl : List String) : Option String :=
  if sortStrs exp != sortStrs impl then
    some s!"sample:expected samples {String.intercalate "+" (sortStrs exp)} got {String.intercalate "+" (sortStrs impl)}"
  else none

def crashKey (impl : String) : Option String :=
  if impl.startsWith "PANIC" then some ("panic:" ++ String.ofList (impl.toList.take 120))
  else if impl.startsWith "HANG" then some "hang:no result"
  else if impl.startsWith "FATAL" then some ("fatal:" ++ String.ofList (impl.toList.take 120))
  else if impl.startsWith "CHILD-FAILED" then some ("env:" ++ String.ofList (impl.toList.take 120))
  else if impl.startsWith "setup=" then some ("setup:" ++ String.ofList (impl.toList.take 120))
  else none

def kvGet (s : String) (k : String) : String :=
  (((s.splitOn " ").filterMap fun tok =>
    let (a, b) := cutAt tok '='
    if a == k then some b else none).head?).getD ""

/-- a separate reflection endpoint (the gun's `reflect_port`) serves descriptors only: every call of the run must have
gone to the TARGET. `stray=<n>` is the number of service calls the reflection endpoint received. -/
def judgeStray (impl : String) : Option String :=
  let st := kvGet impl "stray"
  if st == "" || st == "0" then none
  else some s!"fail:misdirected:{st} call(s) were sent to the reflection endpoint instead of the target"

/-- verdict for a multiset observation `run=.. calls=.. samples=..` -/
def judgeMultiset (expCalls expSamples : List String) (impl : String) : String :=
  match crashKey impl with
  | some k => "fail:" ++ k
  | none =>
    let run := kvGet impl "run"
    if run != "-" then s!"fail:run-error:{run}" else
    match diffCalls expCalls (splitNE (kvGet impl "calls") "+") with
    | some d => "fail:" ++ d
    | none =>
      match diffSamples expSamples (splitNE (kvGet impl "samples") "+") with
      | some d => "fail:" ++ d
      | none => "ok"

def parseShot (s : String) : Option (Nat × List String × List String) :=
  match s.splitOn "#" with
  | [g, cs, ss] => g.toNat?.map fun g => (g, splitNE cs "+", splitNE ss "+")
  | _ => none

/-- verdict for a trace observation `t=shot;shot;…` against the expected trace -/
def judgeTrace (exp : List (Nat × Outcome)) (impl : String) : String :=
  match crashKey impl with
  | some k => "fail:" ++ k
  | none =>
    let shots := splitNE (kvGet impl "t") ";"
    if shots.length != exp.length then s!"fail:count:expected {exp.length} shots, observed {shots.length}" else
    let rec go (k : Nat) : List (Nat × Outcome) → List String → String
      | [], _ => "ok"
      | _, [] => "ok"
      | (g, o) :: es, s :: ss =>
        match parseShot s with
        | none => s!"fail:driver:unparsable shot {k}"
        | some (g', cs, sm) =>
          if g != g' then s!"fail:driver:shot {k} by gun {g'}" else
          -- within one shot the order of calls is the order of steps: compare as sequences
          if o.calls != cs then
            match diffCalls o.calls cs with
            | some d => s!"fail:{d} (shot {k} gun {g})"
            | none => s!"fail:order:calls of shot {k} arrived in another order"
          else if o.samples != sm then s!"fail:sample:shot {k} expected {String.intercalate "+" o.samples} got {String.intercalate "+" sm}"
          else go (k + 1) es ss
    go 0 exp shots

/-- a grpc/json trace fired by hand: the shots, then — when the schedule asks for more ammo than the provider
delivers — the observation that the provider has ended, and how (`perr=`) -/
def judgeFeedTrace (exp : List (Nat × Outcome)) (outOfAmmo : Bool) (stop : String) (impl : String) : String :=
  match crashKey impl with
  | some k => "fail:" ++ k
  | none =>
    let shots := splitNE (kvGet impl "t") ";"
    let implOut := shots.getLast? == some "out-of-ammo"
    let core := if implOut then shots.dropLast else shots
    let v := judgeTrace exp ("t=" ++ String.intercalate ";" core)
    if v != "ok" then v
    else if implOut && !outOfAmmo then s!"fail:count:the provider delivered only {core.length} ammo"
    else if !implOut && outOfAmmo then "fail:count:the provider delivered more ammo than the file, the passes and the limit allow"
    else if outOfAmmo && kvGet impl "perr" != stop then s!"fail:provider-end:expected {stop} got {kvGet impl "perr"}"
    else "ok"

/-! ### scenarios through the real engine (concurrent instances): membership + counts -/

/-- every call a step of the definition may legitimately make, over all users it can draw and all users the auth
step can have authenticated -/
def allowedCalls (c : Cfg) : List String :=
  c.scns.flatMap fun s =>
    match resolveReqs c s with
    | none => []
    | some cds =>
      cds.flatMap fun cd =>
        let us : List (Option String) := if cd.pre then c.users.map some else [none]
        let is := if (cd.md.map (·.2) ++ cd.payload.map (·.2.2)).any (fun t => usesVar t vA || usesVar t vI) then c.users else [""]
        us.flatMap fun u => is.flatMap fun i =>
          let vars : Vars Char := mkVars u { a := some ("TOK" ++ i), i := some i } c.g c.gn
          (specStep c s.name cd vars).1.calls

/-- Engine runs: an instance first acquires an ammo and then waits for a schedule token (`instance.Run`), so with `n`
instances sharing a schedule of `shots` tokens the ammos actually fired are `shots` of the first `shots + n - 1` ammos
of the provider's order (up to `n - 1` acquired ammos find the schedule exhausted and are dropped; which ones is a
race). The number of calls therefore lies between the sum of the step counts of those ammos minus the `n - 1` largest
and minus the `n - 1` smallest; for one instance it is exact. -/
def insertNat (x : Nat) : List Nat → List Nat
  | [] => [x]
  | y :: ys => if x ≤ y then x :: y :: ys else y :: insertNat x ys

def callCountRange (c : Cfg) (n shots : Nat) : Nat × Nat :=
  let ammos := ammoList c
  let lens := (List.range (shots + n - 1)).map fun k => ((ammos[k % ammos.length]?).map (·.reqs.length)).getD 0
  let sorted := lens.foldr insertNat []
  let total := lens.foldl (· + ·) 0
  let smallest := (sorted.take (n - 1)).foldl (· + ·) 0
  let largest := ((sorted.reverse).take (n - 1)).foldl (· + ·) 0
  (total - largest, total - smallest)

def judgeEngineScen (c : Cfg) (n shots : Nat) (impl : String) : String :=
  match crashKey impl with
  | some k => "fail:" ++ k
  | none =>
    let run := kvGet impl "run"
    if run != "-" then s!"fail:run-error:{run}" else
    let calls := splitNE (kvGet impl "calls") "+"
    let samples := splitNE (kvGet impl "samples") "+"
    let allowed := allowedCalls c
    match calls.find? (fun x => !(allowed.contains x)) with
    | some bad =>
      if (allowed.map (proj 3)).contains (proj 3 bad) then s!"fail:timeout:received {bad}: deadline differs from the configured timeout"
      else if (allowed.map (proj 2)).contains (proj 2 bad) then s!"fail:metadata:received {bad}, which no shot's variables render"
      else s!"fail:message:received {bad}"
    | none =>
      let (lo, hi) := callCountRange c (if n == 0 then 1 else n) shots
      if calls.length < lo || calls.length > hi then s!"fail:count:expected {lo}..{hi} calls, server received {calls.length}"
      else if samples.length != calls.length then s!"fail:sample:{calls.length} calls but {samples.length} samples"
      else match samples.find? (fun s => !(s.endsWith "/200")) with
        | some s => s!"fail:sample:unexpected failed sample {s}"
        | none => "ok"

end Pandora.Spec.C20
