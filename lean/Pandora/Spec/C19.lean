/-
C19 — the property as executable predicates over OBSERVABLE behaviour (core Lean only):
what `Engine.Run` returned and how many samples the aggregator received after a run against a misbehaving target.
-/
namespace Pandora.Spec.C19

/-- Verdict on one engine run.
* `res`: class of `Engine.Run`'s result (`ok`, `panic:<why>`, `err:<why>`, `hang`)
* `documentedFatal`: the configuration is the documented fatal one (http2 gun, target without HTTP/2)
* `shots`: ammo the schedule lets the instances take; `minSamples`/`maxSamples`: how many samples these shots must
  produce (one per request / per executed step) -/
def judgeRun (documentedFatal : Bool) (shots minSamples maxSamples : Nat) (res : String) (samples : Nat) : String :=
  if res.startsWith "panic" then
    if documentedFatal && res == "panic:not-http2" then "ok"
    else s!"fail:panic:a response aborted the run ({res}) after {samples} samples of {shots} shots"
  else if res == "hang" then "fail:hang:the run did not finish"
  else if res != "ok" then s!"fail:abort:{res}"
  else if samples < minSamples then s!"fail:count:{samples} samples, at least {minSamples} expected for {shots} shots"
  else if samples > maxSamples then s!"fail:count:{samples} samples, at most {maxSamples} expected for {shots} shots"
  else "ok"

/-- "the affected request is reported as a sample carrying the received status or the failure": what the sample of
a plain http request must carry, given the GROUND TRUTH of what the scripted target did with that request
(`f` no response, `rb<st>` head then a broken body, `rbx<st>` the same by reset — the head may be lost too —,
`r<st>` a complete response, `u` not known; a leading `o`: … or no response at all, when the CONNECTION fails). `netNz`: the sample's net code is non-zero (a failure). -/
def carryOkExact (truth : String) (proto : Nat) (netNz : Bool) : Bool :=
  let num (pfx : String) : Option Nat :=
    if pfx.toList.isPrefixOf truth.toList then (String.ofList (truth.toList.drop pfx.length)).toNat? else none
  if truth == "u" then true
  else if truth == "f" then proto == 0 && netNz
  else match num "rbx", num "rb", num "r" with
    | some st, _, _ => netNz && (proto == st || proto == 0)
    | none, some st, _ => netNz && proto == st
    | none, none, some st => !netNz && proto == st
    | none, none, none => true

/-- … a leading `o` (TLS targets scripted per connection): the request is answered as the rest of the token says, or
not at all because the CONNECTION it would travel on fails -/
def carryOk (truth : String) (proto : Nat) (netNz : Bool) : Bool :=
  if truth.startsWith "o" then (proto == 0 && netNz) || carryOkExact (String.ofList (truth.toList.drop 1)) proto netNz
  else carryOkExact truth proto netNz

/-- Verdict on the samples of a run of a plain http gun: `truths` maps a sample tag (hex) to the ground truth of its
request, `agg` is the observed aggregate `taghex:proto:0|nz*count,…`. -/
def judgeCarry (truths : List (String × String)) (agg : String) : String :=
  let bad := (agg.splitOn ",").filterMap fun e =>
    match (e.splitOn "*").headD "" |>.splitOn ":" with
    | [tag, proto, net] =>
      match truths.find? (·.1 == tag), proto.toNat? with
      | some (_, truth), some p => if carryOk truth p (net != "0") then none else some s!"{tag} truth={truth} proto={proto} net={net}"
      | none, _ => if tag == "" then none else some s!"{tag}: a sample for a request that was never sent"
      | _, none => some s!"{e}: unreadable"
    | _ => if e == "" then none else some s!"{e}: unreadable"
  match bad with
  | [] => "ok"
  | b :: _ => s!"fail:carry:the sample does not carry the received status / the failure: {b}"

/-- Verdict on a run whose schedule works against the clock with `discard_overflow` on (round 4): every one of the
`tokens` schedule tokens yields the samples of its shot (1 … `steps`) or — when the instance found it overdue, which a
slow target causes — exactly ONE sample tagged `discarded` carrying no status and a failure code; the instance goes on
with the next ammo either way. `discarded`: how many such samples arrived, `discardedOk`: all of them carry proto 0
and a non-zero net code. -/
def judgeLoop (tokens steps : Nat) (res : String) (samples discarded : Nat) (discardedOk : Bool) : String :=
  if discarded > tokens then s!"fail:count:{discarded} discarded samples for {tokens} schedule tokens"
  else if !discardedOk then "fail:carry:a discarded token must be reported with proto 0 and a failure code"
  else judgeRun false tokens tokens (discarded + (tokens - discarded) * steps) res samples

/-- Round 6 — "the instance goes on with the next ammo" against the CLOCK, with `discard_overflow` on: a schedule token
may be dropped (reported as `discarded`, not shot) only when the instance asks for it `maxOverdueMs` or more after its
time — which a slow answer to the PREVIOUS request causes. A token the instance asks for in time must be shot, whatever
happened to the tokens before it. `toks`: per token of a direct run of the waiter (harness `k=wait`) its due time relative
to the moment the instance asks for it (ms, negative = late), whether the run context is alive, and the waiter's verdict
`IsSlowDown`. The offsets of the driver keep 100 ms and more away from the threshold. -/
def judgeWaitVerdicts (maxOverdueMs : Int) (toks : List (Int × Bool × Bool)) : String :=
  let rec go (k : Nat) : List (Int × Bool × Bool) → String
    | [] => "ok"
    | (off, live, slow) :: rest =>
      if live && slow && 0 - off < maxOverdueMs - 100 then
        s!"fail:discard:token {k} is found overdue (it would be dropped, not shot) although the instance asks for it {if off > 0 then s!"{off} ms BEFORE" else s!"only {0 - off} ms after"} its time"
      else go (k + 1) rest
  go 0 toks

/-- … the same on an engine run with one instance and a plain gun (one sample per token, in token order): `dues` are the
instants of the schedule's tokens (ms after the start of the schedule), `seq` what the aggregator received in order:
discarded or not, and when (ms after an instant BEFORE the schedule started — so `at - due` is an upper bound of the real
lateness of the token at that moment, hence of the lateness when the waiter judged it). -/
def judgeDiscardsLate (maxOverdueMs : Int) (dues : List Int) (seq : List (Bool × Int)) : String :=
  let rec go (k : Nat) : List Int → List (Bool × Int) → String
    | due :: ds, (discarded, tAt) :: rest =>
      if discarded && tAt - due < maxOverdueMs - 100 then
        s!"fail:discard:token {k} (due {due} ms after the start) was reported as discarded {tAt} ms after the start: at most {tAt - due} ms late, the instance has to shoot it"
      else go (k + 1) ds rest
    | _, _ => "ok"
  go 0 dues seq

/-- Verdict on a direct call of a response-processing function: it must return (value or error), never panic. -/
def judgeCall (obs : String) : String :=
  if obs.startsWith "PANIC" || obs.startsWith "panic" then s!"fail:panic:{obs.take 120}" else "ok"

end Pandora.Spec.C19
