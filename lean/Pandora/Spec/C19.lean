/-
C19 — the property as executable predicates over OBSERVABLE behaviour (core Lean only):
what `Engine.Run` returned and how many samples the aggregator received after a run against a misbehaving target.
-/
namespace Pandora.Spec.C19

/-- Verdict on one engine run.
* `res`: class of `Engine.Run`'s result (`ok`, `panic:<why>`, `err:<why>`, `hang`)
* `documentedFatal`: the configuration is the documented fatal one (http2 gun, target without HTTP/2)
* `shots`: ammo the schedule lets the instances take; `minSamples`/`maxSamples`: how many samples these shots must
  produce (one per request / per executed step) -/
def judgeRun (documentedFatal : Bool) (shots minSamples maxSamples : Nat) (res : String) (samples : Nat) : String :=
  if res.startsWith "panic" then
    if documentedFatal && res == "panic:not-http2" then "ok"
    else s!"fail:panic:a response aborted the run ({res}) after {samples} samples of {shots} shots"
  else if res == "hang" then "fail:hang:the run did not finish"
  else if res != "ok" then s!"fail:abort:{res}"
  else if samples < minSamples then s!"fail:count:{samples} samples, at least {minSamples} expected for {shots} shots"
  else if samples > maxSamples then s!"fail:count:{samples} samples, at most {maxSamples} expected for {shots} shots"
  else "ok"

/-- Verdict on a direct call of a response-processing function: it must return (value or error), never panic. -/
def judgeCall (obs : String) : String :=
  if obs.startsWith "PANIC" || obs.startsWith "panic" then s!"fail:panic:{obs.take 120}" else "ok"

end Pandora.Spec.C19
