/-
C12 — the property as an executable predicate over what was OBSERVED of the real engine (harness/cmd/c12): the tokens the
startup schedule handed out, the `Bind` calls of the instance guns (`GunDeps.InstanceID`, instant), the instants at which
instances were closed, and the instants at which a cause that may cut instance start short was first seen.  All instants
are ns since the call of `Engine.Run`, on one monotonic clock.
-/
import Pandora.Model.C12

namespace Pandora.Spec.C12
open Pandora.Model.C12

/-- one part of a startup profile -/
inductive Part
  | once (n : Int)
  | const (ops ms : Int)
  | step (frm to step ms : Int)
deriving Repr, DecidableEq

/-- token offsets (ns) of a composite of parts started at offset `s`; `none` when a part is not computed by the model:
`const` with ops > 0 is computed only where every float64 operation of `NewConst` is exact (ops divides 10⁹ and the
duration is whole seconds: n = ops·seconds tokens, token i at i·(10⁹/ops)); the float arithmetic in general belongs to C01 -/
def partsToks : List Part → Int → Option (List Int)
  | [], _ => some []
  | .once n :: ps, s => (partsToks ps s).map (List.replicate n.toNat s ++ ·)
  | .const ops ms :: ps, s =>
      if ops ≤ 0 then partsToks ps (s + ms * 1000000)
      else if 1000000000 % ops == 0 && ms % 1000 == 0 then
        (partsToks ps (s + ms * 1000000)).map
          (((List.range (ops * (ms / 1000)).toNat).map fun (i : Nat) => s + (i : Int) * (1000000000 / ops)) ++ ·)
      else none
  | .step f t st ms :: ps, s =>
      (partsToks ps (s + instanceStepDur f t st (ms * 1000000))).map
        ((instanceStepToks f t st (ms * 1000000)).map (· + s) ++ ·)

structure Obs where
  k : Nat
  err : String
  mstart : Nat
  fails : Nat
  total : Nat
  /-- the `started` result of `startInstances` as logged by the pool (none: not seen) -/
  started : Option Nat := none
  starterr : String := "?"
  /-- bound guns never closed -/
  running : Nat := 0
  /-- instants at which the startup tokens were handed out -/
  picks : List Int := []
  /-- instants of the gun creations after the warm-up gun -/
  guns : List Int := []
  /-- largest oversleep of the harness heartbeat, ns -/
  jitter : Int := 0
  /-- tokens handed out by the real startup schedule, ns since Run was called -/
  toks : List Int
  /-- token offsets of a drained copy of the startup schedule -/
  ctoks : List Int
  binds : List (Nat × Int)
  /-- (instance id, instant of gun Close, reason: sched | ammo | ctx | err | ?) by instant -/
  exits : List (Nat × Int × String)
  /-- first instants at which ammo ran out / an RPS schedule finished / cancel was called / gun creation failed -/
  cuts : List (String × Int)
deriving Repr

/-- margin around a cut inside which "was this token still started?" is not decided -/
def margin : Int := 300000000

/-- earliest of the given causes -/
def minOf (cs : List (String × Int)) : Option (String × Int) :=
  cs.foldl (fun acc c => match acc with | none => some c | some a => if c.2 < a.2 then some c else some a) none

/-- causes that cut instance START short: out of ammo, end of the SHARED RPS profile, run cancel, creation failure
(the end of a per-instance RPS profile stops that instance only) -/
def startCuts (perinst : Bool) (o : Obs) : List (String × Int) :=
  o.cuts.filter fun c => !(perinst && c.1 == "rps")

/-- absolute time of token j: as handed out, else estimated from the schedule start -/
def tokTime (o : Obs) (j : Nat) : Option Int :=
  match o.toks[j]? with
  | some t => some t
  | none => match o.toks.head?, o.ctoks.head?, o.ctoks[j]? with
    | some t0, some c0, some cj => some (t0 - c0 + cj)
    | _, _, _ => none

/-- number of tokens of the profile whose time satisfies `p` -/
def countToks (o : Obs) (p : Int → Bool) : Nat :=
  ((List.range o.total).filter fun j => match tokTime o j with | some t => p t | none => false).length

/-- the largest heartbeat oversleep up to which the margin-based count checks are trusted -/
def jitterMax : Int := 100000000

/-- tokens released at least `margin` before the first cause, the start loop being free by then (the creation of the
first instance is synchronous and may take long): their instances must have been started -/
def lower (perinst : Bool) (o : Obs) : Nat :=
  match minOf (startCuts perinst o) with
  | none => o.total
  | some c =>
    match o.binds.find? (·.1 == 0) with
    | none => 0
    | some b0 => if b0.2 ≤ c.2 - margin then countToks o (fun t => t ≤ c.2 - margin) else min 1 (countToks o (fun t => t ≤ c.2 - margin))

/-- tokens released earlier than `margin` after the first cause: nothing beyond them is started -/
def upper (perinst : Bool) (o : Obs) : Nat :=
  match minOf (startCuts perinst o) with
  | none => o.total
  | some c => countToks o (fun t => t < c.2 + margin)

/-- the model's bounds on the number of successfully created (bound) instances.  An instance needs a drawn token; a failed
creation draws a token without binding; when the failure is itself the first cause its token is one of those released
within the margin of the cause; ammo or a shared RPS profile can only end after an instance ran. -/
def kBounds (perinst : Bool) (o : Obs) : Nat × Nat :=
  let lo := lower perinst o
  let hi := min (upper perinst o) o.toks.length
  -- …and no creation is attempted later than `margin` after the first cause
  let hi := match minOf (startCuts perinst o) with
    | some c => min hi (o.guns.filter (· < c.2 + margin)).length
    | none => hi
  match minOf (startCuts perinst o) with
  | some ("fail", _) => (lo, hi - o.fails)
  | some (kind, _) =>
      let lo := lo - o.fails
      (if kind == "ammo" || kind == "rps" then max lo (min 1 (hi - o.fails)) else lo, hi - o.fails)
  | none => (lo - o.fails, hi - o.fails)

/-- first instant of a cause of the given kind -/
def cutAt (o : Obs) (kind : String) : Option Int := (o.cuts.find? (·.1 == kind)).map (·.2)

/-- has the cause an exit claims occurred by the time of the exit?  `sched`: an RPS schedule has reported its end;
`ammo`: the provider has refused ammo; `ctx`: the run was cancelled or the pool failed (a gun could not be created);
`err` (a gun panicked) does not occur with the harness gun; `?`: reason not logged, nothing to check -/
def exitExplained (o : Obs) (x : Nat × Int × String) : Bool :=
  let by_ (kind : String) : Bool := match cutAt o kind with | some t => t ≤ x.2.1 | none => false
  match x.2.2 with
  | "sched" => by_ "rps"
  | "ammo" => by_ "ammo"
  | "ctx" => by_ "cancel" || by_ "fail"
  | "?" => true
  | _ => false

def distinct : List Nat → Bool
  | [] => true
  | x :: xs => !xs.contains x && distinct xs

/-- verdict: "ok" | "skip:<why>" | "fail:<key>:<detail>" -/
def judge (parts : List Part) (perinst : Bool) (o : Obs) : String :=
  let ids := o.binds.map (·.1)
  let m := ids.foldl (fun a b => max a (b + 1)) 0
  match partsToks parts 0 with
  | some mt =>
      if mt != o.ctoks then s!"fail:step-shape:model tokens {mt} real schedule {o.ctoks}" else
      judgeRest perinst o ids m
  | none => judgeRest perinst o ids m
where
  judgeRest (perinst : Bool) (o : Obs) (ids : List Nat) (m : Nat) : String :=
    if o.ctoks.length != o.total then "fail:driver:total" else
    if !distinct ids then s!"fail:ids:duplicate instance id in {ids}" else
    if m > o.total then s!"fail:ids:instance id {m - 1} with only {o.total} startup tokens" else
    if m - ids.length > o.fails then s!"fail:ids:ids {ids} are not consecutive from 0" else
    match o.binds.find? (fun b => match o.ctoks[b.1]? with | some t => b.2 < t | none => true) with
    | some b => s!"fail:ahead:instance {b.1} created at {b.2} ns, its token is released at {o.ctoks[b.1]?.getD 0} ns after the start"
    | none =>
    match o.binds.find? (fun b => match o.toks[b.1]? with | some t => b.2 < t | none => true) with
    | some b => s!"fail:ahead:instance {b.1} created at {b.2} ns, before its token {o.toks[b.1]?.getD 0} was released (or without one)"
    | none =>
    if o.k != ids.length then "fail:driver:k" else
    if (startCuts perinst o).isEmpty && o.err == "nil" && o.k != o.total then s!"fail:count:{o.k} instances for {o.total} tokens and nothing cut the start short" else
    if o.jitter ≤ jitterMax && o.k + o.fails < lower perinst o then s!"fail:missing:{o.k} instances, {lower perinst o} tokens were released {margin / 1000000} ms or more before the first cause {o.cuts}" else
    match minOf o.cuts, o.exits.head? with
    | none, some x => s!"fail:reduced:instance {x.1} finished at {x.2.1} ns although ammo, RPS profile and run were all still alive"
    | some c, _ =>
      match o.exits.find? (·.2.1 < c.2) with
      | some x => s!"fail:reduced:instance {x.1} finished at {x.2.1} ns, before the first possible cause ({c.1} at {c.2} ns)"
      | none =>
        -- every exit needs ITS cause: the profile / the ammo exhausted, or the RUN cancelled (by the caller or by the failing pool)
        match o.exits.find? (fun x => !(exitExplained o x)) with
        | some x => s!"fail:reduced:instance {x.1} finished at {x.2.1} ns for reason {x.2.2} without that cause having occurred ({o.cuts})"
        | none => "ok"
    | none, none => "ok"

end Pandora.Spec.C12
