/-
C12 — the property as an executable predicate over what was OBSERVED of the real engine (harness/cmd/c12): the tokens the
startup schedule handed out, the `Bind` calls of the instance guns (`GunDeps.InstanceID`, instant), the instants at which
instances were closed, and the instants at which a cause that may cut instance start short was first seen.  All instants
are ns since the call of `Engine.Run`, on one monotonic clock.
-/
import Pandora.Model.C12

namespace Pandora.Spec.C12
open Pandora.Model.C12

/-- one part of a startup profile; `comp` is a NESTED composite (`schedule.NewComposite` applied to schedules that are
themselves composites); `constm` is `const` with a fractional rate given in thousandths of an operation per second -/
inductive Part
  | once (n : Int)
  | const (ops ms : Int)
  | constm (milliops ms : Int)
  | step (frm to step ms : Int)
  | comp (ps : List Part)

mutual
/-- token offsets (ns) and finish time of one part started at offset `s`; `none` when the part is not computed by the
model: `const` with ops > 0 is computed only where every float64 operation of `NewConst` is exact (ops divides 10⁹ and
the duration is whole seconds: n = ops·seconds tokens, token i at i·(10⁹/ops)), a fractional rate `constm` only where
rate and duration in seconds are eighths and 10⁹/rate is whole; the float arithmetic in general belongs to C01 -/
def partToks : Part → Int → Option (List Int × Int)
  | .once n, s => some (List.replicate n.toNat s, s)
  | .const ops ms, s =>
      if ops ≤ 0 then some ([], s + ms * 1000000)
      else if 1000000000 % ops == 0 && ms % 1000 == 0 then
        some ((List.range (ops * (ms / 1000)).toNat).map (fun (i : Nat) => s + (i : Int) * (1000000000 / ops)),
              s + ms * 1000000)
      else none
  | .constm m ms, s =>
      -- a fractional rate m/1000: computed where every float64 operation of `NewConst` is exact — rate and seconds are
      -- eighths (m and ms multiples of 125) and 10⁹/rate is a whole number: n = ⌊m·ms/10⁶⌋ tokens, token i at ⌊i·10¹²/m⌋
      if m ≤ 0 then none
      else if m % 125 == 0 && ms % 125 == 0 && 0 ≤ ms && 8000000000 % (m / 125) == 0 then
        some ((List.range ((m * ms) / 1000000).toNat).map (fun (i : Nat) => s + ((i : Int) * 1000000000000) / m),
              s + ms * 1000000)
      else none
  | .step f t st ms, s =>
      some ((instanceStepToks f t st (ms * 1000000)).map (· + s), s + instanceStepDur f t st (ms * 1000000))
  | .comp ps, s => partsToksF ps s
/-- a composite: every part starts at the finish time of the previous one -/
def partsToksF : List Part → Int → Option (List Int × Int)
  | [], s => some ([], s)
  | p :: ps, s =>
      match partToks p s with
      | none => none
      | some r =>
        match partsToksF ps r.2 with
        | none => none
        | some r' => some (r.1 ++ r'.1, r'.2)
end

/-- token offsets (ns) of a composite of parts started at offset `s` (`none`: not computed, see `partToks`) -/
def partsToks (ps : List Part) (s : Int) : Option (List Int) := (partsToksF ps s).map (·.1)

/-- one top-level segment of an RPS profile with its brackets removed (nesting changes neither the token times nor the
finish times: `C12_nested_composite_flat`): a part of the kinds above, or `schedule.NewUnlimited` lasting `ms` -/
inductive RSeg
  | leaf (p : Part)
  | unlim (ms : Int)

/-- how long a part lasts (finish time − start time), ns -/
def partDur : Part → Int
  | .once _ => 0
  | .const _ ms => ms * 1000000
  | .constm _ ms => ms * 1000000
  | .step f t st ms => instanceStepDur f t st (ms * 1000000)
  | .comp _ => 0   -- never produced for RPS profiles (brackets are removed)

/-- tokens a part certainly holds (exact where `partToks` computes it, else the trivial bound 0) -/
def partFloor (p : Part) : Nat := match partToks p 0 with | some r => r.1.length | none => 0

/-- a lower bound (ns) for the time between the start of an RPS profile and its first "finished" answer that needs no
knowledge of how many instances draw from it: the durations of all segments up to and including the LAST unlimited one (an
unlimited part hands out tokens until its time is over, and a composite starts a part at the finish time of the previous
one; tokens of the other kinds are handed out ahead of their time); 0 without an unlimited segment -/
def rpsMinNs (segs : List RSeg) : Int :=
  (segs.foldl (fun (acc : Int × Int) sg => match sg with
    | .leaf p => (acc.1 + partDur p, acc.2)
    | .unlim ms => (acc.1 + ms * 1000000, acc.1 + ms * 1000000)) (0, 0)).2

/-- tokens an RPS profile certainly hands out before it may report its end: those of its countable segments -/
def rpsFloor (segs : List RSeg) : Nat :=
  segs.foldl (fun acc sg => match sg with | .leaf p => acc + partFloor p | .unlim _ => acc) 0

structure Obs where
  k : Nat
  err : String
  mstart : Nat
  fails : Nat
  total : Nat
  /-- the `started` result of `startInstances` as logged by the pool (none: not seen) -/
  started : Option Nat := none
  starterr : String := "?"
  /-- bound guns never closed -/
  running : Nat := 0
  /-- instants at which the startup tokens were handed out -/
  picks : List Int := []
  /-- instants of the gun creations after the warm-up gun -/
  guns : List Int := []
  /-- largest oversleep of the harness heartbeat, ns -/
  jitter : Int := 0
  /-- tokens handed out by the real startup schedule, ns since Run was called -/
  toks : List Int
  /-- token offsets of a drained copy of the startup schedule -/
  ctoks : List Int
  binds : List (Nat × Int)
  /-- (instance id, instant of gun Close, reason: sched | ammo | ctx | err | ?) by instant -/
  exits : List (Nat × Int × String)
  /-- first instants at which ammo ran out / an RPS schedule finished / cancel was called / gun creation failed -/
  cuts : List (String × Int)
  /-- instant at which the last `Shoot` of an instance of the pool began (-1: none) -/
  lastshot : Int := -1
  /-- first instant at which a gun, shooting or being closed, saw the context of its `GunDeps` done (-1: never) -/
  gunctx : Int := -1
  /-- (instance id, number of `Shoot` calls of its gun) -/
  shots : List (Nat × Nat) := []
  /-- tokens of the RPS profile (of each instance with per-instance profiles, of the shared one otherwise); -1: not countable -/
  rpstot : Int := -1
  /-- ammo the provider hands out; 0: unlimited -/
  ammo : Nat := 0
  /-- a lower bound (ns) for the time from the first `Next` call on an RPS profile to its first "finished" answer (the
  durations of its parts up to the last UNLIMITED one; 0 without such a part) -/
  rpsmin : Int := 0
  /-- (instant of the first `Next` call, instant of the first "finished" answer) of every RPS schedule object that ended -/
  rpsspans : List (Int × Int) := []
  /-- `Metrics.InstanceFinish` at the end (none: not observed) -/
  mfin : Option Nat := none
  /-- tokens handed out by every RPS schedule object that ended, in the order of `rpsspans` -/
  rpsgiven : List Int := []
  /-- round 4: `Left()` of a fresh, never started copy of the RPS profile / of the startup profile (none: not observed) -/
  rpsl0 : Option Int := none
  sul0 : Option Int := none
  /-- the RPS profile has a part of unknown length (an `unlimited` part), from the input text -/
  rpsunk : Bool := false
  /-- round 4: tokens handed out by the LEAVES of the pool's RPS schedule objects (−1: not counted) and tokens those objects
  handed to their callers -/
  rpsleaf : Int := -1
  rpsout : Int := 0
  /-- tokens of the countable parts of the RPS profile (`rpsFloor`, computed from the profile text) -/
  rpsfloor : Nat := 0
  /-- round 6: for every RPS schedule object that ended (order of `rpsspans`): tokens handed out by completed `Next` calls plus
  `Next` calls still inside the schedule at its FIRST "finished" answer — an upper bound of what it had handed out by then -/
  rpsatfin : List Int := []
  /-- round 6: `discard_overflow` of the pool (input) and, for every discarded shot (`Aggregator.Report` of the discard sample by the
  instance goroutine), the instant of the report minus the time of the token that goroutine had drawn last: an upper bound of
  the lateness `Waiter.Wait` recorded for it (−1: a report without a token) -/
  discardOn : Bool := false
  discards : List Int := []
deriving Repr

/-- margin around a cut inside which "was this token still started?" is not decided -/
def margin : Int := 300000000

/-- earliest of the given causes -/
def minOf (cs : List (String × Int)) : Option (String × Int) :=
  cs.foldl (fun acc c => match acc with | none => some c | some a => if c.2 < a.2 then some c else some a) none

/-- causes that cut instance START short: out of ammo, end of the SHARED RPS profile, run cancel, creation failure, the
pool failing for another reason (provider / aggregator error: `fail`; a gun panicked: `panic`) which cancels the run
(the end of a per-instance RPS profile stops that instance only) -/
def startCuts (perinst : Bool) (o : Obs) : List (String × Int) :=
  o.cuts.filter fun c => !(perinst && c.1 == "rps")

/-- absolute time of token j: as handed out, else estimated from the schedule start -/
def tokTime (o : Obs) (j : Nat) : Option Int :=
  match o.toks[j]? with
  | some t => some t
  | none => match o.toks.head?, o.ctoks.head?, o.ctoks[j]? with
    | some t0, some c0, some cj => some (t0 - c0 + cj)
    | _, _, _ => none

/-- number of tokens of the profile whose time satisfies `p` -/
def countToks (o : Obs) (p : Int → Bool) : Nat :=
  ((List.range o.total).filter fun j => match tokTime o j with | some t => p t | none => false).length

/-- the largest heartbeat oversleep up to which the margin-based count checks are trusted -/
def jitterMax : Int := 100000000

/-- tokens released at least `margin` before the first cause, the start loop being free by then (the creation of the
first instance is synchronous and may take long): their instances must have been started -/
def lower (perinst : Bool) (o : Obs) : Nat :=
  match minOf (startCuts perinst o) with
  | none => o.total
  | some c =>
    match o.binds.find? (·.1 == 0) with
    | none => 0
    | some b0 => if b0.2 ≤ c.2 - margin then countToks o (fun t => t ≤ c.2 - margin) else min 1 (countToks o (fun t => t ≤ c.2 - margin))

/-- tokens released earlier than `margin` after the first cause: nothing beyond them is started -/
def upper (perinst : Bool) (o : Obs) : Nat :=
  match minOf (startCuts perinst o) with
  | none => o.total
  | some c => countToks o (fun t => t < c.2 + margin)

/-- the model's bounds on the number of successfully created (bound) instances.  An instance needs a drawn token; a failed
creation draws a token without binding; when the failure is itself the first cause its token is one of those released
within the margin of the cause; ammo or a shared RPS profile can only end after an instance ran. -/
def kBounds (perinst : Bool) (o : Obs) : Nat × Nat :=
  let lo := lower perinst o
  let hi := min (upper perinst o) o.toks.length
  -- …and no creation is attempted later than `margin` after the first cause
  let hi := match minOf (startCuts perinst o) with
    | some c => min hi (o.guns.filter (· < c.2 + margin)).length
    | none => hi
  match minOf (startCuts perinst o) with
  | some ("fail", _) => (lo, hi - o.fails)
  | some (kind, _) =>
      let lo := lo - o.fails
      (if kind == "ammo" || kind == "rps" then max lo (min 1 (hi - o.fails)) else lo, hi - o.fails)
  | none => (lo - o.fails, hi - o.fails)

/-- first instant of a cause of the given kind -/
def cutAt (o : Obs) (kind : String) : Option Int := (o.cuts.find? (·.1 == kind)).map (·.2)

/-- has the cause an exit claims occurred by the time of the exit?  `sched`: an RPS schedule has reported its end;
`ammo`: the provider has refused ammo; `ctx`: the run was cancelled or the pool failed (a gun could not be created);
`err`: a gun panicked (harness: `panicshot=`); `?`: reason not logged, nothing to check -/
def exitExplained (o : Obs) (x : Nat × Int × String) : Bool :=
  let by_ (kind : String) : Bool := match cutAt o kind with | some t => t ≤ x.2.1 | none => false
  match x.2.2 with
  | "sched" => by_ "rps"
  | "ammo" => by_ "ammo"
  | "ctx" => by_ "cancel" || by_ "fail" || by_ "panic"
  | "err" => by_ "panic"
  | "?" => true
  | _ => false

/-- how long after the run was cancelled a `Shoot` may still BEGIN (an instance checks its context at every loop head and
inside every `Wait`; one shot that was already due may follow) -/
def runawayMargin : Int := 1000000000

/-- the two clauses about the context an instance is given: (1) the context handed to the gun (`GunDeps.Ctx`) is not done
while the instance is shooting or being closed unless the run was cancelled or the pool failed — ammo running out or the
RPS profile ending cancels instance START only; (2) "keeps firing UNTIL the run is cancelled": no shot begins later than
`runawayMargin` after the cancellation (decided only when the harness was scheduled well) -/
def judgeCtx (o : Obs) : String :=
  let by_ (kind : String) (t : Int) : Bool := match cutAt o kind with | some c => c ≤ t | none => false
  if o.gunctx ≥ 0 && !(by_ "cancel" o.gunctx || by_ "fail" o.gunctx || by_ "panic" o.gunctx) then
    s!"fail:gunctx:the context given to a gun was done at {o.gunctx} ns while its instance was running, the run not being cancelled ({o.cuts})"
  else match cutAt o "cancel" with
    | some c =>
      if o.jitter ≤ jitterMax && o.lastshot > c + runawayMargin then
        s!"fail:runaway:a shot began at {o.lastshot} ns, the run was cancelled at {c} ns"
      else "ok"
    | none => "ok"

/-- number of shots of the instance bound with `id` -/
def shotsOf (o : Obs) (id : Nat) : Nat := match o.shots.find? (·.1 == id) with | some p => p.2 | none => 0

/-- "an instance, once started, keeps firing until its RPS profile or the ammo is exhausted or the run is cancelled", counted:
when the run was neither cancelled nor failed and every instance has finished with a logged reason, then
* per-instance profiles: an instance that finished as "RPS profile exhausted" has fired exactly the tokens of its profile, no
  instance more;
* shared profile: if some instance finished as "RPS profile exhausted", all instances together have fired exactly its tokens
  (every token handed out is shot: an instance draws a token only with ammo in hand), never more;
* limited ammo: never more shots than ammo; if instances finished as "out of ammo" and none as "RPS profile exhausted", every
  ammo handed out was shot.
These are exact counts, independent of timing (an overdue token is shot at once; nothing is discarded). -/
def judgeFired (perinst : Bool) (o : Obs) : String :=
  let stopped := (cutAt o "cancel").isSome || (cutAt o "fail").isSome || (cutAt o "panic").isSome
  -- an RPS profile with an unlimited part is not exhausted before that part's time is over (zero margin, one-sided)
  -- every token a part of the profile hands out reaches a caller of the profile (exact, whatever else happened): a token taken
  -- inside the profile — by a `Left()` that probes the next part, by a lost race at the end of a part — is a shot never fired
  if o.rpsleaf ≥ 0 && o.rpsleaf != o.rpsout then s!"fail:fired:the parts of the RPS profile handed out {o.rpsleaf} tokens, its callers (the instances) got {o.rpsout}: {o.rpsleaf - o.rpsout} tokens were consumed inside the profile" else
  match o.rpsspans.find? (fun sp => sp.2 - sp.1 < o.rpsmin) with
  | some sp => s!"fail:fired:an RPS profile reported its end {sp.2 - sp.1} ns after its first token was asked for, its parts up to the unlimited one last {o.rpsmin} ns"
  | none =>
  -- round 6: … and AT THE MOMENT it first says "finished" (which is what cancels instance start with a shared profile, and ends
  -- the instance with its own) every token has been handed out — exact, whatever the interleaving of its callers: a token handed
  -- out by then belongs to a completed `Next` call or to one that is still inside the schedule
  match o.rpsatfin.find? (fun g => g ≥ 0 && (if o.rpstot ≥ 0 then g < o.rpstot else g < o.rpsfloor)) with
  | some g => s!"fail:fired:an RPS profile reported its end when at most {g} of its {if o.rpstot ≥ 0 then s!"{o.rpstot}" else s!"at least {o.rpsfloor}"} tokens had been handed out (tokens were still to come: instance start was cut short / an instance ended although its RPS profile was not exhausted)"
  | none =>
  -- "RPS profile exhausted" is said only of a profile that has handed out every token (exact, whatever else happened: a
  -- schedule says "finished" — `Left() == 0` or `Next()` without token — only after its last token was taken)
  match o.rpsgiven.find? (fun g => if o.rpstot ≥ 0 then g != o.rpstot else g < o.rpsfloor) with
  | some g => s!"fail:fired:an RPS profile reported its end after handing out {g} tokens, it has {if o.rpstot ≥ 0 then s!"{o.rpstot}" else s!"at least {o.rpsfloor} (its countable parts)"}"
  | none =>
  if stopped || o.err != "nil" || o.running != 0 || o.exits.length != o.k || o.exits.any (·.2.2 == "?") then "ok" else
  -- a discarded shot (discard_overflow; each one is justified separately by `judgeDiscard`) consumes its token and its ammo like a shot
  let ndisc := o.discards.length
  let total := (o.shots.map (·.2)).foldl (· + ·) 0 + ndisc
  let sched := o.exits.filter (·.2.2 == "sched")
  let ammoX := o.exits.filter (·.2.2 == "ammo")
  if o.ammo > 0 && total > o.ammo then s!"fail:fired:{total} shots with {o.ammo} ammo" else
  if o.ammo > 0 && sched.isEmpty && !ammoX.isEmpty && total != o.ammo then
    s!"fail:fired:every instance finished as out of ammo after {total} shots in all, the provider had {o.ammo} ammo" else
  if o.rpstot < 0 then
    -- a profile with an unlimited part: at least the tokens of its countable parts were fired by whoever finished as "exhausted"
    (if perinst then
      match sched.find? (fun x => shotsOf o x.1 < o.rpsfloor) with
      | some x => s!"fail:fired:instance {x.1} finished as 'RPS profile exhausted' after {shotsOf o x.1} shots, the countable parts of its profile alone have {o.rpsfloor} tokens"
      | none => "ok"
    else if !sched.isEmpty && o.ammo == 0 && total < o.rpsfloor then
      s!"fail:fired:instances finished as 'RPS profile exhausted' after {total} shots in all, the countable parts of the shared profile alone have {o.rpsfloor} tokens"
    else "ok") else
  let r := o.rpstot.toNat
  if perinst && ndisc > 0 then
    -- discards are not attributed to instances: all instances together, when every one of them fired its profile to the end
    (if sched.length == o.k && total != r * o.k then
      s!"fail:fired:every instance finished as 'RPS profile exhausted' after {total} shots and discarded shots in all, {o.k} profiles of {r} tokens each"
    else match o.shots.find? (·.2 > r) with
      | some p => s!"fail:fired:instance {p.1} fired {p.2} shots, its RPS profile has {r} tokens"
      | none => "ok") else
  if perinst then
    match sched.find? (fun x => shotsOf o x.1 != r) with
    | some x => s!"fail:fired:instance {x.1} finished as 'RPS profile exhausted' after {shotsOf o x.1} shots, its profile has {r} tokens (shots {o.shots})"
    | none => match o.shots.find? (·.2 > r) with
      | some p => s!"fail:fired:instance {p.1} fired {p.2} shots, its RPS profile has {r} tokens"
      | none => "ok"
  else if !sched.isEmpty && total != r then
    s!"fail:fired:instances finished as 'RPS profile exhausted' after {total} shots in all, the shared profile has {r} tokens (shots {o.shots})"
  else if total > r then s!"fail:fired:{total} shots, the shared RPS profile has {r} tokens"
  else "ok"

/-- round 6 — "an instance, once started, KEEPS FIRING …": a token is not fired (its shot is reported as discarded) only when the
pool runs with `discard_overflow` and the token was at least `MaxOverdueDuration` (2 s) overdue; in particular a token that the
instance waited for in time is fired whatever happened to the instance before (a hiccup of the target long ago).  Zero margin,
one-sided: the lateness observed at the report is not smaller than the one `Wait` recorded. -/
def judgeDiscard (o : Obs) : String :=
  if !o.discardOn && !o.discards.isEmpty then
    s!"fail:discarded:{o.discards.length} shots were reported as discarded instead of fired, discard_overflow is off"
  else match o.discards.find? (· < Pandora.Model.C04.maxOverdue) with
    | some l => s!"fail:discarded:an instance did not fire a token that was at most {l} ns late when it was reported as discarded (discard_overflow drops only tokens {Pandora.Model.C04.maxOverdue} ns or more overdue): the instance has stopped firing although its RPS profile, the ammo and the run are alive"
    | none => "ok"

def distinct : List Nat → Bool
  | [] => true
  | x :: xs => !xs.contains x && distinct xs

/-- verdict: "ok" | "skip:<why>" | "fail:<key>:<detail>" -/
def judge (parts : List Part) (perinst : Bool) (o : Obs) : String :=
  let ids := o.binds.map (·.1)
  let m := ids.foldl (fun a b => max a (b + 1)) 0
  match partsToks parts 0 with
  | some mt =>
      if mt != o.ctoks then s!"fail:step-shape:model tokens {mt} real schedule {o.ctoks}" else
      judgeRest perinst o ids m
  | none => judgeRest perinst o ids m
where
  judgeRest (perinst : Bool) (o : Obs) (ids : List Nat) (m : Nat) : String :=
    if o.ctoks.length != o.total then "fail:driver:total" else
    if !distinct ids then s!"fail:ids:duplicate instance id in {ids}" else
    if m > o.total then s!"fail:ids:instance id {m - 1} with only {o.total} startup tokens" else
    if m - ids.length > o.fails then s!"fail:ids:ids {ids} are not consecutive from 0" else
    match o.binds.find? (fun b => match o.ctoks[b.1]? with | some t => b.2 < t | none => true) with
    | some b => s!"fail:ahead:instance {b.1} created at {b.2} ns, its token is released at {o.ctoks[b.1]?.getD 0} ns after the start"
    | none =>
    match o.binds.find? (fun b => match o.toks[b.1]? with | some t => b.2 < t | none => true) with
    | some b => s!"fail:ahead:instance {b.1} created at {b.2} ns, before its token {o.toks[b.1]?.getD 0} was released (or without one)"
    | none =>
    if o.k != ids.length then "fail:driver:k" else
    if o.mstart != o.k then s!"fail:metric:Metrics.InstanceStart counts {o.mstart} started instances, {o.k} guns were bound with an instance id" else
    -- observers compute "running instances" as InstanceStart − InstanceFinish: at the end every instance that ran has finished once
    if o.mfin.isSome && o.mfin != some o.exits.length then s!"fail:metric:Metrics.InstanceFinish counts {o.mfin.getD 0} finished instances, {o.exits.length} instances ran and were closed" else
    if (startCuts perinst o).isEmpty && o.err == "nil" && o.k != o.total then s!"fail:count:{o.k} instances for {o.total} tokens and nothing cut the start short" else
    if o.jitter ≤ jitterMax && o.k + o.fails < lower perinst o then s!"fail:missing:{o.k} instances, {lower perinst o} tokens were released {margin / 1000000} ms or more before the first cause {o.cuts}" else
    -- what a profile answers to `Left()` before anything was drawn: its number of tokens — "unknown" (negative) exactly when a
    -- part has unknown length; in particular never 0 ("exhausted") for a profile that has tokens or an unlimited part
    if o.rpsunk && (o.rpsl0.getD (-1)) ≥ 0 then s!"fail:left:an RPS profile with a part of unknown length (unlimited) answers Left() = {o.rpsl0.getD 0} before its first token was asked for — 'exactly that many tokens to come'" else
    if !o.rpsunk && o.rpstot ≥ 0 && o.rpsl0.isSome && o.rpsl0 != some o.rpstot then s!"fail:left:an RPS profile of {o.rpstot} tokens answers Left() = {o.rpsl0.getD 0} before its first token was asked for" else
    if o.sul0.isSome && o.sul0 != some (o.total : Int) then s!"fail:left:a startup profile of {o.total} tokens answers Left() = {o.sul0.getD 0} before its first token was asked for" else
    match judgeExits o with
    | "ok" => (match judgeCtx o with
      | "ok" => (match judgeDiscard o with
        | "ok" => judgeFired perinst o
        | v => v)
      | v => v)
    | v => v
  /-- every exit needs ITS cause, and none comes before the first possible cause -/
  judgeExits (o : Obs) : String :=
    match minOf o.cuts, o.exits.head? with
    | none, some x => s!"fail:reduced:instance {x.1} finished at {x.2.1} ns although ammo, RPS profile and run were all still alive"
    | some c, _ =>
      match o.exits.find? (·.2.1 < c.2) with
      | some x => s!"fail:reduced:instance {x.1} finished at {x.2.1} ns, before the first possible cause ({c.1} at {c.2} ns)"
      | none =>
        -- every exit needs ITS cause: the profile / the ammo exhausted, or the RUN cancelled (by the caller or by the failing pool)
        match o.exits.find? (fun x => !(exitExplained o x)) with
        | some x => s!"fail:reduced:instance {x.1} finished at {x.2.1} ns for reason {x.2.2} without that cause having occurred ({o.cuts})"
        | none => "ok"
    | none, none => "ok"

end Pandora.Spec.C12
