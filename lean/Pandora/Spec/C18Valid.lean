/-
C18 — validation of the decoded configuration ("constructor or CONFIG errors reach the caller").

Through the config hooks the fillConf of a creation is `config.DecodeAndValidate`: it decodes the user's settings over
the configuration `defaultConfigContainer.new` made (the registered defaults, or the zero value) and then VALIDATES the
result against the rules of the config type (`validate:"required"`, `min-time`, custom validations …).  A configuration
that fails validation is a config error like any other: the operation that needed the configuration ends with the error
result (a panic carrying it for a `func() Plugin` factory) and NO component is ever built from it — whatever the user's
settings are, in particular when they are empty (a plugin config that consists of the `type` key only): the default /
zero configuration of many plugins is invalid on purpose (`gun: {type: http}` without a target).

A rule is modelled as a lower bound on one field (the instrumented config type of harness/cmd/c18 registers exactly
this with `config.RegisterCustom`; the bound is a parameter of the case).  `validating r inp` is the world in which the
fillConf is the validating decoder: it is always given (the hooks always pass one) and fails exactly when the configuration
it produced breaks the rule.  The executable predicates are evaluated on the REAL observation (Drv/C18) and proved of
the model (Props/C18 `C18_validate`).
-/
import Pandora.Spec.C18

namespace Pandora.Spec.C18
open Pandora.Model.C18

/-- a validation rule of the config type: field `field` must be at least `min` -/
structure Rule where
  field : Nat
  min : Int
deriving DecidableEq, Repr

def Rule.ok (r : Rule) (c : Cfg) : Bool := decide (r.min ≤ c.get r.field)

/-- the world of the hook path: a fillConf is always given -/
def withFill (inp : Input) : Input := { inp with w := { inp.w with hasFill := true } }

/-- is the configuration every product has to be built from — the defaults overlaid by the user's settings — valid?
(a constructor without config has nothing to validate: the empty struct passes) -/
def ruleHolds (r : Rule) (inp : Input) : Bool :=
  inp.sh.cfg == .none || r.ok (expected inp.sh (withFill inp).w)

/-- the validating decoder as fillConf: always given, fails exactly when the configuration it produced is invalid
(constructor and factory fault plans as they are) -/
def validating (r : Rule) (inp : Input) : Input :=
  { inp with w := { inp.w with hasFill := true, fillFault := fun _ => !ruleHolds r inp } }

/-- no component is built from a configuration that fails validation -/
def validProductsOk (r : Rule) (inp : Input) (obs : Obs) : Bool :=
  inp.sh.cfg == .none || (products obs.steps).all fun p => r.ok p.seen

/-- a valid configuration is not refused: no operation ends with fillConf's error -/
def validAcceptedOk (r : Rule) (inp : Input) (obs : Obs) : Bool :=
  !ruleHolds r inp || obs.steps.all fun s => !resFill s

/-- an invalid configuration is refused everywhere: every operation either is the (config-free) creation of a factory
from a component constructor or ends with fillConf's error; nothing is built -/
def invalidRefusedOk (r : Rule) (inp : Input) (obs : Obs) : Bool :=
  ruleHolds r inp || (obs.steps.all (fun s => isMade s || resFill s) && (products obs.steps).isEmpty)

end Pandora.Spec.C18
