/-
Executable Spec of C08 over what consumers and the caller of `Provider.Run` observe in one cell
(kind, preload, limit, passes, n entries, consumers, cancel cap):

  * exactly `min⁺(limit, passes·n)` ammo are acquired (bounds that are 0 are absent); with no bound every finite
    prefix is delivered: the cell is cancelled after `cap` acquisitions and exactly `cap` were acquired by then;
  * `Provider.Run` returns nil (a cancelled run may also return context.Canceled, which the engine treats as a
    clean end), and it returns at all (`noreturn` = still running when the watchdog fired);
  * every consumer then sees `ok=false` (`closed`); `blocked`/`spinning` = consumers still inside Acquire;
  * no spin: the provider touches the ammo file O(delivered + n) times (`ops` = Read+Seek calls).
-/
namespace Pandora.Spec.C08

inductive RunClass where
  | nil | canceled | limit | passes | noammo | other | noreturn
  deriving DecidableEq, Repr, Inhabited

inductive EndClass where
  | closed | blocked | spinning
  deriving DecidableEq, Repr, Inhabited

def RunClass.name : RunClass → String
  | .nil => "nil" | .canceled => "canceled" | .limit => "limit" | .passes => "passes"
  | .noammo => "noammo" | .other => "other" | .noreturn => "noreturn"

def EndClass.name : EndClass → String
  | .closed => "closed" | .blocked => "blocked" | .spinning => "spinning"

structure Cell where
  limit : Nat
  passes : Nat
  n : Nat
  cap : Nat      -- the context is cancelled when `cap` ammo have been acquired
  deriving Repr

structure Obs where
  delivered : Nat
  cut : Bool     -- cap reached ⇒ cancelled by the harness
  run : RunClass
  end_ : EndClass
  ops : Nat
  deriving Repr

/-- `none` = unbounded -/
def expected (limit passes n : Nat) : Option Nat :=
  match limit, passes with
  | 0, 0 => none
  | l, 0 => some l
  | 0, p => some (p * n)
  | l, p => some (min l (p * n))

def opsBound (delivered n : Nat) : Nat := 6 * (delivered + n + 1) + 8

def want (c : Cell) : Nat := match expected c.limit c.passes c.n with | some m => m | none => c.cap
def bounded (c : Cell) : Bool := (expected c.limit c.passes c.n).isSome

/-! the clauses of the property -/
/-- exactly the expected number was acquired; a bounded cell never reaches the cap, an unbounded one does -/
def countOk (c : Cell) (o : Obs) : Bool := o.delivered == want c && o.cut == !bounded c
/-- `Run` returns -/
def returnsOk (o : Obs) : Bool := o.run != .noreturn
/-- … without error (context.Canceled only when the harness did cancel) -/
def runOk (o : Obs) : Bool := o.run == .nil || (o.run == .canceled && o.cut)
/-- every consumer sees end of ammo -/
def endOk (o : Obs) : Bool := o.end_ == .closed
/-- no spin -/
def spinOk (c : Cell) (o : Obs) : Bool := !bounded c || decide (o.ops ≤ opsBound o.delivered c.n)

def holds (c : Cell) (o : Obs) : Bool := countOk c o && returnsOk o && runOk o && endOk o && spinOk c o

/-- verdict of the line protocol, built from the same clauses -/
def judge (c : Cell) (o : Obs) : String :=
  if !countOk c o then
    s!"fail:count:delivered {o.delivered}{if o.cut then "+ (cut at cap)" else ""}, expected {want c}{if bounded c then "" else " (cap, then cancel)"}"
  else if !returnsOk o then
    (if o.end_ == .spinning then "fail:spin:Run never returns, ammo file read in a loop" else "fail:hang:Run never returns")
  else if !runOk o then
    s!"fail:run-error:Run returned {o.run.name}" ++ (if !endOk o then ", sink not closed" else "")
  else if !endOk o then
    "fail:sink-open:Run returned but consumers stay blocked in Acquire (sink never closed)"
  else if !spinOk c o then
    s!"fail:spin:{o.ops} file operations for {o.delivered} ammo of a {c.n}-entry file"
  else "ok"

end Pandora.Spec.C08
