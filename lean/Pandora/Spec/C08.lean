/-
Executable Spec of C08 over what consumers, the caller of `Provider.Run` and the caller of `Engine.Run` observe in
one cell (kind, preload, limit, passes, n entries, consumers, mode …).  `M = min⁺(limit, passes·n)` (bounds that are
0 are absent; no bound at all = unbounded).  `n` = the entries one pass delivers: every entry of the file, or (round 4) with a
`chosencases` option those whose tag is listed (`pick=`; the file then has `fileN ≥ n` entries).  limit and passes range
over ALL values of the options (round 4: also "practically unbounded" ones above 2^63).  The data source of the generic
JSON provider (`src=`) is a file, inline data or a reader; one that cannot be rewound (a plain io.Reader, a bytes.Buffer) is
read once whatever `passes` says — the Spec is then evaluated with passes = 1 (`skip:source-cannot-be-rewound` where that
differs from what the option asks for).

mode drain (consumers always ready; the context is cancelled by the consumer that makes the `cap`-th acquisition):
  * exactly `min(cap, M)` ammo are acquired — exactly `M` when nobody cancels, and with no bound every finite prefix:
    exactly `cap`; they are the entries of the file in cyclic order (`seq`);
  * `Provider.Run` returns (`noreturn` = still running when the watchdog fired) nil — context.Canceled only when the
    harness did cancel (the engine treats that as a clean end);
  * every consumer then sees `ok=false` (`closed`); `blocked`/`spinning` = consumers still inside Acquire;
  * no spin: the provider touches the ammo file O(delivered + n) times (`ops` = Read+Seek calls).
mode ext (as drain, and the context is cancelled from inside the `at`-th file operation): when the cancel fired the
  count is not determined, but never more than `min(cap, M)`, still in order, `Run` returns nil or Canceled, the
  sink is closed; `nil` from a provider that answers a cancel with Canceled means that the bound was reached.
mode stall (consumers make exactly `cap` Acquire calls and then stop; then the context is cancelled unless `Run`
  has returned by itself): exactly `min(cap, M)` acquired; `Run` returns; the sink is closed; acquired + left in the
  sink never exceed `M` (that no more than the channel capacity is left is part of the model's prediction, not of the Spec); a provider whose remaining ammo fit into the channel returns
  by itself (bound reached ⇒ returns promptly) having sent exactly `M`.
fault plan (round 3; modes drain / ext / tcan; any combination, also together with a cancel): `cfail=1` closing the ammo
  file fails (for the inline `uris` source: the provider's exported Close function), `cfail=2` the provider has no Close
  function, `rfail=k` the k-th operation on the ammo file fails with an I/O error (`rsticky=1`: and every later one),
  `ofail=1` the file cannot be opened.  A fault is none of the two events of the property's last sentence, but what
  that sentence protects must survive it: whatever fails, `Run` returns (no hang, no spin), the sink is closed (no
  consumer stays blocked), never more than the bound is delivered and what is delivered is a prefix of the cyclic
  file; `Run` may report the fault (`fault`; after an I/O error also an error of its own about what the truncated read
  left it with, `other`) only when one did reach the provider; nil without a cancel still means
  "exactly M delivered" (an I/O error is not swallowed into a short run); a failing Close (it comes last) does not
  change the count.  A provider whose constructor hits the fault returns it from the constructor.
mode engine (real core/engine, `inst` instances, shared `once(shots)` schedule, `shots = 0` = unlimited):
  `Engine.Run` returns nil, exactly `min⁺(M, shots)` shots were made, `Engine.Wait` returns.  `idle=1`: the schedule
  has no token at all — the instances finish at once and the engine cancels the provider wherever it is (with `gate=k`:
  inside its k-th file operation, e.g. in the middle of LoadAmmo): still nil, 0 shots, `Wait` returns.
-/
namespace Pandora.Spec.C08

inductive RunClass where
  | nil | canceled | limit | passes | noammo | other | noreturn
  | fault   -- an injected fault (I/O error of a read / seek / open, failing close) is reported, alone or merged with the run's own error
  deriving DecidableEq, Repr, Inhabited

inductive EndClass where
  | closed | blocked | spinning | open_
  deriving DecidableEq, Repr, Inhabited

def RunClass.name : RunClass → String
  | .nil => "nil" | .canceled => "canceled" | .limit => "limit" | .passes => "passes"
  | .noammo => "noammo" | .other => "other" | .noreturn => "noreturn" | .fault => "fault"

def EndClass.name : EndClass → String
  | .closed => "closed" | .blocked => "blocked" | .spinning => "spinning" | .open_ => "open"

structure Cell where
  limit : Nat
  passes : Nat
  n : Nat
  cap : Nat      -- the context is cancelled when `cap` ammo have been acquired (0 = never)
  pad : Nat := 0 -- every entry of the ammo file is padded with this many bytes
  fileN : Nat := 0 -- != 0: the cell has a chosencases option; the file has `fileN` entries of which a pass delivers `n`
  deriving Repr

structure Obs where
  delivered : Nat
  cut : Bool     -- cap reached ⇒ cancelled by the harness
  run : RunClass
  end_ : EndClass
  ops : Nat
  seqOk : Bool := true   -- the acquired ammo are the file's entries in cyclic order
  seqTail : Bool := false -- … all but ONE, the item sent last (only reported by cells with an injected read fault)
  deriving Repr

/-- `none` = unbounded -/
def expected (limit passes n : Nat) : Option Nat :=
  match limit, passes with
  | 0, 0 => none
  | l, 0 => some l
  | 0, p => some (p * n)
  | l, p => some (min l (p * n))

/-- Read+Seek calls that `sent` ammo of an `n`-entry file may cost: up to three per ammo and per entry of one more
pass (the raw decoder asks for the file position of every entry; preload reads the whole file whatever the limit),
per pass one read per 512 bytes (the smallest buffer the decoders use) plus the
end-of-file read, the seek and slack, plus two per line that is not an entry (the raw decoder asks for the file
position of blank lines too; the harness' files have at most n + 7 such lines); three passes of slack; the
constructor's reads -/
def opsBound (sent n pad : Nat) : Nat := 3 * (sent + n) + (sent / n + 3) * ((n * (pad + 256)) / 512 + 2 * n + 18) + 8

/-- the same for a file of `fileN` entries of which a pass delivers `k` (chosencases): `sent` ammo need `sent / k` passes,
each of which reads the whole file -/
def opsBoundF (sent k fileN pad : Nat) : Nat :=
  3 * ((sent / k + 2) * fileN) + (sent / k + 3) * ((fileN * (pad + 256)) / 512 + 2 * fileN + 18) + 8

/-- what a drain cell has to deliver: `min(cap, M)`, `cap = 0` = nobody cancels (such a cell must be bounded) -/
def want (c : Cell) : Nat :=
  match expected c.limit c.passes c.n with
  | some m => if c.cap = 0 then m else min c.cap m
  | none => c.cap
def bounded (c : Cell) : Bool := (expected c.limit c.passes c.n).isSome
/-- the harness cancels iff the cap is reached -/
def wantCut (c : Cell) : Bool := decide (0 < c.cap ∧ c.cap ≤ want c)

/-! the clauses of the property (mode drain) -/
/-- exactly the expected number was acquired, in file order -/
def countOk (c : Cell) (o : Obs) : Bool := o.delivered == want c && o.cut == wantCut c
/-- `Run` returns -/
def returnsOk (o : Obs) : Bool := o.run != .noreturn
/-- … without error (context.Canceled only when the harness did cancel) -/
def runOk (o : Obs) : Bool := o.run == .nil || (o.run == .canceled && o.cut)
/-- every consumer sees end of ammo -/
def endOk (o : Obs) : Bool := o.end_ == .closed
/-- no spin: a bounded provider sends at most its bound (also when the harness cut the cell earlier) -/
def spinOk (c : Cell) (o : Obs) : Bool :=
  match expected c.limit c.passes c.n with
  | some m => decide (o.ops ≤ if c.fileN = 0 then opsBound m c.n c.pad else opsBoundF m c.n c.fileN c.pad)
  | none => true

def holds (c : Cell) (o : Obs) : Bool :=
  countOk c o && o.seqOk && returnsOk o && runOk o && endOk o && spinOk c o

def runErrMsg (o : Obs) : String :=
  s!"fail:run-error:Run returned {o.run.name}" ++ (if !endOk o then ", sink not closed" else "")

/-- verdict of the line protocol, built from the same clauses -/
def judge (c : Cell) (o : Obs) : String :=
  if !countOk c o then
    s!"fail:count:delivered {o.delivered}{if o.cut then "+ (cut at cap)" else ""}, expected {want c}{if wantCut c then " (cap, then cancel)" else ""}"
  else if !o.seqOk then "fail:order:the acquired ammo are not the entries of the file in cyclic order"
  else if !returnsOk o then
    (if o.end_ == .spinning then "fail:spin:Run never returns, ammo file read in a loop" else "fail:hang:Run never returns")
  else if !runOk o then runErrMsg o
  else if !endOk o then
    "fail:sink-open:Run returned but consumers stay blocked in Acquire (sink never closed)"
  else if !spinOk c o then
    s!"fail:spin:{o.ops} file operations for {o.delivered} ammo of a {c.n}-entry file"
  else "ok"

/-! ## mode ext -/

/-- `answersCanceled` = the provider answers a cancel with context.Canceled (http, scenario); the others return nil -/
def extHolds (c : Cell) (answersCanceled : Bool) (fired : Bool) (o : Obs) : Bool :=
  if !fired then holds c o
  else
    decide (o.delivered ≤ want c) && o.cut == decide (0 < c.cap ∧ c.cap ≤ o.delivered) && o.seqOk &&
    returnsOk o && (o.run == .nil || o.run == .canceled) && endOk o &&
    -- nil from a provider that answers a cancel with Canceled: only because the bound was reached
    (!(answersCanceled && o.run == .nil) || expected c.limit c.passes c.n == some o.delivered || (o.cut && bounded c))

def extJudge (c : Cell) (answersCanceled : Bool) (fired : Bool) (o : Obs) : String :=
  if !fired then judge c o
  else if !decide (o.delivered ≤ want c) then s!"fail:count:delivered {o.delivered} after a cancel, at most {want c} expected"
  else if o.cut != decide (0 < c.cap ∧ c.cap ≤ o.delivered) then "fail:driver:cut flag inconsistent"
  else if !o.seqOk then "fail:order:the acquired ammo are not the entries of the file in cyclic order"
  else if !returnsOk o then
    (if o.end_ == .spinning then "fail:spin:Run never returns after the cancel, ammo file read in a loop" else "fail:hang:Run never returns after the cancel")
  else if !(o.run == .nil || o.run == .canceled) then runErrMsg o
  else if !endOk o then "fail:sink-open:Run returned but consumers stay blocked in Acquire (sink never closed)"
  else if !extHolds c answersCanceled fired o then
    s!"fail:count:Run returned nil after a cancel with {o.delivered} delivered, bound not reached"
  else "ok"

/-! ## fault plan (modes drain / ext / tcan) -/

structure Faults where
  cfail : Nat := 0     -- 1: closing the ammo file fails; 2: the provider has no Close function
  rfail : Nat := 0     -- != 0: the rfail-th file operation fails
  rsticky : Bool := false
  ofail : Bool := false
  deriving Repr, DecidableEq

def Faults.any (f : Faults) : Bool := f.cfail != 0 || f.rfail != 0 || f.ofail

/-- which of the injected faults were actually returned to the provider -/
structure Hits where
  r : Bool := false
  c : Bool := false
  o : Bool := false
  deriving Repr, DecidableEq

def Hits.any (h : Hits) : Bool := h.r || h.c || h.o
/-- only the close failed: everything the provider had to deliver was delivered before -/
def Hits.closeOnly (h : Hits) : Bool := h.c && !h.r && !h.o

/-- in order — or, when a read of the ammo file failed and `Run` reported an error: in order but for the item sent last.
(bufio.Scanner hands out the partial last line before it reports the read error; a truncated uri line is still a uri, the
decoder delivers it and fails with the next read.  What is IN an ammo is decoding fidelity, C07; the count, the order of
everything before it and the end of the run are this property's.) -/
def faultSeqOk (h : Hits) (o : Obs) : Bool :=
  o.seqOk || (o.seqTail && h.r && (o.run == .fault || o.run == .other))

/-- the clauses for a cell with an injected fault; `fired` = a cancel from outside the consumers happened (ext / tcan) -/
def faultHolds (c : Cell) (answersCanceled : Bool) (h : Hits) (fired : Bool) (o : Obs) : Bool :=
  if !h.any then (if fired then extHolds c answersCanceled fired o else holds c o)
  else
    decide (o.delivered ≤ want c) && o.cut == decide (0 < c.cap ∧ c.cap ≤ o.delivered) && faultSeqOk h o &&
    returnsOk o && (o.run == .nil || o.run == .canceled || o.run == .fault || (o.run == .other && (h.r || h.o))) &&
    (o.run != .canceled || o.cut || fired) && endOk o &&
    -- nil: the bound was reached (or a cancel stopped a provider that answers it with nil)
    (o.run != .nil ||
      (if o.cut || fired then !answersCanceled || expected c.limit c.passes c.n == some o.delivered || (o.cut && bounded c)
       else o.delivered == want c)) &&
    -- a failing Close comes last: the count is the one of the cell without the fault
    (!(h.closeOnly && !fired) || countOk c o) &&
    spinOk c o

def faultJudge (c : Cell) (answersCanceled : Bool) (h : Hits) (fired : Bool) (o : Obs) : String :=
  if !h.any then (if fired then extJudge c answersCanceled fired o else judge c o)
  else if !decide (o.delivered ≤ want c) then s!"fail:count:delivered {o.delivered} after a fault, at most {want c} expected"
  else if o.cut != decide (0 < c.cap ∧ c.cap ≤ o.delivered) then "fail:driver:cut flag inconsistent"
  else if !faultSeqOk h o then "fail:order:the acquired ammo are not the entries of the file in cyclic order"
  else if !returnsOk o then
    (if o.end_ == .spinning then "fail:spin:Run never returns after an I/O fault, ammo file read in a loop" else "fail:hang:Run never returns after a fault")
  else if !(o.run == .nil || o.run == .canceled || o.run == .fault || (o.run == .other && (h.r || h.o))) then runErrMsg o
  else if o.run == .canceled && !(o.cut || fired) then "fail:run-error:Run returned canceled, nobody cancelled"
  else if !endOk o then "fail:sink-open:Run returned after a fault but consumers stay blocked in Acquire (sink never closed)"
  else if o.run == .nil && !(o.cut || fired) && o.delivered != want c then
    s!"fail:swallowed-error:Run returned nil after an I/O fault with {o.delivered} of {want c} delivered"
  else if h.closeOnly && !fired && !countOk c o then
    s!"fail:count:delivered {o.delivered}, expected {want c} (only the final Close failed)"
  else if !spinOk c o then s!"fail:spin:{o.ops} file operations for {o.delivered} ammo of a {c.n}-entry file"
  else if !faultHolds c answersCanceled h fired o then
    s!"fail:count:Run returned nil after a cancel with {o.delivered} delivered, bound not reached"
  else "ok"

/-- a constructor that fails: only with the injected fault it hit -/
def constructJudge (h : Hits) (cls : String) : String :=
  if h.any && cls == "fault" then "ok" else s!"fail:construct:{cls}"

/-! ## mode stall -/

structure StallObs where
  delivered : Nat
  cut : Bool        -- the harness had to cancel (Run had not returned by itself)
  ret : Bool        -- Run returned
  run : RunClass
  left : Nat        -- drained from the sink after Run returned
  end_ : EndClass
  seqOk : Bool
  deriving Repr

/-- `cap` = number of Acquire calls the consumers make -/
def stallWant (c : Cell) : Nat :=
  match expected c.limit c.passes c.n with
  | some m => min c.cap m
  | none => c.cap

/-- the provider can send everything it has to deliver although consumers take only `cap` -/
def selfEnding (c : Cell) (chanCap : Nat) : Bool :=
  match expected c.limit c.passes c.n with
  | some m => decide (m ≤ c.cap + chanCap)
  | none => false

def stallHolds (c : Cell) (chanCap : Nat) (o : StallObs) : Bool :=
  o.delivered == stallWant c && o.seqOk && o.ret && o.end_ == .closed &&
  (match expected c.limit c.passes c.n with
   | some m => decide (o.delivered + o.left ≤ m)
   | none => true) &&
  (if o.cut then (o.run == .nil || o.run == .canceled) && !selfEnding c chanCap
   else o.run == .nil && expected c.limit c.passes c.n == some (o.delivered + o.left))

def stallJudge (c : Cell) (chanCap : Nat) (o : StallObs) : String :=
  if o.delivered != stallWant c then s!"fail:count:delivered {o.delivered} to {c.cap} Acquire calls, expected {stallWant c}"
  else if !o.seqOk then "fail:order:the acquired ammo are not the entries of the file in cyclic order"
  else if o.end_ == .blocked then "fail:sink-open:consumers stay blocked in Acquire although the provider has nothing more to deliver"
  else if !o.ret then "fail:hang:Run does not return after the cancel (nobody receives)"
  else if o.end_ != .closed then "fail:sink-open:Run returned but the sink is not closed"
  else if !(match expected c.limit c.passes c.n with | some m => decide (o.delivered + o.left ≤ m) | none => true) then
    s!"fail:count:{o.delivered} delivered + {o.left} left in the sink exceed the bound"
  else if o.cut && !(o.run == .nil || o.run == .canceled) then s!"fail:run-error:Run returned {o.run.name}"
  else if o.cut && selfEnding c chanCap then "fail:linger:bound reached and every ammo sent, but Run returns only when cancelled"
  else if !o.cut && o.run != .nil then s!"fail:run-error:Run returned {o.run.name}"
  else if !stallHolds c chanCap o then s!"fail:count:Run ended by itself after sending {o.delivered + o.left}"
  else "ok"

/-! ## mode engine -/

structure EngObs where
  shots : Nat
  errNil : Bool
  errText : String
  wait : Bool
  seqOk : Bool
  deriving Repr

/-- `shots = 0` = unlimited schedule; `idle` = a schedule without any token (the run shoots nothing: instances finish
at once and the engine cancels the provider, possibly while it is still loading its ammo) -/
def engWant (c : Cell) (shots : Nat) (idle : Bool := false) : Option Nat :=
  if idle then some 0 else
  match expected c.limit c.passes c.n with
  | some m => some (if shots = 0 then m else min m shots)
  | none => if shots = 0 then none else some shots

def engHolds (c : Cell) (shots : Nat) (o : EngObs) (idle : Bool := false) : Bool :=
  engWant c shots idle == some o.shots && o.errNil && o.wait && o.seqOk

def engJudge (c : Cell) (shots : Nat) (o : EngObs) (idle : Bool := false) : String :=
  if o.errText == "hang" then "fail:hang:Engine.Run does not return"
  else if !o.errNil then s!"fail:engine-error:Engine.Run returned {o.errText}"
  else if engWant c shots idle != some o.shots then s!"fail:count:{o.shots} shots, expected {match engWant c shots idle with | some w => toString w | none => "?"}"
  else if !o.seqOk then "fail:order:the shot ammo are not the entries of the file in cyclic order"
  else if !o.wait then "fail:hang:Engine.Wait does not return (provider still running)"
  else "ok"

end Pandora.Spec.C08
