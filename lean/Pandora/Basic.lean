def hello := "world"
