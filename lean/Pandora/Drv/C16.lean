import Pandora.Drv.Util
import Pandora.Model.C16
import Pandora.Model.C16Locals
import Pandora.Model.C16Ammo
import Pandora.Model.C16Src
import Pandora.Spec.C16
import Pandora.Gen.HclYaml

/-!
C16 model driver.  Input line of `harness/cmd/c16`:
`sx=<spelling seed> mal=<0|1|2> d=<description tree> [lb=<locals blocks of the HCL spelling> hb=<its body>]`.

`lb` / `hb` are the syntax tree of the HCL file the harness printed (locals blocks in source order; body with
expressions: literals, `local.x`, templates, calls of the registered functions).  The driver EVALUATES it with the
model of `ParseHCLFile` (`evalFile`, function table regenerated from `buildHclContext`) — the result is what gohcl
stores into the HCL structs and must be the description `d` the YAML twin was printed from — then runs the model on
the REGENERATED tables: `marshal` (yaml.v2 on `AmmoHCL`), `decode` (mapstructure into `AmmoConfig`), `ammoOf` (the
provider's `decodeAmmo`), and prints the predicted record in the canonical dump format of the harness plus the digest
of the ammo of one pass.  The Spec judges the implementation's observation (HCL vs YAML agreement).
-/
namespace Pandora.Drv.C16
open Pandora.Drv Pandora.Go Pandora.Model.C16

def tables : Tables :=
  ⟨Gen.HclYaml.hclStructs, Gen.HclYaml.cfgStructs, Gen.HclYaml.plugins, Gen.HclYaml.hclRoot, Gen.HclYaml.cfgRoot,
    Gen.HclYaml.pluginNameKey⟩

/-! ### parsing the tree:  n | s<hex>. | i<dec>. | t | f | [v*] | {(k<hex>.v)*} -/

def takeToDot : List Char → List Char → Option (List Char × List Char)
  | [], _ => none
  | '.' :: rest, acc => some (acc.reverse, rest)
  | c :: rest, acc => takeToDot rest (c :: acc)

def unhexStr (cs : List Char) : Option String := do
  let bs ← parseHex (String.ofList cs)
  String.fromUTF8? (ByteArray.mk bs.toArray)

mutual
def parseV : Nat → List Char → Option (V × List Char)
  | 0, _ => none
  | _ + 1, [] => none
  | fuel + 1, c :: rest =>
    if c == 'n' then some (.null, rest)
    else if c == 't' then some (.bool true, rest)
    else if c == 'f' then some (.bool false, rest)
    else if c == 's' then do
      let (h, rest') ← takeToDot rest []
      let s ← unhexStr h
      some (.str s, rest')
    else if c == 'i' then do
      let (h, rest') ← takeToDot rest []
      let i ← (String.ofList h).toInt?
      some (.int i, rest')
    else if c == '[' then do
      let (xs, rest') ← parseL fuel rest
      some (.seq xs, rest')
    else if c == '{' then do
      let (kvs, rest') ← parseM fuel rest
      some (.map kvs, rest')
    else none
def parseL : Nat → List Char → Option (List V × List Char)
  | 0, _ => none
  | _ + 1, [] => none
  | fuel + 1, c :: rest =>
    if c == ']' then some ([], rest)
    else do
      let (x, r1) ← parseV fuel (c :: rest)
      let (xs, r2) ← parseL fuel r1
      some (x :: xs, r2)
def parseM : Nat → List Char → Option (List (String × V) × List Char)
  | 0, _ => none
  | _ + 1, [] => none
  | fuel + 1, c :: rest =>
    if c == '}' then some ([], rest)
    else if c == 'k' then do
      let (h, r0) ← takeToDot rest []
      let k ← unhexStr h
      let (x, r1) ← parseV fuel r0
      let (xs, r2) ← parseM fuel r1
      some ((k, x) :: xs, r2)
    else none
end

def parseTree (s : String) : Option V :=
  match parseV (s.length + 2) s.toList with
  | some (v, []) => some v
  | _ => none

/-! ### parsing the HCL syntax tree: the tree grammar plus  L<hex>.  (local)  T[e*]  (template)  F<hex>.[e*]  (call) -/

mutual
def parseE : Nat → List Char → Option (E × List Char)
  | 0, _ => none
  | _ + 1, [] => none
  | fuel + 1, c :: rest =>
    if c == 'n' then some (.null, rest)
    else if c == 't' then some (.bool true, rest)
    else if c == 'f' then some (.bool false, rest)
    else if c == 's' then do
      let (h, rest') ← takeToDot rest []
      let s ← unhexStr h
      some (.str s, rest')
    else if c == 'i' then do
      let (h, rest') ← takeToDot rest []
      let i ← (String.ofList h).toInt?
      some (.int i, rest')
    else if c == 'L' then do
      let (h, rest') ← takeToDot rest []
      let s ← unhexStr h
      some (.loc s, rest')
    else if c == 'T' then
      match rest with
      | '[' :: r => do
        let (xs, rest') ← parseEL fuel r
        some (.tmpl xs, rest')
      | _ => none
    else if c == 'F' then do
      let (h, r0) ← takeToDot rest []
      let f ← unhexStr h
      match r0 with
      | '[' :: r => do
        let (xs, rest') ← parseEL fuel r
        some (.call f xs, rest')
      | _ => none
    else if c == 'X' || c == 'A' then
      -- X[e k] = `e[k]`, A[e s<name>.] = `e.name`
      match rest with
      | '[' :: r => do
        let (xs, rest') ← parseEL fuel r
        match xs with
        | [e, k] => some (.idx e k, rest')
        | _ => none
      | _ => none
    else if c == '[' then do
      let (xs, rest') ← parseEL fuel rest
      some (.seq xs, rest')
    else if c == '{' then do
      let (kvs, rest') ← parseEM fuel rest
      some (.map kvs, rest')
    else none
def parseEL : Nat → List Char → Option (List E × List Char)
  | 0, _ => none
  | _ + 1, [] => none
  | fuel + 1, c :: rest =>
    if c == ']' then some ([], rest)
    else do
      let (x, r1) ← parseE fuel (c :: rest)
      let (xs, r2) ← parseEL fuel r1
      some (x :: xs, r2)
def parseEM : Nat → List Char → Option (List (String × E) × List Char)
  | 0, _ => none
  | _ + 1, [] => none
  | fuel + 1, c :: rest =>
    if c == '}' then some ([], rest)
    else if c == 'k' then do
      let (h, r0) ← takeToDot rest []
      let k ← unhexStr h
      let (x, r1) ← parseE fuel r0
      let (xs, r2) ← parseEM fuel r1
      some ((k, x) :: xs, r2)
    else none
end

def parseExpr (s : String) : Option E :=
  match parseE (s.length + 2) s.toList with
  | some (e, []) => some e
  | _ => none

/-- the reserved key under which a `locals` block of the encoded syntax tree carries a label (`locals "x" { … }`);
not an identifier, so it cannot be the name of a local -/
def labelKey : String := "!label"

def labelsOf : List (String × E) → List String
  | [] => []
  | (k, .str s) :: r => if k == labelKey then s :: labelsOf r else labelsOf r
  | _ :: r => labelsOf r

def blocksOf : E → Option (List LBlock)
  | .seq xs => xs.mapM fun
    | .map kvs => some ⟨labelsOf kvs, kvs.filter fun p => p.1 != labelKey⟩
    | _ => none
  | _ => none

def parseFile (lb hb : String) : Option HclSrc := do
  let l ← parseExpr lb
  let bs ← blocksOf l
  let b ← parseExpr hb
  some ⟨bs, b⟩

/-! ### canonical dump (same format as harness/cmd/c16/dump.go) -/

def hexOf (s : String) : String := toHex s.toUTF8.toList

def sortByKey (es : List (String × String)) : List (String × String) :=
  es.mergeSort fun a b => decide (a.1 ≤ b.1)

mutual
/-- plain data (leaf types): always printed -/
def dumpData : V → String
  | .null => "nil"
  | .str s => "s" ++ hexOf s
  | .int i => "i" ++ toString i
  | .bool b => if b then "t" else "f"
  | .seq xs => "[" ++ ",".intercalate (dumpDataL xs) ++ "]"
  | .map kvs => "{" ++ ",".intercalate ((sortByKey (dumpDataM kvs)).map fun e => e.1 ++ ":" ++ e.2) ++ "}"
def dumpDataL : List V → List String
  | [] => []
  | x :: xs => dumpData x :: dumpDataL xs
def dumpDataM : List (String × V) → List (String × String)
  | [] => []
  | (k, x) :: rest => (hexOf k, dumpData x) :: dumpDataM rest
end

def joinFields (es : List (String × String)) : String :=
  "(" ++ ";".intercalate ((sortByKey es).map fun e => e.1 ++ "=" ++ e.2) ++ ")"

mutual
/-- type-directed dump of a decoded record; `none` = the record carries a decode error marker -/
def dumpRec (T : Tables) : C16CTy → V → Option String
  | ty, .map fs =>
    match ty with
    | .struct s => (dumpFields T s false fs).map joinFields
    | .optStruct s => (dumpFields T s false fs).map joinFields
    | .plugin i =>
      match (typeOf T.nameKey fs).bind (findPlugin T i) with
      | none => none
      | some p => (dumpFields T p.conf true fs).map joinFields
    | .leaf _ => some (dumpData (.map fs))
    | .optLeaf _ => some (dumpData (.map fs))
    | _ => none
  | ty, .seq xs =>
    match ty with
    | .structList s => (dumpElems T (.struct s) xs).map fun l => "[" ++ ",".intercalate l ++ "]"
    | .pluginList i => (dumpElems T (.plugin i) xs).map fun l => "[" ++ ",".intercalate l ++ "]"
    | .leaf _ => some (dumpData (.seq xs))
    | .optLeaf _ => some (dumpData (.seq xs))
    | _ => none
  | ty, v =>
    match ty with
    | .leaf _ => some (dumpData v)
    | .optLeaf _ => some (dumpData v)
    | _ => none
def dumpFields (T : Tables) (s : String) (isP : Bool) : List (String × V) → Option (List (String × String))
  | [] => some []
  | (k, x) :: rest =>
    if isP && k == T.nameKey then
      match dumpFields T s isP rest with
      | none => none
      | some es => some ((k, dumpData x) :: es)
    else
      match (cFields T s).find? (fun g => g.go == k) with
      | none => none
      | some g =>
        match dumpRec T g.ty x, dumpFields T s isP rest with
        | some d, some es => some ((k, d) :: es)
        | _, _ => none
def dumpElems (T : Tables) (ty : C16CTy) : List V → Option (List String)
  | [] => some []
  | x :: xs =>
    match dumpRec T ty x, dumpElems T ty xs with
    | some d, some ds => some (d :: ds)
    | _, _ => none
end

/-! ### ammo digest (same format as `digestOf` / `rle` of harness/cmd/c16/main.go) -/

def digestRow (a : AmmoRow) : String :=
  hexOf a.name ++ "@" ++ toString (nsToMs a.minWait) ++ "[" ++
    ",".intercalate (a.steps.map fun p => hexOf p.1 ++ ":" ++ toString (nsToMs p.2)) ++ "]"

/-- consecutive equal entries once, with a repeat count -/
def rleRows : List AmmoRow → Option (AmmoRow × Nat) → List String
  | [], none => []
  | [], some (a, n) => [digestRow a ++ "x" ++ toString n]
  | x :: xs, none => rleRows xs (some (x, 1))
  | x :: xs, some (a, n) =>
    if x = a then rleRows xs (some (a, n + 1)) else (digestRow a ++ "x" ++ toString n) :: rleRows xs (some (x, 1))

/-- guard of the DRIVER (not of the model): a description whose ammo list would have more than a million entries is not
expanded (the generator never produces one) -/
def ammoSmall (r : Option V) : Bool :=
  match r with
  | none => true
  | some v =>
    let scs := scenarioRows v
    (spreadCounts scs).foldl (fun a p => a + p.2) 0 ≤ 100000 &&
    scs.all fun s => s.requests.all fun sh =>
      match parseShootName sh with
      | some (name, cnt, _) => name == "sleep" || cnt ≤ 10000   -- the argument of `sleep` is a duration, not a count
      | none => true

def ammoToken (r : Option V) : String :=
  if !ammoSmall r then "?"
  else match ammoOf r with
    | none => "ERR"
    | some rows => toString rows.length ++ ":" ++ ";".intercalate (rleRows rows none)

/-! ### handler -/

/-- the function table of the CURRENT source (regenerated): what the implementation is predicted to do -/
def fns : List (String × String) := Gen.HclYaml.hclFunctions

/-- the documented function table: what an HCL file MEANS -/
def docFns : List (String × String) := Pandora.Spec.C16.docFunctions

def recordOf (d : V) : Option V := decode tables (marshal tables (complete tables d))

/-- canonical dump of a decoded record ("ERR": the record carries a decode error marker) -/
def dumpOfRecord (r : Option V) : String :=
  match r with
  | none => "()"
  | some rec => (dumpRec tables (.struct tables.cfgRoot) rec).getD "ERR"

def predict (d : V) : String :=
  let r := recordOf d
  let s := dumpOfRecord r
  if s == "ERR" then "H=ERR Y== A=-" else "H=" ++ s ++ " Y== A=" ++ ammoToken r

/-- prediction when the implementation's function table evaluates the file to `dc` while the file means `d` -/
def predictPair (dc d : V) : String :=
  let hs := dumpOfRecord (recordOf dc)
  let ys := dumpOfRecord (recordOf d)
  if hs == ys then predict dc else "H=" ++ hs ++ " Y=" ++ ys ++ " D=? A=?"

/-- prediction for a file the implementation refuses -/
def predictRefused (d : V) : String :=
  let ys := dumpOfRecord (recordOf d)
  if ys == "ERR" then "H=ERR Y== A=-" else "H=ERR Y=" ++ ys ++ " A=-"

/-- the description the HCL spelling denotes under function table `F`: evaluated from its syntax tree and converted to
the types of the HCL structs; `none` = the input carries no syntax tree (the description itself is the file);
`some none` = the file does not evaluate -/
def denoted (strict : Bool) (F : List (String × String)) (kv : List (String × String)) : Option (Option V) :=
  match lookup kv "hb" with
  | none => none
  | some hb => some ((parseFile (getS kv "lb" "[]") hb).bind (srcDescription tables strict F))

/-- does `ParseHCLFile` test the diagnostics of `PartialContent` (regenerated error flow)? -/
def schemaStrict : Bool :=
  Gen.HclYaml.errFlow.contains ("ParseHCLFile", "(hcl.Body).PartialContent", "returned")

/-- has the spelled file a `locals` block with a label? -/
def hasLabelled (kv : List (String × String)) : Bool :=
  match lookup kv "hb" with
  | none => false
  | some hb =>
    match parseFile (getS kv "lb" "[]") hb with
    | some src => !src.blocks.all LBlock.plain
    | none => false

/-- what is done to the characters of the file name before the extension tests (regenerated `extSubject`) -/
def subjectLc : Char → Char :=
  if Gen.HclYaml.extSubject.contains "strings.ToLower" then asciiLower else id

/-- the front-end `ReadAmmoConfig` selects for the file name given in token `k` (hex; absent = the default name) -/
def routed (kv : List (String × String)) (k dflt : String) : FrontEnd :=
  let name := match lookup kv k with
    | some h => (unhexStr h.toList).getD dflt
    | none => dflt
  frontEnd subjectLc Gen.HclYaml.extCases name.toList

def handle1 : Handler := fun input impl =>
  let kv := parseKV input
  let v := Pandora.Spec.C16.verdict impl
  if "HANG confirmed".toList.isPrefixOf impl.toList then
    -- the case did not finish among the other cases AND did not finish when it was run again alone with a generous limit
    -- while a reference case beside it kept finishing promptly (harness, child.go): the front-ends do not answer
    ("-", "fail:hang:" ++ impl)
  else if "SLOW".toList.isPrefixOf impl.toList || "HANG".toList.isPrefixOf impl.toList then
    -- no result, but not confirmed alone on a responsive machine (or the framework's own watchdog): nothing was
    -- observed, nothing is judged
    ("-", "skip:inconclusive-timeout")
  else
  if (lookup kv "ff").isSome then
    -- an I/O fault while one of the two files is opened / stat-ed / read / closed (harness faultfs.go): the model of
    -- `ReadAmmoConfig` (`readAmmoConfig`, `C16_io_fault_refuses`) refuses both files when the front-ends test the
    -- error of `io.ReadAll` (regenerated); the Spec judges the agreement of the two front-ends as always
    let checked := Gen.HclYaml.errFlow.contains ("ParseHCLFile", "io.ReadAll", "returned") &&
      Gen.HclYaml.errFlow.contains ("ParseAmmoConfig", "io.ReadAll", "returned")
    (if checked then "H=ERR Y== A=-" else "-", v)
  else
  match parseTree (getS kv "d") with
  | none => ("-", "fail:driver:unreadable description")
  | some d =>
    let mal := getS kv "mal"
    -- what the file MEANS (documented functions) and what the implementation's table makes of it
    let meant : Option V := match denoted true docFns kv with
      | none => some d
      | some r => r
    let labelled := hasLabelled kv
    let coded : Option V :=
      if fns == docFns && !labelled then meant   -- the usual case: evaluate once
      else match denoted schemaStrict fns kv with
        | none => some d
        | some r => r
    if mal == "4" then
      -- a `locals` block with a label: hcl reports it as an error and drops it; the file must be refused as a whole
      if !labelled then ("-", "skip:no-labelled-locals-block-in-the-spelling")
      else
        let p := match coded with
          | none => predictRefused d
          | some dc => if dumpData dc == dumpData d then predict d else predictPair dc d
        (if p.endsWith "A=?" then "-" else p, Pandora.Spec.C16.verdictSchema impl)
    else if labelled then ("-", "skip:labelled-locals-block-outside-its-stream")
    else if mal == "3" then
      -- a file with a `locals` block / expression that does not evaluate: it must be refused as a whole
      match meant with
      | some _ => ("-", "skip:hcl-spelling-of-a-broken-file-evaluates")
      | none => (predictRefused d, Pandora.Spec.C16.verdictRefuse impl)
    else
    match meant with
    | none =>
      -- the spelling uses an expression the model of the HCL functions does not evaluate: no prediction
      ("-", if v == "ok" then "skip:hcl-expression-outside-the-model" else v)
    | some d' =>
      if dumpData d' != dumpData d then
        -- the HCL text the harness printed denotes (by the model of locals / functions) another description than the
        -- one its YAML twin was printed from: the two files are not "the same description"
        ("-", "skip:hcl-spelling-denotes-another-description")
      else if hasMergeKey d' then
        -- what yaml.v2 does to the characters of a scalar is outside the model: no prediction; a disagreement of the two
        -- front-ends on such a description is reported under its own key
        ("-", if v == "ok" then v else "fail:merge-key:a map key `<<` written in HCL is marshalled unquoted by yaml.v2 and read back as a YAML merge key (" ++ v ++ ")")
      else if mal == "1" then
        -- malformed stream: only the agreement of the two front-ends is judged (validation inside plugin constructors is
        -- outside the model)
        ("-", v)
      else
        let p := match coded with
          | none => predictRefused d
          | some dc => if dumpData dc == dumpData d then predict d else predictPair dc d
        if p.endsWith "A=?" && !(p.endsWith "D=? A=?") then ("-", if v == "ok" then "skip:ammo-list-too-large-to-expand" else v) else (p, v)

/-- by the regenerated extension switch one of the two files does not reach its front-end: no prediction (the model
of the front-ends does not say what the other front-end makes of the text); the Spec judges what was observed -/
def handle : Handler := fun input impl =>
  let kv := parseKV input
  let r := handle1 input impl
  if routed kv "hn" "ammo.hcl" != .hcl || routed kv "yn" "ammo.yaml" != .yaml then ("-", r.2) else r

end Pandora.Drv.C16
