import Pandora.Drv.Util
import Pandora.Model.C09
import Pandora.Spec.C09

/-
Line driver of C09: input line (harness/cmd/c09) ↦ the model's prediction of what the recording target saw and
the Spec's verdict on what it really saw.
-/
namespace Pandora.Drv.C09
open Pandora.Drv Pandora.Model.C09 Pandora.Spec.C09

def unhexPlain (s : String) : Option Str := (parseHex s).map fun bs => bs.map UInt8.toNat

/-- one segment of the run-length hex of the line protocol: plain hex, or `<n>*<hex>` = n copies -/
def unhexSeg (s : String) : Option Str :=
  match s.splitOn "*" with
  | [h] => unhexPlain h
  | [n, h] => do
    let k ← n.toNat?
    let b ← unhexPlain h
    pure (match b with
      | [c] => List.replicate k c
      | _ => (List.replicate k b).flatten)
  | _ => none

/-- segments joined by `_` (harness/cmd/c09 `hx`) -/
def unhex (s : String) : Option Str :=
  if s.isEmpty then some []
  else ((s.splitOn "_").mapM unhexSeg).map List.flatten

def hex2 (c : Nat) : String := String.ofList [hexOfNat4 (c / 16 % 16), hexOfNat4 (c % 16)]

def pushN (s : String) : Nat → List String → List String
  | 0, acc => acc
  | n + 1, acc => pushN s n (s :: acc)

/-- state of the run-length rendering: the pending run, the plain segment so far (two hex digits per element, newest
first), the finished segments (newest first) -/
structure RleSt where
  cur : Nat := 0
  cnt : Nat := 0
  plain : List String := []
  out : List String := []

def RleSt.flushPlain (st : RleSt) : RleSt :=
  if st.plain.isEmpty then st
  else { st with out := String.join st.plain.reverse :: st.out, plain := [] }

/-- the pending run goes to the output: a run of 16 or more equal bytes as `<n>*<hh>`, a shorter one into the plain segment -/
def RleSt.flushRun (st : RleSt) : RleSt :=
  if st.cnt = 0 then st
  else if st.cnt ≥ 16 then
    let st := st.flushPlain
    { st with out := (toString st.cnt ++ "*" ++ hex2 st.cur) :: st.out, cnt := 0 }
  else { st with plain := pushN (hex2 st.cur) st.cnt st.plain, cnt := 0 }

/-- hex with run-length segments, exactly as the harness renders it (`hx`) -/
def hex (s : Str) : String :=
  let st := s.foldl (fun (st : RleSt) c =>
    if st.cnt ≠ 0 ∧ st.cur = c then { st with cnt := st.cnt + 1 }
    else { st.flushRun with cur := c, cnt := 1 }) {}
  String.intercalate "_" st.flushRun.flushPlain.out.reverse

structure Case where
  f : Format
  ssl : Bool
  srvTls : Bool
  ka : Bool
  inst : Nat
  tgt : String
  passes : Nat
  conf : List Str
  items : List Item
  gun : GunKind := .http
  pre : Bool := false
  par : Bool := false
  sched : List Nat := []
  /-- round 2: pause between shots / the target's delay (ms); the gun's transport options as given (ms resp. counts) -/
  gap : Nat := 0
  delay : Nat := 0
  idle : Option Int := none
  rht : Option Int := none
  mic : Option Int := none
  mich : Option Int := none
  /-- tls-handshake-timeout: `none` = not given (hs=def); the harness gives 20s unless the case says otherwise -/
  hs : Option Int := some 20000
  /-- round 3: shared-client (0 = off, n = client-number), `redirect: true`, the target redirects, the provider's limit -/
  shared : Nat := 0
  redir : Bool := false
  rspRedir : Bool := false
  lim : Nat := 0
  /-- round 4: volleys (mode=vol), expect-continue-timeout, `shared-client {enabled: false, client-number: n}`, the documented
  full config (every transport option written with the value docs/eng/http-generator.md prints) -/
  vol : Bool := false
  ect : Option Int := none
  shoff : Option Int := none
  doc : Bool := false

def parseFormat : String → Option Format
  | "uri" => some .uri
  | "uripost" => some .uripost
  | "jsonline" => some .jsonline
  | "jsonarr" => some .jsonarr
  | "raw" => some .raw
  | _ => none

def parseHdr (s : String) : Option (Str × Str) :=
  match s.splitOn ":" with
  | [k, v] => do pure ((← unhex k), (← unhex v))
  | _ => none

def parseItem (s : String) : Option Item :=
  let mk (m u h hs b : String) (minor : Nat) : Option Item := do
    let hdrs ← (splitList hs ";").mapM parseHdr
    pure { hdrs := hdrs, ent := { method := ← unhex m, uri := ← unhex u, host := ← unhex h, body := ← unhex b,
                                   minor := minor } }
  match s.splitOn "," with
  | [m, u, h, hs, b] => mk m u h hs b 1
  | [m, u, h, hs, b, "0"] => mk m u h hs b 0
  | [m, u, h, hs, b, "1"] => mk m u h hs b 1
  | _ => none

def parseGun : String → Option GunKind
  | "" | "http" => some .http
  | "http2" => some .http2
  | "connect" => some .connect
  | _ => none

def optInt (kv : List (String × String)) (k : String) : Option (Option Int) :=
  match getS kv k with
  | "" | "-" => some none
  | v => v.toInt?.map some

def parseCase (kv : List (String × String)) : Option Case := do
  let f ← parseFormat (getS kv "fmt")
  let inst ← getN? kv "inst"
  let passes ← getN? kv "passes"
  let conf ← (splitList (getS kv "conf") ";").mapM unhex
  let items ← (splitList (getS kv "ents") "|").mapM parseItem
  if inst = 0 ∨ passes = 0 ∨ items = [] then none
  let gun ← parseGun (getS kv "gun")
  let sched ← (splitList (getS kv "sched") ".").mapM String.toNat?
  if sched.any (· ≥ inst) then none
  let hs ← match getS kv "hs" with
    | "" | "-" => some (some (20000 : Int))
    | "def" => some none
    | v => v.toInt?.map some
  let doc := getS kv "doc" == "1"
  -- the documented full config gives every option a value; what the case says itself stands
  let docOr (o : Option Int) (d : Int) : Option Int := if doc then (o.orElse fun _ => some d) else o
  let hs := if doc ∧ (getS kv "hs" == "" ∨ getS kv "hs" == "-") then some (1000 : Int) else hs
  let shoff0 ← optInt kv "shoff"
  let shoff := if doc ∧ shoff0.isNone ∧ (getS kv "shared").toNat?.getD 0 = 0 then some (1 : Int) else shoff0
  pure { f := f, ssl := getS kv "ssl" == "1", srvTls := getS kv "srv" == "tls", ka := getS kv "ka" == "1",
         inst := inst, tgt := getS kv "tgt", passes := passes, conf := conf, items := items,
         gun := gun, pre := getS kv "pre" == "1", par := getS kv "mode" == "par", sched := sched,
         gap := (getS kv "gap").toNat?.getD 0, delay := (getS kv "delay").toNat?.getD 0,
         idle := docOr (← optInt kv "idle") 90000, rht := docOr (← optInt kv "rht") 0, mic := docOr (← optInt kv "mic") 0,
         mich := docOr (← optInt kv "mich") 2,
         hs := hs, shared := (getS kv "shared").toNat?.getD 0, redir := getS kv "redir" == "1",
         rspRedir := getS kv "rsp" == "redir", lim := (getS kv "lim").toNat?.getD 0,
         vol := getS kv "mode" == "vol", ect := docOr (← optInt kv "ect") 1000,
         shoff := shoff,
         doc := doc }

def parseRecHdr (s : String) : Option (Str × List Str) :=
  match s.splitOn ":" with
  | k :: vs => do pure ((← unhex k), (← vs.mapM unhex))
  | [] => none

def parseRec (s : String) : Option Rec :=
  match s.splitOn "," with
  | [m, u, h, t, hs, b, p] => do
    pure { method := ← unhex m, uri := ← unhex u, host := ← unhex h, tls := t == "1",
           header := ← (splitList hs ";").mapM parseRecHdr, body := ← unhex b, major := ← p.toNat? }
  | _ => none

def parseObs (kv : List (String × String)) : Option Obs := do
  pure { n := ← getN? kv "n", shots := ← getN? kv "shots", conns := ← getN? kv "conns",
         runOk := getS kv "run" == "ok", reqs := ← (splitList (getS kv "reqs") "|").mapM parseRec,
         tunOk := getS kv "tun" == "ok" || getS kv "tun" == "-", decoy := ← getN? kv "decoy" }

/-! ### rendering of the model's prediction -/

def ltStr : Str → Str → Bool
  | [], [] => false
  | [], _ :: _ => true
  | _ :: _, [] => false
  | a :: as, b :: bs => if a < b then true else if b < a then false else ltStr as bs

def insertSorted (x : Str × List Str) : Hdr → Hdr
  | [] => [x]
  | y :: ys => if ltStr x.1 y.1 then x :: y :: ys else y :: insertSorted x ys

def sortHdr (h : Hdr) : Hdr := h.foldl (fun acc x => insertSorted x acc) []

def renderShot (major : Nat) (s : Shot) : String :=
  let hs := (sortHdr (arrivedHeader s.header)).map fun kv => String.intercalate ":" (hex kv.1 :: kv.2.map hex)
  String.intercalate "," [hex s.method, hex s.uri, hex s.host, (if s.scheme = .https then "1" else "0"),
    String.intercalate ";" hs, hex s.body, toString major]

/-- insertion sort of (key, payload) pairs by key (bytewise = Go's sort.Strings on the ASCII renderings) -/
def insertKeyed {α} (x : String × α) : List (String × α) → List (String × α)
  | [] => [x]
  | y :: ys => if x.1 < y.1 then x :: y :: ys else y :: insertKeyed x ys

def sortKeyed {α} (l : List (String × α)) : List (String × α) := l.foldr insertKeyed []

/-! ### scope of the Spec -/

def tokenName (k : Str) : Bool := k != [] && k.all isTokenByte
def cleanValue (v : Str) : Bool := v.all validValueByte

def uriInGrammar (f : Format) (u : Str) : Bool :=
  match f with
  | .jsonline | .jsonarr => u.head? == some 47
  | _ => u.head? == some 47 || (stripPrefix? httpPfx u).isSome || (stripPrefix? httpsPfx u).isSome

/-- decoded header lines of one item (uri/uripost lines go through DecodeHeader; the others are taken as given) -/
def decodedLines (f : Format) (hdrs : List (Str × Str)) : Option (List (Str × Str)) :=
  match f with
  | .uri | .uripost => hdrs.mapM fun kv => match decodeHeader (headerLine kv) with
    | .ok p => some p
    | .error _ => none
  | .raw => some (hdrs.map fun kv => (kv.1, trimHTTP kv.2))
  | _ => some hdrs

def distinctCanon : List Str → Bool
  | [] => true
  | k :: ks => !(ks.any fun k' => canon k' = canon k) && distinctCanon ks

/-- expectations of one pass; `none` = outside the scope of the Spec (malformed on purpose) -/
def wantsOfPass (c : Case) (conf : List (Str × Str)) (t : Str) : List Item → List (Str × Str) → Option (List Want)
  | [], _ => some []
  | it :: rest, acc => do
    let ls ← decodedLines c.f it.hdrs
    let eff := match c.f with
      | .uri | .uripost => acc ++ ls
      | _ => ls
    if !(ls.all fun kv => tokenName kv.1 && cleanValue kv.2) then none
    if !validMethod it.ent.method then none
    if it.ent.method = [] ∧ c.f ≠ .jsonline ∧ c.f ≠ .jsonarr then none
    if !uriInGrammar c.f it.ent.uri then none
    if (c.f = .jsonline ∨ c.f = .jsonarr) ∧ !distinctCanon (ls.map (·.1)) then none
    if c.f = .raw ∧ (valsOf ls hostKey).length > 1 then none
    let ws ← wantsOfPass c conf t rest eff
    pure ({ f := c.f, conf := conf, lines := eff, e := it.ent, targetHost := t, ssl := c.ssl } :: ws)

def repeatList {α} (l : List α) : Nat → List α
  | 0 => []
  | n + 1 => l ++ repeatList l n

def targetOf (tgt : String) : Str :=
  if tgt == "::1" then str "[::1]:0" else str (tgt ++ ":0")

def isH2Awkward (n : Str) : Bool := n = str "Cookie" || n = connKey || n = str "Keep-Alive" || n = str "Upgrade" ||
  n = str "Proxy-Connection" || n = str "Te"

/-- pauses of the flights of a case: shot number `j` (seq: position in the case; par / volleys: position among the gun's own
shots) is sent `gap` after the shot before it; in seq mode the shots of the OTHER guns in between take their time too (`delay`
each, when they arrive). `last g` = (number of the gun's latest shot that arrived, arrived shots of the case up to and
including it) -/
def pausesFrom (gap delay : Nat) (par : Bool) : List (Nat × Bool) → Nat → Nat → List (Nat × Option (Nat × Nat)) → List Nat
  | [], _, _, _ => []
  | (g, arrived) :: rest, j, na, last =>
    let own := if par then ((last.filter fun p => p.1 == g).length) else j
    let prev := (last.find? fun p => p.1 == g).bind (·.2)
    let pause := match prev with
      | some (k, nk) => (own - k) * gap + (if par then 0 else (na - nk) * delay)
      | none => 0
    let na' := if arrived then na + 1 else na
    let last' := if arrived then (g, some (own, na')) :: last
                 else (g, prev) :: last
    pause :: pausesFrom gap delay par rest (j + 1) na' last'

/-- the gun's config as the harness writes it, option by documented name (durations in ns) -/
def transportOpts (c : Case) : List TransportOpt :=
  (match c.hs with | some v => [("tls-handshake-timeout", v * msec)] | none => []) ++
  (if c.ka then [] else [("disable-keep-alives", 1)]) ++
  (match c.idle with | some v => [("idle-conn-timeout", v * msec)] | none => []) ++
  (match c.rht with | some v => [("response-header-timeout", v * msec)] | none => []) ++
  (match c.mic with | some v => [("max-idle-conns", v)] | none => []) ++
  (match c.mich with | some v => [("max-idle-conns-per-host", v)] | none => []) ++
  (match c.ect with | some v => [("expect-continue-timeout", v * msec)] | none => [])

/-- `x` (ns) is too close to the limit `lim` (ns, > 0) for a wall-clock observation: inside (0.4·lim, 1.25·lim) -/
def nearLimit (lim : Int) (x : Nat) : Bool :=
  decide (0 < lim) && decide (2 * lim < 5 * (x : Int)) && decide (4 * (x : Int) < 5 * lim)

/-- uri format: some line of the file (a URI with its tag, a `[k: v]` line) comes near or beyond 64 KiB, the default token limit
of the bufio.Scanner the uri decoder reads its lines with (the other three formats read lines of any length) -/
def uriLineNear64k (c : Case) : Bool :=
  c.f == .uri && c.items.any fun it =>
    decide (it.ent.uri.length ≥ 65000) || it.hdrs.any fun kv => decide (kv.1.length + kv.2.length ≥ 65000)

/-- mode=vol with a shared transport: what transport `cl` sees of the volleys (`inst` consecutive shots each; shot `j` goes
to gun `j % inst`); `last` = index of the latest volley in which it carried a request -/
def volleysOf (c : Case) (pool : Option Int) (cl : Nat) (marks : List (Bool × Bool)) : List Volley :=
  let nVol := (marks.length + c.inst - 1) / c.inst
  ((List.range nVol).foldl (fun (acc : List Volley × Option Nat) v =>
    let mine := ((marks.drop (v * c.inst)).take c.inst).zipIdx.filter fun p => transportOfGun pool p.2 == cl && p.1.1
    let k := mine.length
    let closing := (mine.filter fun p => p.1.2).length
    let pause := match acc.2 with
      | none => 0
      | some l => (v - l) * c.gap * 1000000 + (v - l - 1) * c.delay * 1000000
    (acc.1 ++ [{ k := k, closing := closing, pause := pause, delay := c.delay * 1000000 }],
     if k = 0 then acc.2 else some v)) ([], none)).1

def handleRun (c : Case) (impl : String) : String × String :=
  if impl.startsWith "ENV" then ("-", "skip:env")
  else if impl.startsWith "BAD-INPUT" then ("-", "skip:bad-input")
  else if uriLineNear64k c ∧ (impl.splitOn " run=err ").length > 1 then
    -- no prediction (the model has no such limit: it describes the repaired decoder, fixes/C09-uri-long-lines.diff)
    ("-", "fail:uri-line-64k:the uri decoder refuses an ammo line of 64 KiB or more (bufio.Scanner: token too long) that the uripost, raw and http/json decoders deliver")
  else
  match decodeAll c.conf with
  | .error _ => ("provider-err", "skip:malformed-option")
  | .ok conf =>
    if !constructible c.gun c.ssl then ("construct-err gun", "ok") else
    let confH := confHdr conf
    -- import.go: the pre-resolved address is an address OF the target (observed: everything arrives there / tun=ok);
    -- Host defaulting uses the configured target
    let g : Gun := factory c.gun c.ssl true (c.tgt != "localhost") .fails (targetOf c.tgt)
    if c.f = .jsonarr ∧ (provide c.pre c.f confH c.items c.passes).2 = .err then ("-", "skip:array-construct-error") else
    let (reqs, st) := provideLim c.pre c.f confH c.items c.passes c.lim
    if st = .panic then ("PANIC model", "fail:panic:model predicts a panic in EnrichRequestWithHeaders") else
    -- shared clients serve several instances: with parallel shooting the transport's own pool (two idle connections per host)
    -- and the scheduler decide; followed redirects: the http2 gun refuses the plain decoy's answer, the connect gun asks its
    -- tunnel end for the decoy
    if c.shared ≠ 0 ∧ c.par then ("-", "skip:shared-client-parallel") else
    -- volleys over a shared transport are predicted only when the requests of a volley overlap for sure (the target waits)
    if c.shared ≠ 0 ∧ c.vol ∧ c.delay < 100 then ("-", "skip:shared-client-volleys-without-overlap") else
    if c.redir ∧ c.rspRedir ∧ c.gun ≠ .http then ("-", "skip:followed-redirect-through-h2-or-tunnel") else
    -- a followed redirect makes the gun's transport hold a connection to a SECOND host: with `max-idle-conns: 1` (all hosts
    -- together) the idle connection to the target is evicted by the decoy's — the operator's own two demands, not modelled
    if c.redir && c.rspRedir && (c.mic == some 1) then
      ("-", "skip:followed-redirect-with-one-idle-connection-for-all-hosts") else
    let shots := reqs.map (shoot g)
    let names := (confH.map (·.1)) ++ (shots.flatMap fun s => s.header.map (·.1))
    if c.gun = .http2 ∧ names.any isH2Awkward then ("-", "skip:h2-connection-specific-or-cookie-header") else
    if !(shots.all connInGrammar) then ("-", "skip:connection-header-outside-grammar") else
    let arrived := shots.map fun s => sendable s && (c.srvTls == c.ssl)
    let conc := c.par || c.vol
    let gunsOf0 := (List.range shots.length).map (gunOf c.inst (if c.vol then [] else c.sched))
    -- shared-client: `enabled` decides (prepareClientPool); the transports are then the pool's clients, the k-th gun uses client
    -- (k+1) % client-number; with `enabled: false` every gun keeps its own client whatever the number says
    let pool := sharedPool (c.shared ≠ 0) (if c.shared ≠ 0 then (c.shared : Int) else c.shoff.getD 0)
    let sharedVol := pool.isSome && c.vol
    let gunsOf := if sharedVol then gunsOf0 else gunsOf0.map (transportOfGun pool)
    let pools := match pool with
      | none => c.inst
      | some n => if sharedVol then c.inst else n.toNat
    let pauses := pausesFrom (c.gap * 1000000) (c.delay * 1000000) conc (gunsOf.zip arrived) 0 0 []
    let flights := ((shots.zip arrived).zip (gunsOf.zip pauses)).map fun (p, gp) =>
      ({ gun := gp.1, arrived := p.2, close := p.1.close, pause := gp.2, delay := c.delay * 1000000 } : TFlight)
    let tr := transportOf (transportOpts c)
    if c.gun = .http2 ∧ (c.mic.isSome ∨ c.mich.isSome ∨ c.rht.isSome) then ("-", "skip:h2-pool-options-not-modelled") else
    -- x/net/http2 arms its idle timer with any non-zero IdleConnTimeout: a negative one closes every connection at once
    if c.gun = .http2 ∧ tr.idleConnTimeout < 0 then ("-", "skip:h2-negative-idle-timeout") else
    -- an answer lost to the response-header timeout is not followed to the host it redirects to
    if c.redir && c.rspRedir && flights.any (fun f => f.arrived && responseLost tr f.delay) then
      ("-", "skip:followed-redirect-with-lost-answers") else
    if (impl.splitOn " tm=late ").length > 1 then ("-", "skip:inconclusive-timing") else
    if flights.any (fun f => f.arrived && (nearLimit tr.idleConnTimeout f.pause || nearLimit tr.responseHeaderTimeout f.delay))
      then ("-", "skip:inconclusive-timing-margin") else
    let major := if c.gun = .http2 then 2 else 1
    let arrivedShots := (shots.zip arrived).filterMap fun p => if p.2 then some p.1 else none
    let rendered := arrivedShots.map (renderShot major)
    let rendered := if conc then (sortKeyed (rendered.map fun r => (r, ()))).map (·.1) else rendered
    -- connections: per-gun (per-client) pools; volleys over shared transports: the volley pool of every client, an upper bound
    -- that the implementation reaches when the requests of a volley really overlap — accepted down to the floor (as many
    -- connections as requests in flight at once), since a starved dial is served by a connection that just came back
    let connsModel :=
      if sharedVol then
        let marks := arrived.zip (shots.map (·.close))
        let perClient := (List.range ((pool.getD 1).toNat)).map fun cl => volleysOf c pool cl marks
        let upper := (perClient.map (vpoolRun tr)).foldl (· + ·) 0
        let lower := (perClient.map volleyFloor).foldl (· + ·) 0
        match (parseObs (parseKV impl)).map (·.conns) with
        | some n => if lower ≤ n ∧ n ≤ upper then n else upper
        | none => upper
      else tconnRun tr pools flights
    let model := s!"n={arrivedShots.length} shots={shots.length} conns={connsModel} run={if st = .ok then "ok" else "err"} tun={if c.gun = .connect then "ok" else "-"} decoy={decoyHits c.redir c.rspRedir arrivedShots.length} tm=ok reqs={String.intercalate "|" rendered}"
    let verdict :=
      if confH.any (fun kv => !tokenName kv.1 || !kv.2.all cleanValue) then "skip:malformed-option" else
      match wantsOfPass c conf (hostWithoutPort g.target) c.items [] with
      | none => "skip:malformed-entry"
      | some ws =>
        match parseObs (parseKV impl) with
        | none => s!"fail:crash:{impl.take 120}"
        | some o =>
          let wants := repeatList ws c.passes
          let wants := if c.lim ≠ 0 then wants.take c.lim else wants
          -- par mode: the recorded requests are reported sorted; align the expectations the same way
          let wants := if conc ∧ wants.length = shots.length then
              (sortKeyed ((shots.map (renderShot major)).zip wants)).map (·.2)
            else wants
          let arrivedFl := flights.filter (·.arrived)
          let maxPause := arrivedFl.foldl (fun m f => max m f.pause) 0
          let maxDelay := if arrivedFl.isEmpty then 0 else c.delay * 1000000
          let ro : ReuseOpts := { idle := c.idle.map (· * 1000000), rht := c.rht.map (· * 1000000), mic := c.mic, mich := c.mich }
          -- the keep-alive clause speaks of per-instance clients: several guns shooting at once over ONE enabled shared transport
          -- are outside it (net/http keeps two idle connections per host: see C09_shared_volley_bound_counterexample)
          judge wants (c.srvTls == c.ssl) c.ka c.inst o (reuseExpected ro maxPause maxDelay && !sharedVol) c.redir
    (model, verdict)

def handle : Handler := fun input impl =>
  let kv := parseKV input
  match getS kv "kind" with
  | "canon" =>
    match unhex (getS kv "key") with
    | some k => ("canon=" ++ hex (canon k), "ok")
    | none => ("-", "fail:driver:bad hex")
  | "run" =>
    match parseCase kv with
    | some c => handleRun c impl
    | none => ("-", "fail:driver:unparsable input")
  | _ => ("-", "fail:driver:unknown kind")

end Pandora.Drv.C09
