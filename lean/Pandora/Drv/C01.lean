import Pandora.Drv.Util
import Pandora.Spec.C01

namespace Pandora.Drv.C01
open Pandora.Drv Pandora.Spec Pandora.Spec.C01

def parseParts (kv : List (String × String)) : Option (List Part) := do
  match getS kv "kind" with
  | "const" =>
      let ops ← (lookup kv "ops").bind Q.parse?
      let d ← getI? kv "dur"
      pure [Part.const ops d]
  | "line" =>
      let f ← (lookup kv "from").bind Q.parse?
      let t ← (lookup kv "to").bind Q.parse?
      let d ← getI? kv "dur"
      if f.num * t.den == t.num * f.den then pure [Part.const f d] else pure [Part.line f t d]
  | "step" =>
      let f ← (lookup kv "from").bind Q.parse?
      let t ← (lookup kv "to").bind Q.parse?
      let s ← getI? kv "step"
      let d ← getI? kv "dur"
      if f.num * t.den == t.num * f.den then pure [Part.const f d]
      else pure ((stepLevels f t s 100000).map fun r => Part.const r d)
  | "once" =>
      let n ← getI? kv "times"
      pure [Part.once n]
  | _ => none

def parseToks (s : String) : Option (List (Int × Int)) :=
  (splitList s ";").mapM fun kt =>
    match kt.splitOn ":" with
    | [k, t] => do pure ((← k.toInt?), (← t.toInt?))
    | _ => none

def parseObs (kv : List (String × String)) : Option Obs := do
  pure { n := ← getI? kv "n", fin := ← getI? kv "fin", finStable := getS kv "finstable" == "1",
         mono := getS kv "mono" == "1", tmin := (getI? kv "tmin").getD 0, tmax := (getI? kv "tmax").getD 0,
         toks := ← parseToks (getS kv "toks") }

/-- The harness stops draining after `capTokens` tokens and answers `TOOMANY`: acceptable exactly when the profile
    is expected to hold more tokens than that (the count check then cannot be made; counted as skipped). -/
def capTokens : Int := 3000000

def judgeTooMany (parts : List Part) : String :=
  let hi := (parts.map Part.countRange).foldl (fun a r => a + r.2) 0
  if hi > capTokens then "skip:too-many-tokens" else s!"fail:count:n>{capTokens} expected<={hi}"

def handle : Handler := fun input impl =>
  match parseParts (parseKV input) with
  | none => ("-", "fail:driver:unparsable input")
  | some parts =>
    if impl == "TOOMANY" then ("-", judgeTooMany parts) else
      match parseObs (parseKV impl) with
      | some obs => ("-", judge parts obs)
      | none => ("-", s!"fail:crash:unparsable observation {impl.take 80}")

end Pandora.Drv.C01
