import Pandora.Drv.Util
import Pandora.Spec.C01

namespace Pandora.Drv.C01
open Pandora.Drv Pandora.Spec Pandora.Spec.C01

def parseParts (kv : List (String × String)) : Option (List Part) := do
  match getS kv "kind" with
  | "const" =>
      let ops ← (lookup kv "ops").bind Q.parse?
      let d ← getI? kv "dur"
      pure [Part.const ops d]
  | "line" =>
      let f ← (lookup kv "from").bind Q.parse?
      let t ← (lookup kv "to").bind Q.parse?
      let d ← getI? kv "dur"
      if f.num * t.den == t.num * f.den then pure [Part.const f d] else pure [Part.line f t d]
  | "step" =>
      let f ← (lookup kv "from").bind Q.parse?
      let t ← (lookup kv "to").bind Q.parse?
      let s ← getI? kv "step"
      let d ← getI? kv "dur"
      if f.num * t.den == t.num * f.den then pure [Part.const f d]
      else pure ((stepLevels f t s 100000).map fun r => Part.const r d)
  | "once" =>
      let n ← getI? kv "times"
      pure [Part.once n]
  | _ => none

def parseToks (s : String) : Option (List (Int × Int)) :=
  (splitList s ";").mapM fun kt =>
    match kt.splitOn ":" with
    | [k, t] => do pure ((← k.toInt?), (← t.toInt?))
    | _ => none

def parseObs (kv : List (String × String)) : Option Obs := do
  pure { n := ← getI? kv "n", fin := ← getI? kv "fin", finStable := getS kv "finstable" == "1",
         mono := getS kv "mono" == "1", tmin := (getI? kv "tmin").getD 0, tmax := (getI? kv "tmax").getD 0,
         toks := ← parseToks (getS kv "toks") }

def handle : Handler := fun input impl =>
  match parseParts (parseKV input), parseObs (parseKV impl) with
  | some parts, some obs => ("-", judge parts obs)
  | none, _ => ("-", "fail:driver:unparsable input")
  | _, none => ("-", s!"fail:crash:unparsable observation {impl.take 80}")

end Pandora.Drv.C01
