import Pandora.Drv.Util
import Pandora.Spec.C01

/-!
C01 line-protocol driver.  Input = one load-profile configuration (`kind=… from=… to=… step=… ops=… times=… dur=…`, rates
as exact rationals of the float64 values).  The model's observation is `REJECT` for a configuration outside the
property's domain (a negative rate, a duration below 1 ms, step < 1, times < 1 — by `C01_validation` exactly what the
regenerated validation predicates refuse) and `-` otherwise: token times depend on float64 rounding, they are judged by
the Spec with its stated tolerance instead of being predicted byte for byte.
-/
namespace Pandora.Drv.C01
open Pandora.Drv Pandora.Spec Pandora.Spec.C01

def qNonneg (q : Q) : Bool := q.num ≥ 0
def qEq (a b : Q) : Bool := a.num * b.den == b.num * a.den

/-- is `q` a float64 (53 significant bits; exponent range ignored)? -/
partial def oddPart (n : Nat) : Nat := if n == 0 then 0 else if n % 2 == 0 then oddPart (n / 2) else n
def isPow2 (n : Nat) : Bool := n != 0 && oddPart n == 1
def isF64 (q : Q) : Bool :=
  let q := Q.norm q
  isPow2 q.den && oddPart q.num.natAbs < 2 ^ 53

/-- exact rate levels from, from+step, … ≤ to -/
def stepLevels (f t : Q) (step : Int) (fuel : Nat) : List Q :=
  match fuel with
  | 0 => []
  | fuel + 1 => if Q.le f t then f :: stepLevels (Q.norm (f + Q.ofInt step)) t step fuel else []

inductive Parsed where
  | bad
  | outside (why : String)          -- outside the property's domain: must be rejected
  | profile (parts : List Part)
  | boundary                        -- step whose number of levels depends on float64 rounding of from + j·step

def parseOne (kv : List (String × String)) : Parsed :=
  let q (k : String) := (lookup kv k).bind Q.parse?
  let durOk (d : Int) := d ≥ 1000000
  match getS kv "kind" with
  | "const" =>
      match q "ops", getI? kv "dur" with
      | some ops, some d =>
          if !qNonneg ops then .outside "ops<0" else if !durOk d then .outside "duration<1ms"
          else .profile [Part.const ops d]
      | _, _ => .bad
  | "line" =>
      match q "from", q "to", getI? kv "dur" with
      | some f, some t, some d =>
          if !qNonneg f then .outside "from<0" else if !qNonneg t then .outside "to<0"
          else if !durOk d then .outside "duration<1ms"
          else if qEq f t then .profile [Part.const f d] else .profile [Part.line f t d]
      | _, _, _ => .bad
  | "step" =>
      match q "from", q "to", getI? kv "step", getI? kv "dur" with
      | some f, some t, some s, some d =>
          if !qNonneg f then .outside "from<0" else if !qNonneg t then .outside "to<0"
          else if s < 1 then .outside "step<1" else if !durOk d then .outside "duration<1ms"
          else if qEq f t then .profile [Part.const f d]
          else
            let levels := stepLevels f t s 100000
            -- Go accumulates `i += step` in float64; that is exact when every partial sum is a float64
            let next := match levels.getLast? with
              | some r => Q.norm (r + Q.ofInt s)
              | none => f
            let exact := (next :: levels).all isF64
            let eps := Q.norm (t * Q.ofInt (levels.length + 1) * Q.pow2neg 52)
            let near := match levels.getLast? with
              | some r => Q.le (t - r) eps || Q.le (next - t) eps
              | none => Q.le (f - t) eps
            if !exact && near then .boundary
            else .profile (levels.map fun r => Part.const r d)
      | _, _, _, _ => .bad
  | "once" =>
      match getI? kv "times" with
      | some n => if n < 1 then .outside "times<1" else .profile [Part.once n]
      | none => .bad
  | _ => .bad

/-- `kind=seq` (round 6): an rps LIST of profiles, `seq=<part>|<part>|…` with
`part = const:<ops>:<dur> | line:<from>:<to>:<dur> | step:<from>:<to>:<step>:<dur> | once:<times> | list(<part>;…)`.
The list's operation stream is the concatenation of each part's own stream, part j starting where part j−1 finished: the
parts of the flattened list laid end to end (a step profile contributes one const part per rate level). -/
def atomKV (a : String) : Option (List (String × String)) :=
  match a.splitOn ":" with
  | ["const", ops, d] => some [("kind", "const"), ("ops", ops), ("dur", d)]
  | ["line", f, t, d] => some [("kind", "line"), ("from", f), ("to", t), ("dur", d)]
  | ["step", f, t, s, d] => some [("kind", "step"), ("from", f), ("to", t), ("step", s), ("dur", d)]
  | ["once", n] => some [("kind", "once"), ("times", n)]
  | _ => none

def seqAtoms (s : String) : List String :=
  (s.splitOn "|").flatMap fun p =>
    match p.splitOn "list(" with
    | ["", rest] =>
        match rest.splitOn ")" with
        | inner :: _ => inner.splitOn ";"
        | [] => [p]
    | _ => [p]

def combineParsed (ps : List Parsed) : Parsed :=
  if ps.isEmpty || ps.any (fun p => match p with | .bad => true | _ => false) then .bad
  else match ps.find? (fun p => match p with | .outside _ => true | _ => false) with
    | some o => o
    | none =>
      if ps.any (fun p => match p with | .boundary => true | _ => false) then .boundary
      else .profile (ps.flatMap fun p => match p with | .profile parts => parts | _ => [])

def parse (kv : List (String × String)) : Parsed :=
  if getS kv "kind" == "seq" then
    combineParsed ((seqAtoms (getS kv "seq")).map fun a =>
      match atomKV a with
      | some kv' => parseOne kv'
      | none => .bad)
  else parseOne kv

def parseToks (s : String) : Option (List (Int × Int)) :=
  (splitList s ";").mapM fun kt =>
    match kt.splitOn ":" with
    | [k, t] => do pure ((← k.toInt?), (← t.toInt?))
    | _ => none

def parseObs (kv : List (String × String)) : Option Obs := do
  pure { left0 := ← getI? kv "left0", n := ← getI? kv "n", fin := ← getI? kv "fin",
         finStable := getS kv "finstable" == "1", mono := getS kv "mono" == "1",
         tmin := (getI? kv "tmin").getD 0, tmax := (getI? kv "tmax").getD 0,
         parts := (lookup kv "parts").bind parseInts,
         toks := ← parseToks (getS kv "toks") }

/-- The harness stops draining after `capTokens` tokens and answers `TOOMANY`: acceptable exactly when the profile
    is expected to hold more tokens than that (the count check then cannot be made; counted as skipped). -/
def capTokens : Int := 3000000

/-- more operations than an int64 can count: outside what the float64/int64 reading of the theorems covers -/
def int64Max : Int := 9223372036854775807

def judgeTooMany (parts : List Part) : String :=
  let hi := sumI (parts.map fun p => p.countRange.2)
  if hi > capTokens then "skip:too-many-tokens" else s!"fail:count:n>{capTokens} expected<={hi}"

/-- `start=implicit`: the schedule was never told its start, the first `Next()` took `time.Now()` as the profile's start
(`C01_implicit_start`). The harness reports offsets relative to a clock reading `before` taken just before that call and
`slack` = the width of the bracket [before, after] around the call. The start is `s = fin − (expected length)` (an
exhausted profile reports start + duration); it must lie inside the bracket; everything else is judged relative to it. -/
def rebase (parts : List Part) (slack : Int) (sest : Option Int) (o : Obs) : Except String Obs :=
  let s := o.fin - sumI (parts.map Part.dur)
  -- step profiles: the harness counted the tokens per level slot from the start `sest` it read off the finish time
  -- (fin mod level duration). That is the start unless the start lies a whole level duration or more after the clock
  -- reading — possible only when the bracket is that wide (1 ms levels on a stalled machine): nothing can be said then.
  if 0 ≤ s && s ≤ slack && sest.isSome && sest != some s then .error "skip:inconclusive-start"
  else if s < 0 || s > slack then
    .error s!"fail:start:never Start()ed: finish time minus the profile's length = {s} ns after the clock reading taken before the first Next(), which returned {slack} ns after it"
  else
    .ok { o with fin := o.fin - s, tmin := if o.n > 0 then o.tmin - s else o.tmin,
                 tmax := if o.n > 0 then o.tmax - s else o.tmax, toks := o.toks.map fun (k, t) => (k, t - s) }

/-- `drain=0` on a LEAF profile: the harness moved the operation counter to the middle, to 7/8 and to the last two
operations (`fftoks`), then asked once more (`ffover`: -1 the end was reported before operation left0−1, 1 an operation was
handed out beyond left0−1; `fffin`: the instant reported with the end; `ffleft`: `Left()` after that). Every operation
below the smallest accepted count must pass the acceptance test at its own index, instants must not decrease, the end is
at start + duration and nothing is left. -/
def judgeFF (p : Part) (left0 : Int) (kv : List (String × String)) : String :=
  match lookup kv "fftoks" with
  | none => "ok"
  | some ft =>
    match parseToks ft, getI? kv "ffover", getI? kv "fffin", getI? kv "ffleft" with
    | some toks, some over, some fin, some left =>
        if over == -1 then s!"fail:count:Next() reported the end before operation {left0 - 1}, Left() before start = {left0}"
        else if over == 1 then s!"fail:count:Next() handed out an operation after operation {left0 - 1}, Left() before start = {left0}"
        else if fin != p.dur then s!"fail:finish:fin={fin} expected={p.dur} (after operation {left0 - 1})"
        else if left != 0 then s!"fail:left:Left() = {left} after the last operation"
        else
          match toks.find? fun (k, t) => k < p.countRange.1 && !(p.tokenOk k t) with
          | some (k, t) => s!"fail:time:k={k} t={t}"
          | none =>
            let ts := toks.map (·.2)
            if (List.zip ts (ts.drop 1)).any fun (a, b) => b < a then "fail:order:token times decrease"
            else if toks.any fun (_, t) => t < 0 || t > p.dur then s!"fail:bounds:an operation outside [0, {p.dur}]"
            else "ok"
    | _, _, _, _ => "fail:crash:unparsable fast-forward observation"

/-- `drain=0`: a profile too large to drain (more than 2³¹ operations). Observed: `Left()` before the start, `Left()` after
`Start` and the first few `Next()`, and those first operations. The count must be in the accepted range (sum over the
parts), `Left()` must have gone down by the number of operations taken, and each of them must pass the acceptance test of
the first part (they belong to it as long as the first part is expected to hold more operations than were taken). -/
def judgeLeftOnly (parts : List Part) (kv : List (String × String)) : String :=
  match getI? kv "left0", getI? kv "left1", parseToks (getS kv "toks") with
  | some left0, some left1, some toks =>
      let lo := sumI (parts.map fun p => p.countRange.1)
      let hi := sumI (parts.map fun p => p.countRange.2)
      if left0 < lo || left0 > hi then s!"fail:left:Left() before start = {left0}, the profile holds [{lo},{hi}] operations"
      else if left1 != left0 - toks.length then
        s!"fail:left:Left() = {left1} after {toks.length} of {left0} operations were handed out"
      else if toks.length < 8 && (toks.length : Int) != left0 then
        s!"fail:count:Next() reported the end after {toks.length} operations, Left() before start = {left0}"
      else
        match parts with
        | p :: rest =>
            if p.countRange.1 < toks.length then "ok"
            else match toks.find? fun (k, t) => !(p.tokenOk k t) with
              | some (k, t) => s!"fail:time:k={k} t={t}"
              | none => if rest.isEmpty then judgeFF p left0 kv else "ok"
        | [] => "ok"
  | _, _, _ => s!"fail:crash:unparsable observation"

def handle0 : Handler := fun input impl =>
  match parse (parseKV input) with
  | .bad => ("-", "fail:driver:unparsable input")
  | .outside why =>
      ("REJECT", if impl == "REJECT" then "ok" else s!"fail:validation:accepted a configuration outside the domain ({why})")
  | .boundary => ("-", if impl == "REJECT" then "fail:validation:rejected a valid profile" else "skip:level-boundary")
  | .profile parts =>
    if impl == "NODOC" then ("-", "skip:no-such-documented-example")
    else if impl == "REJECT" && (lookup (parseKV input) "doc").isSome then
      ("-", "fail:doc-example:the load profile exactly as written in docs/*/load-profile.md is rejected by the config decoder")
    else if impl == "REJECT" then ("-", "fail:validation:rejected a valid profile")
    else if impl == "TOOMANY" then ("-", judgeTooMany parts)
    else if impl == "HANG" then ("-", "fail:hang:the schedule did not finish")
    else if impl.startsWith "PANIC" then ("-", s!"fail:panic:{impl.take 160}")
    else if sumI (parts.map fun p => p.countRange.2) > int64Max then ("-", "skip:more-than-int64-operations")
    else if impl.startsWith "LEFTONLY " then ("-", judgeLeftOnly parts (parseKV (impl.drop 9).toString))
    else
      match parseObs (parseKV impl) with
      | some obs =>
        let v :=
          match getI? (parseKV impl) "slack" with
          | some slack =>
              match rebase parts slack (getI? (parseKV impl) "sest") obs with
              | .ok obs' => judge parts obs'
              | .error e => e
          | none => judge parts obs
        -- Left() asked while one consumer drains the profile: what is left is what was there minus what was handed out
        match lookup (parseKV impl) "leftmid" with
        | some lm =>
            if v == "ok" then
              ("-", s!"fail:left:Left() while draining (operations handed out : Left()) = {lm}, Left() before start = {obs.left0}")
            else ("-", v)
        | none => ("-", v)
      | none => ("-", s!"fail:crash:unparsable observation {impl.take 80}")

/-- `warm=1` cases (another profile of the same kind was decoded earlier in the same process) report their failures
under a key of their own: such an input reproduces on its own, whereas a profile that merely ran next to it in the same
driver process may not. The original key is kept in the detail. -/
def handle : Handler := fun input impl =>
  let (m, v) := handle0 input impl
  if v.startsWith "fail:" && (lookup (parseKV input) "warm") == some "1" then
    (m, "fail:after-another-profile:" ++ (v.drop 5).toString)
  else (m, v)

end Pandora.Drv.C01
