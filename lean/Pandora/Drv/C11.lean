import Pandora.Drv.Util
import Pandora.Spec.C11
import Pandora.Gen.InstLoop

namespace Pandora.Drv.C11
open Pandora.Drv Pandora.Spec.C11

def tbl := Pandora.Gen.Locks.table

def dashList (s : String) : List String := if s == "-" then [] else splitList s

def listDash (l : List String) : String := if l.isEmpty then "-" else ",".intercalate l

def cfgOf (kv : List (String × String)) : PoolCfg :=
  { kind := getS kv "kind", sharedClient := (getS kv "sc" "0") != "0",
    reuse := getS kv "pre" == "1" || getS kv "arr" == "1" }

/-- `3.0.1` → the entries of `tab` -/
def deref (tab : List String) (s : String) : List String :=
  (s.splitOn ".").map fun t => match t.toNat? with
    | some i => tab.getD i s!"?{t}"
    | none => s!"?{t}"

/-- the observation could not be taken (environment, child process, timeout): nothing to judge -/
def inconclusive (impl : String) : Option String :=
  if impl.startsWith "ENV" then some "skip:inconclusive-env"
  else if impl.startsWith "HANG" then some "skip:inconclusive-hang"
  else if impl.startsWith "CHILD-FAILED" then some "skip:inconclusive-child"
  else none

/-- `races=` / `fatal=` appended by the -race build to a deterministic case -/
def extraConc (okv : List (String × String)) : Option String :=
  match lookup okv "fatal", lookup okv "races" with
  | some f, _ => some s!"fail:fatal:{f}"
  | none, some r => some (raceVerdict r)
  | none, none => none

def handle0 : Handler := fun input impl =>
  let kv := parseKV input
  let okv := parseKV impl
  match inconclusive impl with
  | some v => ("-", v)
  | none =>
  -- the real code panicked inside a Shoot of a single-goroutine case (the framework recovered it): a runtime fault
  if impl.startsWith "PANIC" then ("-", s!"fail:fatal:{impl.take 160}") else
  match getS kv "mode" with
  | "locks" =>
    ("static", match judgeStatic tbl Pandora.Gen.Locks.closures Pandora.Gen.Locks.handoverSites Pandora.Gen.Locks.pkgVars Pandora.Gen.Locks.ammoFlows Pandora.Gen.Locks.pooledEscapes Pandora.Gen.Locks.ammoWrites with
      | "ok" => (match judgeComponentVars Pandora.Gen.Locks.pkgVars with
        | "ok" => (match judgeSetupCallers Pandora.Gen.Locks.setupCallers with
          | "ok" => judgeLoop Pandora.Gen.InstLoop.iterBody
          | v => v)
        | v => v)
      | v => v)
  | "alias" =>
    let c := cfgOf kv
    let o : AliasObs := { guns := getS okv "guns", ammo := getS okv "ammo", served := getS okv "served",
                          shared := dashList (getS okv "shared" "-"), mutated := dashList (getS okv "mutated" "-"),
                          latemut := dashList (getS okv "latemut" "-"), closures := dashList (getS okv "closures" "-") }
    -- http ammo are struct values (`ammo=value`), scenario and grpc ammo are pointers
    let ammo := if c.kind ∈ ["uri", "uripost", "raw", "httpjson"] then "value" else "distinct"
    -- what the shots publish (late), what later shots write of it (latemut) and the closure objects in reach are not
    -- predicted: they are judged (a harmless new cache changes them)
    let mobs := s!"guns=distinct ammo={ammo} served=yes shared={listDash (expectedShared c)} mutated={listDash (expectedMutated c)} late={getS okv "late" "-"} latemut={getS okv "latemut" "-"} closures={getS okv "closures" "-"}"
    (mobs, (extraConc okv).getD (judgeAlias tbl o))
  | "ammo" =>
    match lookup okv "tab", lookup okv "acq", lookup okv "shot", lookup okv "solo" with
    | some tab, some acq, some shot, some solo =>
      let c := cfgOf kv
      let tb := tab.splitOn ";"
      let o : AmmoObs := { acq := deref tb acq, shot := deref tb shot, solo := deref tb solo,
                           altered := dashList (getS okv "altered" "-"), shared := dashList (getS okv "shared" "-") }
      let v := judgeAmmo o
      -- the model: every delivery is what the first pass of a fresh pool delivers for that file position, when it is
      -- acquired and when it is shot; nothing another instance holds changes; outstanding ammo share read-only units only
      let mobs := s!"served=yes tab={tab} acq={solo} shot={solo} solo={solo} altered={listDash (o.altered.filter syncLabel)} shared={listDash (o.shared.filter (ammoSharedAllowed c).contains)}"
      (if v == "ok" then mobs else "-", if v != "ok" then v else (extraConc okv).getD "ok")
    | _, _, _, _ => ("-", (extraConc okv).getD s!"fail:crash:unparsable observation {impl.take 120}")
  | "wrap" =>
    match lookup okv "idx" with
    | some got =>
      let n : Int := ((getN? kv "len").getD 1 : Nat)
      let pred := wrapPrediction (getS kv "obj") (getS kv "idx") n ((getN? kv "ctr").getD 0) ((getN? kv "calls").getD 0)
      (s!"idx={",".intercalate (pred.map showIdx)}", judgeWrap n (got.splitOn ","))
    | none => ("-", s!"fail:crash:unparsable observation {impl.take 120}")
  | "retain" =>
    match getN? okv "calls", lookup okv "drift" with
    | some _, some d =>
      let v := judgeRetain (dashList d)
      (s!"calls={(getN? kv "calls").getD 0} drift=-", if v != "ok" then v else (extraConc okv).getD "ok")
    | _, _ => ("-", (extraConc okv).getD s!"fail:crash:unparsable observation {impl.take 120}")
  | "isolate" =>
    match lookup okv "together", lookup okv "solo" with
    | some tg, some so =>
      let o : IsolateObs := { together := tg.splitOn ";", solo := so.splitOn ";" }
      let chains := ((getS kv "chains").splitOn ";").mapM Pandora.Model.C11.parseChain
      let toks := ((getS kv "toks").splitOn ";").map fun t => if t == "_" then none else some t
      let mobs :=
        if getS kv "kind" == "grpcscen" then
          let e := ";".intercalate (toks.map isolateEchoGrpc); s!"together={e} solo={e}"
        else match chains with
        | some cs => match toks.mapM (isolateEcho cs) with
          | some es => let e := ";".intercalate es; s!"together={e} solo={e}"
          | none => "-"
        | none => "-"
      let v := judgeIsolate o
      (if v == "ok" then mobs else "-", if v != "ok" then v else (extraConc okv).getD "ok")
    | _, _ => ("-", (extraConc okv).getD s!"fail:crash:unparsable observation {impl.take 120}")
  | "pools" =>
    match lookup okv "sent" with
    | some sent =>
      let tags := (getS kv "tags").splitOn ";"
      let order := getS kv "order"
      let par := getS kv "par" == "1"
      let v := judgePools tags order par (sent.splitOn ";")
      let mobs := s!"sent={";".intercalate (poolsExpected tags order par)}"
      (if v == "ok" then mobs else "-", if v != "ok" then v else (extraConc okv).getD "ok")
    | none => ("-", (extraConc okv).getD s!"fail:crash:unparsable observation {impl.take 120}")
  | "handover" =>
    match getN? okv "shots", getN? okv "reports", lookup okv "words" with
    | some sh, some rp, some ws =>
      let shots := (getN? kv "shots").getD 1
      let steps := (getN? kv "steps").getD 1
      let failat := (getN? kv "failat").getD steps
      let per := reportsPerShot (getS kv "kind") (getS kv "fail" "none") steps failat
      let words := (dashList ws).map fun t => match t.splitOn ":" with
        | [w, n] => (w, n.toNat!)
        | _ => (t, 0)
      let v := judgeHandover { shots := sh, reports := rp, words := words }
      -- a sample reported twice also changes the count: the Spec verdict names the cause, the prediction is not
      -- compared in that case
      let mobs := if v == "ok" then s!"shots={shots} reports={shots * per} words=TWG:{shots * per}" else "-"
      (mobs, if v != "ok" then v else (extraConc okv).getD "ok")
    | _, _, _ => ("-", (extraConc okv).getD s!"fail:crash:unparsable observation {impl.take 120}")
  | "guns" =>
    match getN? kv "n", getN? okv "created", getN? okv "distinct", getN? okv "maxoverlap", getN? okv "maxgoroutines" with
    | some n, some cr, some di, some mo, some mg =>
      let m := modelGuns n
      let mobs := s!"run=- created={m.created} distinct={m.distinct} maxoverlap={m.maxoverlap} maxgoroutines={m.maxgoroutines} served=yes"
      let v := judgeGuns { created := cr, distinct := di, maxoverlap := mo, maxgoroutines := mg }
      (mobs, if v != "ok" then v else (extraConc okv).getD "ok")
    | _, _, _, _, _ => ("-", (extraConc okv).getD s!"fail:crash:unparsable observation {impl.take 120}")
  | "race" =>
    let o : ConcObs := { fatal := getS okv "fatal" "-", detector := getS okv "detector", races := getS okv "races" "-" }
    let served := if servedExpected (getS kv "fail" "none") ((getN? kv "failat").getD 0) then "yes" else "no"
    -- round 6: a whole pool that did not finish within the driver's time limit on an overloaded machine (thousands of shots
    -- under the race detector at load > 150) and showed neither a race nor a fatal error: inconclusive, not a disagreement
    if getS okv "run" == "timeout" && o.fatal == "-" && o.races == "-" then ("-", "skip:inconclusive-timeout") else
    (s!"run=- served={served} samples=yes fatal=- detector={o.detector} races=-", judgeConc tbl [] o)
  | "hammer" =>
    let o : ConcObs := { fatal := getS okv "fatal" "-", detector := getS okv "detector", races := getS okv "races" "-" }
    let calls := (getN? kv "n").getD 0 * (getN? kv "calls").getD 0
    -- a joint result the goroutines' calls must have (ammo ids pairwise distinct): broken without any data race when an
    -- update is made of two atomic halves
    let v := if (getS okv "run").startsWith "dup" then
        s!"fail:lost-update:{getS kv "obj"}: {(getS okv "run").drop 4} of the values handed to {(getN? kv "n").getD 0} goroutines were handed out twice"
      else judgeConc tbl (hammerLocks (getS kv "obj")) o
    (s!"run=- calls={calls} fatal=- detector={o.detector} races=-", v)
  | m => ("-", s!"fail:driver:unknown mode {m}")

/-- a case whose only failure is a race of the class `race-own-trace` (the defect of round 4, repaired in /repo by
b541158; no open finding: it is a violation like any other): nothing is predicted for it (the race reports are part of
the observation), the Spec verdict carries the failure -/
def handle : Handler := fun input impl =>
  let r := handle0 input impl
  if r.2.startsWith "fail:race-own-trace" then ("-", r.2) else r

end Pandora.Drv.C11
