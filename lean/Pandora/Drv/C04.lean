import Pandora.Drv.Util
import Pandora.Model.C04
import Pandora.Spec.C04
import Pandora.Spec.C04Prof

namespace Pandora.Drv.C04
open Pandora.Drv Pandora.Model.C04 Pandora.Spec.C04
open Pandora.Spec (Q)

def parseEntry (s : String) : Option Entry :=
  match s.splitOn ":" with
  | [t, p, r, d] => do
      let c ← d.toList.head?
      pure { tok := ← t.toInt?, pick := ← p.toInt?, ret := ← r.toInt?, dec := c }
  | _ => none

def parseSeqs (s : String) : Option (List (List Entry)) :=
  (splitList s "|").mapM fun q => (splitList q ",").mapM parseEntry

def parseObs (kv : List (String × String)) : Option Obs := do
  pure { endT := ← getI? kv "end", stall := (getI? kv "stall").getD 0, err := getS kv "err", total := ← getN? kv "total", bad := ← getN? kv "bad",
         net := getS kv "net" "-", tag := getS kv "tag" "-", offs := ← parseInts (getS kv "offs"),
         seqs := ← parseSeqs (getS kv "seq") }

def parseProcObs (kv : List (String × String)) : Option ProcObs := do
  pure { rc := getS kv "rc", total := ← getN? kv "total", fired := ← getN? kv "fired", disc := ← getN? kv "disc",
         bad := ← getN? kv "bad", served := ← getN? kv "served", minDisc := ← getN? kv "mindisc",
         recv := ← getN? kv "recv", errs := ← getN? kv "errs", why := getS kv "why" "-",
         pools := ← (splitList (getS kv "pp") ",").mapM fun q =>
           match q.splitOn ":" with
           | [f, d, b] => do pure (← f.toNat?, ← d.toNat?, ← b.toNat?)
           | _ => none }

/-- duration of `once:N` / `const:OPS:MS` / `line:FROM:TO:MS` / `step:FROM:TO:STEP:MS` (MS per step) joined by `+`, ns -/
def profDur (p : String) : Option Int :=
  (p.splitOn "+").foldlM (init := (0 : Int)) fun acc seg =>
    match seg.splitOn ":" with
    | ["once", _] => some acc
    | ["const", _, ms] => (ms.toInt?).map (fun m => acc + m * 1000000)
    | ["pause", ms] => (ms.toInt?).map (fun m => acc + m * 1000000)
    | ["line", _, _, ms] => (ms.toInt?).map (fun m => acc + m * 1000000)
    | ["step", f, t, st, ms] => do
        let f ← f.toInt?; let t ← t.toInt?; let st ← st.toInt?; let m ← ms.toInt?
        if st ≤ 0 || t < f then none
        else
          let steps : Int := if f == t then 1 else (t - f) / st + 1
          some (acc + steps * m * 1000000)
    | _ => none

/-- a non-negative decimal number ("12", "0.4", "1.25") as an exact rational -/
def parseDec (s : String) : Option Q :=
  match s.splitOn "." with
  | [a] => (a.toNat?).map fun n => Q.ofInt n
  | [a, b] => do
      let an ← a.toNat?
      let bn ← b.toNat?
      let den := 10 ^ b.length
      some (Q.norm ⟨(an * den + bn : Nat), den⟩)
  | _ => none

/-- rate levels from, from+step, … ≤ to of a step profile -/
def stepLevelsQ (f t : Q) (step : Int) : Nat → List Q
  | 0 => []
  | fuel + 1 => if Q.le f t then f :: stepLevelsQ (Q.norm (f + Q.ofInt step)) t step fuel else []

/-- the configured profile as the parts of `Pandora.Spec.C01` (the oracle of `Spec.C04.judgeFull`); `none` = not readable -/
def profParts (p : String) : Option (List Part) :=
  (p.splitOn "+").foldlM (init := ([] : List Part)) fun acc seg =>
    match seg.splitOn ":" with
    | ["once", n] => (n.toInt?).map fun n => acc ++ [Spec.C01.Part.once n]
    | ["const", ops, ms] => do
        let o ← parseDec ops; let m ← ms.toInt?
        some (acc ++ [Spec.C01.Part.const o (m * 1000000)])
    | ["pause", ms] => (ms.toInt?).map fun m => acc ++ [Spec.C01.Part.const (Q.ofInt 0) (m * 1000000)]
    | ["line", f, t, ms] => do
        let f ← parseDec f; let t ← parseDec t; let m ← ms.toInt?
        if f.num * t.den == t.num * f.den then some (acc ++ [Spec.C01.Part.const f (m * 1000000)])
        else some (acc ++ [Spec.C01.Part.line f t (m * 1000000)])
    | ["step", f, t, st, ms] => do
        let f ← parseDec f; let t ← parseDec t; let st ← st.toInt?; let m ← ms.toInt?
        if st ≤ 0 then none
        else if f.num * t.den == t.num * f.den then some (acc ++ [Spec.C01.Part.const f (m * 1000000)])
        else some (acc ++ (stepLevelsQ f t st 10000).map fun r => Spec.C01.Part.const r (m * 1000000))
    | _ => none

def parseRounds (s : String) : Option (List Round) :=
  (splitList s ";").mapM fun r =>
    match r.splitOn "/" with
    | [rs, q] => do pure { rs := ← rs.toInt?, seqs := ← parseSeqs q }
    | _ => none

def cancelAt (kv : List (String × String)) : Option Int :=
  match lookup kv "cancel" with
  | some c => (c.toInt?).map (· * 1000000)
  | none => some 0

def parseInput (kv : List (String × String)) : Option Input := do
  let mode := getS kv "mode"
  if mode == "waiter" then
    pure { mode, discard := true, profDur := 0, maxResp := 0, cancelled := (lookup kv "cancel").isSome,
           cancelAt := ← cancelAt kv }
  else if mode == "engine" then
    let resp ← parseInts (getS kv "resp" "0")
    pure { mode, discard := getS kv "discard" == "1", profDur := ← profDur (getS kv "prof"),
           maxResp := resp.foldl (fun a b => max a (b * 1000000)) 0, cancelled := (lookup kv "cancel").isSome,
           perInst := getS kv "perinst" == "1", cancelAt := ← cancelAt kv,
           startDur := ← (match lookup kv "startup" with | some p => profDur p | none => some 0) }
  else none

/-- one iteration of the instance loop as observed, with the clock reading placed at `now` -/
def iterOf (e : Entry) (now : Int) : Iter :=
  { finished := false, ammoOk := true, ctxDoneSlow := false, dur := 0,
    env := { ctxDone := e.dec == '-', tok := some e.tok, pick := e.pick, now := now, arm := now, timerWins := true, ret := e.ret } }

def decOf : List Ev → Char
  | [.shoot _] => 'F'
  | [.discard _ _] => 'D'
  | _ => '-'

/-- Run the (repaired) model over one instance's observed history twice: with every clock reading at the earliest
possible instant (`pick`) and at the latest (`ret`).  Returns the predicted entries and the number of decisions on which the
two runs differ (those are copied from the observation). -/
def predictSeq (discard cancelled : Bool) : Waiter → Waiter → List Entry → List Entry × Nat
  | _, _, [] => ([], 0)
  | wlo, whi, e :: rest =>
    let ilo := iterOf e e.pick
    let ihi := iterOf e (if e.dec == '-' then e.pick else e.ret)
    let dlo := decOf (runLoop .fresh discard wlo [ilo]).1
    let dhi := decOf (runLoop .fresh discard whi [ihi]).1
    let wlo' := (waitV .fresh wlo ilo.env).w
    let whi' := (waitV .fresh whi ihi.env).w
    let (ps, amb) := predictSeq discard cancelled wlo' whi' rest
    -- in a cancelled run `IsSlowDown` may have seen the done context (answers false): a predicted discard that was fired is
    -- not decidable from the observation
    if dlo == dhi && !(cancelled && dlo == 'D' && e.dec == 'F') then ({ e with dec := dlo } :: ps, amb)
    else (e :: ps, amb + 1)

def renderSeqs (ss : List (List Entry)) : String :=
  "|".intercalate (ss.map fun s => ",".intercalate (s.map fun e => s!"{e.tok}:{e.pick}:{e.ret}:{e.dec}"))

def handleProc (kv : List (String × String)) (impl : String) : String × String :=
  let given : Option (List (Option Bool)) := ((getS kv "given").splitOn ",").mapM fun g =>
    match g with
    | "none" => some none
    | "true" => some (some true)
    | "false" => some (some false)
    | _ => none
  match given, parseProcObs (parseKV impl) with
  | some g, some o => ("-", judgeProc g o)
  | none, _ => ("-", "fail:driver:unparsable input")
  | _, none => ("-", s!"fail:crash:unparsable observation {impl.take 120}")

def handle : Handler := fun input impl =>
  -- the framework's observations of a run that did not end / that panicked
  if impl.startsWith "HANG" then
    ("-", "fail:run-bound:the run did not end within the driver's time limit (HANG): no progress, the run length is not bounded")
  else if impl.startsWith "PANIC" then ("-", s!"fail:panic:{impl.take 160}")
  else
  if getS (parseKV input) "mode" == "proc" then handleProc (parseKV input) impl else
  if getS (parseKV input) "mode" == "race" then
    match profParts (getS (parseKV input) "prof"), parseRounds (getS (parseKV impl) "seq") with
    | some ps, some rounds => ("-", judgeRace ps rounds)
    | none, _ => ("-", "fail:driver:unparsable profile")
    | _, none => ("-", s!"fail:crash:unparsable observation {impl.take 120}")
  else
  match parseInput (parseKV input), parseObs (parseKV impl) with
  | some i, some o =>
    let pr := o.seqs.map (predictSeq i.discard i.cancelled Waiter.init Waiter.init)
    let seqs := pr.map (·.1)
    let amb := (pr.map (·.2)).foldl (· + ·) 0
    let anyD := seqs.any (·.any (·.dec == 'D'))
    let (net, tag) := if i.mode == "engine" && anyD then (toString discardNetCode, discardTag) else ("-", "-")
    let offs := if i.mode == "engine" then s!" offs={",".intercalate (o.offs.map toString)}" else ""
    let st := if i.mode == "engine" then s!" stall={o.stall}" else ""
    let mobs := s!"end={o.endT}{st} err={o.err} total={o.total} bad=0 net={net} tag={tag}{offs} seq={renderSeqs seqs}"
    let v := judgeFull (profParts (getS (parseKV input) "prof")) i o
    let v := if v == "ok" && amb > 0 then s!"skip:inconclusive-{amb}-decisions-inside-the-reading-interval" else v
    (mobs, v)
  | none, _ => ("-", "fail:driver:unparsable input")
  | _, none => ("-", s!"fail:crash:unparsable observation {impl.take 120}")

end Pandora.Drv.C04
