import Pandora.Drv.Util

namespace Pandora.Drv.C04
open Pandora.Drv

/-- stub: replaced when the property's model driver is written -/
def handle : Handler := fun _ _ => ("-", "skip:not-built")

end Pandora.Drv.C04
