import Pandora.Drv.Util
import Pandora.Model.C14Hdr
import Pandora.Model.C14Fin
import Pandora.Model.C14Mid
import Pandora.Spec.C14

namespace Pandora.Drv.C14
open Pandora.Drv
open Pandora.Model.C08 hiding fullScan httpRun runFuel run
open Pandora.Model.C14 Pandora.Model.C14H

def parseFmt : String → Option Fmt
  | "uri" => some .uri | "uripost" => some .uripost | "raw" => some .raw
  | "jsonl" => some .jsonLines | "jsonarr" => some .jsonArray
  | _ => none

def parseRun (s : String) : Spec.C14.RunClass :=
  match s with
  | "nil" => .nil | "canceled" => .canceled | "limit" => .limit | "passes" => .passes
  | "noammo" => .noammo | "noreturn" => .noreturn | "construct" => .construct | "canceledw" => .canceledW
  | _ => if s.startsWith "fatal" then .fatal else .other

def parseEnd : String → Option Spec.C14.EndClass
  | "closed" => some .closed | "blocked" => some .blocked | "spinning" => some .spinning | "norun" => some .norun
  | "crashed" => some .crashed
  | _ => none

def classOf : RunRes → Spec.C14.RunClass
  | .nil => .nil | .canceled => .canceled | .errLimit => .limit | .errPasses => .passes
  | .errNoAmmo => .noammo | .errOther => .other

structure Line where
  kind : Fmt
  tags : List String
  cases : List String
  b : Bounds
  cap : Nat
  cell : Spec.C14.Cell
  src : Source            -- the same source with its header declarations (`fh=`, `ch=`)
  hdrInModel : Bool       -- the header declarations are of the kind the model reads
  hasFile : Bool          -- the source is a file (not inline `uris:`): its Close calls are observed
  closeFails : Bool       -- `cf=1` on a file source: closing the ammo file fails
  nUris : Nat             -- len(conf.Uris): 0 for a file source; otherwise the lines of the source (what matters: > 0)

/-- a tag / chosencases token of the input line: `_` = the empty tag, `~` = a space -/
def untok (s : String) : String :=
  if s == "_" then "" else s.map fun c => if c == '~' then ' ' else c

/-- `fh=0:X-A:1;2:x-a:2` -/
def parseFH (s : String) : Option (List (Nat × String × String)) :=
  if s.isEmpty || s == "-" then some [] else
  (s.splitOn ";").mapM fun p =>
    match p.splitOn ":" with
    | pos :: k :: v :: rest => pos.toNat?.map fun n => (n, k, String.intercalate ":" (v :: rest))
    | _ => none

/-- `ch=X-C:c1;Host:cfg.example` -/
def parseCH (s : String) : Option (List (String × String)) :=
  if s.isEmpty || s == "-" then some [] else
  (s.splitOn ";").mapM fun p =>
    match p.splitOn ":" with
    | k :: v :: rest => some (k, String.intercalate ":" (v :: rest))
    | _ => none

def mkSource (tags : List String) (fh : List (Nat × String × String)) (ch : List (String × String)) : Source :=
  { tags, ch, blocks := (List.range (tags.length + 1)).map fun i => (fh.filter (·.1 == i)).map (·.2) }

def valOk (v : String) : Bool := !v.isEmpty && v.toList.all fun c => c.isAlphanum || c == '.' || c == '-'

def noDupKeys : List (String × String) → Bool
  | [] => true
  | kv :: rest => !(rest.any fun q => canon q.1 == canon kv.1) && noDupKeys rest

/-- what the model reads: keys of letters / digits / `-`, plain values, positions inside the source (uri / uripost:
also after the last entry), per-entry formats declare a header at most once per entry and no Host -/
def hdrModelled (k : Fmt) (n : Nat) (fh : List (Nat × String × String)) (ch : List (String × String)) : Bool :=
  let perEntry := !(k == .uri || k == .uripost)
  fh.all (fun h => keyOk h.2.1 && valOk h.2.2 && (if perEntry then decide (h.1 < n) && canon h.2.1 != "Host" else decide (h.1 ≤ n)))
    && ch.all (fun h => keyOk h.1 && valOk h.2)
    && (!perEntry || (List.range n).all fun i => noDupKeys ((fh.filter (·.1 == i)).map (·.2)))

def parseLine (kv : List (String × String)) : Option Line := do
  let kind ← parseFmt (getS kv "fmt")
  let limit ← getN? kv "limit"
  let passes ← getN? kv "passes"
  let cap ← getN? kv "cap"
  let ts := getS kv "tags"
  let tags := if ts == "-" then [] else (splitList ts).map untok
  let cs := getS kv "cases"
  let cases := if cs == "-" then [] else (splitList cs).map untok
  let fh ← parseFH (getS kv "fh")
  let ch ← parseCH (getS kv "ch")
  let hasFile := getS kv "src" != "uris"
  -- the `uris:` list: one element per entry and per header line, plus the blank line the layouts 1 and 3 start with
  let junk := (getN? kv "junk").getD 0
  let nUris := if getS kv "src" == "uris" || getS kv "src" == "both"
    then tags.length + fh.length + (if junk == 1 || junk == 3 then 1 else 0) else 0
  pure { kind, tags, cases, b := ⟨limit, passes⟩, cap, cell := { tags, cases, limit, passes, cap },
         src := mkSource tags fh ch, hdrInModel := hdrModelled kind tags.length fh ch,
         hasFile, closeFails := hasFile && getS kv "cf" == "1", nUris }

/-- what the harness would observe on one side of the model (`cap` = the acquisition count at which it cancels;
`hasFile` = the source is a file whose Close calls are counted, `closeFails` = closing it fails): the path's outcome
followed by the epilogue of `Run` (`Model.C14.epilogue`; NewProvider always sets `p.Close`) -/
def sideOf (cap : Nat) (hasFile closeFails : Bool) : Option (Outcome Entry) → Spec.C14.Side
  | none => { seq := [], cut := false, run := .noreturn, end_ := .spinning }
  | some o =>
    let f := epilogue true closeFails (EV.ofRun o.run)
    { seq := o.delivered.map (·.id), cut := decide (0 < cap ∧ cap ≤ o.delivered.length), run := classOf f.err.run,
      end_ := if o.sinkClosed && f.sinkClosed then .closed else .blocked,
      runClose := f.err.close, closed := if hasFile then some f.closeCalls else none }

/-- a file that `NewProvider` rejects: nothing runs -/
def constructFailed : Spec.C14.Side := { seq := [], cut := false, run := .construct, end_ := .norun }

def modelSideOf (k : Fmt) (preload : Bool) (tags cases : List String) (b : Bounds) (cap : Nat)
    (hasFile closeFails : Bool) : Spec.C14.Side :=
  if constructs k tags.length then sideOf cap hasFile closeFails (run k preload tags cases b (if cap = 0 then none else some cap))
  else constructFailed

def modelSide (l : Line) (preload : Bool) : Spec.C14.Side :=
  modelSideOf l.kind preload l.tags l.cases l.b l.cap l.hasFile l.closeFails

/-- a cell whose context is cancelled BEFORE Run is called (`pre=1`; outside the property, compared with the model) -/
def modelSidePre (k : Fmt) (preload : Bool) (tags cases : List String) (b : Bounds) (hasFile closeFails : Bool) : Spec.C14.Side :=
  if constructs k tags.length then sideOf 0 hasFile closeFails (run k preload tags cases b (some 0)) else constructFailed

/-- the model's observation of a cell -/
def modelObsOf (k : Fmt) (tags cases : List String) (b : Bounds) (cap : Nat) (hasFile closeFails : Bool) : Spec.C14.Obs :=
  { s := modelSideOf k false tags cases b cap hasFile closeFails, p := modelSideOf k true tags cases b cap hasFile closeFails,
    tagsOk := true }

def showSeq (s : List Nat) : String := if s.isEmpty then "-" else String.intercalate "," (s.map toString)

/-- whether a run that never returns keeps reading the file (`spinning`) or not (`blocked`) is a diagnosis of the
watchdog, not predicted by the model: echoed from the implementation's observation -/
def showSide (p : String) (x : Spec.C14.Side) (implEnd : String) (implClosed : String := "-") : String :=
  let e := if x.run == .noreturn then implEnd else x.end_.name
  let c := if x.run == .noreturn then implClosed else x.closedToken
  s!"{p}.seq={showSeq x.seq} {p}.cut={if x.cut then 1 else 0} {p}.run={x.runToken} {p}.end={e} {p}.closed={c}"

/-- the canonical Host/headers text of a request of each entry -/
def ehdrOf (k : Fmt) (src : Source) : List String := (List.range src.tags.length).map (reqText k src)

/-- the model's observation of a cell with its requests -/
def modelObsHOf (k : Fmt) (src : Source) (cases : List String) (b : Bounds) (cap : Nat)
    (hasFile closeFails : Bool) : Spec.C14.ObsH :=
  let o := modelObsOf k src.tags cases b cap hasFile closeFails
  { base := o, reqOk := true, shd := Spec.C14.renderHd (ehdrOf k src) o.s.seq, phd := Spec.C14.renderHd (ehdrOf k src) o.p.seq }

def modelObs (l : Line) (ikv : List (String × String)) : String :=
  let o := modelObsHOf l.kind l.src l.cases l.b l.cap l.hasFile l.closeFails
  s!"{showSide "s" o.base.s (getS ikv "s.end" "spinning") (getS ikv "s.closed" "-")} {showSide "p" o.base.p (getS ikv "p.end" "spinning") (getS ikv "p.closed" "-")} tagsok=1 reqok=1 s.hd={o.shd} p.hd={o.phd}"

def parseSeq (s : String) : Option (List Nat) := if s == "-" then some [] else parseNats s

/-- `closeerr` = the error of Close alone (a non-nil error of none of the provider's classes), `<class>+closeerr` -/
def parseRunTok (r : String) : Spec.C14.RunClass × Bool :=
  if r == "closeerr" then (.other, true)
  else if r.endsWith "+closeerr" then (parseRun (r.dropEnd "+closeerr".length).toString, true)
  else (parseRun r, false)

def parseSide (kv : List (String × String)) (p : String) : Option Spec.C14.Side := do
  let rt := parseRunTok (getS kv (p ++ ".run"))
  pure { seq := ← parseSeq (getS kv (p ++ ".seq")), cut := getS kv (p ++ ".cut") == "1",
         run := rt.1, end_ := ← parseEnd (getS kv (p ++ ".end")), runClose := rt.2,
         closed := (getS kv (p ++ ".closed") "-").toNat? }

/-- round 6, `rc=K` (the context is cancelled inside the first Scan call of the run, `Model.C14.runMid` with `j = 0`):
one side of the model.  Which way the race of the streaming `select` went is read off the implementation's observation
(`sendWins` = the streaming side delivered something); the decoders hand the cancelled context on bare and loadAmmo
normalises (the facts `Bridge.C14.scan_ctx_source` / `loadFail_bare_source` tie to the source). -/
def midSide (l : Line) (preload sendWins : Bool) : Spec.C14.Side :=
  if !constructs l.kind l.tags.length then constructFailed else
  match runMid l.kind preload (mkFile l.tags) (isChosen l.cases) l.b .bare true ⟨0, false, sendWins⟩ (l.tags.length + 3) with
  | none => { seq := [], cut := false, run := .noreturn, end_ := .spinning }
  | some (out, e) =>
    { seq := out.map (·.id), cut := false,
      run := if e.run == .canceled && !e.recognised then .canceledW else classOf e.run,
      end_ := .closed, runClose := false, closed := if l.hasFile then some 1 else none }

def midObs (l : Line) (sendWins : Bool) : String :=
  let s := midSide l false sendWins
  let p := midSide l true sendWins
  let eh := ehdrOf l.kind l.src
  s!"{showSide "s" s "spinning"} {showSide "p" p "spinning"} tagsok=1 reqok=1 s.hd={Spec.C14.renderHd eh s.seq} p.hd={Spec.C14.renderHd eh p.seq}"

def handle : Handler := fun input impl =>
  match parseLine (parseKV input) with
  | none => ("-", "fail:driver:unparsable input")
  | some l =>
    let ikv := parseKV impl
    -- the layout of the file (`junk`), the source (`src=uris`) and the construction route (`via=yaml`) are invisible
    -- to the model: they must not change anything
    if getS (parseKV input) "pre" == "1" then
      -- not a configuration of the property: never a failure.  Where the implementation does what the model says the
      -- cell counts as a validated trace; where it does not (a tree that treats a pre-cancelled context differently)
      -- the cell is skipped.
      let m := s!"{showSide "s" (modelSidePre l.kind false l.tags l.cases l.b l.hasFile l.closeFails) "spinning"} {showSide "p" (modelSidePre l.kind true l.tags l.cases l.b l.hasFile l.closeFails) "spinning"} tagsok=1 reqok=1 s.hd=- p.hd=-"
      if m == impl then (m, "ok") else ("-", "skip:precancelled-context-differs-from-model")
    else
    if getS (parseKV input) "rc" != "" then
      -- round 6: the cancellation lands inside the first Scan call
      if Spec.C14.noMatch l.cell then ("-", "skip:midscan-cancel-with-nothing-chosen") else
      if !l.hdrInModel then ("-", "skip:header-declarations-outside-the-model") else
      if (getS ikv "s.run").startsWith "infra" || (getS ikv "p.run").startsWith "infra" then
        ("-", "skip:harness-child-could-not-run") else
      match parseSide ikv "s", parseSide ikv "p" with
      | some s, some p =>
        (midObs l (!s.seq.isEmpty), Spec.C14.judgeMid l.cell (ehdrOf l.kind l.src)
          { base := { s, p, tagsOk := getS ikv "tagsok" == "1" }, reqOk := getS ikv "reqok" == "1",
            shd := getS ikv "s.hd" "-", phd := getS ikv "p.hd" "-" })
      | _, _ => (midObs l false, s!"fail:crash:{impl.take 160}")
    else
    if l.cap == 0 then ("-", "skip:no-cap") else
    if !sourceAccepted l.kind l.nUris l.hasFile then
      -- NewProvider's source switch rejects this configuration, whatever `preload` says
      let m := s!"{showSide "s" constructFailed "norun"} {showSide "p" constructFailed "norun"} tagsok=1 reqok=1 s.hd=- p.hd=-"
      match parseSide ikv "s", parseSide ikv "p" with
      | some s, some p => (m, Spec.C14.judgeRejected { s, p, tagsOk := true })
      | _, _ => (m, s!"fail:crash:{impl.take 160}")
    else
    if !Spec.C14.noMatch l.cell && Spec.C14.inconclusive l.cell then ("-", "skip:cap-equals-count") else
    if !l.hdrInModel then ("-", "skip:header-declarations-outside-the-model") else
    if (getS ikv "s.run").startsWith "infra" || (getS ikv "p.run").startsWith "infra" then
      ("-", "skip:harness-child-could-not-run") else
    match parseSide ikv "s", parseSide ikv "p" with
    | some s, some p =>
      (modelObs l ikv, Spec.C14.judgeH l.cell (ehdrOf l.kind l.src)
        { base := { s, p, tagsOk := getS ikv "tagsok" == "1" }, reqOk := getS ikv "reqok" == "1",
          shd := getS ikv "s.hd" "-", phd := getS ikv "p.hd" "-" })
    | _, _ => (modelObs l [], s!"fail:crash:{impl.take 160}")

end Pandora.Drv.C14
