import Pandora.Drv.Util
import Pandora.Model.C14
import Pandora.Spec.C14

namespace Pandora.Drv.C14
open Pandora.Drv
open Pandora.Model.C08 hiding fullScan httpRun runFuel run
open Pandora.Model.C14

def parseFmt : String → Option Fmt
  | "uri" => some .uri | "uripost" => some .uripost | "raw" => some .raw
  | "jsonl" => some .jsonLines | "jsonarr" => some .jsonArray
  | _ => none

def parseRun (s : String) : Spec.C14.RunClass :=
  match s with
  | "nil" => .nil | "canceled" => .canceled | "limit" => .limit | "passes" => .passes
  | "noammo" => .noammo | "noreturn" => .noreturn | "construct" => .construct | _ => .other

def parseEnd : String → Option Spec.C14.EndClass
  | "closed" => some .closed | "blocked" => some .blocked | "spinning" => some .spinning | "norun" => some .norun
  | _ => none

def classOf : RunRes → Spec.C14.RunClass
  | .nil => .nil | .canceled => .canceled | .errLimit => .limit | .errPasses => .passes
  | .errNoAmmo => .noammo | .errOther => .other

structure Line where
  kind : Fmt
  tags : List String
  cases : List String
  b : Bounds
  cap : Nat
  cell : Spec.C14.Cell

/-- a tag / chosencases token of the input line: `_` = the empty tag, `~` = a space -/
def untok (s : String) : String :=
  if s == "_" then "" else s.map fun c => if c == '~' then ' ' else c

def parseLine (kv : List (String × String)) : Option Line := do
  let kind ← parseFmt (getS kv "fmt")
  let limit ← getN? kv "limit"
  let passes ← getN? kv "passes"
  let cap ← getN? kv "cap"
  let ts := getS kv "tags"
  let tags := if ts == "-" then [] else (splitList ts).map untok
  let cs := getS kv "cases"
  let cases := if cs == "-" then [] else (splitList cs).map untok
  pure { kind, tags, cases, b := ⟨limit, passes⟩, cap, cell := { tags, cases, limit, passes, cap } }

/-- what the harness would observe on one side of the model (`cap` = the acquisition count at which it cancels) -/
def sideOf (cap : Nat) : Option (Outcome Entry) → Spec.C14.Side
  | none => { seq := [], cut := false, run := .noreturn, end_ := .spinning }
  | some o => { seq := o.delivered.map (·.id), cut := decide (0 < cap ∧ cap ≤ o.delivered.length), run := classOf o.run,
                end_ := if o.sinkClosed then .closed else .blocked }

/-- a file that `NewProvider` rejects: nothing runs -/
def constructFailed : Spec.C14.Side := { seq := [], cut := false, run := .construct, end_ := .norun }

def modelSideOf (k : Fmt) (preload : Bool) (tags cases : List String) (b : Bounds) (cap : Nat) : Spec.C14.Side :=
  if constructs k tags.length then sideOf cap (run k preload tags cases b (if cap = 0 then none else some cap))
  else constructFailed

def modelSide (l : Line) (preload : Bool) : Spec.C14.Side := modelSideOf l.kind preload l.tags l.cases l.b l.cap

/-- the model's observation of a cell -/
def modelObsOf (k : Fmt) (tags cases : List String) (b : Bounds) (cap : Nat) : Spec.C14.Obs :=
  { s := modelSideOf k false tags cases b cap, p := modelSideOf k true tags cases b cap, tagsOk := true }

def showSeq (s : List Nat) : String := if s.isEmpty then "-" else String.intercalate "," (s.map toString)

/-- whether a run that never returns keeps reading the file (`spinning`) or not (`blocked`) is a diagnosis of the
watchdog, not predicted by the model: echoed from the implementation's observation -/
def showSide (p : String) (x : Spec.C14.Side) (implEnd : String) : String :=
  let e := if x.run == .noreturn then implEnd else x.end_.name
  s!"{p}.seq={showSeq x.seq} {p}.cut={if x.cut then 1 else 0} {p}.run={x.run.name} {p}.end={e}"

def modelObs (l : Line) (ikv : List (String × String)) : String :=
  s!"{showSide "s" (modelSide l false) (getS ikv "s.end" "spinning")} {showSide "p" (modelSide l true) (getS ikv "p.end" "spinning")} tagsok=1"

def parseSeq (s : String) : Option (List Nat) := if s == "-" then some [] else parseNats s

def parseSide (kv : List (String × String)) (p : String) : Option Spec.C14.Side := do
  pure { seq := ← parseSeq (getS kv (p ++ ".seq")), cut := getS kv (p ++ ".cut") == "1",
         run := parseRun (getS kv (p ++ ".run")), end_ := ← parseEnd (getS kv (p ++ ".end")) }

def handle : Handler := fun input impl =>
  match parseLine (parseKV input) with
  | none => ("-", "fail:driver:unparsable input")
  | some l =>
    let ikv := parseKV impl
    -- the layout of the file (`junk`), the source (`src=uris`) and the construction route (`via=yaml`) are invisible
    -- to the model: they must not change anything
    if l.cap == 0 then ("-", "skip:no-cap") else
    if l.tags.isEmpty && getS (parseKV input) "src" == "uris" then ("-", "skip:empty-uris-list-is-no-source") else
    if !Spec.C14.noMatch l.cell && Spec.C14.inconclusive l.cell then ("-", "skip:cap-equals-count") else
    match parseSide ikv "s", parseSide ikv "p" with
    | some s, some p =>
      (modelObs l ikv, Spec.C14.judge l.cell { s, p, tagsOk := getS ikv "tagsok" == "1" })
    | _, _ => (modelObs l [], s!"fail:crash:{impl.take 160}")

end Pandora.Drv.C14
