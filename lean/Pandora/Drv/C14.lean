import Pandora.Drv.Util
import Pandora.Drv.C08
import Pandora.Model.C14
import Pandora.Spec.C14

namespace Pandora.Drv.C14
open Pandora.Drv Pandora.Model.C08 Pandora.Model.C14

structure Line where
  kind : Kind
  tags : List String
  cases : List String
  b : Bounds
  cap : Nat
  cell : Spec.C14.Cell

def parseLine (kv : List (String × String)) : Option Line := do
  let kind ← C08.parseKind (getS kv "fmt")
  let limit ← getN? kv "limit"
  let passes ← getN? kv "passes"
  let cap ← getN? kv "cap"
  let tags := splitList (getS kv "tags")
  let cs := getS kv "cases"
  let cases := if cs == "-" then [] else splitList cs
  pure { kind, tags, cases, b := ⟨limit, passes⟩, cap, cell := { tags, cases, limit, passes, cap } }

/-- what the harness would observe on one side of the model -/
def sideOf (cap : Nat) : Option (Outcome Entry) → Spec.C14.Side
  | none => { seq := [], cut := false, run := .noreturn, end_ := .spinning }
  | some o => { seq := o.delivered.map (·.id), cut := decide (0 < cap ∧ cap ≤ o.delivered.length), run := C08.classOf o.run,
                end_ := if o.sinkClosed then .closed else .blocked }

def modelSide (l : Line) (preload : Bool) : Spec.C14.Side :=
  sideOf l.cap (run l.kind preload l.tags l.cases l.b (if l.cap = 0 then none else some l.cap))

def showSeq (s : List Nat) : String := if s.isEmpty then "-" else String.intercalate "," (s.map toString)

/-- whether a run that never returns keeps reading the file (`spinning`) or not (`blocked`) is a diagnosis of the
watchdog, not predicted by the model: echoed from the implementation's observation -/
def showSide (p : String) (x : Spec.C14.Side) (implEnd : String) : String :=
  let e := if x.run == .noreturn then implEnd else C08.endName x.end_
  s!"{p}.seq={showSeq x.seq} {p}.cut={if x.cut then 1 else 0} {p}.run={C08.runClassName x.run} {p}.end={e}"

def modelObs (l : Line) (ikv : List (String × String)) : String :=
  s!"{showSide "s" (modelSide l false) (getS ikv "s.end" "spinning")} {showSide "p" (modelSide l true) (getS ikv "p.end" "spinning")} tagsok={getS ikv "tagsok" "1"}"

def parseSeq (s : String) : Option (List Nat) := if s == "-" then some [] else parseNats s

def parseSide (kv : List (String × String)) (p : String) : Option Spec.C14.Side := do
  pure { seq := ← parseSeq (getS kv (p ++ ".seq")), cut := getS kv (p ++ ".cut") == "1",
         run := C08.parseRun (getS kv (p ++ ".run")), end_ := ← C08.parseEnd (getS kv (p ++ ".end")) }

def handle : Handler := fun input impl =>
  match parseLine (parseKV input) with
  | none => ("-", "fail:driver:unparsable input")
  | some l =>
    if l.tags.isEmpty then ("-", "skip:empty-file") else
    let ikv := parseKV impl
    match parseSide ikv "s", parseSide ikv "p" with
    | some s, some p =>
      (modelObs l ikv, Spec.C14.judge l.cell { s, p, tagsOk := getS ikv "tagsok" == "1" })
    | _, _ => (modelObs l [], s!"fail:crash:{impl.take 160}")

end Pandora.Drv.C14
