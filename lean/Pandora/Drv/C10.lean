import Pandora.Drv.Util
import Pandora.Model.C10
import Pandora.Model.C10R6
import Pandora.Spec.C10

/-!
C10 model driver: for one input line of harness/cmd/c10 computes the model's prediction of the observation line and
the Spec's verdict on what the real guns reported.

Error chains: the harness prints the SHAPE of the error stored on each sample; the model computes the net code from
that shape (`Model.C10.getErrno`) — it never predicts an OS errno by itself.
-/
namespace Pandora.Drv.C10
open Pandora.Drv Pandora.Model.C10
open Pandora.Spec.C10 (Obs Truth StepTruth)

def unhex (s : String) : Option String := do
  let bs ← parseHex s
  String.fromUTF8? (ByteArray.mk bs.toArray)

def hexOf (s : String) : String := toHex s.toUTF8.toList

/-! shapes -/

def parseShapeL : Nat → List Char → Option Err
  | 0, _ => none
  | fuel + 1, cs =>
    let tryWrap (pfx : String) : Option (List Char) :=
      if pfx.toList.isPrefixOf cs && cs.getLast? == some ')' then some ((cs.drop pfx.length).dropLast) else none
    match tryWrap "op(" with
    | some i => (parseShapeL fuel i).map .opError
    | none =>
    match tryWrap "sys(" with
    | some i => (parseShapeL fuel i).map .syscallError
    | none =>
    match tryWrap "url(" with
    | some i => (parseShapeL fuel i).map .urlError
    | none =>
    match tryWrap "und(" with
    | some i => (parseShapeL fuel i).map .underlying
    | none =>
    match tryWrap "cause(" with
    | some i => (parseShapeL fuel i).map .causer
    | none =>
      let s := String.ofList cs
      if s == "timeout" then some .timeout
      else if s == "tmo" then some .tmoOnly
      else if s == "other" || s == "nil" then some .other
      else if "errno".toList.isPrefixOf cs then (String.ofList (cs.drop 5)).toNat?.map .errno
      else none

def parseShape (s : String) : Option Err := parseShapeL (s.length + 1) s.toList

def printShape : Err → String
  | .opError e => "op(" ++ printShape e ++ ")"
  | .syscallError e => "sys(" ++ printShape e ++ ")"
  | .urlError e => "url(" ++ printShape e ++ ")"
  | .underlying e => "und(" ++ printShape e ++ ")"
  | .causer e => "cause(" ++ printShape e ++ ")"
  | .errno n => "errno" ++ toString n
  | .timeout => "timeout"
  | .tmoOnly => "tmo"
  | .other => "other"

/-! observation lines -/

structure ObsS where
  id : Nat
  tags : String
  proto : Nat
  net : Nat
  shape : String
  deriving Inhabited

def ObsS.toObs (o : ObsS) : Obs := { tags := o.tags, id := o.id, proto := o.proto, net := o.net }

/-- `id:taghex:proto:net:shape` (withID) or `taghex:proto:net:shape` -/
def parseSample (withID : Bool) (s : String) : Option ObsS := do
  match s.splitOn ":", withID with
  | [i, t, p, n, sh], true => pure { id := ← i.toNat?, tags := ← unhex t, proto := ← p.toNat?, net := ← n.toNat?, shape := sh }
  | [t, p, n, sh], false => pure { id := 0, tags := ← unhex t, proto := ← p.toNat?, net := ← n.toNat?, shape := sh }
  | _, _ => none

def parseSamples (withID : Bool) (s : String) : Option (List ObsS) :=
  (splitList s ";").mapM (parseSample withID)

def fmtSample (withID : Bool) (s : Sample) (shape : String) : String :=
  (if withID then toString s.id ++ ":" else "") ++ hexOf s.tags ++ ":" ++ toString s.proto ++ ":" ++ toString s.net ++ ":" ++ shape

def fmtLine (res : String) (parts : List String) : String :=
  "res=" ++ res ++ " s=" ++ String.intercalate ";" parts

/-- first failing verdict -/
def firstFail : List String → String
  | [] => "ok"
  | v :: vs => if v == "ok" then firstFail vs else v

/-! k=http -/

structure HReq where
  tag : String
  path : String
  script : String
  truth : String
  deriving Inhabited

def parseHReq (s : String) : Option HReq :=
  match s.splitOn "," with
  | [tag, _uri, path, script, truth] => do pure { tag := tag, path := ← unhex path, script := script, truth := truth }
  | _ => none

def natAfter (pfx : String) (s : String) : Option Nat :=
  if pfx.toList.isPrefixOf s.toList then (String.ofList (s.toList.drop pfx.length)).toNat? else none

/-- `gen=N`: N requests built by rule (harness/cmd/c10 `genReqs`): request j has the tag `r<j>`, the path
`/s<j mod 97>/t<j mod 89>/u<j>` and is answered 200 -/
def genReqs (n : Nat) : List HReq :=
  (List.range n).map fun i =>
    let j := i + 1
    { tag := s!"r{j}", path := s!"/s{j % 97}/t{j % 89}/u{j}", script := "s200.bx1", truth := "r200" }


/-! redirect chains (`c:302p>302u>r200`, harness/cmd/c10/round3.go) -/

inductive HopTok where
  | ans (st : Nat) (loc : Char)
  | term (tok : String)

def parseHopTok (t : String) : HopTok :=
  match t.toList.getLast? with
  | some c =>
    if c == 'p' || c == 'n' || c == 'u' || c == 'l' then
      match (String.ofList t.toList.dropLast).toNat? with
      | some st => .ans st c
      | none => .term t
    else .term t
  | none => .term t

/-- `some hops` when the truth field describes a chain -/
def parseChain (truth : String) : Option (List HopTok) :=
  if "c:".toList.isPrefixOf truth.toList then
    some (((String.ofList (truth.toList.drop 2)).splitOn ">").map parseHopTok)
  else none

/-- who dials: the gun kind and whether the DNS-caching dialer is in the transport (round 4: a target given by a host
name that could not be pre-resolved when the gun was configured: `tgt=nd|nf|nl`) -/
structure DialCtx where
  gun : GunKind := .http
  dnsCache : Bool := false
  /-- the dialer has remembered the target's address (a late target that answered before it went away) -/
  cached : Bool := false
  redirect : Bool := false

def dialCtxOf (kv : List (String × String)) : DialCtx :=
  let tgt := getS kv "tgt"
  { gun := (match getS kv "gun" with | "connect" => .connect | "http2" => .http2 | _ => .http),
    dnsCache := tgt == "nd" || tgt == "nf" || tgt == "nl",
    cached := tgt == "nl",
    redirect := getS kv "redir" == "1" }

/-- Truth tokens `fe<errno>` (the dial is refused with this errno) and `dt` (the dial times out): the model PREDICTS the
error chain — `net.Dialer`'s error through the DNS-caching dialer, the CONNECT gun's dial function and the client
(`Model.C10.dialFailure`) — instead of taking its shape from the observation; the Spec knows a failed exchange. -/
def dialOutcome (dc : DialCtx) (tok : String) : Option (HttpOutcome × Truth) :=
  match natAfter "fe" tok with
  | some n => some (.doErr (dialFailure dc.gun dc.dnsCache dc.cached dc.redirect (.refused n)), .failed)
  | none => if tok == "dt" then some (.doErr (dialFailure dc.gun dc.dnsCache dc.cached dc.redirect .timedOut), .failed) else none

/-- outcome (model) and ground truth (Spec) of ONE exchange from the script's truth token, the error shape the real gun
recorded and the status it reported (a body broken by a reset may also lose the head) -/
def termOutcome (dc : DialCtx) (tok script : String) (obsProto : Nat) (shape : Err) : HttpOutcome × Truth :=
  match dialOutcome dc tok with
  | some r => r
  | none =>
  match natAfter "rbx" tok, natAfter "rb" tok, natAfter "r" tok with
  | some st, _, _ =>
    if obsProto == st then (.response st (some shape), .bodyBroken st) else (.doErr shape, .failed)
  | none, some st, _ => (.response st (some shape), .bodyBroken st)
  | none, none, some st => (.response st none, .received st)
  | none, none, none => (.doErr shape, if script == "acthang" then .timedOut else .failed)

def modelLoc (c : Char) : Model.C10.Loc :=
  if c == 'p' then .leadsOn else if c == 'u' then .unparsable else if c == 'l' then .loops else .absent

def specLoc (c : Char) : Spec.C10.Loc :=
  if c == 'p' then .leadsOn else if c == 'u' then .unparsable else if c == 'l' then .loops else .absent

/-- (model outcome, Spec truth) of a request: a single exchange, or a chain run through the client `redirect` selects -/
def reqOutcome (redirect : Bool) (truth script : String) (obsProto : Nat) (shape : Err) (dc : DialCtx := {}) : HttpOutcome × Truth :=
  match parseChain truth with
  | none => termOutcome dc truth script obsProto shape
  | some toks =>
    let mh : List Hop := toks.map fun t => match t with
      | .ans st c => .answer st (modelLoc c)
      | .term tok => .last (termOutcome {} tok script obsProto shape).1
    let sh : List Spec.C10.ChainHop := toks.map fun t => match t with
      | .ans st c => .answer st (specLoc c)
      | .term tok => .last (termOutcome {} tok script obsProto shape).2
    (clientDo redirect mh, Spec.C10.chainTruth redirect sh)

def outcomeShape : HttpOutcome → String
  | .response _ none => "nil"
  | .response _ (some e) => printShape e
  | .doErr e => printShape e
  | .doPanic => "nil"

/-- The gun's `auto-tag` section as WRITTEN in the pool config (round 6): `atd=<keys>` lists the keys that are written
(`e` enabled, `u` uri-elements, `n` no-tag-only, `-` none); without `atd` all three are. The model decodes the section over
the gun's defaults (`Model.C10.decodeAutoTag`), the Spec reads the absent keys off the documentation. -/
def writtenAutoTag (kv : List (String × String)) : Option Bool × Option Nat × Option Bool :=
  let atd := getS kv "atd"
  let has (c : Char) : Bool := atd == "" || atd.toList.contains c
  (if has 'e' then some (getS kv "auto" == "1") else none,
   if has 'u' then some ((getN? kv "el").getD 0) else none,
   if has 'n' then some (getS kv "nto" == "1") else none)

def cfgOf (kv : List (String × String)) : AutoTagCfg :=
  let w := writtenAutoTag kv
  decodeAutoTag w.1 w.2.1 w.2.2

def expTagOf (kv : List (String × String)) (ammoTag path : String) : String :=
  let w := writtenAutoTag kv
  Spec.C10.expectedTagWritten w.1 w.2.1 w.2.2 ammoTag path

def handleHttp (kv : List (String × String)) (impl : String) : String × String :=
  let cfg : AutoTagCfg := cfgOf kv
  let parsedReqs : Option (List HReq) := match getN? kv "gen" with
    | some n => some (genReqs n)
    | none => (splitList (getS kv "reqs") ";").mapM parseHReq
  match parsedReqs with
  | none => ("-", "fail:driver:unparsable reqs")
  | some reqs =>
    let ikv := parseKV impl
    match parseSamples true (getS ikv "s") with
    | none => ("-", s!"fail:crash:unparsable observation {impl.take 120}")
    | some obs =>
      let res := getS ikv "res"
      let idx := List.range reqs.length
      let rows := idx.map fun i =>
        let r := reqs[i]!
        let mine := obs.filter (·.id == i + 1)
        let o1 := mine.head?
        let shape := ((o1.bind fun o => parseShape o.shape).getD .other)
        -- outcome and ground truth from the script's truth token (a single exchange or a redirect chain)
        let (outcome, truth) : HttpOutcome × Truth :=
          reqOutcome (getS kv "redir" == "1") r.truth r.script ((o1.map (·.proto)).getD 0) shape (dialCtxOf kv)
        let shot : HttpShot := { ammoTag := r.tag, id := i + 1, path := r.path, outcome := outcome }
        let rep := (shootHttp cfg shot).reports
        let shp := outcomeShape outcome
        let line := rep.map fun s => fmtSample true s shp
        let exp := expTagOf kv r.tag r.path
        (line, Spec.C10.judgeHttp exp truth (mine.map ObsS.toObs), (rep.head?.map Sample.net).getD 0)
      let stray := obs.filter fun o => o.id == 0 || o.id > reqs.length
      -- several instances (inst>1): the harness numbers the samples by REQUEST (unique tag r<i>) and lists the real ids
      -- separately; the model (`runIds`: one atomic Add per acquisition, in whatever order) says they are a permutation
      -- of 1..n and cannot say which one; the Spec demands that they are pairwise distinct.
      let multi := ((getN? kv "inst").getD 1) > 1
      let implIds : List Nat := (splitList (getS ikv "ids") ",").filterMap String.toNat?
      let modelIds : List Nat := (runIds 0 (List.range reqs.length)).map Prod.snd
      let isPerm := implIds.length == modelIds.length && modelIds.all implIds.contains
      let idsField := if !multi then "" else
        " ids=" ++ String.intercalate "," ((if isPerm then implIds else modelIds).map toString)
      let vIds := if multi && !Spec.C10.idsUnique implIds then
          s!"fail:ids:{implIds.length} samples carry ids {getS ikv "ids"}"
        else "ok"
      -- round 4, `dref=1`: the same requests once more with `dial.dns-cache` off; the model predicts the codes of that run
      -- too (`dialFailure … (dnsCache := false)`), the Spec demands that the two runs are coded alike
      let dref := getS kv "dref" == "1"
      let dcPlain : DialCtx := { dialCtxOf kv with dnsCache := false }
      -- (a request that is not a failed dial is coded as in the main run: the dialer has no part in it)
      let modelRef : List Nat := idx.map fun i =>
        match dialOutcome dcPlain (reqs[i]!).truth with
        | some (.doErr e, _) => getErrno e
        | _ => ((rows[i]?).map (·.2.2)).getD 0
      let refField := if !dref then "" else " ref=" ++ String.intercalate "," (modelRef.map toString)
      let implRef : Option (List Nat) := (splitList (getS ikv "ref") ",").mapM String.toNat?
      let vRef := if !dref then "ok" else
        match implRef with
        | none => s!"fail:run:reference run with dial.dns-cache off: {getS ikv "ref"}"
        | some ref => Spec.C10.judgeDialerIndependent
            ((idx.map fun i => (obs.filter (·.id == i + 1)).head?.map (·.net)).filterMap id) ref
      let v := if res != "ok" then s!"fail:run:{res}"
               else if !stray.isEmpty then "fail:count:sample with an id no request carries"
               else firstFail (rows.map (·.2.1) ++ [vIds, vRef])
      (fmtLine "ok" (rows.flatMap (·.1)) ++ idsField ++ refField, v)

/-- `pan=1`: the http2 gun against a TLS target without HTTP/2 — the documented fatal condition. `Do` panics, the deferred
`Report` still delivers the one sample (proto 0, net 0), the engine aborts the run. Judged: one sample, right tag. -/
def handleHttpFatal (kv : List (String × String)) (impl : String) : String × String :=
  let cfg : AutoTagCfg := cfgOf kv
  match (splitList (getS kv "reqs") ";").mapM parseHReq with
  | some [r] =>
    let shot : HttpShot := { ammoTag := r.tag, id := 1, path := r.path, outcome := .doPanic }
    let rs := shootHttp cfg shot
    let line := fmtLine (if rs.panicked then "panic:not-http2" else "ok") (rs.reports.map fun s => fmtSample true s "nil")
    let ikv := parseKV impl
    let exp := expTagOf kv r.tag r.path
    let v := match parseSamples true (getS ikv "s") with
      | none => s!"fail:crash:unparsable observation {impl.take 120}"
      | some [o] =>
        if getS ikv "res" != "panic:not-http2" then s!"fail:run:{getS ikv "res"}"
        else if o.tags != exp then s!"fail:tag:got {o.tags} want {exp}"
        else "ok"
      | some l => s!"fail:count:{l.length} samples for one request"
    (line, v)
  | _ => ("-", "fail:driver:pan=1 takes exactly one request")

/-! k=scn -/

structure SStep where
  name : String
  truth : String
  pp : String
  deriving Inhabited

def parseSStep (s : String) : Option SStep :=
  match s.splitOn "," with
  | [name, _uri, _script, truth, pp] => some { name := name, truth := truth, pp := pp }
  | _ => none

def postOfAssert (pp : String) (status : Nat) : PostRes :=
  match natAfter "as" pp with
  | some c => if c != 0 && c != status then .err else .ok
  | none => .ok

def stepOutcome (redirect : Bool) (s : SStep) : StepOutcome :=
  if s.pp == "tpl" then .prepErr
  else match (reqOutcome redirect s.truth "" 0 .other).1 with
    | .response st none => .received st (postOfAssert s.pp st)
    | .response st (some _) => .bodyErr st .other
    | _ => .doErr .other

/-- ground truth of a step, from the Spec's reading of the chain: passed with the status received when every assertion
accepts it, failed otherwise -/
def stepTruth (redirect : Bool) (s : SStep) : StepTruth :=
  if s.pp == "tpl" then .failedStep
  else match (reqOutcome redirect s.truth "" 0 .other).2 with
    | .received st => if postOfAssert s.pp st == .ok then .passed st else .failedStep
    | _ => .failedStep

/-- `hits=st0:1,st1:0`: how many requests of each step the target saw -/
def parseHits (s : String) : List (String × Nat) :=
  (splitList s ",").filterMap fun e =>
    match e.splitOn ":" with
    | [n, c] => c.toNat?.map fun k => (n, k)
    | _ => none

/-- number of leading steps the target saw at least once -/
def seenPrefix : List (String × Nat) → Nat
  | [] => 0
  | (_, k) :: rest => if k == 0 then 0 else 1 + seenPrefix rest

def replicate {α} (n : Nat) (l : List α) : List α := (List.replicate n l).flatten

def handleScn (kv : List (String × String)) (impl : String) : String × String :=
  match (splitList (getS kv "steps") ";").mapM parseSStep with
  | none => ("-", "fail:driver:unparsable steps")
  | some steps0 =>
    let scn := getS kv "scn"
    let n := (getN? kv "n").getD 1
    let redirect := getS kv "redir" == "1"
    let ikv := parseKV impl
    let noted := getS kv "hits" == "1" || getS kv "cxl" != ""
    let hits := parseHits (getS ikv "hits")
    -- a run cut short by a cancellation (`cxl`): the steps the shot executed are the ones the target saw (a prefix)
    let steps := if getS kv "cxl" != "" then steps0.take (seenPrefix hits) else steps0
    let shot := shootScenario scn (steps.map fun s => { name := s.name, outcome := stepOutcome redirect s })
    let one := shot.reports.map fun s => fmtSample false s (if s.net == 0 then "nil" else "other")
    let hitsField := if !noted then "" else
      " hits=" ++ String.intercalate "," (if getS kv "cxl" != "" then hits.map fun (nm, k) => s!"{nm}:{k}"
        else
          let ex := (shootScenario scn (steps0.map fun s => { name := s.name, outcome := stepOutcome redirect s })).reports.length
          (List.range steps0.length).map fun i => s!"{(steps0[i]!).name}:{if i < ex then n else 0}")
    match parseSamples false (getS ikv "s") with
    | none => (fmtLine "ok" (replicate n one) ++ hitsField, s!"fail:crash:unparsable observation {impl.take 120}")
    | some obs =>
      let res := getS ikv "res"
      let vHits := if noted && !(steps0.any fun s => s.pp == "tpl") then
          (Spec.C10.hitsMismatch scn (obs.map ObsS.toObs) hits).getD "ok"
        else "ok"
      let v := if res != "ok" then s!"fail:run:{res}"
               else firstFail [vHits, Spec.C10.judgeShots scn (steps.map fun s => (s.name, stepTruth redirect s)) n (obs.map ObsS.toObs)]
      (fmtLine "ok" (replicate n one) ++ hitsField, v)

/-! k=http … ovf=0|1 (round 6): the pool runs with `discard_overflow` set; some requests are answered late, so that the
instance falls behind its schedule. The target logs which requests it saw (`hits=q1:1,q2:0,…`): a request it saw was
fired. The model's run is `runPoolD`: every acquired ammo is fired (its own sample), or discarded (one `discarded` / 777
sample), by the fate the target's log gives it. -/

def leId (a b : String × Nat) : Bool := a.2 ≤ b.2

def handleOvf (kv : List (String × String)) (impl : String) : String × String :=
  let cfg : AutoTagCfg := cfgOf kv
  match (splitList (getS kv "reqs") ";").mapM parseHReq with
  | none => ("-", "fail:driver:unparsable reqs")
  | some reqs =>
    let ikv := parseKV impl
    match parseSamples true (getS ikv "s") with
    | none => ("-", s!"fail:crash:unparsable observation {impl.take 120}")
    | some obs =>
      let res := getS ikv "res"
      let hits := parseHits (getS ikv "hits")
      let n := reqs.length
      let firedAt (i : Nat) : Bool := ((hits[i]?).map (·.2)).getD 0 > 0
      let idx := List.range n
      let rows := idx.map fun i =>
        let r := reqs[i]!
        let mine := obs.filter (·.id == i + 1)
        let o1 := mine.head?
        let shape := ((o1.bind fun o => parseShape o.shape).getD .other)
        let (outcome, truth) : HttpOutcome × Truth := reqOutcome false r.truth r.script ((o1.map (·.proto)).getD 0) shape
        let plan : ShotPlan := { ammoTag := r.tag, path := r.path, outcome := outcome }
        -- a request that is not fired: discarded (the run goes on) — or, when the run was cancelled (`cxf`), dropped: the
        -- loop ends without a sample
        let fate : Fate := if firedAt i then .fired else if getS kv "cxf" != "" then .dropped else .discarded
        let exp := expTagOf kv r.tag r.path
        -- a request the target never saw, with a sample of a FAILED exchange: it was fired and did not get through (an
        -- overloaded host); nothing can be concluded about the instance's decision
        let lost := !firedAt i && mine.any fun o => o.proto == 0 && o.net != 0
        (((), plan, fate), outcomeShape outcome, Spec.C10.judgeFiredOrNot (firedAt i) exp truth (mine.map ObsS.toObs), lost)
      -- the model's run: acquisition order = request order for the ids the harness prints (one instance: the real ids;
      -- several: the request numbers)
      let model := runPoolD cfg 0 (rows.map (·.1))
      let parts : List (String × Nat) := model.map fun s =>
        (fmtSample true s (if s.id == 0 then "nil" else ((rows[s.id - 1]?).map (·.2.1)).getD "nil"), s.id)
      let line := (parts.mergeSort leId).map (·.1)
      let discards := (obs.filter fun o => Spec.C10.isDiscarded o.toObs).length
      let stray := obs.filter fun o => (o.id == 0 && !Spec.C10.isDiscarded o.toObs) || o.id > n
      let unfired := (idx.filter fun i => !firedAt i).length
      let multi := ((getN? kv "inst").getD 1) > 1
      let implIds : List Nat := (splitList (getS ikv "ids") ",").filterMap String.toNat?
      let realIds := implIds.filter (· != 0)
      let modelIds : List Nat := List.replicate unfired 0 ++ (idx.filter firedAt).map (· + 1)
      let plausible := implIds.length == modelIds.length && realIds.length + unfired == implIds.length &&
        Spec.C10.idsUnique realIds && realIds.all (fun i => 1 ≤ i && i ≤ n) && (implIds.take unfired).all (· == 0)
      let idsField := if !multi then "" else
        " ids=" ++ String.intercalate "," ((if plausible then implIds else modelIds).map toString)
      let vIds := if multi && !Spec.C10.idsUnique realIds then
          s!"fail:ids:{realIds.length} samples carry ids {getS ikv "ids"}"
        else "ok"
      let hitsField := " hits=" ++ String.intercalate "," (hits.map fun (nm, k) => s!"{nm}:{k}")
      let v := if res != "ok" then s!"fail:run:{res}"
               else if hits.length != n then s!"fail:crash:unparsable observation {impl.take 120}"
               else if rows.any (·.2.2.2) then "skip:inconclusive-a-request-failed-before-it-reached-the-target"
               else if !stray.isEmpty then "fail:count:sample with an id no request carries"
               else firstFail (rows.map (·.2.2.1) ++ [Spec.C10.judgeDiscards n unfired discards, vIds])
      (fmtLine "ok" line ++ idsField ++ hitsField, v)

/-! k=grpc, k=grpcscn, k=grpcdirect -/

def grpcOutcome (kind : String) (code : Nat) : Option GrpcOutcome :=
  match kind with
  | "ok" => some (.invoked 0)
  | "code" => some (.invoked code)
  | "hang" => some (.invoked 4)        -- the client's deadline expires: DeadlineExceeded
  | "nomethod" => some .unknownMethod
  | "badpayload" => some .badPayload
  | "marshal" => some .marshalErr
  | "bad" => some .invalidAmmo          -- a line the provider could not decode, delivered as an invalid ammo
  | "invalid" => some .invalidAmmo
  | _ => none

def handleGrpc (kv : List (String × String)) (impl : String) : String × String :=
  let parsed := (splitList (getS kv "reqs") ";").mapM fun r =>
    match r.splitOn "," with
    | [tag, kind, code] =>
      if kind == "gone" then some (tag, GrpcOutcome.invoked 0, true)
      else do pure (tag, ← grpcOutcome kind (← code.toNat?), false)
    | _ => none
  match parsed with
  | none => ("-", "fail:driver:unparsable reqs")
  | some reqs3 =>
    let line := (runGrpcGone false reqs3).map fun s => fmtSample false s "nil"
    let reqs := effectiveOutcomes false reqs3
    let ikv := parseKV impl
    match parseSamples false (getS ikv "s") with
    | none => (fmtLine "ok" line, s!"fail:crash:unparsable observation {impl.take 120}")
    | some obs =>
      let res := getS ikv "res"
      let v := if res != "ok" then s!"fail:run:{res}"
               else Spec.C10.judgeGrpc (reqs.map fun (tag, o) => (tag, grpcTruth o)) (obs.map ObsS.toObs)
      (fmtLine "ok" line, v)

/-! k=grpcpool (round 4): a grpc/json file whose lines leave out optional keys, decoded into pooled ammo objects -/

/-- `tag,kind,code,keys` — keys: which of the optional keys the line carries (t tag, m metadata, p payload) -/
def parsePoolEntry (i : Nat) (s : String) : Option Entry :=
  match s.splitOn "," with
  | [tag, kind, code, keys] =>
    let has (c : Char) : Bool := keys.toList.contains c
    if kind == "bad" then some { decodable := false }
    else if !["ok", "code", "nomethod", "badpayload"].contains kind then none
    else some {
      tag := if has 't' then some tag else none,
      call := some (if kind == "nomethod" then "target.TargetService.NoSuchMethod" else "target.TargetService.Hello"),
      metadata := if has 'm' then some (if kind == "code" then [("x-code", code)] else [("x-entry", s!"e{i}")]) else none,
      payload := if has 'p' then some (if kind == "badpayload" then [("no_such_field", "1")] else [("name", "verif")]) else none }
  | _ => none

/-- the ground truth of an entry, read off the ENTRY (not off any ammo object): its tag and, when its call is made, the
status the target answers -/
def entryTruth (e : Entry) : String × Option Nat :=
  (e.tag.getD "", grpcTruth (scriptedOutcome (deliver {} e)))

def leStr (a b : String) : Bool := a < b || a == b

def handleGrpcPool (kv : List (String × String)) (impl : String) : String × String :=
  let toks := splitList (getS kv "ents") ";"
  match ((List.range toks.length).zip toks).mapM fun (i, t) => parsePoolEntry i t with
  | none => ("-", "fail:driver:unparsable ents")
  | some ents =>
    let passes := (getN? kv "passes").getD 1
    let inst := (getN? kv "inst").getD 1
    let all := replicate passes ents
    -- the model's run: every object taken fresh (which pooled object is recycled does not matter: `C10_ammo_pool_reuse`)
    let ammo := runAmmoPool deliver (fun _ => none) [] all
    let parts := (shootAmmo ammo).map fun s => fmtSample false s "nil"
    let line := fmtLine "ok" (if inst > 1 then parts.mergeSort leStr else parts)
    let ikv := parseKV impl
    match parseSamples false (getS ikv "s") with
    | none => (line, s!"fail:crash:unparsable observation {impl.take 120}")
    | some obs =>
      let res := getS ikv "res"
      let truths := all.map entryTruth
      let v := if res != "ok" then s!"fail:run:{res}"
               else if inst > 1 then
                 match truths.mapM fun (t, c) => c.map fun k => (t, k) with
                 | some sent => Spec.C10.judgeGrpcBag sent (obs.map ObsS.toObs)
                 | none => "fail:driver:a case with several instances may only have entries whose call is made"
               else Spec.C10.judgeGrpc truths (obs.map ObsS.toObs)
      (line, v)

def handleGrpcDirect (kv : List (String × String)) (impl : String) : String × String :=
  match unhex (getS kv "tag"), grpcOutcome (getS kv "kind") 0 with
  | some tag, some o =>
    let line := (shootGrpc tag o).reports.map fun s => fmtSample false s "nil"
    let ikv := parseKV impl
    match parseSamples false (getS ikv "s") with
    | none => (fmtLine "ok" line, s!"fail:crash:unparsable observation {impl.take 120}")
    | some obs => (fmtLine "ok" line, Spec.C10.judgeGrpc [(tag, grpcTruth o)] (obs.map ObsS.toObs))
  | _, _ => ("-", "fail:driver:unparsable input")

structure GCall where
  name : String
  tag : String
  kind : String
  code : Nat
  pp : String
  deriving Inhabited

def parseGCall (s : String) : Option GCall :=
  match s.splitOn "," with
  | [name, tag, kind, code, pp] => do
    let c ← code.toNat?
    if ["ok", "code", "gone", "nomethod", "badpayload", "tpl"].contains kind then
      pure { name := name, tag := tag, kind := kind, code := c, pp := pp }
    else none
  | _ => none

/-- outcome of one call, given whether the target is already gone; second component: the target is gone afterwards -/
def callOutcome (gone : Bool) (c : GCall) : GrpcStepOutcome × Bool :=
  let invoked (code : Nat) (gone' : Bool) : GrpcStepOutcome × Bool :=
    let code' := if gone' then 14 else code
    (.invoked code' (postOfAssert c.pp (grpcToHttp code')), gone')
  match c.kind with
  | "ok" => invoked 0 gone
  | "code" => invoked c.code gone
  | "gone" => invoked 0 true
  | "nomethod" => (.unknownMethod, gone)
  | "badpayload" => (.badPayload, gone)
  | _ => (.prepErr, gone)

/-- the calls one shot EXECUTES (a call that was made and accepted lets the scenario go on), with their outcomes -/
def shotSteps : Bool → List GCall → List GrpcStep × Bool
  | gone, [] => ([], gone)
  | gone, c :: rest =>
    let (o, gone') := callOutcome gone c
    match o with
    | .invoked _ .ok => let (more, g) := shotSteps gone' rest; ({ tag := c.tag, outcome := o } :: more, g)
    | _ => ([{ tag := c.tag, outcome := o }], gone')

/-- `n` shots of the same scenario; the target may go away during one of them -/
def allShots (calls : List GCall) : Nat → Bool → List (List GrpcStep)
  | 0, _ => []
  | n + 1, gone => let (steps, g) := shotSteps gone calls; steps :: allShots calls n g

def handleGrpcScn (kv : List (String × String)) (impl : String) : String × String :=
  match (splitList (getS kv "calls") ";").mapM parseGCall with
  | none => ("-", "fail:driver:unparsable calls")
  | some calls =>
    let scn := getS kv "scn"
    let n := (getN? kv "n").getD 1
    let ikv := parseKV impl
    let noted := getS kv "hits" == "1" || getS kv "cxl" != ""
    let hits := parseHits (getS ikv "hits")
    let shots0 := allShots calls n false
    -- a run cut short by a cancellation: the calls the shot executed are the ones the target saw (a prefix)
    let shots := if getS kv "cxl" != "" then shots0.map (·.take (seenPrefix hits)) else shots0
    let line := shots.flatMap fun steps => (shootGrpcScenario scn steps).reports.map fun s => fmtSample false s "nil"
    let hitsField := if !noted then "" else
      " hits=" ++ String.intercalate "," (if getS kv "cxl" != "" then hits.map fun (nm, k) => s!"{nm}:{k}"
        else (List.range calls.length).map fun i =>
          s!"{(calls[i]!).name}:{(shots0.filter fun steps => i < steps.length).length}")
    match parseSamples false (getS ikv "s") with
    | none => (fmtLine "ok" line ++ hitsField, s!"fail:crash:unparsable observation {impl.take 120}")
    | some obs =>
      let res := getS ikv "res"
      let sent := calls.all fun c => c.kind == "ok" || c.kind == "code"
      let tagHits : List (String × Nat) := (List.range calls.length).filterMap fun i =>
        (hits[i]?).map fun h => ((calls[i]!).tag, h.2)
      let vHits := if noted && sent then (Spec.C10.hitsMismatchGrpc scn (obs.map ObsS.toObs) tagHits).getD "ok" else "ok"
      let v := if res != "ok" then s!"fail:run:{res}"
               else firstFail [vHits, Spec.C10.judgeGrpc (shots.flatMap fun steps => steps.map (grpcStepTruth scn)) (obs.map ObsS.toObs)]
      (fmtLine "ok" line ++ hitsField, v)

/-! k=ids, k=errno, k=inv -/

/-- round 4: `start=S` — the counter stands at S when the stretch begins (`k=idwrap`: NextID itself from g goroutines;
`k=ids … start=S`: a whole pool run). The model: `runIds S`, i.e. the ids `S+1 … S+n` (mod 2^64). -/
def handleIdsFrom (kv : List (String × String)) (impl : String) (start : Nat) : String × String :=
  let n := if getS kv "k" == "idwrap" then ((getN? kv "g").getD 0) * ((getN? kv "n").getD 0) else (getN? kv "n").getD 0
  let (cnt, distinct, mn, mx, below) : Nat × Nat × Nat × Nat × Nat :=
    if n ≤ 3000 then
      let ids := (runIds start (List.range n)).map Prod.snd
      (ids.length, (if Spec.C10.idsUnique ids then ids.length else 0), ids.foldl min (ids.headD 0), ids.foldl max 0,
        (ids.filter (· ≤ start)).length)
    else (n, n, start + 1, start + n, 0)   -- closed form (`C10_ids_unique`, `C10_ids_far_into_a_run`), no wrap: start + n < 2^64
  let m := s!"res=ok count={cnt} distinct={distinct} min={mn} max={mx} below={below}"
  let ikv := parseKV impl
  let v :=
    if getS ikv "res" == "counter-narrow" then
      s!"fail:ids:the id counter has only {getS ikv "bits"} bits: it cannot stand at {start}, ids repeat within a run of that length"
    else if getS ikv "res" != "ok" then s!"fail:run:{getS ikv "res"}"
    else match getN? ikv "count", getN? ikv "distinct", getN? ikv "below" with
      | some c, some d, some b =>
        if c != n then s!"fail:count:{c} samples for {n} requests"
        else Spec.C10.judgeIdsFrom start c d b
      | _, _, _ => s!"fail:crash:unparsable observation {impl.take 120}"
  (m, v)

def handleIds (kv : List (String × String)) (impl : String) : String × String :=
  match getN? kv "start" with
  | some start => handleIdsFrom kv impl start
  | none =>
  -- k=ids: n acquisitions through a pool; k=idstress: g goroutines x n calls of NextID
  let n := if getS kv "k" == "idstress" then ((getN? kv "g").getD 0) * ((getN? kv "n").getD 0) else (getN? kv "n").getD 0
  -- the model: n atomic fetch-adds in whatever order the instances perform them. For small n the model is RUN; for large
  -- n its closed form is printed (`C10_ids_unique`: the ids of a fresh counter are exactly 1..n, pairwise distinct).
  let (cnt, distinct, mn, mx) : Nat × Nat × Nat × Nat :=
    if n ≤ 3000 then
      let ids := (runIds 0 (List.range n)).map Prod.snd
      (ids.length, (if Spec.C10.idsUnique ids then ids.length else 0), ids.foldl min (ids.headD 0), ids.foldl max 0)
    else (n, n, 1, n)
  let m := s!"res=ok count={cnt} distinct={distinct} min={mn} max={mx}"
  let ikv := parseKV impl
  let v := if getS ikv "res" != "ok" then s!"fail:run:{getS ikv "res"}"
           else match getN? ikv "count", getN? ikv "distinct" with
             | some c, some d =>
               if c != n then s!"fail:count:{c} samples for {n} requests"
               else if d != c then s!"fail:ids:{c} samples carry only {d} distinct ids"
               else "ok"
             | _, _ => s!"fail:crash:unparsable observation {impl.take 120}"
  (m, v)

def handleErrno (kv : List (String × String)) (impl : String) : String × String :=
  match parseShape (getS kv "shape") with
  | none => ("-", "fail:driver:unparsable shape")
  | some e =>
    let m := s!"net={getErrno e} shape={printShape e}"
    let v := match getN? (parseKV impl) "net" with
      | some 0 => "fail:net:failed exchange coded 0"
      | some _ => "ok"
      | none => s!"fail:crash:unparsable observation {impl.take 120}"
    (m, v)

def handleInv (kv : List (String × String)) (impl : String) : String × String :=
  match unhex (getS kv "tag") with
  | none => ("-", "fail:driver:unparsable tag")
  | some tag =>
    let cfg : AutoTagCfg := { enabled := getS kv "auto" == "1", uriElements := 2, noTagOnly := true }
    let shot : HttpShot := { invalid := true, ammoTag := tag, id := (getN? kv "id").getD 0, path := "/inv", outcome := .doErr .other }
    let line := (shootHttp cfg shot).reports.map fun s => fmtSample true s "nil"
    let m := "res=ok hits=0 s=" ++ String.intercalate ";" line
    let ikv := parseKV impl
    let v := match parseSamples true (getS ikv "s") with
      | some [o] =>
        if o.tags != (if tag == "" then Spec.C10.emptyTag else tag ++ "|" ++ Spec.C10.emptyTag) then s!"fail:tag:invalid ammo tagged {o.tags}"
        else "ok"
      | some l => s!"fail:count:{l.length} samples for one invalid ammo"
      | none => s!"fail:crash:unparsable observation {impl.take 120}"
    (m, v)

/-! k=shootstress -/

/-- `k=shootstress`: g instances x n shots through `BaseGun.Shoot` with a stub client, cycling through `paths` paths (path k:
`/s<k mod 7>/t<k mod 5>/x<k>`, ammo tag "" for even k and "T" for odd k, answered with status 200+k). The observation
lists, per path, the distinct (tag, proto, net) triples its samples carried: the model says exactly one. -/
def handleShootStress (kv : List (String × String)) (impl : String) : String × String :=
  let g := (getN? kv "g").getD 0
  let n := (getN? kv "n").getD 0
  let paths := (getN? kv "paths").getD 0
  let cfg : AutoTagCfg := { enabled := getS kv "auto" == "1", uriElements := (getN? kv "el").getD 0, noTagOnly := getS kv "nto" == "1" }
  let pathOf (k : Nat) : String := s!"/s{k % 7}/t{k % 5}/x{k}"
  let tagOf (k : Nat) : String := if k % 2 == 0 then "" else "T"
  let total := g * n
  let modelParts := (List.range paths).map fun k =>
    let shot : HttpShot := { ammoTag := tagOf k, id := 0, path := pathOf k, outcome := .response (200 + k) none }
    let vs := (shootHttp cfg shot).reports.map fun s => s!"{hexOf s.tags}:{s.proto}:{s.net}"
    s!"{k}=" ++ String.intercalate "/" vs
  let m := s!"res=ok count={total} distinct={total} stray=0 p=" ++ String.intercalate ";" modelParts
  let ikv := parseKV impl
  let v :=
    if getS ikv "res" != "ok" then s!"fail:run:{getS ikv "res"}"
    else match getN? ikv "count", getN? ikv "distinct", getN? ikv "stray" with
      | some c, some d, some stray =>
        if c != total then s!"fail:count:{c} samples for {total} requests"
        else if stray != 0 then s!"fail:proto:{stray} samples carry a status no request was answered with"
        else if d != c then s!"fail:ids:{c} samples carry only {d} distinct ids"
        else
          let verdicts := (splitList (getS ikv "p") ";").map fun part =>
            match part.splitOn "=" with
            | [ks, vs] =>
              match ks.toNat? with
              | none => "fail:crash:unparsable path entry"
              | some k =>
                let exp := Spec.C10.expectedTag cfg.enabled cfg.uriElements cfg.noTagOnly (tagOf k) (pathOf k)
                if vs == "" then s!"fail:count:no sample for path {pathOf k}"
                else firstFail ((vs.splitOn "/").map fun v =>
                  match v.splitOn ":" with
                  | [t, p, e] =>
                    match unhex t, p.toNat?, e.toNat? with
                    | some tg, some pc, some ne =>
                      Spec.C10.judgeHttp exp (.received (200 + k)) [{ tags := tg, id := 0, proto := pc, net := ne }]
                    | _, _, _ => "fail:crash:unparsable sample"
                  | _ => "fail:crash:unparsable sample")
            | _ => "fail:crash:unparsable path entry"
          firstFail verdicts
      | _, _, _ => s!"fail:crash:unparsable observation {impl.take 120}"
  (m, v)

/-- the observation shows that the MACHINE ran out of a resource (ports, descriptors) while the case ran — other checks
share the host. Nothing about pandora can be concluded from such a case. -/
def envTrouble (impl : String) : Bool :=
  let has (needle : String) : Bool := (impl.splitOn needle).length > 1
  has "address already in use" || has "cannot assign requested address" || has "too many open files" ||
  has "errno99)" || has "errno99;" || has "errno24)" || has "errno24;" || impl.endsWith "errno99" || impl.endsWith "errno24"

def handle : Handler := fun input impl =>
  let kv := parseKV input
  if getS kv "k" != "errno" && envTrouble impl then ("-", "skip:inconclusive-host-out-of-ports-or-descriptors")
  else if impl.startsWith "PANIC" then ("-", s!"fail:panic:{impl.take 160}")
  else if impl == "HANG" then ("-", "fail:hang:driver case timed out")
  else match getS kv "k" with
  | "http" => if getS kv "pan" == "1" then handleHttpFatal kv impl
              else if getS kv "ovf" != "" then handleOvf kv impl else handleHttp kv impl
  | "scn" => handleScn kv impl
  | "grpc" => handleGrpc kv impl
  | "grpcscn" => handleGrpcScn kv impl
  | "grpcdirect" => handleGrpcDirect kv impl
  | "ids" => handleIds kv impl
  | "idstress" => handleIds kv impl
  | "idwrap" => handleIds kv impl
  | "grpcpool" => handleGrpcPool kv impl
  | "shootstress" => handleShootStress kv impl
  | "errno" => handleErrno kv impl
  | "inv" => handleInv kv impl
  | _ => ("-", "fail:driver:unknown case kind")

end Pandora.Drv.C10
