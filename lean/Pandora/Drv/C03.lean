import Pandora.Drv.Util
import Pandora.Spec.C03

namespace Pandora.Drv.C03
open Pandora.Drv Pandora.Model.C03 Pandora.Spec.C03

def parseEv (s : String) : Option Ev :=
  match s.toList with
  | 'c' :: r => match (String.ofList r).splitOn ":" with
      | [i, l] => do pure (.chk (← i.toNat?) (← l.toNat?))
      | _ => none
  | 'a' :: r => (String.ofList r).toNat?.map .acq
  | 'e' :: r => (String.ofList r).toNat?.map .empty
  | 'n' :: r => (String.ofList r).toNat?.map .tokOk
  | 'x' :: r => (String.ofList r).toNat?.map .tokEnd
  | 's' :: r => (String.ofList r).toNat?.map .shoot
  | 'd' :: r => (String.ofList r).toNat?.map .discard
  | 'r' :: r => (String.ofList r).toNat?.map .rel
  | _ => none

/-- replay; returns the state or the index and text of the first event that is not enabled -/
def replay (c : Cfg) : St → List (Ev × String) → Nat → Except String St
  | s, [], _ => .ok s
  | s, (e, txt) :: es, k => match step c s e with
    | some s' => replay c s' es (k + 1)
    | none => .error s!"rejected@{k}:{txt}"

def handle : Handler := fun input impl =>
  let kv := parseKV input
  let o := parseKV impl
  let started := (getN? o "started").getD 0
  let ammo : Option Nat := match getI? kv "ammo" with
    | some a => if a < 0 then none else some a.toNat
    | none => none
  let c : Cfg := { perInstance := getS kv "shared" == "0", tokens := (getN? o "exact").getD 0, ammo := ammo,
                   discardOn := getS kv "discard" == "1", instances := started }
  let evTxt := splitList (getS o "log")
  match evTxt.mapM (fun t => (parseEv t).map (·, t)) with
  | none => ("-", s!"fail:crash:unparsable observation {impl.take 80}")
  | some evs =>
    if getS o "res" != "ok" then ("-", s!"fail:abnormal-end:{getS o "res"}") else
    let cnt (p : Ev → Bool) := (evs.filter (fun e => p e.1)).length
    let k : Counters := {
      fired := cnt (fun | .shoot _ => true | _ => false), discarded := cnt (fun | .discard _ => true | _ => false),
      acquired := cnt (fun | .acq _ => true | _ => false), released := cnt (fun | .rel _ => true | _ => false),
      request := (getN? o "req").getD 0, response := (getN? o "resp").getD 0,
      usedAfterRelease := getS o "uar" != "0", doubleRelease := getS o "dbl" != "0" }
    let v := verdict c k
    match replay c (init c) evs 0 with
    | .error e => (e, v)
    | .ok s =>
      if !s.terminal then ("not-terminal", v)
      else if s.fired != k.fired || s.discarded != k.discarded || s.request != k.request then ("counter-mismatch", v)
      else (impl, v)

end Pandora.Drv.C03
