import Pandora.Drv.Util
import Pandora.Spec.C03

/-!
C03 driver.  Input: `inst=<startup tokens> shared=<0|1> tokens=<n> ammo=<n|-1> discard=<0|1> …` (the other keys only
steer the harness).  Observation of the real engine:
`res=ok exact=<tokens of one profile> started=<InstanceStart> finished=… req=… resp=… uar=<0|1> dbl=<0|1> relmin=… relmax=… log=<events>`
with events `c<i>:<left>` (IsFinished saw Left()), `a<i>` / `e<i>` (Acquire ok / out of ammo), `n<i>` / `x<i>` (Next ok / finished),
`s<i>:<k>` (Shoot of item k), `d<i>` (discarded sample reported), `r<i>:<k>` (Release of item k); `i` = instance in order
of first appearance, `k` = acquisition number of the item.

The log is replayed through `Model.C03.step`.  Three model events are not visible to the harness and are inserted where
the regenerated loop body puts them: `start i` before the first event of a new instance, `reqAdd i` right before
`shoot i k`, `respAdd i` right before the `rel` of an instance that has shot.
-/
namespace Pandora.Drv.C03
open Pandora.Drv Pandora.Model.C03 Pandora.Spec.C03

def nat2 (r : List Char) : Option (Nat × Nat) :=
  match (String.ofList r).splitOn ":" with
  | [i, l] => do pure (← i.toNat?, ← l.toNat?)
  | _ => none

def parseEv (s : String) : Option Ev :=
  match s.toList with
  | 'c' :: r => (nat2 r).map fun (i, l) => .chk i l
  | 'a' :: r => (String.ofList r).toNat?.map .acq
  | 'e' :: r => (String.ofList r).toNat?.map .empty
  | 'n' :: r => (String.ofList r).toNat?.map .tokOk
  | 'x' :: r => (String.ofList r).toNat?.map .tokEnd
  | 's' :: r => (nat2 r).map fun (i, k) => .shoot i k
  | 'd' :: r => (String.ofList r).toNat?.map .discard
  | 'r' :: r => (nat2 r).map fun (i, k) => .rel i k
  | _ => none

def evInst : Ev → Nat
  | .start i | .chk i _ | .acq i | .empty i | .tokOk i | .tokEnd i | .reqAdd i | .shoot i _ | .respAdd i
  | .discard i | .rel i _ => i

/-- the model events for one observed event (hidden events inserted) -/
def expand (s : St) (e : Ev) : List Ev :=
  let pre := if evInst e == s.started then [Ev.start (evInst e)] else []
  match e with
  | .shoot i k => pre ++ [.reqAdd i, .shoot i k]
  | .rel i k => pre ++ (if s.pcs[i]? == some .shot then [.respAdd i] else []) ++ [.rel i k]
  | e => pre ++ [e]

def runList (c : Cfg) : St → List Ev → Option St
  | s, [] => some s
  | s, e :: es => match step c s e with
    | some s' => runList c s' es
    | none => none

/-- replay; returns the state or the index and text of the first event that is not enabled -/
def replay (c : Cfg) : St → List (Ev × String) → Nat → Except String St
  | s, [], _ => .ok s
  | s, (e, txt) :: es, k => match runList c s (expand s e) with
    | some s' => replay c s' es (k + 1)
    | none => .error s!"rejected@{k}:{txt}"

/-- key of pool `j`: the plain key for a single pool, `key.j` when the engine runs several -/
def pkey (pools j : Nat) (k : String) : String := if pools ≤ 1 then k else s!"{k}.{j}"

/-- input value for pool `j`: `key.j` overrides `key` -/
def inKey (kv : List (String × String)) (j : Nat) (k : String) : String :=
  match lookup kv s!"{k}.{j}" with
  | some v => v
  | none => getS kv k

structure PoolRes where
  cfg : Cfg
  cnt : Counters
  err : Option String    -- why the log is not a run of the model
  st : Option St

def poolOf (kv o : List (String × String)) (pools j : Nat) : Option PoolRes :=
  let g := fun k => getS o (pkey pools j k)
  let ammo : Option Nat := match (inKey kv j "ammo").toInt? with
    | some a => if a < 0 then none else some a.toNat
    | none => none
  let c : Cfg := { perInstance := inKey kv j "shared" == "0", tokens := (g "exact").toNat?.getD 0, ammo := ammo,
                   discardOn := inKey kv j "discard" == "1",
                   instances := (g "cap").toNat?.getD ((inKey kv j "inst").toNat?.getD 0) }
  match (splitList (g "log")).mapM (fun t => (parseEv t).map (·, t)) with
  | none => none
  | some evs =>
    let cnt (p : Ev → Bool) := (evs.filter (fun e => p e.1)).length
    let r := replay c (init c) evs 0
    let st := match r with | .ok s => some s | .error _ => none
    -- a single pool: InstanceStart is this pool's; several pools: the instances seen in this pool's log
    let seen := (evs.map (fun e => evInst e.1)).foldl (fun m i => max m (i + 1)) 0
    let started := if pools ≤ 1 then (getN? o "started").getD 0 else seen
    let k : Counters := {
      started := started,
      fired := cnt (fun | .shoot _ _ => true | _ => false), discarded := cnt (fun | .discard _ => true | _ => false),
      acquired := cnt (fun | .acq _ => true | _ => false), released := cnt (fun | .rel _ _ => true | _ => false),
      usedAfterRelease := g "uar" != "0", doubleRelease := g "dbl" != "0",
      maxReleases := (g "relmax").toNat?.getD 0, minReleases := (g "relmin").toNat?.getD 1 }
    let err := match r with
      | .error e => some e
      | .ok s =>
        if !s.terminal then some "not-terminal"
        else if s.started != seen then some s!"started-mismatch:model {s.started} log {seen}"
        else if s.fired != k.fired || s.discarded != k.discarded then some "counter-mismatch"
        else if s.badUse then some "bad-use"
        else none
    some { cfg := c, cnt := k, err := err, st := st }

def handle : Handler := fun input impl =>
  let kv := parseKV input
  let o := parseKV impl
  if impl.startsWith "CRASH" || impl.startsWith "HANG" || impl.startsWith "PANIC" then
    ("-", s!"fail:crash:the engine did not end: {impl.take 200}") else
  if getS o "res" != "ok" then ("-", s!"fail:abnormal-end:{getS o "res"}") else
  let pools := max 1 ((getN? kv "pools").getD 1)
  match (List.range pools).mapM (poolOf kv o pools) with
  | none => ("-", s!"fail:crash:unparsable observation {impl.take 80}")
  | some prs =>
    let req := (getN? o "req").getD 0
    let resp := (getN? o "resp").getD 0
    let v := verdict (prs.map fun p => (p.cfg, p.cnt)) req resp
    match prs.findSome? (·.err) with
    | some e => (e, v)
    | none =>
      -- the model's engine-wide counters: sums over the pools
      let sts := prs.filterMap (·.st)
      let mreq := (sts.map (·.request)).sum
      let mresp := (sts.map (·.response)).sum
      let mstarted := (sts.map (·.started)).sum
      if mreq != req || mresp != resp then ("counter-mismatch", v)
      else if mstarted != (getN? o "started").getD 0 then (s!"started-mismatch:model {mstarted} metric {getS o "started"}", v)
      -- "the pool ended" must mean that every started instance has left Run
      else if getS o "finished" != getS o "started" then (s!"not-all-finished:{getS o "finished"} of {getS o "started"}", v)
      else (impl, v)

end Pandora.Drv.C03
