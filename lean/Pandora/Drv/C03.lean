import Pandora.Drv.Util
import Pandora.Spec.C03
import Pandora.Model.C03Fine
import Pandora.Model.C03Comp

/-!
C03 driver.  Input: `inst=<startup tokens> shared=<0|1> tokens=<n> ammo=<n|-1> discard=<0|1|absent> …` (the other keys only
steer the harness; with `cfg=cli|yaml2` the pool is written as YAML text and decoded by the real config reader, `rpsy=` /
`stay=` choose the spelling of the profile / the startup schedule — the expected behaviour does not depend on them).  Observation of the real engine:
`res=ok exact=<tokens of one profile> started=<InstanceStart> finished=… req=… resp=… uar=<0|1> dbl=<0|1> relmin=… relmax=… log=<events>`
with events `c<i>:<left>` (IsFinished saw Left()), `a<i>` / `e<i>` (Acquire ok / out of ammo), `n<i>` / `x<i>` (Next ok / finished),
`s<i>:<k>` (Shoot of item k), `d<i>` (discarded sample reported), `r<i>:<k>` (Release of item k); `i` = instance in order
of first appearance, `k` = acquisition number of the item.

The log is replayed through `Model.C03Fine.fstep` (the pool at the granularity of the schedule's atomic operations,
which refines `Model.C03.step`: `Proofs.C03Fine.fine_refines`).  Three model events are not visible to the harness and
are inserted where the regenerated loop body puts them: `start i` before the first event of a new instance, `reqAdd i`
right before `shoot i k`, `respAdd i` right before the `rel` of an instance that has shot.

Inputs with `fine=1` are run on a worker with scheduling points inside the schedule's `Next` / `Left`; their logs also
carry `t<i>:<field>.<op>` = instance i performed that atomic operation on the schedule's shared state (`i.Inc` inside
Next, `i.Load` inside Left; anything else is not an operation of the model and is rejected).  In such a log `n<i>` /
`x<i>` / `c<i>:<left>` are the RETURNS of the calls.  In a log without access events (`fine` absent) the access is taken
to happen right before the return.  A negative `Left()` is no event of the model (rejected).

`fine=1` on a COMPOSITE profile (observation `parts=<tokens of part 0>,<of part 1>,…` with two or more parts): the
scheduling points are the ones before the composite's `Lock` / `RLock` statements, the log carries `t<i>:Next.RLock`
(instance i ran the reader section of its `Next()`), `t<i>:Next.Lock` (its writer section), `t<i>:Left.RLock`; such a log
is replayed through `Model.C03Comp.cstep` — the composite's own answer, computed section by section from the parts, must
be what the log says AND what the pool's token counter says (`Proofs.C03Comp.comp_refines`).
-/
namespace Pandora.Drv.C03
open Pandora.Drv Pandora.Model.C03 Pandora.Model.C03Fine Pandora.Model.C03Comp Pandora.Spec.C03

def nat2 (r : List Char) : Option (Nat × Nat) :=
  match (String.ofList r).splitOn ":" with
  | [i, l] => do pure (← i.toNat?, ← l.toNat?)
  | _ => none

/-- what one logged token says -/
inductive Obs where
  | ev (e : Ev)                      -- an operation of the loop
  | acc (i : Nat) (what : String)    -- fine logs: an atomic operation on the schedule's shared state
  | impossible (i : Nat)             -- well-formed, but nothing the model can do (a negative `Left()`)

def parseObs (s : String) : Option Obs :=
  match s.toList with
  | 'c' :: r =>
    match (String.ofList r).splitOn ":" with
    | [i, l] => match i.toNat?, l.toInt? with
      | some i, some l => if l < 0 then some (.impossible i) else some (.ev (.chk i l.toNat))
      | _, _ => none
    | _ => none
  | 'a' :: r => (String.ofList r).toNat?.map fun i => .ev (.acq i)
  | 'e' :: r => (String.ofList r).toNat?.map fun i => .ev (.empty i)
  | 'n' :: r => (String.ofList r).toNat?.map fun i => .ev (.tokOk i)
  | 'x' :: r => (String.ofList r).toNat?.map fun i => .ev (.tokEnd i)
  | 's' :: r => (nat2 r).map fun (i, k) => .ev (.shoot i k)
  | 'd' :: r => (String.ofList r).toNat?.map fun i => .ev (.discard i)
  | 'r' :: r => (nat2 r).map fun (i, k) => .ev (.rel i k)
  | 't' :: r =>
    match (String.ofList r).splitOn ":" with
    | [i, w] => i.toNat?.map fun i => .acc i w
    | _ => none
  | _ => none

def Obs.inst : Obs → Nat
  | .ev e => evInst e
  | .acc i _ => i
  | .impossible i => i

/-- the model events for one observed token (hidden events inserted); `none` = not an operation of the model -/
def expand (fine : Bool) (s : FSt) (o : Obs) : Option (List FEv) :=
  let pre := if o.inst == s.base.started then [FEv.other (.start o.inst)] else []
  match o with
  | .impossible _ => none
  | .acc i w =>
    if w == "i.Inc" then some (pre ++ [.inc i])
    else if w == "i.Load" then some (pre ++ [.load i])
    else none
  | .ev (.shoot i k) => some (pre ++ [.other (.reqAdd i), .other (.shoot i k)])
  | .ev (.rel i k) => some (pre ++ (if s.base.pcs[i]? == some .shot then [.other (.respAdd i)] else []) ++ [.other (.rel i k)])
  | .ev (.chk i l) => some (pre ++ (if fine then [.leftRet i l] else [.load i, .leftRet i l]))
  | .ev (.tokOk i) => some (pre ++ (if fine then [.nextRet i true] else [.inc i, .nextRet i true]))
  | .ev (.tokEnd i) => some (pre ++ (if fine then [.nextRet i false] else [.inc i, .nextRet i false]))
  | .ev e => some (pre ++ [.other e])

/-- replay; returns the state or the index and text of the first event that is not enabled -/
def replay (c : Cfg) (fine : Bool) : FSt → List (Obs × String) → Nat → Except String FSt
  | s, [], _ => .ok s
  | s, (o, txt) :: es, k =>
    match (expand fine s o).bind (frun c s) with
    | some s' => replay c fine s' es (k + 1)
    | none => .error s!"rejected@{k}:{txt}"

/-- the same for a log of the composite's lock sections (`Model.C03Comp`) -/
def expandC (s : CSt) (o : Obs) : Option (List CEv) :=
  let pre := if o.inst == s.f.base.started then [CEv.other (.start o.inst)] else []
  match o with
  | .impossible _ => none
  | .acc i w =>
    if w == "Next.RLock" then some (pre ++ [.rsec i])
    else if w == "Next.Lock" then some (pre ++ [.wsec i])
    else if w == "Left.RLock" then some (pre ++ [.lsec i])
    else none    -- `Left.Lock`: the writer section of `Left()` is for profiles with an unlimited part only
  | .ev (.shoot i k) => some (pre ++ [.other (.reqAdd i), .other (.shoot i k)])
  | .ev (.rel i k) => some (pre ++ (if s.f.base.pcs[i]? == some .shot then [.other (.respAdd i)] else []) ++ [.other (.rel i k)])
  | .ev (.chk i l) => some (pre ++ [.leftRet i l])
  | .ev (.tokOk i) => some (pre ++ [.nextRet i true])
  | .ev (.tokEnd i) => some (pre ++ [.nextRet i false])
  | .ev e => some (pre ++ [.other e])

def replayC (c : Cfg) (parts : List Nat) : CSt → List (Obs × String) → Nat → Except String CSt
  | s, [], _ => .ok s
  | s, (o, txt) :: es, k =>
    match (expandC s o).bind (crun c parts s) with
    | some s' => replayC c parts s' es (k + 1)
    | none => .error s!"rejected@{k}:{txt}"

/-- key of pool `j`: the plain key for a single pool, `key.j` when the engine runs several -/
def pkey (pools j : Nat) (k : String) : String := if pools ≤ 1 then k else s!"{k}.{j}"

/-- input value for pool `j`: `key.j` overrides `key` -/
def inKey (kv : List (String × String)) (j : Nat) (k : String) : String :=
  match lookup kv s!"{k}.{j}" with
  | some v => v
  | none => getS kv k

structure PoolRes where
  cfg : Cfg
  cnt : Counters
  err : Option String    -- why the log is not a run of the model
  st : Option St

def poolOf (kv o : List (String × String)) (pools j : Nat) : Option PoolRes :=
  let g := fun k => getS o (pkey pools j k)
  let ammo : Option Nat := match (inKey kv j "ammo").toInt? with
    | some a => if a < 0 then none else some a.toNat
    | none => none
  let c : Cfg := { perInstance := inKey kv j "shared" == "0", tokens := (g "exact").toNat?.getD 0, ammo := ammo,
                   -- `discard=absent` (configs written as text, `cfg=`): the key is left out; `cli.readConfig` then says
                   -- true, the plain decoder keeps the zero value
                   discardOn := inKey kv j "discard" == "1" || (inKey kv j "discard" == "absent" && getS kv "cfg" == "cli"),
                   instances := (g "cap").toNat?.getD ((inKey kv j "inst").toNat?.getD 0) }
  let fine := getS kv "fine" == "1"
  match (splitList (g "log")).mapM (fun t => (parseObs t).map (·, t)) with
  | none => none
  | some evs =>
    let cnt (p : Ev → Bool) := (evs.filter (fun e => match e.1 with | .ev e => p e | _ => false)).length
    -- the tokens of the profile part by part (a composite when there are two or more)
    let parts : List Nat := if g "parts" == "" then [] else (splitList (g "parts")).filterMap (·.toNat?)
    let compMode := fine && parts.length ≥ 2
    let r : Except String FSt :=
      if compMode then
        if (parts.map (·)).sum != c.tokens then .error s!"parts-mismatch:{g "parts"} exact {c.tokens}"
        else match replayC c parts (cinitWith c parts) evs 0 with
          | .ok s => if s.w.all (· == none) then .ok s.f else .error "not-terminal"
          | .error e => .error e
      else replay c fine (finit c) evs 0
    let st := match r with | .ok s => some s.base | .error _ => none
    -- a single pool: InstanceStart is this pool's; several pools: the instances seen in this pool's log
    let seen := (evs.map (fun e => e.1.inst)).foldl (fun m i => max m (i + 1)) 0
    let started := if pools ≤ 1 then (getN? o "started").getD 0 else seen
    let k : Counters := {
      started := started,
      fired := cnt (fun | .shoot _ _ => true | _ => false), discarded := cnt (fun | .discard _ => true | _ => false),
      acquired := cnt (fun | .acq _ => true | _ => false), released := cnt (fun | .rel _ _ => true | _ => false),
      usedAfterRelease := g "uar" != "0", doubleRelease := g "dbl" != "0",
      maxReleases := (g "relmax").toNat?.getD 0, minReleases := (g "relmin").toNat?.getD 1 }
    let err := match r with
      | .error e => some e
      | .ok fs =>
        let s := fs.base
        if !fs.terminal then some "not-terminal"
        else if s.started != seen then some s!"started-mismatch:model {s.started} log {seen}"
        else if s.fired != k.fired || s.discarded != k.discarded then some "counter-mismatch"
        else if s.badUse then some "bad-use"
        else none
    some { cfg := c, cnt := k, err := err, st := st }

def handle : Handler := fun input impl =>
  let kv := parseKV input
  let o := parseKV impl
  if impl.startsWith "CRASH DATA_RACE" then
    ("-", s!"fail:race:the race detector stopped the engine (operations that the model takes as atomic / ordered are not): {impl.take 300}") else
  if impl.startsWith "CRASH" || impl.startsWith "HANG" || impl.startsWith "PANIC" then
    ("-", s!"fail:crash:the engine did not end: {impl.take 200}") else
  if getS o "res" == "noinstr" then ("-", s!"skip:no-instrumented-worker:{getS o "why"}") else
  if getS o "res" == "giveup" then ("-", s!"skip:not-run:{getS o "why"}") else
  let runaway := getS o "res" == "runaway"
  -- fault plan `panic=k`: the k-th Shoot panics.  The pool then does not end normally (out of the property's scope) —
  -- but what was acquired must still have been released exactly once and never used while not held
  let injected := (getN? kv "panic").isSome && ((getS o "res").splitOn "shoot_panic").length > 1
  if getS o "res" != "ok" && !runaway && !injected then ("-", s!"fail:abnormal-end:{getS o "res"}") else
  let pools := max 1 ((getN? kv "pools").getD 1)
  match (List.range pools).mapM (poolOf kv o pools) with
  | none => ("-", s!"fail:crash:unparsable observation {impl.take 80}")
  | some prs =>
    if injected then
      match prs.find? (fun p => p.cnt.acquired != p.cnt.released || p.cnt.doubleRelease || p.cnt.maxReleases > 1
                                 || p.cnt.minReleases != 1 || p.cnt.usedAfterRelease) with
      | some p => ("-", s!"fail:release:after a gun panic: acquired {p.cnt.acquired} released {p.cnt.released} double={p.cnt.doubleRelease} used-after-release={p.cnt.usedAfterRelease}")
      | none => ("-", "skip:injected-gun-panic-ends-the-pool-abnormally")
    else
    let req := (getN? o "req").getD 0
    let resp := (getN? o "resp").getD 0
    let v0 := verdict (prs.map fun p => (p.cfg, p.cnt)) req resp
    -- a pool that ended normally has seen every started instance leave `Run` (`C03_pool_nil_all_returned`): the engine's
    -- InstanceFinish counter has caught up with InstanceStart
    let v := if !v0.startsWith "fail" && !runaway && getS o "finished" != getS o "started" then
               s!"fail:metrics:InstanceFinish {getS o "finished"} != InstanceStart {getS o "started"} after a normal end"
             else v0
    -- the harness cut a run that went on far beyond what a finite profile allows: what the counters say at that moment
    if runaway then ("-", if v.startsWith "fail:unfired" || v.startsWith "fail:release" || v.startsWith "fail:use" then v
                          else s!"fail:abnormal-end:runaway, the pool does not end ({getS o "started"} instances)") else
    -- fine logs are only in operation order while the controller let one instance run at a time
    if getS kv "fine" == "1" && getS o "partial" != "0" then ("-", v) else
    -- race-detector runs (`race=1`): the operations were performed outside the recorder's mutex, the log is only counted
    if getS kv "race" == "1" then ("-", v) else
    match prs.findSome? (·.err) with
    | some e => (e, v)
    | none =>
      -- the model's engine-wide counters: sums over the pools
      let sts := prs.filterMap (·.st)
      let mreq := (sts.map (·.request)).sum
      let mresp := (sts.map (·.response)).sum
      let mstarted := (sts.map (·.started)).sum
      if mreq != req || mresp != resp then ("counter-mismatch", v)
      else if mstarted != (getN? o "started").getD 0 then (s!"started-mismatch:model {mstarted} metric {getS o "started"}", v)
      -- "the pool ended" must mean that every started instance has left Run
      else if getS o "finished" != getS o "started" then (s!"not-all-finished:{getS o "finished"} of {getS o "started"}", v)
      else (impl, v)

end Pandora.Drv.C03
