import Pandora.Drv.Util
import Pandora.Spec.C03

/-!
C03 driver.  Input: `inst=<startup tokens> shared=<0|1> tokens=<n> ammo=<n|-1> discard=<0|1> …` (the other keys only
steer the harness).  Observation of the real engine:
`res=ok exact=<tokens of one profile> started=<InstanceStart> finished=… req=… resp=… uar=<0|1> dbl=<0|1> relmin=… relmax=… log=<events>`
with events `c<i>:<left>` (IsFinished saw Left()), `a<i>` / `e<i>` (Acquire ok / out of ammo), `n<i>` / `x<i>` (Next ok / finished),
`s<i>:<k>` (Shoot of item k), `d<i>` (discarded sample reported), `r<i>:<k>` (Release of item k); `i` = instance in order
of first appearance, `k` = acquisition number of the item.

The log is replayed through `Model.C03.step`.  Three model events are not visible to the harness and are inserted where
the regenerated loop body puts them: `start i` before the first event of a new instance, `reqAdd i` right before
`shoot i k`, `respAdd i` right before the `rel` of an instance that has shot.
-/
namespace Pandora.Drv.C03
open Pandora.Drv Pandora.Model.C03 Pandora.Spec.C03

def nat2 (r : List Char) : Option (Nat × Nat) :=
  match (String.ofList r).splitOn ":" with
  | [i, l] => do pure (← i.toNat?, ← l.toNat?)
  | _ => none

def parseEv (s : String) : Option Ev :=
  match s.toList with
  | 'c' :: r => (nat2 r).map fun (i, l) => .chk i l
  | 'a' :: r => (String.ofList r).toNat?.map .acq
  | 'e' :: r => (String.ofList r).toNat?.map .empty
  | 'n' :: r => (String.ofList r).toNat?.map .tokOk
  | 'x' :: r => (String.ofList r).toNat?.map .tokEnd
  | 's' :: r => (nat2 r).map fun (i, k) => .shoot i k
  | 'd' :: r => (String.ofList r).toNat?.map .discard
  | 'r' :: r => (nat2 r).map fun (i, k) => .rel i k
  | _ => none

def evInst : Ev → Nat
  | .start i | .chk i _ | .acq i | .empty i | .tokOk i | .tokEnd i | .reqAdd i | .shoot i _ | .respAdd i
  | .discard i | .rel i _ => i

/-- the model events for one observed event (hidden events inserted) -/
def expand (s : St) (e : Ev) : List Ev :=
  let pre := if evInst e == s.started then [Ev.start (evInst e)] else []
  match e with
  | .shoot i k => pre ++ [.reqAdd i, .shoot i k]
  | .rel i k => pre ++ (if s.pcs[i]? == some .shot then [.respAdd i] else []) ++ [.rel i k]
  | e => pre ++ [e]

def runList (c : Cfg) : St → List Ev → Option St
  | s, [] => some s
  | s, e :: es => match step c s e with
    | some s' => runList c s' es
    | none => none

/-- replay; returns the state or the index and text of the first event that is not enabled -/
def replay (c : Cfg) : St → List (Ev × String) → Nat → Except String St
  | s, [], _ => .ok s
  | s, (e, txt) :: es, k => match runList c s (expand s e) with
    | some s' => replay c s' es (k + 1)
    | none => .error s!"rejected@{k}:{txt}"

def handle : Handler := fun input impl =>
  let kv := parseKV input
  let o := parseKV impl
  let ammo : Option Nat := match getI? kv "ammo" with
    | some a => if a < 0 then none else some a.toNat
    | none => none
  let c : Cfg := { perInstance := getS kv "shared" == "0", tokens := (getN? o "exact").getD 0, ammo := ammo,
                   discardOn := getS kv "discard" == "1", instances := (getN? o "cap").getD ((getN? kv "inst").getD 0) }
  let evTxt := splitList (getS o "log")
  match evTxt.mapM (fun t => (parseEv t).map (·, t)) with
  | none => ("-", s!"fail:crash:unparsable observation {impl.take 80}")
  | some evs =>
    if getS o "res" != "ok" then ("-", s!"fail:abnormal-end:{getS o "res"}") else
    let cnt (p : Ev → Bool) := (evs.filter (fun e => p e.1)).length
    let k : Counters := {
      started := (getN? o "started").getD 0,
      fired := cnt (fun | .shoot _ _ => true | _ => false), discarded := cnt (fun | .discard _ => true | _ => false),
      acquired := cnt (fun | .acq _ => true | _ => false), released := cnt (fun | .rel _ _ => true | _ => false),
      request := (getN? o "req").getD 0, response := (getN? o "resp").getD 0,
      usedAfterRelease := getS o "uar" != "0", doubleRelease := getS o "dbl" != "0",
      maxReleases := (getN? o "relmax").getD 0, minReleases := (getN? o "relmin").getD 1 }
    let v := verdict c k
    match replay c (init c) evs 0 with
    | .error e => (e, v)
    | .ok s =>
      if !s.terminal then ("not-terminal", v)
      else if s.started != k.started then (s!"started-mismatch:model {s.started} metric {k.started}", v)
      else if s.fired != k.fired || s.discarded != k.discarded || s.request != k.request || s.response != k.response
        then ("counter-mismatch", v)
      else if s.badUse then ("bad-use", v)
      else (impl, v)

end Pandora.Drv.C03
