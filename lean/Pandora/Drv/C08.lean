import Pandora.Drv.Util
import Pandora.Model.C08
import Pandora.Spec.C08

namespace Pandora.Drv.C08
open Pandora.Drv Pandora.Model.C08

def parseKind : String → Option Kind
  | "uri" => some .uri | "uripost" => some .uripost | "raw" => some .raw
  | "jsonl" => some .jsonLines | "jsonarr" => some .jsonArray | "grpcjson" => some .grpcJson
  | "httpscn" => some .httpScenario | "grpcscn" => some .grpcScenario | "genjson" => some .genericJson
  | _ => none

def runName : RunRes → String
  | .nil => "nil" | .canceled => "canceled" | .errLimit => "limit" | .errPasses => "passes"
  | .errNoAmmo => "noammo" | .errOther => "other"

def parseRun (s : String) : Spec.C08.RunClass :=
  match s with
  | "nil" => .nil | "canceled" => .canceled | "limit" => .limit | "passes" => .passes
  | "noammo" => .noammo | "noreturn" => .noreturn | _ => .other

def parseEnd : String → Option Spec.C08.EndClass
  | "closed" => some .closed | "blocked" => some .blocked | "spinning" => some .spinning | _ => none

structure Line where
  inp : Input
  n : Nat
  cell : Spec.C08.Cell

def parseLine (kv : List (String × String)) : Option Line := do
  let kind ← parseKind (getS kv "kind")
  let limit ← getN? kv "limit"
  let passes ← getN? kv "passes"
  let n ← getN? kv "n"
  let cap ← getN? kv "cap"
  pure { inp := { kind, preload := getS kv "preload" == "1", b := ⟨limit, passes⟩, cancelAt := if cap = 0 then none else some cap },
         n, cell := { limit, passes, n, cap } }

/-- the model's observation of a cell, in the harness' format; `ops` is not predicted (echoed from the implementation) -/
def modelObs (l : Line) (ops : String) : String :=
  match run l.inp l.n with
  | none => s!"delivered=? cut=0 run=noreturn end=spinning ops={ops}"
  | some o =>
    let cut := match l.inp.cancelAt with | some c => decide (c ≤ o.delivered.length) | none => false
    s!"delivered={o.delivered.length} cut={if cut then 1 else 0} run={runName o.run} end={if o.sinkClosed then "closed" else "blocked"} ops={ops}"

def parseObs (kv : List (String × String)) : Option Spec.C08.Obs := do
  pure { delivered := ← getN? kv "delivered", cut := getS kv "cut" == "1", run := parseRun (getS kv "run"),
         end_ := ← parseEnd (getS kv "end"), ops := ← getN? kv "ops" }

def handle : Handler := fun input impl =>
  match parseLine (parseKV input) with
  | none => ("-", "fail:driver:unparsable input")
  | some l =>
    if l.n = 0 then ("-", "skip:empty-file") else
    let ikv := parseKV impl
    match lookup ikv "construct" with
    | some e => (modelObs l "0", s!"fail:construct:{e}")
    | none =>
      match parseObs ikv with
      | none => (modelObs l "0", s!"fail:crash:{impl.take 120}")
      | some o => (modelObs l (getS ikv "ops"), Spec.C08.judge l.cell o)

end Pandora.Drv.C08
