import Pandora.Drv.Util
import Pandora.Model.C08
import Pandora.Model.C08Chan
import Pandora.Model.C08Mach
import Pandora.Model.C08Fault
import Pandora.Model.C08Pick
import Pandora.Model.C08Size
import Pandora.Spec.C08

namespace Pandora.Drv.C08
open Pandora.Drv Pandora.Model.C08

def parseKind : String → Option Kind
  | "uri" => some .uri | "uris" => some .uri | "uripost" => some .uripost | "raw" => some .raw
  | "jsonl" => some .jsonLines | "jsonarr" => some .jsonArray | "grpcjson" => some .grpcJson
  | "httpscn" => some .httpScenario | "grpcscn" => some .grpcScenario | "genjson" => some .genericJson
  | _ => none

def parseRun (s : String) : Spec.C08.RunClass :=
  match s with
  | "nil" => .nil | "canceled" => .canceled | "limit" => .limit | "passes" => .passes
  | "noammo" => .noammo | "noreturn" => .noreturn | "fault" => .fault | _ => .other

def parseEnd : String → Option Spec.C08.EndClass
  | "closed" => some .closed | "blocked" => some .blocked | "spinning" => some .spinning | "open" => some .open_ | _ => none

inductive Mode where
  | drain | stall | ext | tcan | engine
  deriving DecidableEq, Repr

def parseMode : String → Option Mode
  | "" => some .drain | "drain" => some .drain | "stall" => some .stall | "ext" => some .ext | "tcan" => some .tcan | "engine" => some .engine
  | _ => none

structure Line where
  inp : Input
  n : Nat
  cell : Spec.C08.Cell
  mode : Mode := .drain
  cons : Nat := 1
  shots : Nat := 0
  idle : Bool := false
  gate : Nat := 0
  faults : Spec.C08.Faults := {}
  pick : Option (List Nat) := none   -- chosencases: ids of the listed entries
  src : SrcKind := .file             -- generic JSON provider: the data source
  fileN : Nat := 0                   -- entries of the file (`n` = entries of one pass: the chosen ones)
  wts : Option (List Nat) := none    -- scenario kinds: the weights of the `fileN` scenarios
  -- round 6: the size of an entry and the option that bounds it
  pad : Nat := 0                     -- every entry is padded with this many bytes
  big : Nat := 0                     -- … entry `bigat` (1-based; 0 = none) with this many more
  bigat : Nat := 0
  mas : Nat := 0                     -- the `maxammosize` option (0 = not set)
  eol : Nat := 0                     -- 2: lines end in CRLF (the `\r` counts for the scanner)

def parseSrc : String → Option SrcKind
  | "" => some .file | "file" => some .file | "inline" => some .inline | "rs" => some .readSeeker
  | "rsc" => some .readSeekCloser | "rc" => some .readCloser | "pipe" => some .reader | "buf" => some .buffer | _ => none

def parseLine (kv : List (String × String)) : Option Line := do
  let kind ← parseKind (getS kv "kind")
  let limit ← getN? kv "limit"
  let passes ← getN? kv "passes"
  let fileN ← getN? kv "n"
  let pick ← match lookup kv "pick" with
    | none => pure none
    | some s => (parseNats s).map some
  let src ← parseSrc (getS kv "src")
  let wts ← match lookup kv "wts" with
    | none => pure none
    | some s => (parseNats s).map some
  -- the entries of one pass: with a chosencases option the listed ones
  -- … with scenario weights the spread list
  let n := match pick, wts with
    | some p, _ => (chosenOf fileN p).length
    | none, some ws => (spread ws).length
    | none, none => fileN
  let cap ← getN? kv "cap"
  let mode ← parseMode (getS kv "mode")
  let cons := (getN? kv "cons").getD 1
  let shots := (getN? kv "shots").getD 0
  let pad := (getN? kv "pad").getD 0
  let big := (getN? kv "big").getD 0
  let bigat := (getN? kv "bigat").getD 0
  let mas := (getN? kv "mas").getD 0
  let eol := (getN? kv "eol").getD 0
  pure { inp := { kind, preload := getS kv "preload" == "1", b := ⟨limit, passes⟩, cancelAt := if cap = 0 then none else some cap },
         n, cell := { limit, passes, n, cap, pad := pad + big, fileN := if pick.isSome then fileN else 0 }, mode, cons, shots, pick, src, fileN, wts,
         pad, big, bigat, mas, eol,
         idle := getS kv "idle" == "1", gate := (getN? kv "gate").getD 0,
         faults := { cfail := (getN? kv "cfail").getD 0, rfail := (getN? kv "rfail").getD 0,
                     rsticky := getS kv "rsticky" == "1", ofail := getS kv "ofail" == "1" } }

def classOf : RunRes → Spec.C08.RunClass
  | .nil => .nil | .canceled => .canceled | .errLimit => .limit | .errPasses => .passes
  | .errNoAmmo => .noammo | .errOther => .other

def runClassName (r : Spec.C08.RunClass) : String := r.name
def endName (e : Spec.C08.EndClass) : String := e.name

/-- what the harness would observe of a model outcome: `cap` = the acquisition count at which it cancels;
`ops` is not predicted by the model (echoed from the implementation, bounded by the Spec). -/
def obsOf (cap : Nat) (ops : Nat) : Option (Outcome Nat) → Spec.C08.Obs
  | none => { delivered := 0, cut := false, run := .noreturn, end_ := .spinning, ops }
  | some o => { delivered := o.delivered.length, cut := decide (0 < cap ∧ cap ≤ o.delivered.length), run := classOf o.run,
                end_ := if o.sinkClosed then .closed else .blocked, ops }

/-- the `seq=` field the harness prints when the ammo came in file order: one consumer ⇒ checked exactly; several
consumers ⇒ checked (as a multiset) only when the acquisitions are complete -/
def seqField (cons : Nat) (complete : Bool) : String := if cons ≤ 1 ∨ complete then "ok" else "na"

def b01 (b : Bool) : String := if b then "1" else "0"

/-- mode drain.  When the harness cancelled a BOUNDED cell the provider may also have reached its bound before it
noticed the cancellation: `nil` is then as good as the model's `canceled` (echoed). -/
def showDrain (l : Line) (o : Spec.C08.Obs) (ops implEnd implRun : String) (fired : Option String := none) : String :=
  let e := if o.run == .noreturn then implEnd else endName o.end_
  let run := if o.cut ∧ Spec.C08.bounded l.cell ∧ implRun == "nil" ∧ o.run == .canceled then "nil" else runClassName o.run
  let f := match fired with | some f => s!" fired={f}" | none => ""
  s!"delivered={o.delivered} cut={b01 o.cut}{f} run={run} end={e} seq={seqField l.cons (!o.cut)} ops={ops}"

/-- the lengths of the lines of the harness' grpc/json file (c08cell.fileBody: `{"tag":"t<i>","call":"pkg.Svc.M<i>",
"payload":{"i":<i>,"pad":"<padding>"}}`; with CRLF line ends the `\r` is part of what the scanner has to buffer) -/
def grpcSizes (l : Line) : List Nat :=
  (List.range l.fileN).map fun i =>
    56 + 3 * (toString i).length + l.pad + (if i + 1 = l.bigat then l.big else 0) + (if l.eol = 2 then 1 else 0)

/-- a grpc/json cell one of whose lines does not fit the scanner of the first pass: not a well-formed file for that
configuration (`maxammosize`: "maximum number of byte in an ammo") -/
def oversize (l : Line) : Bool :=
  l.inp.kind == .grpcJson && (grpcSizes l).any (fun len => !fitsTok (lineMax .grpcJson l.mas 1) len)

/-- the two models of a drain cell agree: `Model.C08.run` (loops as fuel functions) and the small-step machine of
`Model.C08Mach` under the drain schedule -/
def modelsAgree (l : Line) : Bool :=
  if l.pick.isSome || !l.src.seekable || oversize l then true else   -- the machine has neither a filter nor sources nor sizes
  match run l.inp l.n, runMach l.inp l.n with
  | some a, some b => a.delivered == b.delivered && a.run == b.run && a.sinkClosed == b.sinkClosed
  | none, none => true
  | _, _ => false

/-- the sequential model of the cell: with a chosencases option `runPick` over the whole file, for a generic JSON cell
`runSrc` over its data source, for grpc/json (round 6) the loop over lines with lengths (`runGrpcSz`, which IS `run` /
`runPick` when every line fits: `Proofs.C08.runGrpcSz_eq_run`), else `run` -/
def runLine (l : Line) : Option (Outcome Nat) :=
  if l.inp.kind == .grpcJson then runGrpcSz l.inp (grpcSizes l) l.mas l.pick else
  match l.pick with
  | some p => runPick l.inp l.fileN p
  | none => if l.inp.kind == .genericJson then runSrc l.src l.inp l.n else run l.inp l.n

/-- the cell as the provider sees it: a source that cannot be rewound is read once (`passes` = 1) -/
def effCell (l : Line) : Spec.C08.Cell :=
  if l.src.seekable then l.cell else { l.cell with passes := 1 }

def modelDrain (l : Line) (ikv : List (String × String)) (fired : Option String := none) : String :=
  let s := showDrain l (obsOf l.cell.cap 0 (runLine l)) (getS ikv "ops" "0") (getS ikv "end" "spinning") (getS ikv "run") fired
  if modelsAgree l then s else s ++ " MODELS-DISAGREE(Model.C08.run vs Model.C08Mach.runMach)"

def parseObs (kv : List (String × String)) : Option Spec.C08.Obs := do
  pure { delivered := ← getN? kv "delivered", cut := getS kv "cut" == "1", run := parseRun (getS kv "run"),
         end_ := ← parseEnd (getS kv "end"), ops := ← getN? kv "ops",
         seqOk := getS kv "seq" == "ok" || getS kv "seq" == "na", seqTail := getS kv "seq" == "tail" }

def parseHits (kv : List (String × String)) : Spec.C08.Hits :=
  { r := getS kv "rhit" == "1", c := getS kv "chit" == "1", o := getS kv "ohit" == "1" }

/-- what closing the ammo file gives in a cell with this fault plan -/
def closeOutOf (f : Spec.C08.Faults) : CloseOut :=
  if f.cfail = 1 then .fails else if f.cfail = 2 then .absent else .ok

/-- a fault cell: `base` = the model's observation of the cell without the fault (`modelDrain`).
Only the close fails (`cfail`, no read / open fault): the deferred cleanup decides what `Run` returns
(`Model.C08.finalClass`: the http family reports the failure, the others drop it) — everything is predicted but
whether the families that drop the result call Close at all (echoed).  A read / open fault: where the k-th file
operation falls is not modelled; an observation that satisfies the Spec's fault clauses is echoed. -/
def modelFault (l : Line) (ikv : List (String × String)) (base : String) (implOk : Bool) (impl : String) : String :=
  let f := l.faults
  if f.rfail != 0 || f.ofail then (if implOk then impl else base)
  else
    let bkv := parseKV base
    let baseRun : RunRes := if getS bkv "run" == "canceled" then .canceled else .nil
    let run := match finalClass l.inp.kind baseRun (closeOutOf f) with
      | some .nil => "nil" | some .canceled => "canceled" | some _ => "other" | none => "fault"
    let chit := if f.cfail = 2 then "0" else if l.inp.kind.isHttp then "1" else getS ikv "chit" "0"
    let fired := match lookup bkv "fired" with | some x => s!" fired={x}" | none => ""
    s!"delivered={getS bkv "delivered"} cut={getS bkv "cut"}{fired} run={run} end={getS bkv "end"} seq={getS bkv "seq"} ops={getS bkv "ops"} rhit=0 chit={chit} ohit=0"

def parseStall (kv : List (String × String)) : Option Spec.C08.StallObs := do
  pure { delivered := ← getN? kv "delivered", cut := getS kv "cut" == "1", ret := getS kv "ret" == "1",
         run := parseRun (getS kv "run"), left := ← getN? kv "left", end_ := ← parseEnd (getS kv "end"),
         seqOk := getS kv "seq" == "ok" || getS kv "seq" == "na" }

def parseEng (kv : List (String × String)) : Option Spec.C08.EngObs := do
  pure { shots := ← getN? kv "shots", errNil := getS kv "err" == "nil", errText := getS kv "err",
         wait := getS kv "wait" == "1", seqOk := getS kv "seq" == "ok" || getS kv "seq" == "na" }

/-- mode stall: everything but `left` is determined (`left` = what the provider managed to put into the channel
buffer before the cancel: echoed when it is within the Spec's bounds) -/
def modelStall (l : Line) (o : Spec.C08.StallObs) : String :=
  let cc := l.inp.kind.chanCap
  let d := Spec.C08.stallWant l.cell
  let self := Spec.C08.selfEnding l.cell cc
  let run := if self then "nil" else if l.inp.kind.answersCanceled then "canceled" else "nil"
  let left :=
    match Spec.C08.expected l.cell.limit l.cell.passes l.cell.n with
    | some m => if self then m - d else if o.left ≤ cc ∧ d + o.left ≤ m then o.left else cc
    | none => if o.left ≤ cc then o.left else cc
  s!"delivered={d} cut={b01 (!self)} ret=1 run={run} left={left} end=closed seq=ok"

/-- mode engine; `gated` (did the gate operation fall inside `Run` and see the cancel) depends on where the k-th file
operation falls: echoed -/
def modelEngine (l : Line) (ikv : List (String × String) := []) : String :=
  let w := match Spec.C08.engWant l.cell l.shots l.idle with | some w => toString w | none => "unbounded"
  let complete := match Spec.C08.expected l.cell.limit l.cell.passes l.cell.n with
    | some m => decide (!l.idle ∧ (l.shots = 0 ∨ m ≤ l.shots))
    | none => false
  let g := if l.gate = 0 then "" else s!" gated={getS ikv "gated" "0"}"
  s!"shots={w} err=nil wait=1 seq={seqField l.cons complete}{g}"

def handle : Handler := fun input impl =>
  match parseLine (parseKV input) with
  | none => ("-", "fail:driver:unparsable input")
  | some l =>
    if l.n = 0 then ("-", "skip:empty-file") else
    if !(l.inp.kind.boundTy.fits l.cell.limit && l.inp.kind.boundTy.fits l.cell.passes) then ("-", "fail:driver:a bound outside the range of the option's Go type") else
    if l.pick.isSome ∧ !l.inp.kind.hasFilter then ("-", "fail:driver:this kind has no chosencases option") else
    if l.wts.isSome ∧ !(l.inp.kind == .httpScenario ∨ l.inp.kind == .grpcScenario) then ("-", "fail:driver:only scenario kinds have weights") else
    if (match l.wts with | some ws => ws.length != l.fileN | none => false) then ("-", "fail:driver:one weight per scenario") else
    if l.src != .file ∧ l.inp.kind != .genericJson then ("-", "fail:driver:only the generic JSON provider has a data source") else
    if !l.src.seekable ∧ (l.mode != .drain ∨ l.faults.any) then ("-", "fail:driver:sources that cannot be rewound are only run in mode drain without faults") else
    if (l.bigat != 0 ∨ l.mas != 0) ∧ !(l.inp.kind.hasFilter ∨ l.inp.kind == .genericJson) then ("-", "fail:driver:this kind has no sized entries") else
    if l.bigat > l.fileN then ("-", "fail:driver:bigat beyond the last entry") else
    let ikv := parseKV impl
    -- the harness' process did not get the CPU for seconds (scheduling canary): nothing can be said about the provider
    if getS ikv "end" == "starved" then ("-", "skip:inconclusive-starved-machine") else
    if oversize l ∧ (l.mode != .drain ∨ l.faults.any) then ("-", "skip:entry-exceeds-maxammosize") else
    match lookup ikv "construct" with
    | some e =>
      if l.faults.any then
        -- the constructor hit the injected fault (it reads / closes the ammo file itself): not the model's ground
        let v := Spec.C08.constructJudge (parseHits ikv) e
        (if v == "ok" then impl else modelDrain l [], v)
      else (modelDrain l [], s!"fail:construct:{e}")
    | none =>
      if l.faults.any then
        match l.mode with
        | .drain | .ext | .tcan =>
          if l.cell.cap = 0 ∧ !Spec.C08.bounded l.cell then ("-", "skip:unbounded-cell-without-cap") else
          let isExt := l.mode != .drain
          match parseObs ikv with
          | none => (modelDrain l [] (if isExt then some "0" else none), s!"fail:crash:{impl.take 120}")
          | some o =>
            let fired := isExt && getS ikv "fired" == "1"
            let ac := l.inp.kind.answersCanceled
            let hits := parseHits ikv
            let ok := Spec.C08.faultHolds l.cell ac hits fired o
            let base :=
              if fired ∧ ok then
                s!"delivered={o.delivered} cut={b01 o.cut} fired=1 run={if o.run == .fault then "canceled" else runClassName o.run} end=closed seq={getS ikv "seq"} ops={getS ikv "ops"}"
              else modelDrain l ikv (if isExt then some (getS ikv "fired" "0") else none)
            (modelFault l ikv base ok impl, Spec.C08.faultJudge l.cell ac hits fired o)
        | _ => ("-", "fail:driver:a fault plan is only defined for the modes drain, ext and tcan")
      else
      match l.mode with
      | .drain =>
        if l.cell.cap = 0 ∧ !Spec.C08.bounded l.cell then ("-", "skip:unbounded-cell-without-cap") else
        match parseObs ikv with
        | none => (modelDrain l [], s!"fail:crash:{impl.take 120}")
        | some o =>
          -- an oversize cell in which the provider met the line the scanner refuses BEFORE it noticed the harness' cancel
          -- (it runs ahead of the consumers by its channel buffer): any count up to the expected one, closed sink
          if oversize l && (getS ikv "run").startsWith "other:" && ((getS ikv "run").splitOn "token_too_long").length > 1 &&
              o.end_ == .closed && o.delivered ≤ Spec.C08.want l.cell then
            (impl, "skip:entry-exceeds-maxammosize")
          else
          if oversize l && (match runLine l with | some m => m.run == .errOther | none => false) then
            -- the scanner refuses the line: `Run` reports it (predicted: how many ammo came before, closed sink)
            let m := modelDrain l ikv
            let ir := getS ikv "run"
            let m := if ir.startsWith "other:" ∧ (ir.splitOn "token_too_long").length > 1 then m.replace "run=other " s!"run={ir} " else m
            (m, "skip:entry-exceeds-maxammosize")
          else
          if l.src.seekable then (modelDrain l ikv, Spec.C08.judge l.cell o)
          else
            -- a source that cannot be rewound: the provider reads it once (model); where the property asks for more
            -- than one pass that is a limitation of the source, not a finding
            let v := Spec.C08.judge (effCell l) o
            (modelDrain l ikv, if v == "ok" ∧ Spec.C08.judge l.cell o != "ok" then "skip:source-cannot-be-rewound" else v)
      | .ext | .tcan =>
        if l.cell.cap = 0 ∧ !Spec.C08.bounded l.cell then ("-", "skip:unbounded-cell-without-cap") else
        match parseObs ikv with
        | none => (modelDrain l [] (some "0"), s!"fail:crash:{impl.take 120}")
        | some o =>
          let fired := getS ikv "fired" == "1"
          let ac := l.inp.kind.answersCanceled
          if fired ∧ Spec.C08.extHolds l.cell ac true o then
            -- a cancellation at that point leaves the count open: the observation is one the model allows
            (s!"delivered={o.delivered} cut={b01 o.cut} fired=1 run={runClassName o.run} end=closed seq={getS ikv "seq"} ops={getS ikv "ops"}",
             "ok")
          else (modelDrain l ikv (some (getS ikv "fired" "0")), Spec.C08.extJudge l.cell ac fired o)
      | .stall =>
        match parseStall ikv with
        | none => ("-", s!"fail:crash:{impl.take 120}")
        | some o => (modelStall l o, Spec.C08.stallJudge l.cell l.inp.kind.chanCap o)
      | .engine =>
        if l.shots = 0 ∧ !l.idle ∧ !Spec.C08.bounded l.cell then ("-", "skip:nothing-ends-this-run") else
        match parseEng ikv with
        | none => (modelEngine l, s!"fail:crash:{impl.take 120}")
        | some o => (modelEngine l ikv, Spec.C08.engJudge l.cell l.shots o l.idle)

end Pandora.Drv.C08
