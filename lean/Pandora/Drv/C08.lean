import Pandora.Drv.Util
import Pandora.Model.C08
import Pandora.Spec.C08

namespace Pandora.Drv.C08
open Pandora.Drv Pandora.Model.C08

def parseKind : String → Option Kind
  | "uri" => some .uri | "uripost" => some .uripost | "raw" => some .raw
  | "jsonl" => some .jsonLines | "jsonarr" => some .jsonArray | "grpcjson" => some .grpcJson
  | "httpscn" => some .httpScenario | "grpcscn" => some .grpcScenario | "genjson" => some .genericJson
  | _ => none

def parseRun (s : String) : Spec.C08.RunClass :=
  match s with
  | "nil" => .nil | "canceled" => .canceled | "limit" => .limit | "passes" => .passes
  | "noammo" => .noammo | "noreturn" => .noreturn | _ => .other

def parseEnd : String → Option Spec.C08.EndClass
  | "closed" => some .closed | "blocked" => some .blocked | "spinning" => some .spinning | _ => none

structure Line where
  inp : Input
  n : Nat
  cell : Spec.C08.Cell

def parseLine (kv : List (String × String)) : Option Line := do
  let kind ← parseKind (getS kv "kind")
  let limit ← getN? kv "limit"
  let passes ← getN? kv "passes"
  let n ← getN? kv "n"
  let cap ← getN? kv "cap"
  pure { inp := { kind, preload := getS kv "preload" == "1", b := ⟨limit, passes⟩, cancelAt := if cap = 0 then none else some cap },
         n, cell := { limit, passes, n, cap } }

def classOf : RunRes → Spec.C08.RunClass
  | .nil => .nil | .canceled => .canceled | .errLimit => .limit | .errPasses => .passes
  | .errNoAmmo => .noammo | .errOther => .other

def runClassName (r : Spec.C08.RunClass) : String := r.name
def endName (e : Spec.C08.EndClass) : String := e.name

/-- what the harness would observe of a model outcome: `cap` = the acquisition count at which it cancels;
`ops` is not predicted by the model (echoed from the implementation, bounded by the Spec). -/
def obsOf (cap : Nat) (ops : Nat) : Option (Outcome Nat) → Spec.C08.Obs
  | none => { delivered := 0, cut := false, run := .noreturn, end_ := .spinning, ops }
  | some o => { delivered := o.delivered.length, cut := decide (0 < cap ∧ cap ≤ o.delivered.length), run := classOf o.run,
                end_ := if o.sinkClosed then .closed else .blocked, ops }

/-- `ops`, and for a run that never returns whether it keeps reading the file (`spinning`) or not (`blocked`),
are not predicted by the model: echoed from the implementation's observation -/
def showObs (o : Spec.C08.Obs) (ops implEnd : String) : String :=
  let e := if o.run == .noreturn then implEnd else endName o.end_
  s!"delivered={o.delivered} cut={if o.cut then 1 else 0} run={runClassName o.run} end={e} ops={ops}"

/-- the model's observation of a cell, in the harness' format -/
def modelObs (l : Line) (ops : String) (implEnd : String := "spinning") : String :=
  showObs (obsOf l.cell.cap 0 (run l.inp l.n)) ops implEnd

def parseObs (kv : List (String × String)) : Option Spec.C08.Obs := do
  pure { delivered := ← getN? kv "delivered", cut := getS kv "cut" == "1", run := parseRun (getS kv "run"),
         end_ := ← parseEnd (getS kv "end"), ops := ← getN? kv "ops" }

def handle : Handler := fun input impl =>
  match parseLine (parseKV input) with
  | none => ("-", "fail:driver:unparsable input")
  | some l =>
    if l.n = 0 then ("-", "skip:empty-file") else
    let ikv := parseKV impl
    match lookup ikv "construct" with
    | some e => (modelObs l "0", s!"fail:construct:{e}")
    | none =>
      match parseObs ikv with
      | none => (modelObs l "0", s!"fail:crash:{impl.take 120}")
      | some o => (modelObs l (getS ikv "ops") (getS ikv "end"), Spec.C08.judge l.cell o)

end Pandora.Drv.C08
