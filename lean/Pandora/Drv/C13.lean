import Pandora.Drv.Util
import Pandora.Model.C13Ammo
import Pandora.Model.C13Funcs
import Pandora.Model.C13Multi
import Pandora.Model.C13Jsonline
import Pandora.Model.C13Grpc
import Pandora.Model.C13Cfg
import Pandora.Model.C13Csv
import Pandora.Spec.C13

/-
Line-protocol driver of C13: for one harness input line compute the model's prediction of the
observation (`-` when a third-party parser or chance decides) and the Spec verdict on what the real code did.
The model is always the REPAIRED one (`fixed := true`).
-/
namespace Pandora.Drv.C13
open Pandora.Drv Pandora.Model.C13 Pandora.Spec.C13

def hexB (b : Bytes) : String := toHex b
def bytesOfHex (s : String) : Option Bytes := parseHex s
def str (s : String) : Bytes := ofString s

/-! ### url.Parse oracle: three-valued -/

def isAlnum (b : UInt8) : Bool := (48 ≤ b && b ≤ 57) || (65 ≤ b && b ≤ 90) || (97 ≤ b && b ≤ 122)

/-- URIs for which `url.Parse` certainly succeeds and `URL.String()` gives the same text back -/
def safeUri (u : Bytes) : Bool :=
  match u with
  | 47 :: rest =>
    (match rest with | 47 :: _ => false | _ => true) &&
    (match cut rest 63 with
     | none => rest.all fun b => isAlnum b || b == 47 || b == 95 || b == 46 || b == 126 || b == 45
     | some (p, q) =>
       (p.all fun b => isAlnum b || b == 47 || b == 95 || b == 46 || b == 126 || b == 45) &&
       (q.all fun b => isAlnum b || b == 61 || b == 38 || b == 95 || b == 46 || b == 45))
  | _ => false

/-- URIs `url.Parse` certainly rejects: an ASCII control character before the fragment -/
def badUri (u : Bytes) : Bool :=
  let pre := match cut u 35 with
    | some (a, _) => a
    | none => u
  pre.any fun b => b < 32 || b == 127

def endStr : End → String
  | .ok => "ok"
  | .err c => if c == "emptykey" then "err:hdr" else if c == "noammo" then "ok" else s!"err:{c}"
  | .panic => "panic"
  | .fatal => "fatal-oom"
  | .fuel => "fuel"

/-- a body of more than 64 bytes is rendered by its length, its first four and its last four bytes -/
def bodyHex (b : Bytes) : String :=
  if b.length ≤ 64 then hexB b else s!"#{b.length}.{hexB (b.take 4)}.{hexB (b.drop (b.length - 4))}"

def renderRun (withUri : Bool) (r : Run) : String :=
  let es := r.entries.map fun e =>
    if withUri then s!"{hexB e.tag}/{hexB e.uri}/{bodyHex e.body}" else hexB e.tag
  s!"n={r.entries.length} e={String.intercalate "," es} end={endStr r.end_}"

/-- what one pass over the file gives; `none` = the driver abstains (a library decides, or the case is another property's) -/
def ammoOne (fmt : String) (data : Bytes) : Option Run :=
  let run (urlOk : Bytes → Bool) : Option Run :=
    match fmt with
    | "uripost" => some (uripostRun true urlOk data)
    | "raw" => some (rawRun true data)
    | "uri" => some (uriRun urlOk data)
    | _ => none
  match run safeUri, run (fun u => !badUri u) with
  | some a, some b =>
    if a != b then none
    else if !(a.entries.all fun e => fmt == "raw" || safeUri e.uri) then none
    -- (both size-prefixed decoders decode an unterminated last line - raw since dbbf16d - and the models follow: `rest` is
    -- empty whenever the run ends well, so this abstention is never taken any more)
    else if fmt != "uri" && a.end_ == .ok && !(trimSpace a.rest).isEmpty then none
    else if fmt == "uri" && data.length ≥ 65536 then none
    else some a
  | _, _ => none

def ammoModel (fmt : String) (pre : Bool) (multi : Option (Nat × Nat)) (data : Bytes) : Option String :=
  (ammoOne fmt data).map fun a =>
    let a := if pre && a.end_ != .ok then { a with entries := [] } else a
    -- `passes=… limit=…`: the file is read again and again (the harness never asks for neither limit)
    let a := match multi with
      | some (passes, limit) => multiRunAll a passes limit
      | none => a
    renderRun (fmt != "raw") a

/-! ### `chosen_cases` of the http provider (round 4): the end of the run tells "no ammo" from a regular end; a run that
neither limit ends is `UNLIMITED` (not judged) -/

def endStrCC : End → String
  | .err c => if c == "noammo" then "err:noammo" else endStr (.err c)
  | e => endStr e

def renderRunCC (withUri : Bool) (r : Run) : String :=
  if r.end_ == .fuel then "UNLIMITED" else
  let es := r.entries.map fun e =>
    if withUri then s!"{hexB e.tag}/{hexB e.uri}/{bodyHex e.body}" else hexB e.tag
  s!"n={r.entries.length} e={String.intercalate "," es} end={endStrCC r.end_}"

def ammoModelCC (fmt : String) (pre : Bool) (passes limit : Nat) (chosen : Bytes → Bool) (data : Bytes) : Option String :=
  (ammoOne fmt data).map fun a => renderRunCC (fmt != "raw") (ccRunAll true a chosen pre passes limit)

/-! ### jsonline: what `encoding/json` makes of a file, for files written in a small safe subset of JSON

Objects whose members are strings without escapes (bytes 0x20..0x7e) or - one level deep - objects of such strings,
separated by JSON white space. `trunc` = the input ends inside a value that is well-formed so far (certainly an error of
the decoder), `unk` = anything else (the driver abstains: the library decides). -/

inductive P (α : Type) where
  | ok (a : α) (rest : Bytes)
  | trunc
  | unk

def jws (b : UInt8) : Bool := b == 32 || b == 9 || b == 10 || b == 13
def skipJws (s : Bytes) : Bytes := s.dropWhile jws

/-- a string, after its opening quote -/
def pStr : Bytes → Bytes → P Bytes
  | [], _ => .trunc
  | b :: rest, acc =>
    if b == 34 then .ok acc.reverse rest
    else if 32 ≤ b && b ≤ 126 && b != 92 then pStr rest (b :: acc) else .unk

/-- the members of an object, standing before a key -/
def pMembers {α : Type} (pv : Bytes → P α) : Nat → Bytes → List (Bytes × α) → P (List (Bytes × α))
  | 0, _, _ => .unk
  | fuel + 1, s, acc =>
    match skipJws s with
    | [] => .trunc
    | 34 :: r1 =>
      match pStr r1 [] with
      | .ok k r2 =>
        match skipJws r2 with
        | [] => .trunc
        | 58 :: r3 =>
          match pv (skipJws r3) with
          | .ok v r5 =>
            match skipJws r5 with
            | [] => .trunc
            | 44 :: r6 => pMembers pv fuel r6 ((k, v) :: acc)
            | 125 :: r6 => .ok ((k, v) :: acc).reverse r6
            | _ => .unk
          | .trunc => .trunc
          | .unk => .unk
        | _ => .unk
      | .trunc => .trunc
      | .unk => .unk
    | _ => .unk

/-- an object, after its opening brace -/
def pObj {α : Type} (pv : Bytes → P α) (s : Bytes) : P (List (Bytes × α)) :=
  match skipJws s with
  | [] => .trunc
  | 125 :: r => .ok [] r
  | r => pMembers pv (s.length + 1) r []

inductive JV where
  | str (s : Bytes)
  | obj (kvs : List (Bytes × Bytes))

def pvStr (s : Bytes) : P Bytes :=
  match s with
  | [] => .trunc
  | 34 :: r => pStr r []
  | _ => .unk

def pvTop (s : Bytes) : P JV :=
  match s with
  | [] => .trunc
  | 34 :: r => (match pStr r [] with | .ok v r' => .ok (.str v) r' | .trunc => .trunc | .unk => .unk)
  | 123 :: r => (match pObj pvStr r with | .ok kvs r' => .ok (.obj kvs) r' | .trunc => .trunc | .unk => .unk)
  | _ => .unk

def distinctKeys {α : Type} : List (Bytes × α) → Bool
  | [] => true
  | (k, _) :: rest => !(rest.any fun p => p.1 == k) && distinctKeys rest

def entityFields : List Bytes := [str "host", str "method", str "uri", str "tag", str "body", str "headers"]

/-- what `Decode(&entity)` + `Setup` make of an object of the safe subset; `none` = the driver abstains -/
def entityOf (kvs : List (Bytes × JV)) : Option JItem :=
  if !distinctKeys kvs then none
  else if kvs.any (fun p => !entityFields.contains p.1 && entityFields.contains (asciiLower p.1)) then none
  else
    let strOf (k : String) : Option Bytes :=
      match kvs.find? (fun p => p.1 == str k) with
      | none => some []
      | some (_, .str v) => some v
      | some (_, .obj _) => none
    let headersOk : Bool :=
      match kvs.find? (fun p => p.1 == str "headers") with
      | none => true
      | some (_, .obj hs) => distinctKeys hs && hs.all (fun p => !p.1.isEmpty && p.1.all isAlnum)
      | some (_, .str _) => false
    match strOf "host", strOf "method", strOf "uri", strOf "tag", strOf "body" with
    | some host, some method, some uri, some tag, some _ =>
      if !headersOk then none
      else if !(method.all isAlnum) then (if method.contains 32 then some .bad else none)
      else if host.isEmpty || !(host.all fun b => isAlnum b || b == 46 || b == 45) then none
      else if !(uri.isEmpty || safeUri uri) then none
      else some (.good tag)
    | _, _, _, _, _ => none

/-- the values of an object stream, standing anywhere between two values -/
def jlStream : Nat → Bytes → List JItem → Option (List JItem)
  | 0, _, _ => none
  | fuel + 1, s, acc =>
    match skipJws s with
    | [] => some acc.reverse
    | 123 :: r =>
      match pObj pvTop r with
      | .ok kvs rest =>
        match entityOf kvs with
        | some (.good t) => jlStream fuel rest (.good t :: acc)
        | some .bad => some (JItem.bad :: acc).reverse
        | none => none
      | .trunc => some (JItem.bad :: acc).reverse
      | .unk => none
    | 110 :: _ => none                                -- `null` decodes into a struct without an error
    | _ => some (JItem.bad :: acc).reverse            -- no other value decodes into a struct

/-- the elements of an array, standing before an element; the answer carries what follows the closing bracket -/
def jlElems : Nat → Bytes → List Bytes → Option (Option (List Bytes × Bytes))
  | 0, _, _ => none
  | fuel + 1, s, acc =>
    match skipJws s with
    | [] => some none
    | 123 :: r =>
      match pObj pvTop r with
      | .ok kvs rest =>
        match entityOf kvs with
        | some (.good t) =>
          match skipJws rest with
          | [] => some none
          | 44 :: r' => jlElems fuel r' (t :: acc)
          | 93 :: r' => some (some ((t :: acc).reverse, r'))
          | _ => none
        | some .bad => some none
        | none => none
      | .trunc => some none
      | .unk => none
    | 110 :: _ => none                       -- a `null` element is an entity without any member
    | _ => some none                         -- no other value decodes into a struct

def arrayOf (r : Option (List Bytes × Bytes)) : JSrc :=
  match r with
  | none => .array none false
  | some (es, rest) => .array (some es) (!(skipJws rest).isEmpty)

/-- `none` = the driver abstains -/
def jsonlineSrc (data : Bytes) : Option JSrc :=
  match skipJws data with
  | [] => some .refused
  | 123 :: _ => (jlStream (data.length + 1) data []).map .stream
  | 91 :: r =>
    match skipJws r with
    | [] => some (.array none false)
    | 93 :: r' => some (arrayOf (some ([], r')))
    | _ => (jlElems (data.length + 1) r []).map arrayOf
  | _ => some .refused

def jsonlineModel (pre : Bool) (multi : Option (Nat × Nat)) (data : Bytes) : Option String :=
  match jsonlineSrc data with
  | none => none
  | some src =>
    let (passes, limit) := multi.getD (1, 0)
    let r := jsonlineRun true src pre passes limit
    if r == ctorErr then some "n=0 e= end=ctor-err:other" else some (renderRun false r)

def jsonlineModelCC (pre : Bool) (passes limit : Nat) (chosen : Bytes → Bool) (data : Bytes) : Option String :=
  match jsonlineSrc data with
  | none => none
  | some src =>
    let r := jsonlineRunCC true src chosen pre passes limit
    if r == ctorErr then some "n=0 e= end=ctor-err:other" else some (renderRunCC false r)

/-- a line that certainly does not fit `bufio.Scanner`'s buffer (64 KiB), with only clearly shorter lines before it:
its index. The run must then end with an error after at most the lines before it, with and without `continue_on_error`. -/
def grpcTooLong (kv : List (String × String)) (data : Bytes) : Option Nat :=
  let passes := getS kv "passes"
  let limit := getS kv "limit"
  if !(passes == "" || passes == "1") || !(limit == "" || limit == "0") then none
  else
    let ls := rawLines data
    match ls.findIdx? (fun l => l.length ≥ 60000) with
    | some i => if ((ls[i]?).getD []).length ≥ 66000 then some i else none
    | none => none

/-! ### grpc/json, round 3: lines written in a small safe subset of JSON are decoded here (tag, call: strings without
escapes; metadata: an object of such strings; payload: an object of such strings and small natural numbers), so that the
observation - every entry with all its fields, under passes / limit / chosen cases / a dirty pool - is predicted entry by
entry. `some none` = jsoniter certainly refuses the line, `none` = the driver abstains. -/

inductive GV where
  | str (s : Bytes)
  | num (s : Bytes)

inductive GTop where
  | str (s : Bytes)
  | obj (kvs : List (Bytes × GV))

def isDigit (b : UInt8) : Bool := 48 ≤ b && b ≤ 57

/-- a string, or a natural number of at most nine digits without a leading zero -/
def pvG (s : Bytes) : P GV :=
  match s with
  | [] => .trunc
  | 34 :: r => (match pStr r [] with | .ok v r' => .ok (.str v) r' | .trunc => .trunc | .unk => .unk)
  | b :: _ =>
    if isDigit b then
      let ds := s.takeWhile isDigit
      let rest := s.dropWhile isDigit
      if ds.length > 9 || (ds.length > 1 && b == 48) then .unk
      else if rest.isEmpty then .trunc
      else .ok (.num ds) rest
    else .unk

def pvGTop (s : Bytes) : P GTop :=
  match s with
  | [] => .trunc
  | 34 :: r => (match pStr r [] with | .ok v r' => .ok (.str v) r' | .trunc => .trunc | .unk => .unk)
  | 123 :: r => (match pObj pvG r with | .ok kvs r' => .ok (.obj kvs) r' | .trunc => .trunc | .unk => .unk)
  | _ => .unk

def bytesLe : Bytes → Bytes → Bool
  | [], _ => true
  | _ :: _, [] => false
  | a :: as, b :: bs => if a < b then true else if b < a then false else bytesLe as bs

def insertKV {α : Type} (p : Bytes × α) : List (Bytes × α) → List (Bytes × α)
  | [] => [p]
  | q :: rest => if bytesLe p.1 q.1 then p :: q :: rest else q :: insertKV p rest

def sortKV {α : Type} (l : List (Bytes × α)) : List (Bytes × α) := l.foldr insertKV []

def grpcFieldNames : List Bytes := [str "tag", str "call", str "metadata", str "payload"]

def renderGV : GV → String
  | .str s => "s" ++ hexB s
  | .num s => "n" ++ hexB s

/-- what `Unmarshal(line, &ammo.Ammo{})` makes of an object of the safe subset; `none` = the driver abstains -/
def grpcFieldsOf (kvs : List (Bytes × GTop)) : Option GFields :=
  if !distinctKeys kvs then none
  else if kvs.any (fun p => !grpcFieldNames.contains p.1) then none
  else
    let strOf (k : String) : Option Bytes :=
      match kvs.find? (fun p => p.1 == str k) with
      | none => some []
      | some (_, .str v) => some v
      | some (_, .obj _) => none
    let objOf (k : String) : Option (List (Bytes × GV)) :=
      match kvs.find? (fun p => p.1 == str k) with
      | none => some []
      | some (_, .obj o) => if distinctKeys o then some o else none
      | some (_, .str _) => none
    match strOf "tag", strOf "call", objOf "metadata", objOf "payload" with
    | some tag, some call, some md, some pl =>
      if md.any (fun p => match p.2 with | .num _ => true | .str _ => false) then none
      else
        let mdS := String.intercalate "." ((sortKV md).map fun p => s!"{hexB p.1}:{match p.2 with | .str v => hexB v | .num v => hexB v}")
        let plS := String.intercalate "." ((sortKV pl).map fun p => s!"{hexB p.1}:{renderGV p.2}")
        if tag.length > 100 || call.length > 100 || mdS.length > 200 || plS.length > 200 then none
        else some ⟨tag, call, str mdS, str plS⟩
    | _, _, _, _ => none

/-- the jsoniter oracle on one scanner token (after `dropCR`) -/
def grpcLineOf (l : Bytes) : Option (Option GFields) :=
  match skipJws l with
  | [] => some none
  | 123 :: r =>
    match pObj pvGTop r with
    | .ok kvs rest =>
      match skipJws rest with
      | [] => (grpcFieldsOf kvs).map some
      -- "there are bytes left after unmarshal" - but jsoniter takes a NUL byte for the end of its input (thorough, seed 2):
      -- only a printable byte after the object is certainly refused
      | b :: _ => if 33 ≤ b && b ≤ 126 then some none else none
    | .trunc => some none
    | .unk => none
  | 110 :: _ => none                                 -- `null` leaves the struct as it is
  | b :: _ => if 33 ≤ b && b ≤ 126 then some none else none   -- "expect { or n" (a printable byte; anything else: the library decides)

def renderGObj (o : GObj) : String :=
  let asc (b : Bytes) : String := String.ofList (b.map fun c => Char.ofNat c.toNat)
  s!"{hexB o.f.tag}/{hexB o.f.call}/{asc o.f.metadata}/{asc o.f.payload}" ++
    (if o.isInvalid then ":I" else "")

/-- the object a dirty pool hands out: an earlier entry, invalidated -/
def staleObj : GObj := ⟨⟨str "STALE", str "stale.Svc/Call", str "7374616c65:6d64", str "stale"⟩, 1000, true⟩

def grpcChosen (kv : List (String × String)) : Option (Bytes → Bool) :=
  let cc := getS kv "cc"
  if cc == "" then some (fun _ => true)
  else ((cc.splitOn ",").mapM fun c => if c == "-" then some [] else bytesOfHex c).map fun cs => fun t => cs.contains t

def grpcOpts (kv : List (String × String)) : Nat × Nat :=
  (if getS kv "passes" == "" then 1 else (getN? kv "passes").getD 1, (getN? kv "limit").getD 0)

/-- the model's observation, when every line of the file is decided here -/
def grpcModel (kv : List (String × String)) (data : Bytes) : Option String := do
  let ls := rawLines data
  -- the exact boundary of "token too long" is bufio.Scanner's: a line is clearly shorter or certainly too long (never decoded)
  if ls.any (fun l => l.length ≥ 60000 && l.length < 66000) then none
  let oracle ← (ls.filter fun l => l.length < 60000).mapM fun l => (grpcLineOf (dropCR l)).map fun r => (dropCR l, r)
  let json (l : Bytes) : Option GFields := ((oracle.find? fun p => p.1 == l).map (·.2)).join
  let chosen ← grpcChosen kv
  let (passes, limit) := grpcOpts kv
  let fuel := if passes == 0 && limit == 0 then 1 else gFuel limit passes
  -- the pool of the model is the worst one: every `Get` answers an invalidated object that carries an earlier entry
  let r := gStart true (getS kv "coe" == "1") json chosen limit passes (fun _ => staleObj) ls fuel 0 0 0
  if r.end_ == .fuel then none
  some s!"n={r.out.length} e={String.intercalate "," (r.out.map renderGObj)} end={endStr r.end_}"

def grpcVerdict (kv : List (String × String)) (data : Bytes) (impl : String) : String :=
  let ls := rawLines data
  if ls.any (fun l => l.length ≥ 60000) then
    match grpcTooLong kv data, crashVerdict "grpc/json provider" impl with
    | some i, none =>
      let n := (kvOf impl "n").toNat?.getD 0
      if !(kvOf impl "end").startsWith "err" then
        s!"fail:accepted:grpc/json provider did not report line {i + 1}, which is longer than the scanner's buffer"
      else if n > i then s!"fail:prefix:grpc/json provider delivered {n} entries, only {i} lines stand before the over-long one"
      else "ok"
    | _, _ => judge "grpc/json provider" none impl
  else if getS kv "cc" != "" then
    -- chosen cases: which lines are delivered depends on their tags (jsoniter's business on lines not decided here)
    match crashVerdict "grpc/json provider" impl with
    | some v => v
    | none =>
      if getS kv "coe" != "1" && containsSub impl ":I" then
        "fail:outcome:grpc/json provider delivered an invalidated ammo without continue_on_error"
      else "ok"
  else
    let blank (i : Nat) : Bool := (trimSpace (dropCR ((ls[i]?).getD []))).isEmpty
    let arr := ls.toArray
    let firstSame (i : Nat) : Nat := (arr.findIdx? fun l => dropCR l == dropCR (arr.getD i [])).getD i
    let (passes, limit) := grpcOpts kv
    grpcMultiJudge (getS kv "coe" == "1") ls.length passes limit blank firstSame impl

/-- the model decided every line: compare entry by entry and name the first entry that differs -/
def grpcExactVerdict (m impl : String) : String :=
  match crashVerdict "grpc/json provider" impl with
  | some v => v
  | none =>
    if m == impl then "ok"
    else
      let entries (o : String) : Array String := (if (kvOf o "n").toNat?.getD 0 == 0 then [] else (kvOf o "e").splitOn ",").toArray
      let em := entries m
      let ei := entries impl
      match (List.range (min em.size ei.size)).find? fun i => em.getD i "" != ei.getD i "" with
      | some i =>
        s!"fail:prefix:grpc/json provider delivered entry {i + 1} as {(ei.getD i "").take 70}, its line says {(em.getD i "").take 70}: an entry is not delivered as its own line says"
      | none =>
        if isErrObs m && !isErrObs impl then s!"fail:accepted:grpc/json provider malformed input accepted, expected end={kvOf m "end"} after {em.size} entries"
        else if em.size != ei.size then s!"fail:skipped:grpc/json provider delivered {ei.size} entries, expected {em.size} end={kvOf m "end"}"
        else s!"fail:outcome:grpc/json provider ended with {kvOf impl "end"}, expected end={kvOf m "end"}"

/-! ### scenario weights, randString -/

def weightsOf (s : String) : Option (List Int) :=
  (s.splitOn ",").mapM fun w => if w == "-" then some 0 else w.toInt?

def scnwModel (ws : List Int) : String :=
  match spread true ws with
  | .ok counts =>
    let parts := (List.range counts.length).filterMap fun i =>
      let c := (counts[i]?).getD 0
      if c > 0 then some s!"s{i}:{c}" else none
    "names=" ++ String.intercalate "," parts ++ " end=ok"
  | .err _ => "end=ctor-err"
  | .panic _ => "end=panic"
  | .fatal _ => "end=fatal"

def rsModel (via args : String) (nRaw : Bytes) : String :=
  let parsed : Option Int :=
    if args == "0" || (args == "1" && nRaw.isEmpty) then some 0 else atoi (trimSpace nRaw)
  let r : Res Nat := match parsed with
    | none => .err "parse"
    | some n => randStringLen true n
  match via, r with
  | "vs", .ok _ => "end=ok"
  | "vs", .err _ => "end=ctor-err"
  | "vs", _ => "end=panic"
  | _, .ok k => s!"ok len={k} inset=1"
  | _, .err _ => "err"
  | _, _ => "panic"

/-! ### mp.GetMapValue data (the same family as harness/cmd/c13/helpers.go mpData) -/

def natStr (n : Nat) : Bytes := str (toString n)

def mpData (n : Nat) : List (Bytes × Val) :=
  let idx := List.range n
  let users := idx.map fun i => Val.map [(str "id", .int (Int.ofNat i)), (str "name", .str (str "u" ++ natStr i))]
  let smap := idx.map fun i => Val.map [(str "k", .str (str "v" ++ natStr i))]
  let strs := idx.map fun i => Val.str (str "s" ++ natStr i)
  let ints := idx.map fun (i : Nat) => Val.int (Int.ofNat (i * 10))
  let anys := idx.map fun i => if i % 2 == 0 then Val.str (str "a" ++ natStr i) else Val.map [(str "x", .int (Int.ofNat i))]
  let bools := idx.map fun _ => Val.int 0
  [(str "source", .map [(str "users", .arr true users), (str "smap", .arr true smap), (str "strs", .arr true strs),
      (str "ints", .arr true ints), (str "anys", .arr true anys), (str "bools", .arr false bools), (str "scalar", .str (str "sc"))]),
   (str "top", .str (str "t"))]

def renderVal : Val → String
  | .str s => s!"s:{hexB s}"
  | .int i => s!"i:{i}"
  | .map kvs => "m:" ++ String.intercalate "." ((kvs.map fun kv => hexB kv.1).toArray.qsort (· < ·)).toList
  | .arr _ es => s!"l:{es.length}"

def mpModel (n calls : Nat) (path : Bytes) : Option String :=
  if n ≥ 2 && (indexOfSub (asciiLower path) kwRand).isSome then none else
  let data := mpData n
  let rec go : Nat → IterState → List String → List String
    | 0, _, acc => acc.reverse
    | k + 1, st, acc =>
      match getMapValue true data path st 0 with
      | (.ok v, st') => go k st' (renderVal v :: acc)
      | (.err _, st') => go k st' ("err" :: acc)
      | (_, _) => ("panic" :: acc).reverse
  some (String.intercalate ";" (go calls [] []))

/-! ### placeholders: environment and property file of the harness -/

def propFilePath : Bytes := str "/var/tmp/verif-c13/p.properties"
def propLines : List Bytes := [str "a=1", str "key=va=lue", str "empty=", str "noeq", str "=anon", str "sp ace=x y"]

def envKnown (name : Bytes) : Option (Option Bytes) :=
  if name = str "C13_A" then some (some (str "x"))
  else if name = str "C13_NUM" then some (some (str "42"))
  else if name = str "C13_EMPTY" then some (some [])
  else if name = str "C13_TAG" then some (some (str "${C13_A}"))
  else if name = str "C13_UNSET" then some none
  else none

def fileKnown (path : Bytes) : Option (Option (List Bytes)) :=
  if path = propFilePath then some (some propLines)
  else if path = [] || path = str "x" || path = str "/nonexistent/file" then some none
  else none

def tagModel (s : Bytes) : Option String :=
  let run (unkEnv : Option Bytes) (unkFile : Option (List Bytes)) : Res Bytes :=
    resolveTags true (fun n => (envKnown n).getD unkEnv) (fun p => (fileKnown p).getD unkFile) s
  let a := run none none
  let b := run (some (str "?")) (some [str "?=?"])
  if a != b then none
  else match a with
    | .ok v => some s!"ok val={hexB v}"
    | .err _ => some "err"
    | _ => some "panic"

/-! ### option values (round 4): plugin types of a pool config, string options of a scenario description -/

/-- the value under test: `val` repeated `rep` times -/
def optValue (kv : List (String × String)) : Option Bytes := do
  let v ← bytesOfHex (getS kv "val")
  if getS kv "rep" == "" then some v
  else
    let n ← getN? kv "rep"
    some (List.replicate n v).flatten

/-- a name no plugin is registered under, with or without the white space around it (a decoder that trims the name is
as good as one that does not): blank, or with a byte no registered name has - they are made of lower-case letters, digits,
`/`, `_`, `-`; a name with a capital letter is left to the registry -/
def certainlyUnregistered (v : Bytes) : Bool :=
  let t := trimSpace v
  t.isEmpty || t.length > 40 || (str "nosuch").isPrefixOf t ||
    !(t.all fun b => isAlnum b || b == 47 || b == 95 || b == 45)

/-- what decoding a plugin whose `type` key(s) hold `vals` gives, as far as the registry is known here: `some "err"`,
`some "panic"`, or `none` (the name may be registered: the plugin's own config decides) -/
def pluginOutcome (vals : List TypeVal) : Option String :=
  let run (registered : Bytes → Bool) : Res Unit := pluginFromConf id id registered vals
  let certain := vals.all fun v => match v with | .str s => certainlyUnregistered s | .other => true
  match run (fun _ => false), run (fun _ => true) with
  | .panic _, _ => some "panic"
  | _, .panic _ => some "panic"
  | .err _, .err _ => some "err"
  | .err _, _ => if certain then some "err" else none
  | _, _ => none

def typeVals (tv : String) (v : Bytes) : Option (List TypeVal) :=
  match tv with
  | "" | "s" => some [.str v]
  | "n" | "l" | "z" | "m" => some [.other]
  | "2" => some [.str v, .str v]
  | "a" => some []
  | _ => none

def poptModel (kv : List (String × String)) : Option (Option String) := do
  let v ← optValue kv
  let vals ← typeVals (getS kv "tv") v
  some ((pluginOutcome vals).map fun o => "end=" ++ o)

def soptModel (kv : List (String × String)) : Option (Option String) := do
  let v ← optValue kv
  let slot := getS kv "slot"
  let absent := getS kv "abs" == "1"
  -- `templater:` without its only line is a null value: no plugin is asked for, the request gets the default templater
  if slot == "tmpl.type" && absent then some none
  else if slot.endsWith ".type" then
    let vals := if absent then [] else [TypeVal.str v]
    some ((pluginOutcome vals).map fun o => if o == "err" then "end=ctor-err" else "end=" ++ o)
  else if slot == "csv.delimiter" && !absent then
    match csvOpen true v with
    | .err _ => some (some "end=ctor-err")
    | .panic _ => some (some "end=panic")
    | _ => some none
  else some none

/-! ### the rows of a csv variable source (round 4): `k=csv` -/

/-- what `csv.Reader` makes of a file, for files the driver reads itself: no `"` and no CR (so neither the reader's
quoting nor its line-end rules are needed), an ASCII separator. Lines are cut at LF, empty lines are passed over, every
line is cut at the separator, and a record with another number of columns than the first one is the reader's
`ErrFieldCount`. `none` = the driver abstains, `some none` = the reader reports an error. -/
def csvSafeParse (data : Bytes) (c : UInt8) : Option (Option (List (List Bytes))) :=
  if data.any (fun b => b == 34 || b == 13) || c ≥ 128 then none
  else
    let recs := ((split data 10).filter fun l => !l.isEmpty).map fun l => split l c
    match recs with
    | [] => some (some [])
    | r :: _ => if recs.all fun x => x.length == r.length then some (some recs) else some none

/-- a row as the harness prints it: the map's cells `hex(name):hex(value)`, sorted -/
def csvRenderRow (row : List (Bytes × Bytes)) : String :=
  let keys := row.foldl (fun acc kv => if acc.contains kv.1 then acc else acc ++ [kv.1]) ([] : List Bytes)
  let cells := keys.map fun k => s!"{hexB k}:{hexB ((rowLookup row k).getD [])}"
  String.intercalate "," (cells.toArray.qsort (· < ·)).toList

/-- `fields=`: `-` = the option is left out, nothing = one column without a name -/
def csvFields (s : String) : Option (List Bytes) :=
  if s == "-" then some [] else if s == "" then some [[]] else (s.splitOn ",").mapM bytesOfHex

def csvPlain (b : Bytes) : Bool := b.all fun x => 32 ≤ x && x < 127

def csvModel (kv : List (String × String)) : Option (Option String) := do
  let data ← bytesOfHex (getS kv "file")
  let fields ← csvFields (getS kv "fields")
  let delim ← if getS kv "delim" == "-" then some [] else bytesOfHex (getS kv "delim")
  -- option values outside printable ASCII are left to YAML / HCL
  if !(fields.all csvPlain) || !(csvPlain delim) then
    -- … but for the separator's control characters the reader refuses
    if fields.all csvPlain && (csvOpen true delim).isErr then pure (some "end=ctor-err") else pure none
  else
    match csvOpen true delim with
    | .err _ => pure (some "end=ctor-err")
    | .ok c =>
      match csvSafeParse data c with
      | none => pure none
      | some parsed =>
        match readCsvModel true true (fun _ => parsed) (getS kv "ign" == "1") delim fields with
        | .ok rows => pure (some s!"n={rows.length} e={String.intercalate ";" (rows.map csvRenderRow)} end=ok")
        | .err _ => pure (some "end=ctor-err")
        | .panic _ => pure (some "end=panic")
        | .fatal _ => pure (some "end=fatal")
    | _ => pure (some "end=panic")

/-! ### the handler -/

def resStr {α} (r : Res α) (okf : α → String) : String :=
  match r with
  | .ok a => okf a
  | .err c => if c == "emptykey" || c == "hdr" then s!"err:{c}" else "err"
  | .panic _ => "panic"
  | .fatal _ => "fatal"

def scnReqs (s : String) : Option (List Bytes) :=
  if s == "-" then some [] else (s.splitOn ";").mapM bytesOfHex

def cliShape (s : String) : Option PoolsVal :=
  if s == "absent" || s == "null" then some .absent
  else if s == "scalar" || s == "str" || s == "map" then some .notList
  else if s.startsWith "list:" then
    ((s.drop 5).toString.toList.mapM fun c =>
      if c == 'm' then some (PoolItem.mapping false)
      else if c == 'd' then some (PoolItem.mapping true)
      else if c == 's' || c == 'l' || c == 'n' then some PoolItem.other
      else none).map PoolsVal.list
  else none

def intArg (s : String) : Option Int := if s.isEmpty then some 0 else s.toInt?

/-- (model observation or none, kind) -/
def model (kv : List (String × String)) : Option (Option String × String) := do
  let k := getS kv "k"
  match k with
  | "ammo" =>
    let head ← bytesOfHex (getS kv "hex")
    -- `big=<n> hex2=<tail>`: the file is hex ++ n bytes 'x' ++ hex2
    let data ← if getS kv "big" == "" then some head
      else do
        let n ← getN? kv "big"
        let tail ← bytesOfHex (getS kv "hex2")
        some (head ++ List.replicate n 120 ++ tail)
    let fmt := getS kv "fmt"
    let multi : Option (Nat × Nat) :=
      if fmt == "grpcjson" || getS kv "passes" == "" then none
      else some ((getN? kv "passes").getD 1, (getN? kv "limit").getD 0)
    if multi == some (0, 0) && getS kv "cc" == "" then none
    -- `hdrs=`: the `headers` option of the http provider; the first string `util.DecodeHeader` refuses makes the constructor fail
    let hdrs ← (splitList (getS kv "hdrs")).mapM bytesOfHex
    if fmt != "grpcjson" && hdrs.any (fun h => !(decodeHeader h).isOk) then
      pure (some "n=0 e= end=ctor-err:hdr", s!"{fmt} provider")
    else if fmt == "grpcjson" then pure (grpcModel kv data, "grpc/json provider")
    else if getS kv "cc" != "" then
      -- `chosen_cases` of the http provider (round 4)
      let chosen ← grpcChosen kv
      let (passes, limit) := ((getN? kv "passes").getD 1, (getN? kv "limit").getD 0)
      let pre := getS kv "pre" == "1"
      if fmt == "jsonline" then pure (jsonlineModelCC pre passes limit chosen data, "jsonline provider")
      else pure (ammoModelCC fmt pre passes limit chosen data, s!"{fmt} provider")
    else if fmt == "jsonline" then pure (jsonlineModel (getS kv "pre" == "1") multi data, "jsonline provider")
    else pure (ammoModel fmt (getS kv "pre" == "1") multi data, s!"{fmt} provider")
  | "genjson" =>
    let data ← bytesOfHex (getS kv "hex")
    let passes := (getN? kv "passes").getD 1
    let limit := (getN? kv "limit").getD 0
    if passes == 0 && limit == 0 then none
    let r := genjsonRun true data passes limit
    let m := if r.end_ == "unknown" then none
      else some s!"n={r.tags.length} e={String.intercalate "," (r.tags.reverse.map hexB)} end={r.end_}"
    pure (m, "generic JSON provider")
  | "pfx" => pure (none, s!"{getS kv "fmt"} provider")
  | "flt" => pure (none, s!"{getS kv "fmt"} provider")
  | "conf" => pure (none, "config placeholder (typed field)")
  | "hdr" =>
    let h ← bytesOfHex (getS kv "hex")
    pure (some (resStr (decodeHeader h) fun (k, v) => s!"ok key={hexB k} val={hexB v}"), "util.DecodeHeader")
  | "psf" =>
    let h ← bytesOfHex (getS kv "hex")
    pure (some (resStr (parseStringFunc h) fun (n, args) =>
      match args with
      | none => s!"ok name={hexB n} args=nil"
      | some as => s!"ok name={hexB n} args={String.intercalate ";" (as.map hexB)}"), "str.ParseStringFunc")
  | "shoot" =>
    let h ← bytesOfHex (getS kv "hex")
    pure (some (resStr (parseShootName h) fun s => s!"ok name={hexB s.name} cnt={s.cnt} sleep={s.sleep}"), "ParseShootName")
  | "mp" =>
    let p ← bytesOfHex (getS kv "path")
    let n ← getN? kv "n"
    let calls := (getN? kv "calls").getD 1
    pure (mpModel n (if calls == 0 then 1 else calls) p, "mp.GetMapValue")
  | "tag" =>
    let h ← bytesOfHex (getS kv "hex")
    pure (tagModel h, "config placeholder")
  | "scn" =>
    let reqs ← scnReqs (getS kv "reqs")
    let defs := (splitList (getS kv "defs")).map str
    -- a sleep that does not fit `time.Duration` (more than 9223372036854 ms): `time.Millisecond * time.Duration(sleep)` wraps
    -- around in the real code; what a scenario then sleeps is outside C13's statement (no crash, no hang, no allocation): the
    -- driver predicts nothing for such a list and only the crash class is judged
    let durMs : Int := 9223372036854
    let sleepOutOfRange := reqs.any fun sh =>
      match parseShootName sh with
      | .ok s => decide (s.sleep > durMs ∨ s.sleep < -durMs) || (s.name == sleepName && decide (s.cnt > durMs ∨ s.cnt < -durMs))
      | _ => false
    if sleepOutOfRange then pure (none, s!"{getS kv "kind"}/scenario provider") else
    let m := match expand true (fun n => defs.contains n) reqs with
      | .ok steps => "steps=" ++ String.intercalate "," (steps.map fun (n, s) => s!"{hexB n}:{s}") ++ " end=ok"
      | .err _ => "end=ctor-err"
      | .panic _ => "end=panic"
      | .fatal _ => "end=fatal"
    pure (some m, s!"{getS kv "kind"}/scenario provider")
  | "scnraw" => pure (none, s!"{getS kv "kind"}/scenario provider")
  | "ri" =>
    let f ← intArg (getS kv "f")
    let t ← intArg (getS kv "t")
    match randInt true f t 0 with
    | .err _ => pure (some "err", "randInt")
    | _ => pure (none, "randInt")
  | "scnw" =>
    let ws ← weightsOf (getS kv "w")
    pure (some (scnwModel ws), s!"{getS kv "kind"}/scenario provider (weights)")
  | "rs" =>
    let n ← bytesOfHex (getS kv "n")
    pure (some (rsModel (getS kv "via") (getS kv "args") n), "randString")
  | "scnnull" =>
    let site : NullSite ← match getS kv "where" with
      | "vs" => some .variableSource
      | "post" => some .postprocessor
      | "pre" => some .grpcPreprocessor
      | "req" => some .request
      | "scn" => some .scenario
      | "tmpl" => some .templater
      | "prep" => some .httpPreprocessor
      | _ => none
    let m := match nullItem true site with
      | .ok () => "end=ok"
      | .err _ => "end=ctor-err"
      | .panic _ => "end=panic"
      | .fatal _ => "end=fatal"
    pure (some m, s!"{getS kv "kind"}/scenario provider (empty list item)")
  | "popt" =>
    let m ← poptModel kv
    pure (m, s!"pool config, plugin type of `{getS kv "where"}`")
  | "mas" => pure (none, s!"{getS kv "fmt"} provider (max_ammo_size)")
  | "runend" =>
    -- a file that cannot be opened: the http providers open it in their constructor, grpc/json and the generic JSON provider in Run
    let fault := getS kv "fault"
    let prov := getS kv "prov"
    let m := if fault == "missing" || fault == "perm" then
        (if prov == "grpcjson" || prov == "genjson" then some "run=err n=0 end=closed" else some "end=ctor-err")
      else none
    pure (m, s!"{prov} provider after Run returned")
  | "csv" =>
    let m ← csvModel kv
    pure (m, s!"{getS kv "kind"}/scenario provider (csv variable source)")
  | "sopt" =>
    let m ← soptModel kv
    pure (m, s!"{getS kv "kind"}/scenario provider (option {getS kv "slot"})")
  | "cli" =>
    let p ← cliShape (getS kv "pools")
    match massagePools true p with
    | .ok v => pure (if poolsAcceptable v then none else some "end=err", "cli.readConfig")
    | _ => pure (some "end=panic", "cli.readConfig")
  | _ => none

/-- randInt: the value the real code returned must lie in the interval the model allows -/
def randIntVerdict (kv : List (String × String)) (impl : String) : Option String := do
  if getS kv "k" != "ri" then none
  if !impl.startsWith "ok v=" then none
  let v ← (impl.drop 5).toString.toInt?
  let f ← intArg (getS kv "f")
  let t ← intArg (getS kv "t")
  let (lo, hi) := randIntBounds true f t
  let d := wrap64 (hi - lo)
  let off := wrap64 (v - lo)
  if 0 ≤ off ∧ off < d then some "ok" else some s!"fail:range:randInt returned {v} outside [{lo},{hi})"

/-- the verdict keys of the scenario-weight, randString and empty-item cases carry the case kind: the defects found last are
listed under these keys in findings/C13.json until their fixes land. A mutated scenario file (`scnraw`) that panics in
`ExtractVariableStorage` is the empty-item defect too (the harness reports the panicking function). -/
def kindKey (kv : List (String × String)) (impl verdict : String) : String :=
  if verdict.startsWith "fail:" then
    match getS kv "k" with
    | "scnw" => "fail:scenario-weight-" ++ (verdict.drop 5).toString
    | "rs" => "fail:randstring-" ++ (verdict.drop 5).toString
    | "scnnull" => "fail:scenario-empty-item-" ++ (verdict.drop 5).toString
    | "genjson" => "fail:genjson-" ++ (verdict.drop 5).toString
    | "pfx" => if getS kv "fmt" == "genjson" then "fail:genjson-" ++ (verdict.drop 5).toString else verdict
    | "ammo" =>
      -- a JSON array followed by something else, accepted: the defect repaired by fixes/C13-jsonline-array-trailing-data.diff
      if getS kv "fmt" == "jsonline" && verdict.startsWith "fail:accepted" then
        match (bytesOfHex (getS kv "hex")).bind jsonlineSrc with
        | some (.array (some _) true) => "fail:jsonline-array-trailing-" ++ (verdict.drop 5).toString
        | _ => verdict
      else verdict
    | "scnraw" =>
      if containsSub impl "site=config.ExtractVariableStorage" then "fail:scenario-empty-item-" ++ (verdict.drop 5).toString
      else verdict
    | _ => verdict
  else verdict

/-- `junk` is the beginning of a JSON object that lacks its closing brace -/
def truncatedObject (junk : Bytes) : Bool :=
  match junk.dropWhile isJsonWs with
  | 123 :: rest => !rest.contains 125
  | _ => false

def pfxVerdict (kv : List (String × String)) (impl : String) : Option String := do
  if getS kv "k" != "pfx" then none
  let good ← bytesOfHex (getS kv "good")
  let junk ← bytesOfHex (getS kv "junk")
  let fmt := getS kv "fmt"
  let isJson := fmt == "jsonline" || fmt == "grpcjson" || fmt == "genjson"
  let arrayMode := fmt == "jsonline" && (match good.dropWhile isJsonWs with | 91 :: _ => true | _ => false)
  some (pfxJudge s!"{fmt} provider" (isJson && !arrayMode && truncatedObject junk) impl arrayMode)

def fltVerdict (kv : List (String × String)) (impl : String) : Option String := do
  if getS kv "k" != "flt" then none
  some (fltJudge s!"{getS kv "fmt"} provider" (getS kv "mode") impl)

/-- `k=mas`: the `max_ammo_size` option (round 4) -/
def masVerdict (kv : List (String × String)) (impl : String) : Option String := do
  if getS kv "k" != "mas" then none
  let data := (bytesOfHex (getS kv "hex")).getD []
  some (masJudge s!"{getS kv "fmt"} provider (max_ammo_size)" (getS kv "fmt") ((getS kv "mas").toInt?.getD 0)
    ((split data 10).map fun l => (l.length : Int)) impl)

/-- `k=runend`: after `Run` returned every `Acquire` returns (round 6) -/
def runendVerdict (kv : List (String × String)) (impl : String) : Option String := do
  if getS kv "k" != "runend" then none
  some (runendJudge s!"{getS kv "prov"} provider" (getS kv "fault") impl)

def handle : Handler := fun input impl =>
  let kv := parseKV input
  match model kv with
  | none => ("-", "fail:driver:unparsable input")
  | some (m, kind) =>
    -- neither a pass limit nor an ammo limit, and something is chosen: the run delivers for ever, by design
    if m == some "UNLIMITED" then ("-", "skip:unlimited") else
    -- the same options on a file the driver does not read itself: a run that did not end is not judged
    if m.isNone && getS kv "k" == "ammo" && getS kv "cc" != "" && getS kv "passes" == "0" && getS kv "limit" == "0" &&
        containsSub impl "hang" then ("-", "skip:inconclusive") else
    let isGrpc := getS kv "k" == "ammo" && getS kv "fmt" == "grpcjson"
    let verdict := match ((((randIntVerdict kv impl).orElse (fun _ => pfxVerdict kv impl)).orElse (fun _ => fltVerdict kv impl)).orElse (fun _ => masVerdict kv impl)).orElse (fun _ => runendVerdict kv impl) with
      | some v => v
      | none =>
        if isGrpc then
          match m with
          | some mo => grpcExactVerdict mo impl
          | none => grpcVerdict kv ((bytesOfHex (getS kv "hex")).getD []) impl
        else judge kind m impl
    let verdict := kindKey kv impl verdict
    -- a case the harness refused to run (memory guard) has no observation to compare with;
    -- a Spec failure is the report (it carries the expected observation), not also a model/implementation difference
    let failed := verdict.startsWith "fail:"
    let verdict := if (crashVerdict kind impl).isSome then
        verdict ++ (match m with | some x => s!" (expected: {x.take 80})" | none => "")
      else verdict
    let m := if containsSub impl "oom-guard" || failed then none else m
    (m.getD "-", verdict)

end Pandora.Drv.C13
