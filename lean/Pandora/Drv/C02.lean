import Pandora.Drv.Util
import Pandora.Spec.C02
import Pandora.Model.C02Conc

namespace Pandora.Drv.C02
open Pandora.Drv Pandora.Model.C02 Pandora.Spec.C02

/-! tree syntax:  F<dur>[o1,o2,…]{ctor}   U<dur>   C(t;t;…)   C()  -/

def takeInt (cs : List Char) : Option (Int × List Char) :=
  let (neg, cs) := match cs with | '-' :: r => (true, r) | _ => (false, cs)
  let ds := cs.takeWhile Char.isDigit
  if ds.isEmpty then none else
  let n : Nat := ds.foldl (fun a c => a * 10 + (c.toNat - '0'.toNat)) 0
  some (if neg then -(n : Int) else (n : Int), cs.drop ds.length)

def takeInts : Nat → List Char → List Int → Option (List Int × List Char)
  | 0, _, _ => none
  | fuel + 1, cs, acc =>
    match cs with
    | ']' :: r => some (acc.reverse, r)
    | ',' :: r => takeInts fuel r acc
    | _ => match takeInt cs with
      | some (v, r) => takeInts fuel r (v :: acc)
      | none => none

def skipBraces : List Char → List Char
  | '{' :: r => (r.dropWhile (· != '}')).drop 1
  | cs => cs

mutual
def parseTree : Nat → List Char → Option (Tree × List Char)
  | 0, _ => none
  | fuel + 1, cs =>
    match cs with
    | 'F' :: r => do
        let (dur, r) ← takeInt r
        match r with
        | '[' :: r =>
            let (offs, r) ← takeInts (r.length + 1) r []
            pure (Tree.fin offs dur, skipBraces r)
        | _ => none
    | 'U' :: r => do
        let (dur, r) ← takeInt r
        pure (Tree.unl dur, skipBraces r)
    | 'C' :: '(' :: r => do
        let (kids, r) ← parseKids fuel r []
        pure (Tree.comp kids, r)
    | _ => none
def parseKids : Nat → List Char → List Tree → Option (List Tree × List Char)
  | 0, _, _ => none
  | fuel + 1, cs, acc =>
    match cs with
    | ')' :: r => some (acc.reverse, r)
    | ';' :: r => parseKids fuel r acc
    | _ => match parseTree fuel cs with
      | some (t, r) => parseKids fuel r (t :: acc)
      | none => none
end

def fmtT (now tx : Int) : String := if tx == now then "NOW" else toString tx

/-- run an op string ("S","N","L") sequence on the concrete model -/
def runModel (d : Nat) (now : Int) : Lvl d → List String → List String → String
  | _, [], acc => ";".intercalate acc.reverse
  | s, op :: ops, acc =>
    let o := lvlOps d
    match op with
    | "S" => match o.start s 0 with
        | .ok s' => runModel d now s' ops ("S" :: acc)
        | .error e => ";".intercalate (("P:" ++ e) :: acc).reverse
    | "N" => match o.next s now with
        | .ok (s', tx, ok) => runModel d now s' ops (s!"N:{fmtT now tx}:{if ok then 1 else 0}" :: acc)
        | .error e => ";".intercalate (("P:" ++ e) :: acc).reverse
    | "L" => match o.left s now with
        | .ok (s', l) => runModel d now s' ops (s!"L:{l}" :: acc)
        | .error e => ";".intercalate (("P:" ++ e) :: acc).reverse
    | _ => "bad-op"

/-- the same ops on the abstract spec -/
def runSpec (now : Int) : List Leaf → List String → List String → String
  | _, [], acc => ";".intercalate acc.reverse
  | ps, op :: ops, acc =>
    match op with
    | "S" => match specStart ps 0 with
        | .ok ps' => runSpec now ps' ops ("S" :: acc)
        | .error e => ";".intercalate (("P:" ++ e) :: acc).reverse
    | "N" => match specNext ps now with
        | .ok (ps', tx, ok) => runSpec now ps' ops (s!"N:{fmtT now tx}:{if ok then 1 else 0}" :: acc)
        | .error e => ";".intercalate (("P:" ++ e) :: acc).reverse
    | "L" => runSpec now ps ops (s!"L:{specLeft ps now}" :: acc)
    | _ => "bad-op"

/-- first differing op between two ';' lists, as a failure key -/
def firstDiff (a b : List String) (i : Nat := 0) : String :=
  match a, b with
  | [], [] => "none"
  | x :: xs, y :: ys => if x == y then firstDiff xs ys (i + 1) else
      let kind := if y.startsWith "L" then "left" else if y.startsWith "P" || x.startsWith "P" then "panic" else "next"
      s!"{kind}:op{i} impl={x} spec={y}"
  | x :: _, [] => s!"next:op{i} impl={x} spec=<none>"
  | [], y :: _ => s!"next:op{i} impl=<none> spec={y}"

def handleSeq (kv : List (String × String)) (impl : String) : String × String :=
  let treeS := getS kv "tree"
  let now := (getI? kv "now").getD 0
  let ops := splitList (getS kv "ops")
  match parseTree (treeS.length + 1) treeS.toList with
  | some (t, []) =>
    let d := t.depth
    match build now d t with
    | .error e => ("P:" ++ e, if impl == "P:" ++ e then "ok" else s!"fail:panic:build impl={impl.take 60}")
    | .ok s =>
      let m := runModel d now s ops []
      let sp := runSpec now (flatten t) ops []
      let verdict := if impl == sp then "ok" else s!"fail:{firstDiff (impl.splitOn ";") (sp.splitOn ";")}"
      (m, verdict)
  | _ => ("-", "fail:driver:unparsable tree")

/-! ### mode=conc -/
open Pandora.Model.C02.Conc in
def fmtRet (now : Int) : Nat × Ret → String
  | (i, .tok tx ok) => s!"{i}:N:{fmtT now tx}:{if ok then 1 else 0}"
  | (i, .cnt n) => s!"{i}:L:{n}"
  | (i, .panic m) => s!"{i}:P:{m}"
  | (i, .parked) => s!"{i}:K"

def treeLeaves : Tree → Option (List Leaf)
  | .comp cs => cs.mapM fun
      | .fin offs dur => some (Leaf.fin offs dur 0 none)
      | .unl dur => some (Leaf.unl dur none)
      | .comp _ => none
  | _ => none

/-- all finite tokens of the flat spec in order, and the finish time if the profile is finite -/
def specDrain : Nat → List Leaf → Int → List Int → List Int × Option Int
  | 0, _, _, acc => (acc.reverse, none)
  | fuel + 1, ps, now, acc =>
    match specNext ps now with
    | .ok (ps', tx, true) => if tx == now then (acc.reverse, none) else specDrain fuel ps' now (tx :: acc)
    | .ok (_, tx, false) => (acc.reverse, some tx)
    | .error _ => (acc.reverse, none)

def insertSorted (x : Int) : List Int → List Int
  | [] => [x]
  | y :: ys => if x ≤ y then x :: y :: ys else y :: insertSorted x ys
def sortInts (l : List Int) : List Int := l.foldr insertSorted []

structure Ev where
  tid : Nat
  kind : String     -- N L P K
  tx : Option Int   -- none = NOW
  ok : Bool
  n : Int

def parseEv (s : String) : Option Ev :=
  match s.splitOn ":" with
  | [t, "K"] => do pure ⟨← t.toNat?, "K", none, false, 0⟩
  | [t, "N", tx, ok] => do pure ⟨← t.toNat?, "N", if tx == "NOW" then none else tx.toInt?, ok == "1", 0⟩
  | [t, "L", n] => do pure ⟨← t.toNat?, "L", none, false, ← n.toInt?⟩
  | t :: "P" :: _ => do pure ⟨← t.toNat?, "P", none, false, 0⟩
  | _ => none

/-- Spec verdict on a global event log of a concurrent run (all callers ran to completion). -/
def judgeConc (flat : List Leaf) (now : Int) (nCalls : Nat) (evs : List Ev) : String :=
  let started := match specStart flat 0 with | .ok p => p | .error _ => flat
  let (E, fin) := specDrain (nCalls + 10000) started now []
  let oks := evs.filter (fun e => e.kind == "N" && e.ok)
  let finiteOks := oks.filterMap (·.tx)
  if evs.any (·.kind == "P") then "fail:panic:a call panicked"
  else if sortInts finiteOks != (sortInts E).take finiteOks.length then
    s!"fail:exactly-once:handed out {sortInts finiteOks} expected prefix of {E}"
  else if fin.isSome && oks.length != min nCalls E.length then
    s!"fail:exactly-once:{oks.length} tokens handed out by {nCalls} Next calls, profile has {E.length}"
  else if fin.isNone && finiteOks.length < min nCalls E.length then
    s!"fail:exactly-once:{finiteOks.length} finite tokens handed out, expected {min nCalls E.length}"
  else
    -- per caller: times never decrease
    let tids := (evs.map (·.tid)).eraseDups
    let badMono := tids.any fun t =>
      let ts := (evs.filter (fun e => e.tid == t && e.kind == "N")).map (fun e => e.tx.getD now)
      (ts.zip ts.tail).any (fun (a, b) => b < a)
    if badMono then "fail:order:times returned to one caller decrease"
    else
      -- exhausted: every !ok carries the finish time
      let badFin := match fin with
        | some f => evs.any (fun e => e.kind == "N" && !e.ok && e.tx != some f)
        | none => false
      if badFin then s!"fail:finish:a finished Next returned a time other than {fin}"
      else
        -- Left: exact for some state between call and return
        -- spec states after k finite draws, k = 0 … |E|
        let states : List (List Leaf) := (List.range (E.length + 1)).map fun k =>
          (List.range k).foldl (fun ps _ => match specNext ps now with | .ok (ps', _, _) => ps' | .error _ => ps) started
        let rec go (es : List Ev) (drawn : Nat) (callStart : List (Nat × Nat)) : Option String :=
          match es with
          | [] => none
          | e :: rest =>
            let atCall := ((callStart.find? (·.1 == e.tid)).map (·.2)).getD drawn
            match e.kind with
            | "K" => go rest drawn (if callStart.any (·.1 == e.tid) then callStart else (e.tid, drawn) :: callStart)
            | "N" => go rest (if e.ok && e.tx.isSome then drawn + 1 else drawn) (callStart.filter (·.1 != e.tid))
            | "L" =>
              let cs' := callStart.filter (·.1 != e.tid)
              -- acceptable iff it is the spec's value in some state between the call and the return
              let okL := (List.range (drawn - atCall + 1)).any fun j =>
                match states[atCall + j]? with
                | some ps => specLeft ps now == e.n
                | none => false
              if okL then go rest drawn cs'
              else some s!"fail:left:Left={e.n} is not the exact count (or -1 for unknown) of any state between call ({atCall} drawn) and return ({drawn} drawn)"
            | _ => go rest drawn callStart
        match go evs 0 [] with
        | some f => f
        | none => "ok"

open Pandora.Model.C02.Conc in
def handleConc (kv : List (String × String)) (impl : String) : String × String :=
  let treeS := getS kv "tree"
  let now := (getI? kv "now").getD 0
  let progs : List (List Op) := (splitList (getS kv "prog") "|").map fun p =>
    p.toList.filterMap fun c => if c == 'N' then some Op.next else if c == 'L' then some Op.left else none
  match parseTree (treeS.length + 1) treeS.toList, parseNats (getS kv "sched") with
  | some (t, []), some sched =>
    match treeLeaves t with
    | some leaves =>
      match newComposite leafOps now leaves with
      | .ok (.inr c) =>
        match compStart leafOps c 0 with
        | .ok c =>
          let st : St := { cs := c.cs, la := c.la, started := c.started,
                           thr := progs.map (fun p => { todo := p }), log := [] }
          let st := run now st sched
          let nOps := progs.foldl (fun a p => a + p.length) 0
          let st := drain now (2 * nOps + 2 * leaves.length * progs.length + 10) st
          let m := ";".intercalate (st.log.reverse.map (fmtRet now))
          let nCalls := progs.foldl (fun a p => a + (p.filter (· == Op.next)).length) 0
          let verdict := match (splitList impl ";").mapM parseEv with
            | some evs => judgeConc (flatten t) now nCalls evs
            | none => s!"fail:crash:unparsable log {impl.take 60}"
          (m, verdict)
        | .error e => ("P:" ++ e, "fail:panic:start")
      | _ => ("-", "skip:not-a-composite")
    | none => ("-", "skip:nested")
  | _, _ => ("-", "fail:driver:unparsable conc input")

def handle : Handler := fun input impl =>
  let kv := parseKV input
  match getS kv "mode" "seq" with
  | "seq" => handleSeq kv impl
  | "conc" => handleConc kv impl
  | _ => ("-", "skip:mode")

end Pandora.Drv.C02
