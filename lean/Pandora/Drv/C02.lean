import Pandora.Drv.Util
import Pandora.Spec.C02Flat
import Pandora.Model.C02Par
import Pandora.Model.C02Cb
import Pandora.Model.C02Huge
import Pandora.Model.C02LeafPar
import Pandora.Model.C02Big
import Pandora.Model.C02Fac

/-!
C02 driver.  For every case line: the MODEL's prediction of the observation (sequential: `seqRun` on the object
`build` makes for the tree; controlled concurrency: `Par.run`/`stepFull` with the same order of callers) and the
SPEC's verdict on what the real code did (`absRun`, or a replay of the global log against the atomic flat spec:
exactly what `Reach` says; for free-running goroutines a linearizability check of every result).
-/
namespace Pandora.Drv.C02
open Pandora.Drv Pandora.Model.C02 Pandora.Spec.C02

/-! tree syntax:  F<dur>[o1,o2,…]{ctor}   U<dur>   C(t;t;…)   C()   I<from>:<to>:<step>:<dur>  -/

def takeInt (cs : List Char) : Option (Int × List Char) :=
  let (neg, cs) := match cs with | '-' :: r => (true, r) | _ => (false, cs)
  let ds := cs.takeWhile Char.isDigit
  if ds.isEmpty then none else
  let n : Nat := ds.foldl (fun a c => a * 10 + (c.toNat - '0'.toNat)) 0
  some (if neg then -(n : Int) else (n : Int), cs.drop ds.length)

def takeInts : Nat → List Char → List Int → Option (List Int × List Char)
  | 0, _, _ => none
  | fuel + 1, cs, acc =>
    match cs with
    | ']' :: r => some (acc.reverse, r)
    | ',' :: r => takeInts fuel r acc
    | _ => match takeInt cs with
      | some (v, r) => takeInts fuel r (v :: acc)
      | none => none

def skipBraces : List Char → List Char
  | '{' :: r => (r.dropWhile (· != '}')).drop 1
  | cs => cs

mutual
def parseTree : Nat → List Char → Option (Tree × List Char)
  | 0, _ => none
  | fuel + 1, cs =>
    match cs with
    | 'F' :: r => do
        let (dur, r) ← takeInt r
        match r with
        | '[' :: r =>
            let (offs, r) ← takeInts (r.length + 1) r []
            pure (Tree.fin offs dur, skipBraces r)
        | _ => none
    | 'U' :: r => do
        let (dur, r) ← takeInt r
        pure (Tree.unl dur, skipBraces r)
    | 'I' :: r => do
        let (frm, r) ← takeInt r
        let (to, r) ← takeInt (r.drop 1)
        let (step, r) ← takeInt (r.drop 1)
        let (dur, r) ← takeInt (r.drop 1)
        pure (instanceStepTree frm.toNat to.toNat step.toNat dur, skipBraces r)
    | 'C' :: '(' :: r => do
        let (kids, r) ← parseKids fuel r []
        pure (Tree.comp kids, skipBraces r)
    | _ => none
def parseKids : Nat → List Char → List Tree → Option (List Tree × List Char)
  | 0, _, _ => none
  | fuel + 1, cs, acc =>
    match cs with
    | ')' :: r => some (acc.reverse, r)
    | ';' :: r => parseKids fuel r acc
    | _ => match parseTree fuel cs with
      | some (t, r) => parseKids fuel r (t :: acc)
      | none => none
end

def minute : Int := 3600000000000   -- (one hour: the window of clock readings)

/-- times inside [now0, now0 + 1 min) are clock readings of the run: printed as NOW on both sides -/
def fmtT (now0 tx : Int) : String := if now0 ≤ tx && tx < now0 + minute then "NOW" else toString tx

def fmtObs (now0 : Int) : Obs → String
  | .started => "S"
  | .tok tx ok => s!"N:{fmtT now0 tx}:{if ok then 1 else 0}"
  | .cnt n => s!"L:{n}"
  | .err e => "P:" ++ e

/-- op tokens S N L A<k> → calls with their clock readings (A advances the clock) -/
def mkCalls (now0 : Int) : List String → Int → List (SOp × Int)
  | [], _ => []
  | op :: r, clk =>
    if op == "S" then (.start 0, clk) :: mkCalls now0 r clk
    else if op == "N" then (.next, clk) :: mkCalls now0 r clk
    else if op == "L" then (.left, clk) :: mkCalls now0 r clk
    else if op.startsWith "A" then mkCalls now0 r (clk + ((op.drop 1).toInt?.getD 0))
    else mkCalls now0 r clk

/-- interleave the "A" markers of the op list with the observations -/
def render (now0 : Int) : List String → List Obs → List String
  | [], _ => []
  | op :: r, obs =>
    if op.startsWith "A" then "A" :: render now0 r obs
    else match obs with
      | [] => []
      | o :: os => fmtObs now0 o :: (match o with | .err _ => [] | _ => render now0 r os)

def cbCount (obs : List Obs) : Nat := (obs.foldl (fun c o => c.after o) ({} : Cb)).calls

def showRun (now0 : Int) (ops : List String) (obs : List Obs) (cb : Bool) : String :=
  let base := ";".intercalate (render now0 ops obs)
  if cb then base ++ s!";CB:{cbCount obs}" else base

/-- numeric value of a printed time -/
def timeOf (now0 : Int) (s : String) : Int := if s == "NOW" then now0 else s.toInt?.getD 0

/-- times of the N results of one caller in an observation string list -/
def nTimes (now0 : Int) (evs : List String) : List Int :=
  evs.filterMap fun e => match e.splitOn ":" with
    | ["N", tx, _] => some (timeOf now0 tx)
    | _ => none

def decreasing : List Int → Bool
  | a :: b :: r => b < a || decreasing (b :: r)
  | _ => false

/-- first differing op between two ';' lists, as a failure key -/
def firstDiff (a b : List String) (i : Nat := 0) : String :=
  match a, b with
  | [], [] => "none"
  | x :: xs, y :: ys => if x == y then firstDiff xs ys (i + 1) else
      let kind :=
        if y.startsWith "CB" || x.startsWith "CB" then "onfinish"
        else if y.startsWith "L" then "left"
        else if y.startsWith "P" || x.startsWith "P" then "panic"
        else match x.splitOn ":", y.splitOn ":" with
          | ["N", _, okx], ["N", _, oky] => if okx != oky then "exactly-once" else if oky == "0" then "finish" else "next"
          | _, _ => "next"
      s!"{kind}:op{i} impl={x} spec={y}"
  | x :: _, [] => s!"next:op{i} impl={x} spec=<none>"
  | [], y :: _ => s!"next:op{i} impl=<none> spec={y}"

def handleSeq (kv : List (String × String)) (impl : String) : String × String :=
  let treeS := getS kv "tree"
  let now0 := (getI? kv "now").getD 0
  let ops := splitList (getS kv "ops")
  let cb := getS kv "cb" == "1"
  match parseTree (treeS.length + 1) treeS.toList with
  | some (t, []) =>
    let d := t.depth
    let calls := mkCalls now0 ops now0
    match build now0 d t with
    | .error e => ("P:" ++ e, if impl == "P:" ++ e then "ok" else s!"fail:panic:build impl={impl.take 60}")
    | .ok s =>
      let m := showRun now0 ops (seqRun (lvlOps d) s calls) cb
      let sp := showRun now0 ops (absRun (.unstarted (flat t)) calls) cb
      -- the offsets of a finite part were enumerated from the REAL leaf: they are part of what the code did
      let illFormed := (flat t).find? (fun p => !p.wf)
      let verdict :=
        if impl == "INCONCLUSIVE" then "skip:inconclusive"
        else if let some p := illFormed then
          s!"fail:order:a part hands out tokens that are not in order or lie outside the part (after its finish time, where the next part starts): {(((toString (repr p)).replace "\n" " ").replace "  " " ").take 160}"
        else if impl == sp then "ok"
        else if decreasing (nTimes now0 (impl.splitOn ";")) && !decreasing (nTimes now0 (sp.splitOn ";")) then
          s!"fail:order:times returned to the caller decrease; spec={sp.take 120}"
        else s!"fail:{firstDiff (impl.splitOn ";") (sp.splitOn ";")}"
      (if impl == "INCONCLUSIVE" then "-" else m, verdict)
  | _ => ("-", "fail:driver:unparsable tree")

/-! ### mode=seq huge=1: parts with huge token counts, offsets run-length encoded (`first*count`, `first+step*count`)

The prediction is `seqRun` on the object `hbuild` makes for the run tree — the same generic composite over run leaves —
and by `C02_huge_refines` that IS what the flat spec says for the expanded tree (which cannot be written down), so
the verdict compares the implementation's observation with it. -/

def takeRun (cs : List Char) : Option (Run × List Char) := do
  let (a, r) ← takeInt cs
  match r with
  | '*' :: r =>
    let (c, r) ← takeInt r
    pure (⟨a, 0, c.toNat⟩, r)
  | '+' :: r =>
    let (d, r) ← takeInt r
    match r with
    | '*' :: r =>
      let (c, r) ← takeInt r
      pure (⟨a, d, c.toNat⟩, r)
    | _ => none
  | _ => pure (⟨a, 0, 1⟩, r)

def takeRuns : Nat → List Char → List Run → Option (List Run × List Char)
  | 0, _, _ => none
  | fuel + 1, cs, acc =>
    match cs with
    | ']' :: r => some (acc.reverse, r)
    | ',' :: r => takeRuns fuel r acc
    | _ => match takeRun cs with
      | some (v, r) => takeRuns fuel r (v :: acc)
      | none => none

mutual
def hparseTree : Nat → List Char → Option (HTree × List Char)
  | 0, _ => none
  | fuel + 1, cs =>
    match cs with
    | 'F' :: r => do
        let (dur, r) ← takeInt r
        match r with
        | '[' :: r =>
            let (runs, r) ← takeRuns (r.length + 1) r []
            pure (HTree.fin runs dur, skipBraces r)
        | _ => none
    | 'U' :: r => do
        let (dur, r) ← takeInt r
        pure (HTree.unl dur, skipBraces r)
    | 'I' :: r => do
        let (frm, r) ← takeInt r
        let (to, r) ← takeInt (r.drop 1)
        let (step, r) ← takeInt (r.drop 1)
        let (dur, r) ← takeInt (r.drop 1)
        pure (hinstanceStepTree frm.toNat to.toNat step.toNat dur, skipBraces r)
    | 'C' :: '(' :: r => do
        let (kids, r) ← hparseKids fuel r []
        pure (HTree.comp kids, skipBraces r)
    | _ => none
def hparseKids : Nat → List Char → List HTree → Option (List HTree × List Char)
  | 0, _, _ => none
  | fuel + 1, cs, acc =>
    match cs with
    | ')' :: r => some (acc.reverse, r)
    | ';' :: r => hparseKids fuel r acc
    | _ => match hparseTree fuel cs with
      | some (t, r) => hparseKids fuel r (t :: acc)
      | none => none
end

def handleHuge (kv : List (String × String)) (impl : String) : String × String :=
  let treeS := getS kv "tree"
  let now0 := (getI? kv "now").getD 0
  let ops := splitList (getS kv "ops")
  let cb := getS kv "cb" == "1"
  match hparseTree (treeS.length + 1) treeS.toList with
  | some (t, []) =>
    let d := t.depth
    let calls := mkCalls now0 ops now0
    match hbuild now0 d t with
    | .error e => ("P:" ++ e, if impl == "P:" ++ e then "ok" else s!"fail:panic:build impl={impl.take 60}")
    | .ok s =>
      let m := showRun now0 ops (seqRun (hlvlOps d) s calls) cb
      let verdict :=
        if impl == m then "ok"
        else if decreasing (nTimes now0 (impl.splitOn ";")) && !decreasing (nTimes now0 (m.splitOn ";")) then
          s!"fail:order:times returned to the caller decrease; spec={m.take 120}"
        else s!"fail:{firstDiff (impl.splitOn ";") (m.splitOn ";")}"
      (m, verdict)
  | _ => ("-", "fail:driver:unparsable tree")


/-! ### mode=seq big=1: const parts that are DESCRIBED (rate as an exact rational, duration), not enumerated

The prediction is `seqRun` on the object `bbuild` makes for the described tree — the same generic composite over
described leaves — and by `C02_big_refines` that IS what the flat spec says for the tree with all offsets written out,
so the verdict compares the implementation's observation with it.  `D<k>` = k calls of Next, shown as a digest. -/

def takeNat (cs : List Char) : Option (Nat × List Char) :=
  let ds := cs.takeWhile Char.isDigit
  if ds.isEmpty then none else some (ds.foldl (fun a c => a * 10 + (c.toNat - '0'.toNat)) 0, cs.drop ds.length)

mutual
def bparseTree : Nat → List Char → Option (BTree × List Char)
  | 0, _ => none
  | fuel + 1, cs =>
    match cs with
    | 'G' :: r => do
        let (dur, r) ← takeInt r
        let (num, r) ← takeNat (r.drop 1)
        let (den, r) ← takeNat (r.drop 1)
        pure (BTree.const (F64.ofRat num den) dur, skipBraces r)
    | 'F' :: r => do
        let (dur, r) ← takeInt r
        match r with
        | '[' :: r =>
            let (runs, r) ← takeRuns (r.length + 1) r []
            pure (BTree.ofRuns runs dur, skipBraces r)
        | _ => none
    | 'U' :: r => do
        let (dur, r) ← takeInt r
        pure (BTree.unl dur, skipBraces r)
    | 'I' :: r => do
        let (frm, r) ← takeInt r
        let (to, r) ← takeInt (r.drop 1)
        let (step, r) ← takeInt (r.drop 1)
        let (dur, r) ← takeInt (r.drop 1)
        pure (binstanceStepTree frm.toNat to.toNat step.toNat dur, skipBraces r)
    | 'C' :: '(' :: r => do
        let (kids, r) ← bparseKids fuel r []
        pure (BTree.comp kids, skipBraces r)
    | _ => none
def bparseKids : Nat → List Char → List BTree → Option (List BTree × List Char)
  | 0, _, _ => none
  | fuel + 1, cs, acc =>
    match cs with
    | ')' :: r => some (acc.reverse, r)
    | ';' :: r => bparseKids fuel r acc
    | _ => match bparseTree fuel cs with
      | some (t, r) => bparseKids fuel r (t :: acc)
      | none => none
end

def batchSize (op : String) : Option Nat := if op.startsWith "D" then (op.drop 1).toNat? else none

/-- op tokens S N L D<k> → calls (constant clock) -/
def mkCallsBig (now0 : Int) : List String → List (SOp × Int)
  | [] => []
  | op :: r =>
    if op == "S" then (.start 0, now0) :: mkCallsBig now0 r
    else if op == "N" then (.next, now0) :: mkCallsBig now0 r
    else if op == "L" then (.left, now0) :: mkCallsBig now0 r
    else match batchSize op with
      | some k => List.replicate k (SOp.next, now0) ++ mkCallsBig now0 r
      | none => mkCallsBig now0 r

def bigMod : Int := 2305843009213693951   -- 2^61 - 1

structure Dig where
  nok : Nat := 0
  nfin : Nat := 0
  first : Option Int := none
  last : Int := 0
  dec : Nat := 0
  sum : Int := 0
  prev : Option Int := none

/-- consume k results into a digest; `none` = a panic inside the batch (message returned) -/
def digestGo (now0 : Int) : Nat → List Obs → Dig → Except String (Dig × List Obs)
  | 0, obs, d => .ok (d, obs)
  | k + 1, obs, d =>
    match obs with
    | .tok tx ok :: r =>
      let isClock := now0 ≤ tx && tx < now0 + minute
      let d' : Dig := { nok := if ok then d.nok + 1 else d.nok, nfin := if ok then d.nfin else d.nfin + 1,
                        first := d.first.orElse (fun _ => some tx), last := tx,
                        dec := (match d.prev with | some p => if tx < p then d.dec + 1 else d.dec | none => d.dec),
                        sum := if isClock then d.sum else (d.sum + tx % bigMod) % bigMod, prev := some tx }
      digestGo now0 k r d'
    | .err e :: _ => .error e
    | _ => .error "short"

def renderBig (now0 : Int) : List String → List Obs → Option Int → List String
  | [], _, _ => []
  | op :: r, obs, prev =>
    match batchSize op with
    | some 0 => "D:0:0:-:-:0:0" :: renderBig now0 r obs prev
    | some k =>
      (match digestGo now0 k obs { prev := prev } with
       | .ok (d, rest) =>
         s!"D:{d.nok}:{d.nfin}:{fmtT now0 (d.first.getD 0)}:{fmtT now0 d.last}:{d.dec}:{d.sum}" :: renderBig now0 r rest d.prev
       | .error e => if e == "short" then [] else ["P:" ++ e])
    | none =>
      if op != "S" && op != "N" && op != "L" then renderBig now0 r obs prev else
      match obs with
      | [] => []
      | o :: os => fmtObs now0 o :: (match o with
          | .err _ => []
          | .tok tx _ => renderBig now0 r os (some tx)
          | _ => renderBig now0 r os prev)

/-- the times an observation with digests shows, in order: N → its time, D → first and last -/
def bigTimes (now0 : Int) (evs : List String) : List Int :=
  evs.flatMap fun e => match e.splitOn ":" with
    | ["N", tx, _] => [timeOf now0 tx]
    | ["D", _, _, f, l, _, _] => if f == "-" then [] else [timeOf now0 f, timeOf now0 l]
    | _ => []

def bigDecs (evs : List String) : Nat :=
  evs.foldl (fun a e => match e.splitOn ":" with
    | ["D", _, _, _, _, d, _] => a + d.toNat?.getD 0
    | _ => a) 0

def firstDiffBig (a b : List String) (i : Nat := 0) : String :=
  match a, b with
  | x :: xs, y :: ys =>
    if x == y then firstDiffBig xs ys (i + 1) else
    match x.splitOn ":", y.splitOn ":" with
    | ["D", okx, finx, _, lx, dx, _], ["D", oky, finy, _, ly, dy, _] =>
      let kind := if okx != oky || finx != finy then "exactly-once" else if dx != dy then "order"
        else if finy != "0" && lx != ly then "finish" else "next"
      s!"{kind}:op{i} impl={x} spec={y}"
    | _, _ => firstDiff [x] [y] i
  | _, _ => firstDiff a b i

def handleBig (kv : List (String × String)) (impl : String) : String × String :=
  let treeS := getS kv "tree"
  let now0 := (getI? kv "now").getD 0
  let ops := splitList (getS kv "ops")
  let cb := getS kv "cb" == "1"
  match bparseTree (treeS.length + 1) treeS.toList with
  | some (t, []) =>
    let d := t.depth
    let calls := mkCallsBig now0 ops
    match bbuild now0 d t with
    | .error e => ("P:" ++ e, if impl == "P:" ++ e then "ok" else s!"fail:panic:build impl={impl.take 60}")
    | .ok s =>
      let obs := seqRun (blvlOps d) s calls
      let base := ";".intercalate (renderBig now0 ops obs none)
      let m := if cb then base ++ s!";CB:{cbCount obs}" else base
      let ie := impl.splitOn ";"
      let me := m.splitOn ";"
      -- "times returned to one caller never decrease" is judged on what the implementation returned, whatever the
      -- model predicts (the offsets of a described part are computed, not proved to lie inside the part)
      let verdict :=
        if bigDecs ie > 0 || decreasing (bigTimes now0 ie) then
          s!"fail:order:times returned to the caller decrease ({bigDecs ie} results inside the batches earlier than the result before them); impl={impl.take 200} spec={m.take 200}"
        else if impl == m then "ok"
        else s!"fail:{firstDiffBig ie me}"
      (m, verdict)
  | _ => ("-", "fail:driver:unparsable tree")

/-! ### mode=fac: k schedules produced by a factory option, each judged on its own -/

def parseFacOps (now0 : Int) (ops : List String) : List (Nat × SOp × Int) :=
  ops.filterMap fun o => match o.splitOn "." with
    | [j, "S"] => j.toNat?.map fun j => (j, SOp.start 0, now0)
    | [j, "N"] => j.toNat?.map fun j => (j, SOp.next, now0)
    | [j, "L"] => j.toNat?.map fun j => (j, SOp.left, now0)
    | _ => none

/-- re-interleave per-schedule observation lists in the order of the calls; a panic ends the run -/
def interleaveObs : List (Nat × SOp × Int) → List (List Obs) → List (Nat × Obs)
  | [], _ => []
  | (j, _) :: r, per =>
    match per[j]? with
    | some (o :: os) => (j, o) :: (match o with | .err _ => [] | _ => interleaveObs r (per.set j os))
    | _ => interleaveObs r per

def showFac (now0 : Int) (l : List (Nat × Obs)) : List String := l.map fun (j, o) => s!"{j}.{fmtObs now0 o}"

def stripIdx (s : String) : String := match s.splitOn "." with
  | _ :: rest => ".".intercalate rest
  | _ => s

def handleFac (kv : List (String × String)) (impl : String) : String × String :=
  let treeS := getS kv "tree"
  let now0 := (getI? kv "now").getD 0
  let k := (getN? kv "k").getD 1
  let calls := (parseFacOps now0 (splitList (getS kv "ops"))).filter (·.1 < k)
  if impl == "NOCONF" then ("-", "skip:not-expressible-in-a-config") else
  match parseTree (treeS.length + 1) treeS.toList with
  | some (t, []) =>
    let d := t.depth
    match build now0 d t with
    | .error e => ("P:" ++ e, s!"fail:panic:build {e}")
    | .ok s =>
      -- the model: k independent objects, every factory call builds the configured tree anew
      let m := showFac now0 (facRun (lvlOps d) (List.replicate k s) calls)
      -- the spec: every produced schedule is a run of the flat spec of the configured tree on the calls made to it
      let per := (List.range k).map fun j => absRun (.unstarted (flat t)) (projCalls j calls)
      let sp := showFac now0 (interleaveObs calls per)
      let ie := splitList impl ";"
      -- the offsets of a finite part were enumerated from the REAL leaf: they are part of what the code did
      let illFormed := (flat t).find? (fun p => !p.wf)
      let verdict :=
        if let some p := illFormed then
          s!"fail:order:a part hands out tokens that are not in order or lie outside the part (after its finish time, where the next part starts): {(((toString (repr p)).replace "\n" " ").replace "  " " ").take 160}"
        else if ie == sp then "ok" else
        let badOrder := (List.range k).find? fun j =>
          decreasing (nTimes now0 ((ie.filter (·.startsWith s!"{j}.")).map stripIdx)) &&
          !decreasing (nTimes now0 ((sp.filter (·.startsWith s!"{j}.")).map stripIdx))
        match badOrder with
        | some j => s!"fail:order:times returned by the schedule of factory call {j} decrease"
        | none =>
          -- first differing result, classified like in mode=seq, with the schedule it belongs to
          let rec go : List String → List String → Nat → String
            | x :: xs, y :: ys, i => if x == y then go xs ys (i + 1) else
                s!"{firstDiff [stripIdx x] [stripIdx y] i} (schedule of factory call {(y.splitOn ".").headD "?"}; every produced schedule must behave like a schedule of its own)"
            | xs, ys, i => firstDiff xs ys i
          s!"fail:{go ie sp 0}"
      (";".intercalate m, verdict)
  | _ => ("-", "fail:driver:unparsable tree")

/-! ### mode=conc: controlled interleavings -/
open Pandora.Model.C02.Par

def fmtEv (now0 : Int) : Nat × Int × Out → Option String
  | (i, _, .ret (.tok tx ok)) => some s!"{i}:N:{fmtT now0 tx}:{if ok then 1 else 0}"
  | (i, _, .ret (.cnt n)) => some s!"{i}:L:{n}"
  | (i, _, .ret (.panic m)) => some s!"{i}:P:{m}"
  | (i, _, .goto (.nextW _ _)) => some s!"{i}:K"
  | (i, _, .goto (.leftW _)) => some s!"{i}:K"
  | _ => none

/-- the composite node at the top of a tree, with its level -/
def buildTop (now0 : Int) (t : Tree) : Option (Σ d : Nat, Comp (Lvl d)) :=
  match t.depth with
  | 0 => none
  | d + 1 =>
    match build now0 (d + 1) t with
    | .ok (.inr c) => some ⟨d, c⟩
    | _ => none

def hasPanic {σ : Type} (st : St σ) : Bool :=
  st.log.any fun e => match e.2.2 with | .ret (.panic _) => true | _ => false

/-- after the given order let every caller finish, lowest id first -/
def drainAll {σ : Type} (ops : Ops σ) (now : Int) : Nat → St σ → St σ
  | 0, st => st
  | fuel + 1, st =>
    if hasPanic st then st else
    match st.thr.findIdx? (fun t => !t.todo.isEmpty) with
    | none => st
    | some i => drainAll ops now fuel (stepFull ops now 64 st i)

def runOrder {σ : Type} (ops : Ops σ) (now : Int) (st : St σ) (sched : List Nat) : St σ :=
  sched.foldl (fun st i => if hasPanic st then st else stepFull ops now 64 st i) st

structure Ev where
  tid : Nat
  kind : String     -- N L P K
  tx : String       -- printed time
  ok : Bool
  n : Int

def parseEv (s : String) : Option Ev :=
  match s.splitOn ":" with
  | [t, "K"] => do pure ⟨← t.toNat?, "K", "", false, 0⟩
  | [t, "N", tx, ok] => do pure ⟨← t.toNat?, "N", tx, ok == "1", 0⟩
  | [t, "L", n] => do pure ⟨← t.toNat?, "L", "", false, ← n.toInt?⟩
  | t :: "P" :: _ => do pure ⟨← t.toNat?, "P", "", false, 0⟩
  | _ => none

def autostart (now : Int) : Abs → Option Abs
  | .unstarted parts => some (.running (inst parts now))
  | .running _ => none

/-- replay of a global log against the ATOMIC flat spec (`Reach`): the set of abstract states the log may have led to -/
def replay (now0 : Int) : List Ev → List Abs → Nat → Except String (List Abs)
  | [], cands, _ => .ok cands
  | e :: rest, cands, idx =>
    let next : Except String (List Abs) :=
      match e.kind with
      | "K" => .ok (cands ++ cands.filterMap (autostart now0))
      | "N" =>
        let c' := cands.filterMap fun A =>
          let x := absNext A now0
          if fmtT now0 x.2.1 == e.tx && x.2.2 == e.ok then some x.1 else none
        if c'.isEmpty then
          let exp := match cands with | A :: _ => fmtObs now0 (.tok (absNext A now0).2.1 (absNext A now0).2.2) | [] => "?"
          let key := match cands with
            | A :: _ => if (absNext A now0).2.2 != e.ok then "exactly-once" else if !e.ok then "finish" else "next"
            | [] => "next"
          .error s!"{key}:event {idx} caller {e.tid} Next={e.tx}:{if e.ok then 1 else 0} but the atomic spec gives {exp}"
        else .ok c'
      | "L" =>
        let c' := cands.filter fun A => absLeft A now0 == e.n
        if c'.isEmpty then
          let exp := match cands with | A :: _ => toString (absLeft A now0) | [] => "?"
          .error s!"left:event {idx} caller {e.tid} Left={e.n} but the atomic spec gives {exp}"
        else .ok c'
      | _ => .error s!"panic:event {idx} caller {e.tid} panicked"
    match next with
    | .error m => .error m
    | .ok c' => replay now0 rest c' (idx + 1)

def progsOf (s : String) : List (List Op) :=
  (splitList s "|").map fun p =>
    p.toList.filterMap fun c => if c == 'N' then some Op.next else if c == 'L' then some Op.left else none

def judgeLog (now0 : Int) (A0 : Abs) (impl : String) : String :=
  match (splitList impl ";").mapM parseEv with
  | none => s!"fail:crash:unparsable log {impl.take 80}"
  | some evs =>
    match replay now0 evs [A0] 0 with
    | .error m => "fail:" ++ m
    | .ok _ =>
      let tids := (evs.map (·.tid)).eraseDups
      let bad := tids.any fun t =>
        decreasing ((evs.filter (fun e => e.tid == t && e.kind == "N")).map (fun e => timeOf now0 e.tx))
      if bad then "fail:order:times returned to one caller decrease" else "ok"

def handleConc (kv : List (String × String)) (impl : String) : String × String :=
  let treeS := getS kv "tree"
  let now0 := (getI? kv "now").getD 0
  let started := getS kv "start" "1" != "0"
  let progs := progsOf (getS kv "prog")
  match parseTree (treeS.length + 1) treeS.toList, parseNats (getS kv "sched") with
  | some (t, []), some sched =>
    match buildTop now0 t with
    | none => ("-", "skip:not-a-composite")
    | some ⟨d, c⟩ =>
      let c1 : Except String (Comp (Lvl d)) := if started then compStart (lvlOps d) c 0 else .ok c
      match c1 with
      | .error e => ("P:" ++ e, "fail:panic:start")
      | .ok c1 =>
        let st : St (Lvl d) := ⟨⟨c1.cs, c1.la, c1.started⟩, progs.map (fun p => { todo := p }), []⟩
        let st := runOrder (lvlOps d) now0 st sched
        let nOps := progs.foldl (fun a p => a + p.length) 0
        let st := drainAll (lvlOps d) now0 (4 * nOps + 16) st
        let m := ";".intercalate (st.log.reverse.filterMap (fmtEv now0))
        let A0 : Abs := if started then .running (inst (flat t) 0) else .unstarted (flat t)
        (m, judgeLog now0 A0 impl)
  | _, _ => ("-", "fail:driver:unparsable conc input")

/-! ### mode=lconc: controlled interleavings inside ONE leaf (instrumented build: a scheduling point in front of every
access of the leaf's `Next` / `Left` to shared state).  One release of a caller = one action of `LeafPar.lstep`. -/
open Pandora.Model.C02.LeafPar in
def fmtLEv (now0 : Int) : Nat × Int × Out → String
  | (i, _, .ret (.tok tx ok)) => s!"{i}:N:{fmtT now0 tx}:{if ok then 1 else 0}"
  | (i, _, .ret (.cnt n)) => s!"{i}:L:{n}"
  | (i, _, .ret (.panic m)) => s!"{i}:P:{m}"
  | (i, _, .goto _) => s!"{i}:K"

open Pandora.Model.C02.LeafPar in
def handleLConc (kv : List (String × String)) (impl : String) : String × String :=
  let treeS := getS kv "tree"
  let now0 := (getI? kv "now").getD 0
  let started := getS kv "start" "1" != "0"
  let progs := progsOf (getS kv "prog")
  if impl.startsWith "NOINSTR" then ("-", "skip:no-instrumented-build:" ++ (impl.drop 8).toString) else
  match parseTree (treeS.length + 1) treeS.toList, parseNats (getS kv "sched") with
  | some (t, []), some sched =>
    match t with
    | .comp _ => ("-", "skip:not-a-leaf")
    | _ =>
      match build now0 0 t with
      | .error e => ("P:" ++ e, "fail:panic:build")
      | .ok s =>
        let s1 : Except String Leaf := if started then leafOps.start s 0 else .ok s
        match s1 with
        | .error e => ("P:" ++ e, "fail:panic:start")
        | .ok s1 =>
          let st := lrun leafOps (linit s1 progs) (sched.map fun i => (i, now0))
          let nOps := progs.foldl (fun a p => a + p.length) 0
          let st := ldrain leafOps now0 (4 * nOps + 16) st
          let m := ";".intercalate (st.log.reverse.map (fmtLEv now0))
          let A0 : Abs := if started then .running (inst (flat t) 0) else .unstarted (flat t)
          (m, judgeLog now0 A0 impl)
  | _, _ => ("-", "fail:driver:unparsable lconc input")

/-! ### mode=stress: free-running goroutines; every result must be explained by the atomic flat spec

observation: `<caller>|<caller>|…`, a caller = `N:tx:ok` and `L:n@a-b` results in its own order, where for a `Left`
call `a` = number of `Next` calls that had returned before it began and `b` = number of `Next` calls that had begun
when it returned.  With a constant clock the results of the first j `Next` calls of the flat spec do not depend on
who makes them, so: the multiset of all `Next` results must be that of the first n spec results, each caller's times
must not decrease, and each `Left` value must be the spec's value after j draws for some a ≤ j ≤ b. -/

def insertSortedS (x : String) : List String → List String
  | [] => [x]
  | y :: ys => if x ≤ y then x :: y :: ys else y :: insertSortedS x ys
def sortStrs (l : List String) : List String := l.foldr insertSortedS []

/-- spec states after 0, 1, …, n draws and the printed results of the draws -/
def specStates (now0 : Int) : Nat → Abs → List Abs × List String
  | 0, A => ([A], [])
  | n + 1, A =>
    let x := absNext A now0
    let r := specStates now0 n x.1
    (A :: r.1, s!"N:{fmtT now0 x.2.1}:{if x.2.2 then 1 else 0}" :: r.2)

def parseAB (s : String) : Option (Int × Nat × Nat) :=
  match s.splitOn "@" with
  | [n, ab] => match ab.splitOn "-" with
    | [a, b] => do pure (← n.toInt?, ← a.toNat?, ← b.toNat?)
    | _ => none
  | _ => none

def handleStress (kv : List (String × String)) (impl : String) : String × String :=
  let treeS := getS kv "tree"
  let now0 := (getI? kv "now").getD 0
  let started := getS kv "start" "1" != "0"
  match parseTree (treeS.length + 1) treeS.toList with
  | some (t, []) =>
    let A0 : Abs := if started then .running (inst (flat t) 0) else .unstarted (flat t)
    let (impl, cbS) := match impl.splitOn "#CB:" with
      | [a, b] => (a, some b)
      | _ => (impl, none)
    let callers := (splitList impl "|").map (fun c => splitList c ",")
    let all := callers.flatten
    if all.any (·.startsWith "P") then ("-", s!"fail:panic:a call panicked: {impl.take 100}") else
    let ns := all.filter (·.startsWith "N:")
    let (states, exp) := specStates now0 ns.length A0
    let verdict :=
      if sortStrs ns != sortStrs exp then
        let key := if (ns.filter (·.endsWith ":1")).length != (exp.filter (·.endsWith ":1")).length then "exactly-once"
          else if sortStrs (ns.filter (·.endsWith ":0")) != sortStrs (exp.filter (·.endsWith ":0")) then "finish" else "exactly-once"
        s!"fail:{key}:Next results {sortStrs ns |>.take 12} are not those of the flat spec {sortStrs exp |>.take 12}"
      else if callers.any (fun c => decreasing (nTimes now0 c)) then "fail:order:times returned to one caller decrease"
      else
        let badL := all.filter (·.startsWith "L:") |>.find? fun l =>
          match parseAB (l.drop 2).toString with
          | none => true
          | some (n, a, b) =>
            let okRange := (List.range (b - a + 1)).any fun j =>
              match states[a + j]? with
              | some A => absLeft A now0 == n ||
                  -- started on behalf of a `Next` in progress
                  (match autostart now0 A with | some A' => b > a + j && absLeft A' now0 == n | none => false)
              | none => false
            !okRange
        match badL with
        | some l => s!"fail:left:{l} is not the flat spec's count (or -1) for any number of draws in its interval"
        | none =>
          -- callbackOnFinishSchedule: once, as soon as some Next returned !ok or some Left returned 0
          let fin := all.any fun e => (e.startsWith "N:" && e.endsWith ":0") || e.startsWith "L:0@"
          match cbS with
          | some c => if c == (if fin then "1" else "0") then "ok" else s!"fail:onfinish:onFinish ran {c} times, finishing results seen: {fin}"
          | none => "ok"
    ("-", verdict)
  | _ => ("-", "fail:driver:unparsable tree")

/-! ### mode=cbconc: the onFinish wrapper under controlled overlap of its callers

events: `i:G` the wrapped call of caller i returned, `i:C` caller i is inside onFinish, `i:W` caller i is blocked in the
wrapper's once-primitive, `i:N:t:ok` / `i:L:n` caller i's call returned; `#CB:k` = how often onFinish ran. -/
open Pandora.Model.C02.CbW

/-- the model of the wrapped schedule: the object `build` makes for the tree, each call one atomic action -/
def lvlInner (d : Nat) : Inner (Lvl d) where
  act s _ op now := match op with
    | .next => match (lvlOps d).next s now with
      | .ok (s', tx, ok) => (s', some (.tok tx ok))
      | .error e => (s, some (.panic e))
    | .left => match (lvlOps d).left s now with
      | .ok (s', n) => (s', some (.cnt n))
      | .error e => (s, some (.panic e))

def fmtWEv (now0 : Int) : Nat × Int × WEv → Option String
  | (i, _, .got _) => some s!"{i}:G"
  | (i, _, .cbBegin) => some s!"{i}:C"
  | (i, _, .blocked) => some s!"{i}:W"
  | (i, _, .ret (.tok tx ok)) => some s!"{i}:N:{fmtT now0 tx}:{if ok then 1 else 0}"
  | (i, _, .ret (.cnt n)) => some s!"{i}:L:{n}"
  | (i, _, .ret (.panic m)) => some s!"{i}:P:{m}"
  | _ => none

structure CEv where
  tid : Nat
  kind : String     -- G C W N L P
  tx : String := ""
  ok : Bool := false
  n : Int := 0

def CEv.finishing (e : CEv) : Bool := (e.kind == "N" && !e.ok) || (e.kind == "L" && e.n == 0)
def CEv.isRet (e : CEv) : Bool := e.kind == "N" || e.kind == "L"

def parseCEv (s : String) : Option CEv :=
  match s.splitOn ":" with
  | [t, "G"] => do pure { tid := ← t.toNat?, kind := "G" }
  | [t, "C"] => do pure { tid := ← t.toNat?, kind := "C" }
  | [t, "W"] => do pure { tid := ← t.toNat?, kind := "W" }
  | [t, "N", tx, ok] => do pure { tid := ← t.toNat?, kind := "N", tx := tx, ok := ok == "1" }
  | [t, "L", n] => do pure { tid := ← t.toNat?, kind := "L", n := ← n.toInt? }
  | t :: "P" :: _ => do pure { tid := ← t.toNat?, kind := "P" }
  | _ => none

/-- the k-th `G` of a caller belongs to its k-th returned result: the log in the order of the WRAPPED calls -/
def innerOrder : List CEv → List CEv → List Ev
  | [], _ => []
  | e :: rest, all =>
    if e.kind == "G" then
      -- results of this caller that come after this point of the log = those not yet paired
      match (rest.filter fun x => x.tid == e.tid && x.isRet).head? with
      | some r => ⟨r.tid, r.kind, r.tx, r.ok, r.n⟩ :: innerOrder rest all
      | none => innerOrder rest all
    else innerOrder rest all

/-- has the caller that logged `C` at position `c` logged anything between `c` and position `k` (exclusive)? -/
def completedBefore (evs : List CEv) (k : Nat) : Option Bool :=
  -- none: no `C` before k; some b: there is one, and b says whether that callback had returned before k
  let pre := evs.take k
  match pre.findIdx? (·.kind == "C") with
  | none => none
  | some c =>
    match pre[c]? with
    | none => none
    | some ce => some ((pre.drop (c + 1)).any fun x => x.tid == ce.tid)

def judgeCb (now0 : Int) (A0 : Abs) (impl : String) : String :=
  let (logS, cbS) := match impl.splitOn "#CB:" with
    | [a, b] => (a, b)
    | _ => (impl, "?")
  if (splitList logS ";").any (fun t => t == "DEADLOCK" || t.endsWith ":HANG") then
    "fail:hang:a caller of the wrapper never came back (deadlock)" else
  match (splitList logS ";").mapM parseCEv with
  | none => s!"fail:crash:unparsable log {impl.take 80}"
  | some evs =>
    if evs.any (·.kind == "P") then s!"fail:panic:a call panicked: {impl.take 100}" else
    let cs := evs.filter (·.kind == "C")
    if cs.length > 1 || (cbS != "0" && cbS != "1") then
      s!"fail:onfinish:onFinish ran {cbS} times (callers {cs.map (·.tid)} were inside it)" else
    if cbS != toString cs.length then s!"fail:onfinish:onFinish ran {cbS} times but {cs.length} callers entered it" else
    -- a caller learns that the schedule is finished only after onFinish has completed
    let early := (List.range evs.length).find? fun k =>
      match evs[k]? with
      | some e => e.isRet && e.finishing &&
          (match completedBefore evs k with
           | none => true
           | some done => !(done || (match (evs.take k).find? (·.kind == "C") with | some c => c.tid == e.tid | none => false)))
      | none => false
    match early with
    | some k =>
      let who := match evs[k]? with | some e => e.tid | none => 0
      if (completedBefore evs k).isNone then s!"fail:onfinish:event {k}: caller {who} was told the schedule is finished but onFinish never ran"
      else s!"fail:onfinish:event {k}: caller {who} was told the schedule is finished while onFinish was still running"
    | none =>
      -- onFinish is entered only by a caller that got a finishing result
      let wrong := (List.range evs.length).find? fun k =>
        match evs[k]? with
        | some e => e.kind == "C" &&
            (match ((evs.drop (k + 1)).filter fun x => x.tid == e.tid && x.isRet).head? with
             | some r => !r.finishing
             | none => false)
        | none => false
      match wrong with
      | some k => s!"fail:onfinish:event {k}: onFinish ran for a result that is not a finishing one"
      | none =>
        match replay now0 (innerOrder evs evs) [A0] 0 with
        | .error m => "fail:" ++ m
        | .ok _ => "ok"

def handleCbConc (kv : List (String × String)) (impl : String) : String × String :=
  let treeS := getS kv "tree"
  let now0 := (getI? kv "now").getD 0
  let started := getS kv "start" "1" != "0"
  let progs := progsOf (getS kv "prog")
  match parseTree (treeS.length + 1) treeS.toList, parseNats (getS kv "sched") with
  | some (t, []), some sched =>
    let d := t.depth
    match build now0 d t with
    | .error e => ("P:" ++ e, "fail:panic:build")
    | .ok s =>
      let s1 : Except String (Lvl d) := if started then (lvlOps d).start s 0 else .ok s
      match s1 with
      | .error e => ("P:" ++ e, "fail:panic:start")
      | .ok s1 =>
        let st := wrun (lvlInner d) (winit s1 progs) (sched.map fun i => (i, now0))
        let nOps := progs.foldl (fun a p => a + p.length) 0
        let st := wdrain (lvlInner d) now0 (4 * nOps + 16) st
        let m := ";".intercalate (st.log.reverse.filterMap (fmtWEv now0)) ++ s!"#CB:{st.calls}"
        let A0 : Abs := if started then .running (inst (flat t) 0) else .unstarted (flat t)
        let v := judgeCb now0 A0 impl
        -- "blocked" is read off the Go runtime's goroutine status. Should a released caller ever be reported waiting
        -- where the model has it running (a momentary wait somewhere in the runtime), the rest of the run is a
        -- different but equally legitimate interleaving: the property is still judged on it, the step-by-step
        -- comparison with the model is not made (counted as skipped; 0 in all runs so far)
        let nW (x : String) : Nat := ((x.splitOn ";").filter (·.endsWith ":W")).length
        if impl != m && v == "ok" && nW ((impl.splitOn "#CB:").headD impl) > nW ((m.splitOn "#CB:").headD m) then
          ("-", "skip:inconclusive:a caller was reported waiting more often than the model has it blocked")
        else (m, v)
  | _, _ => ("-", "fail:driver:unparsable cbconc input")

def handle : Handler := fun input impl =>
  let kv := parseKV input
  -- a call that never returned (the harness gave up waiting: a lock that is not released, a lost wake-up)
  -- a controlled run whose goroutines did not come to rest in time (a loaded machine): nothing can be concluded
  if impl == "TIMEOUT" then ("-", "skip:inconclusive:the controlled run did not settle in time") else
  if impl == "HANG" || impl.endsWith ":HANG" then ("-", "fail:hang:a Next/Left/Start call did not return (deadlock)") else
  match getS kv "mode" "seq" with
  | "seq" => if getS kv "huge" == "1" then handleHuge kv impl else if getS kv "big" == "1" then handleBig kv impl
      else handleSeq kv impl
  | "fac" => handleFac kv impl
  | "conc" => handleConc kv impl
  | "stress" => handleStress kv impl
  | "cbconc" => handleCbConc kv impl
  -- nested composites, scheduling points of every level active: judged like a free run (`#W:k` = how often a
  -- released caller was seen waiting for a lock; coverage information only)
  | "nconc" => handleStress kv ((impl.splitOn "#W:").headD impl)
  | "lconc" => handleLConc kv impl
  -- composites in the instrumented build (points of the composites and of the leaves active): judged like a free run
  | "lnconc" =>
    if impl.startsWith "NOINSTR" then ("-", "skip:no-instrumented-build:" ++ (impl.drop 8).toString)
    else handleStress kv ((impl.splitOn "#W:").headD impl)
  | _ => ("-", "skip:mode")

end Pandora.Drv.C02
