import Pandora.Drv.Util
import Pandora.Spec.C06
import Pandora.Model.C06CliShutdown
import Pandora.Model.C06SinkFail
import Pandora.Model.C06Engine
import Pandora.Model.C06ErrJoin
import Pandora.Model.C06PoolRun
import Pandora.Model.C06Start
import Pandora.Model.C06Shared

/-!
Line-protocol driver of C06. Input kinds (see harness/cmd/c06):

  kind=line id=0|1 ns=<unixnano> tag=<hex> sid=<uint64> f=<10 ints> via=api|raw   one sample through the real phout aggregator
  kind=str  ns=… tag=… sid=… f=… via=…                                            `(*Sample).String()` = appendPhout(s, nil, true)
  kind=seq   id=0|1 q=<Q> via=… s=<ns>:<taghex>:<sid>:<f,…>;…                      several samples, one phout aggregator, whole file
  kind=queue agg=phout|jsonlines g=<G> k=<K> q=<Q> … [late=1] [sink=file] [fail=N]  reporters × queue × aggregator
  kind=engine agg=… pools= inst= ammo= per= q= slow= cancel= seed=                  the real engine over the real aggregators
  kind=json n=<N> q=<Q> seed=<S>                                                  jsonlines, content level
  kind=sinkfail agg=phout|jsonlines n=<N> limit=<bytes>                             a sink that rejects writes; only the final flush writes
  kind=proc sig=INT|TERM at=<ms> rps=<R>                                          the pandora binary, stopped by a signal
-/
namespace Pandora.Drv.C06
open Pandora.Drv Pandora.Spec.C06 Pandora.Model.Phout

def parseSample (kv : List (String × String)) : Option Sample := do
  let ns ← getI? kv "ns"
  let tag ← parseHex (getS kv "tag")
  let sid ← getN? kv "sid"
  let f ← parseInts (getS kv "f")
  match f with
  | [a, b, c, d, e, g, h, i, j, k] =>
    pure { ms := msOfNanos ns, tag := tag, id := sid, intervalReal := a, connect := b, send := c, latency := d,
           receive := e, intervalEvent := g, sizeOut := h, sizeIn := i, netCode := j, protoCode := k }
  | _ => none

def parseLineObs (impl : String) : LineObs :=
  let kv := parseKV impl
  match lookup kv "out" with
  | some h =>
    match parseHex h with
    | some b => .bytes b
    | none => .other "unparsable hex"
  | none =>
    match lookup kv "panic" with
    | some w => .panic w
    | none => .other (impl.take 80).toString

def modelLine (bytes : Option Bytes) : String :=
  match bytes with
  | some b => s!"out={toHex b}"
  | none => "panic=index"

def handleLine (kv : List (String × String)) (impl : String) (str : Bool) : String × String :=
  match parseSample kv with
  | none => ("-", "fail:driver:unparsable input")
  | some s =>
    let withId := str || getS kv "id" == "1"
    let m := if str then encodeBody s true else encode s withId
    let obs := parseLineObs impl
    -- `String()` has no LF: judge it as a line by adding the terminator the aggregator would add
    let obs' := if str then (match obs with | .bytes b => LineObs.bytes (b ++ [LF]) | o => o) else obs
    (modelLine m, judgeLine s withId obs')

/-! ### several samples, one file -/

def parseSeqSamples (s : String) : Option (List Sample) :=
  (s.splitOn ";").mapM fun part =>
    match part.splitOn ":" with
    | [ns, tag, sid, f] => parseSample [("ns", ns), ("tag", tag), ("sid", sid), ("f", f)]
    | _ => none

def encodeAll (withId : Bool) : List Sample → Option Bytes
  | [] => some []
  | s :: rest => do
      let l ← encode s withId
      let r ← encodeAll withId rest
      pure (l ++ r)

def handleSeq (kv : List (String × String)) (impl : String) : String × String :=
  match parseSeqSamples (getS kv "s") with
  | none => ("-", "fail:driver:unparsable input")
  | some ss =>
    let withId := getS kv "id" == "1"
    (modelLine (encodeAll withId ss), judgeSeq ss withId (parseLineObs impl))

/-! ### queue cases: the model must be able to exhibit the observed outcome -/

open Pandora.Model.AggQueue in
/-- a schedule under which the model accepts `l` and drops `d` of `g*k` reports (round-robin reporters):
fill the queue, overflow `d` times, then alternate receive/report, cancel after the last report, drain. -/
def witnessSchedule (g k q l d : Nat) : List Ev :=
  let n := g * k
  let rr : List Ev := (List.range n).map fun i => Ev.report (i % g)
  let first := min n (if d == 0 then 0 else q)
  -- d = 0: strictly alternate (queue never fills); d > 0: q accepted, d dropped, rest alternating
  let head := rr.take (first + d)
  let tail := (rr.drop (first + d)).flatMap fun e => [Ev.recv false, e]
  let _ := l
  head ++ tail ++ [Ev.cancel, Ev.seeCancel] ++ (List.replicate (n + 2) Ev.drain)

open Pandora.Model.AggQueue in
def modelQueue (kind : Kind) (g k q l d : Nat) : String :=
  let progs : Nat → List Nat := fun r => if r < g then List.range k else []
  let st := run { kind := kind, cap := q } (init progs) (witnessSchedule g k q l d)
  let err := match st.err with | none => "nil" | some n => s!"dropped:{n}"
  let ret := st.phase == .returned
  s!"reports={st.log.length} lines={st.out.length} dropped={st.droppedCount} err={err} order=1 dup=0 bad=0 closed={if st.closed && ret && st.buf.isEmpty then 1 else 0}"

def lateObs (ikv : List (String × String)) (reports lines dropped : Nat) : LateObs :=
  { reports := reports, pre := (getN? ikv "pre").getD reports, lines := lines, dropped := dropped, err := getS ikv "err",
    order := getS ikv "order" == "1", dup := (getN? ikv "dup").getD 1, bad := (getN? ikv "bad").getD 1,
    closed := getS ikv "closed" == "1", miss := (getN? ikv "miss").getD reports }

def parseW (s : String) : Option (List (Nat × Nat)) :=
  (splitList s ",").mapM fun t =>
    match t.splitOn "." with
    | [a, b] => do pure ((← a.toNat?), (← b.toNat?))
    | _ => none

def handleQueue (kv : List (String × String)) (impl : String) : String × String :=
  let ikv := parseKV impl
  let kind? : Option Pandora.Model.AggQueue.Kind := match getS kv "agg" with
    | "phout" => some .phout
    | "jsonlines" => some .encoder
    | _ => none
  match kind?, getN? kv "g", getN? kv "k", getN? kv "q" with
  | some kind, some g, some k, some q =>
    match getN? ikv "reports", getN? ikv "lines", getN? ikv "dropped" with
    | some reports, some lines, some dropped =>
      if (lookup kv "fail").isSome then ("-", judgeFailingSink (getS ikv "closed" == "1")) else
      -- (round 6) a run across flush ticks in which `Run` returned while the reporters were still reporting
      if getS ikv "gaveup" == "1" then
        ("-", s!"fail:err:Run returned {getS ikv "err"} in the middle of the run ({reports} of {g * k} reports made, {lines} lines written)") else
      if getS kv "late" == "1" then
        ("-", judgeLate kind (lateObs ikv reports lines dropped))
      else
      let wtok := lookup ikv "w"
      let w := wtok.bind parseW
      if wtok.isSome && w.isNone then ("-", "fail:driver:unparsable sequence") else
      let o : QueueObs := { reports := reports, lines := lines, dropped := dropped, err := getS ikv "err",
                            order := getS ikv "order" == "1", dup := (getN? ikv "dup").getD 1,
                            bad := (getN? ikv "bad").getD 1, closed := getS ikv "closed" == "1", w := w }
      let closeErr := getS kv "closeerr" == "1"
      let i : QueueIn := { kind := kind, g := g, k := k, q := q, closeErr := closeErr }
      -- is the observed (lines, dropped) an outcome of the model? if not predict the no-drop run
      let feasible := lines + dropped == g * k && (kind == .encoder || dropped == 0) &&
                      (dropped == 0 || lines ≥ min (g * k) q)
      let (ml, md) := if feasible then (lines, dropped) else (g * k, 0)
      let m := modelQueue kind g k q ml md
      -- the sink's Close fails too: Run's error is what the error-join model makes of (close error, drop count)
      let m := if closeErr then m.replace s!" err={if md == 0 then "nil" else s!"dropped:{md}"} " s!" err={expectedErr kind true md} " else m
      -- borrowed samples: every one goes back to its owner exactly once (written or dropped)
      let m := if (lookup kv "borrow").isSome then s!"{m} returns={g * k} dblret=0" else m
      let m := match wtok with | some t => s!"{m} w={t}" | none => m
      (m, judgeQueue i o)
    | _, _, _ =>
      if (lookup ikv "inconclusive").isSome then ("-", "skip:inconclusive") else ("-", s!"fail:crash:{(impl.take 120).toString}")
  | _, _, _, _ => ("-", "fail:driver:unparsable input")

/-! ### the real engine -/

open Pandora.Model.C06Engine in
/-- the engine model on the schedule "every pool: one instance reports and finishes, the await loop takes the four
results, `pool.Run` sees the closed `awaitErr`, its result is received; then the loop is over":
(did `Engine.Run` return nil, had every aggregator returned by then) -/
def modelEngineRet (pools : Nat) : Bool × Bool :=
  let pool : Nat → List EEv := fun j =>
    ([.launch, .startDone, .report 0, .finish, .awaitStart, .awaitInst, .aggReturn, .awaitAgg, .provReturn,
      .awaitProv, .waitDone] : List Pandora.Model.C06Pool.PEv).map (EEv.pool j) ++ [.poolRetClosed j, .poolSend j, .engRecv]
  let st := run (init pools pools 4) ((List.range pools).flatMap pool ++ [.engRetNil])
  (st.ret == some true, (List.range pools).all fun j => (st.pools j).p.aggDone)

open Pandora.Model.AggQueue in
/-- a run that ends by itself, nothing dropped: the queue model on the schedule "report, receive, …, cancel, drain";
`run=` and `aggret=` from the engine model -/
def modelEngineNatural (kind : Kind) (n q pools : Nat) : String :=
  let progs : Nat → List Nat := fun r => if r = 0 then List.range n else []
  let st := run { kind := kind, cap := q } (init progs) (witnessSchedule 1 n q n 0)
  let err := match st.err with | none => "nil" | some d => s!"dropped:{d}"
  let ret := st.phase == .returned
  let e := modelEngineRet pools
  s!"run={if e.1 then "nil" else "running"} reports={st.log.length} pre={st.log.length} lines={st.out.length} dropped={st.droppedCount} err={err} order=1 dup=0 bad=0 closed={if st.closed && ret && st.buf.isEmpty then 1 else 0} miss=0 aggret={if ret && e.2 then 1 else 0}"

/-- (round 4) ONE pool that fails before / while its tasks are started — fully determined. `warm`/`warmup`: the
warm-up fails; `sched`: `runAsync` fails (both: `Model.C06PoolRun`, nothing is started, one `Done`). `inst`/`bind`:
the first instance cannot be built — `Model.C06Start` on "the first wait succeeds, `newInstance` fails" gives what
the pool's tasks see (no `.launch`, `.startDone`); the await loop takes the start result (0 started: the check
cancels the aggregator), the aggregator's and the provider's results, then the deferred `onWaitDone`.
(can `Engine.Wait` return, has the aggregator that was started returned, pools whose aggregator never ran) -/
def modelEngineEarly (what : String) : Option (Bool × Bool × Nat) :=
  let fin := fun (evs : List Pandora.Model.C06PoolRun.Ev) =>
    let st := Pandora.Model.C06PoolRun.run .code (Pandora.Model.C06PoolRun.init 4) evs
    let notrun := if (st.pools 0).path == .failedEarly then 1 else 0
    some (decide (Pandora.Model.C06PoolRun.waitReturns st 1) && !decide (Pandora.Model.C06PoolRun.negativeCounter st 1),
          notrun == 1 || (st.pools 0).p.aggDone, notrun)
  match what with
  | "warm" | "warmup" => fin [.warmFail 0]
  | "sched" => fin [.asyncFail 0]
  | "inst" | "bind" =>
    let startTrace : List Pandora.Model.C06Pool.PEv :=
      Pandora.Model.C06Start.poolTrace {} {} [.wait true, .newInstance false]
    let rest : List Pandora.Model.C06Pool.PEv := [.awaitStart, .aggReturn, .awaitAgg, .provReturn, .awaitProv, .waitDone]
    fin ([.asyncOk 0] ++ (startTrace ++ rest).map (.pool 0) ++
      [.ctxReturn 0])
  | _ => none

def handleEngine (kv : List (String × String)) (impl : String) : String × String :=
  let ikv := parseKV impl
  let kind? : Option Pandora.Model.AggQueue.Kind := match getS kv "agg" with
    | "phout" => some .phout
    | "jsonlines" => some .encoder
    | _ => none
  match kind?, getN? kv "pools", getN? kv "ammo", getN? kv "per", getN? kv "q" with
  | some kind, some pools, some ammo, some per, some q =>
    match getN? ikv "reports", getN? ikv "lines", getN? ikv "dropped" with
    | some reports, some lines, some dropped =>
      -- a pool that fails by itself (round 3) is judged like a cancel: after Wait, for the reports made before the failure
      -- (round 4) so is a pool that fails before / while its tasks are started (`early=`)
      let cancelled := getS kv "cancel" != "-1" || (lookup kv "fail").isSome || (lookup kv "early").isSome
      let o := lateObs ikv reports lines dropped
      -- a run that ends by itself without drops is fully determined: all pools × ammo × per reports, each one line
      -- (a pool that never starts an instance — `inst=0`, round 3 — shoots nothing)
      let n := if getN? kv "inst" == some 0 then 0 else pools * ammo * per
      -- an overdue schedule with discard_overflow: how many tokens are overdue depends on the clock; the engine's own
      -- "discarded" samples (one per ammo that was not shot) must all be in the output, next to the guns' reports
      let discTok := lookup ikv "disc"
      let overdue := (lookup kv "disc").isSome
      -- (round 4) a shared rps schedule: how many ammo are shot depends on its tokens — judged, not predicted
      let sharedSched := (lookup kv "shared").isSome
      let m := if !cancelled && dropped == 0 && !overdue && !sharedSched then modelEngineNatural kind n (max q n) pools else "-"
      -- (round 4) one pool that fails early: nothing is ever reported, everything else is what the models say
      let m := match pools == 1, (lookup kv "early").bind (fun e => modelEngineEarly ((e.splitOn ":").headD "")) with
        | true, some (waitRet, aggret, notrun) =>
          if waitRet then
            s!"run=failed reports=0 pre=0 lines=0 dropped=0 err=nil order=1 dup=0 bad=0 closed=1 miss=0 aggret={if aggret then 1 else 0} notrun={notrun}"
          else "HANG-wait run=failed"
        | _, _ => m
      let v := judgeEngine kind (getS ikv "run") (getS ikv "aggret" == "1") cancelled pools o
      let v := if v == "ok" && discTok.isSome && !cancelled && getS ikv "run" == "nil" &&
                  getN? ikv "disc" != getN? ikv "wantdisc" then
                 s!"fail:count:{getS ikv "disc"} discarded-shoot lines in the output, the engine reported {getS ikv "wantdisc"}"
               else v
      (m, v)
    | _, _, _ => ("-", s!"fail:crash:{(impl.take 120).toString}")
  | _, _, _, _, _ => ("-", "fail:driver:unparsable input")

def handleJson (kv : List (String × String)) (impl : String) : String × String :=
  let ikv := parseKV impl
  match getN? kv "n", getN? kv "q", getN? ikv "lines", getN? ikv "dropped" with
  | some n, some q, some lines, some dropped =>
    let outTok := lookup ikv "out"
    let out := outTok.bind parseHex
    if outTok.isSome && out.isNone then ("-", "fail:driver:unparsable hex") else
    let o : JsonObs := { reports := (getN? ikv "reports").getD 0, lines := lines, valid := (getN? ikv "valid").getD 0,
                         rt := (getN? ikv "rt").getD 0, tail := (getN? ikv "tail").getD 1, dropped := dropped,
                         err := getS ikv "err", closed := getS ikv "closed" == "1", out := out }
    -- one reporter: with q ≥ n nothing can be dropped; otherwise any split with lines ≥ q is an outcome
    let feasible := lines + dropped == n && (dropped == 0 || lines ≥ min n q)
    let (l, d) := if feasible then (lines, dropped) else (n, 0)
    let err := if d == 0 then "nil" else s!"dropped:{d}"
    let rt := if d == 0 then l else o.rt
    let m := s!"reports={n} lines={l} valid={l} rt={rt} tail=0 dropped={d} err={err} closed=1"
    let m := match outTok with | some t => s!"{m} out={t}" | none => m
    (m, if o.reports != n then "fail:driver:report count" else judgeJson o)
  | _, _, _, _ => ("-", s!"fail:crash:{(impl.take 120).toString}")

/-! ### a sink that rejects writes -/

open Pandora.Model.C06SinkFail in
/-- all `n` samples are queued before `Run` starts, the cancel follows at once, nothing is flushed before the return
path, the sink rejects everything after `limit` bytes (less than one line): the failing-sink model on the schedule
"n reports, cancel, n handles, the sink breaks, return" -/
def modelSinkFail (kind : Kind) (n limit : Nat) : String :=
  let tr : List Ev := List.replicate n .report ++ [.cancel, .seeCancel] ++ List.replicate n (.drain false) ++
    [.sinkBreaks, .drain false]
  let st := run kind {} tr
  let closed := st.closes == 1 && !st.writeAfterClose && st.phase == .returned
  s!"err={if st.err then "other" else "nil"} closed={if closed then 1 else 0} failed={if st.failed then 1 else 0} accepted={if st.failed then limit else 0}"

open Pandora.Model.C06SinkFail in
/-- (round 3) coinciding faults: `n` reports into a queue of `q` before Run starts (so `n - min n q` drops), the sink
rejects everything after `limit` bytes (`none`: accepts everything), its Close may fail as well. The failing-sink
model says whether the final flush fails; the error-join model says what Run's error is made of. -/
def modelCoincide (kind : Kind) (n q : Nat) (limit : Option Nat) (closeErr : Bool) : String :=
  let acc := min n q
  let tr : List Ev := List.replicate acc .report ++ [.cancel, .seeCancel] ++ List.replicate acc (.drain false) ++
    (if limit.isSome then [.sinkBreaks] else []) ++ [.drain false]
  let st := run kind {} tr
  let closed := st.closes == 1 && !st.writeAfterClose && st.phase == .returned
  let enc := kind == .jsonlines
  let e := Pandora.Model.C06ErrJoin.finalErr Pandora.Model.C06ErrJoin.codeJoin Pandora.Model.C06ErrJoin.codeOrder
    ⟨false, enc && st.err, enc && closeErr, n - acc⟩
  let accepted := match limit with
    | some l => if st.failed then s!"{l}" else "all"
    | none => "all"
  s!"err={Pandora.Model.C06ErrJoin.errText e} closed={if closed then 1 else 0} failed={if st.failed then 1 else 0} accepted={accepted} dropped={n - acc} lines={if st.failed then 0 else acc}"

def handleSinkFail (kv : List (String × String)) (impl : String) : String × String :=
  let ikv := parseKV impl
  if (lookup ikv "inconclusive").isSome then ("-", "skip:inconclusive") else
  let kind? : Option Pandora.Model.C06SinkFail.Kind := match getS kv "agg" with
    | "phout" => some .phout
    | "jsonlines" => some .jsonlines
    | _ => none
  let coincide := (lookup kv "q").isSome || getS kv "closeerr" == "1" || getS kv "limit" == "none"
  if coincide then
    match kind?, getN? kv "n", lookup ikv "closed", getN? ikv "dropped", getN? ikv "lines" with
    | some kind, some n, some closed, some d, some lines =>
      let q := (getN? kv "q").getD (n + 1)
      let limit := if getS kv "limit" == "none" then none else getN? kv "limit"
      (modelCoincide kind n q limit (getS kv "closeerr" == "1"),
       judgeCoincide n q (getS ikv "failed" == "1") d lines (closed == "1"))
    | _, _, _, _, _ => ("-", s!"fail:crash:{(impl.take 120).toString}")
  else
  match kind?, getN? kv "n", getN? kv "limit", lookup ikv "closed" with
  | some kind, some n, some limit, some closed => (modelSinkFail kind n limit, judgeFailingSink (closed == "1"))
  | _, _, _, _ => ("-", s!"fail:crash:{(impl.take 120).toString}")

open Pandora.Model.CliShutdown in
/-- what the (repaired) shutdown model says about a single signal: the exit is reached with everything flushed -/
def modelProcFlushed (sig : String) : Bool :=
  let s := if sig == "INT" then Sig.int else Sig.term
  let tr : List Ev := match sig with
    -- (round 3) the engine fails by itself: error taken, cancel, wait for the tasks, exit
    | "FAULT" => [.engineReturned false, .takeErrs, .tasksDone, .takeWaitDone]
    -- the run ends by itself
    | "NONE" => [.tasksDone, .engineReturned true, .takeErrs]
    | _ => [.signal s, .takeSignal, .engineReturned false, .takeErrs, .tasksDone, .takeWaitDone]
  let st := run Cfg.repaired {} tr
  match st.exit with
  | some x => x.flushed
  | none => false

def handleProc (kv : List (String × String)) (impl : String) : String × String :=
  let ikv := parseKV impl
  if (lookup ikv "inconclusive").isSome then ("-", "skip:inconclusive")
  else if !modelProcFlushed (getS kv "sig") then ("-", "fail:driver:shutdown model does not flush")
  else match getI? ikv "exit", getN? ikv "served_before", getN? ikv "started", getN? ikv "lines" with
  | some ex, some sb, some st, some l =>
    ("-", judgeProc { exit := ex, servedBefore := sb, started := st, lines := l, bad := (getN? ikv "bad").getD 0,
                      repro := (getN? ikv "repro").getD 0, timedOut := getS ikv "tmo" == "1",
                      servedExit := (getN? ikv "served_exit").getD 0, since := (getN? ikv "since").getD 100000,
                      what := match getS kv "sig" with
                        | "FAULT" => "the second pool failed"
                        | "NONE" => "the run ended"
                        | _ => "the signal" })
  | _, _, _, _ => ("-", s!"fail:crash:{(impl.take 160).toString}")

/-! ### (round 6) the shared standard output -/

open Pandora.Model.C06Shared in
/-- the shared-output model (the code's configuration: no aggregator closes the output, each flushes at its end) on
the harness's schedule: every aggregator handles its `g*k` reports, they end one after the other, and after each end
every later one gets `tail` more -/
def modelStdout (pools g k tail : Nat) : String :=
  let first : List Ev := (List.range pools).flatMap fun j => (List.range (g * k)).map fun x => Ev.handle j x
  let ends : List Ev := (List.range pools).flatMap fun j =>
    [Ev.finish j] ++ ((List.range pools).filter (fun j2 => j < j2)).flatMap fun j2 =>
      (List.range tail).map fun t => Ev.handle j2 (g * k + j * tail + t)
  let st := run { closesShared := false, finalFlush := true } init (first ++ ends)
  s!"reports={st.handled.length} lines={st.out.length} err=nil order=1 dup=0 bad=0 open={if st.isOpen && st.lost.isEmpty then 1 else 0}"

def handleStdout (kv : List (String × String)) (impl : String) : String × String :=
  let ikv := parseKV impl
  if (lookup ikv "inconclusive").isSome then ("-", "skip:inconclusive") else
  match getN? kv "pools", getN? kv "g", getN? kv "k", getN? ikv "reports", getN? ikv "lines" with
  | some pools, some g, some k, some reports, some lines =>
    (modelStdout pools g k ((getN? kv "tail").getD 0),
     judgeStdout { reports := reports, lines := lines, err := getS ikv "err", order := getS ikv "order" == "1",
                   dup := (getN? ikv "dup").getD 1, bad := (getN? ikv "bad").getD 1, isOpen := getS ikv "open" == "1" })
  | _, _, _, _, _ => ("-", s!"fail:crash:{(impl.take 120).toString}")

def handle : Handler := fun input impl =>
  let kv := parseKV input
  if impl.startsWith "PANIC" then ("-", s!"fail:panic:{(impl.take 160).toString}")
  else if impl.startsWith "HANG" then ("-", s!"fail:hang:case did not finish ({(impl.take 60).toString})")
  else match getS kv "kind" with
  | "line" => handleLine kv impl false
  | "str" => handleLine kv impl true
  | "queue" => handleQueue kv impl
  | "seq" => handleSeq kv impl
  | "stdout" => handleStdout kv impl
  | "engine" => handleEngine kv impl
  | "json" => handleJson kv impl
  | "sinkfail" => handleSinkFail kv impl
  | "proc" => handleProc kv impl
  | k => ("-", s!"fail:driver:unknown kind {k}")

end Pandora.Drv.C06
