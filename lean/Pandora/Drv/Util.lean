/-
Core-only helpers for the line-protocol drivers (no Mathlib: must link as lean_exe).
-/
namespace Pandora.Drv

/-- "k=v k2=v2 …" → association list -/
def parseKV (s : String) : List (String × String) :=
  (s.splitOn " ").filterMap fun tok =>
    match tok.splitOn "=" with
    | k :: v :: rest => some (k, String.intercalate "=" (v :: rest))
    | _ => none

def lookup (kv : List (String × String)) (k : String) : Option String :=
  (kv.find? (·.1 == k)).map (·.2)

def getS (kv : List (String × String)) (k : String) (d : String := "") : String :=
  (lookup kv k).getD d

def getI? (kv : List (String × String)) (k : String) : Option Int :=
  (lookup kv k).bind String.toInt?

def getN? (kv : List (String × String)) (k : String) : Option Nat :=
  (lookup kv k).bind String.toNat?

/-- comma separated list; "" → [] -/
def splitList (s : String) (sep : String := ",") : List String :=
  if s.isEmpty then [] else s.splitOn sep

def parseInts (s : String) : Option (List Int) :=
  (splitList s).mapM String.toInt?

def parseNats (s : String) : Option (List Nat) :=
  (splitList s).mapM String.toNat?

def hexDigit (c : Char) : Option Nat :=
  if '0' ≤ c ∧ c ≤ '9' then some (c.toNat - '0'.toNat)
  else if 'a' ≤ c ∧ c ≤ 'f' then some (c.toNat - 'a'.toNat + 10)
  else if 'A' ≤ c ∧ c ≤ 'F' then some (c.toNat - 'A'.toNat + 10)
  else none

/-- hex string → bytes -/
def parseHex (s : String) : Option (List UInt8) :=
  let rec go : List Char → List UInt8 → Option (List UInt8)
    | [], acc => some acc.reverse
    | [_], _ => none
    | a :: b :: rest, acc =>
      match hexDigit a, hexDigit b with
      | some x, some y => go rest (UInt8.ofNat (x * 16 + y) :: acc)
      | _, _ => none
  go s.toList []

def hexOfNat4 (n : Nat) : Char :=
  if n < 10 then Char.ofNat (n + '0'.toNat) else Char.ofNat (n - 10 + 'a'.toNat)

def toHex (bs : List UInt8) : String :=
  String.ofList (bs.flatMap fun b => [hexOfNat4 (b.toNat / 16), hexOfNat4 (b.toNat % 16)])

/-- A property driver: (input, implementation observation) ↦ (model observation | "-", verdict).
verdict = "ok" | "skip:<why>" | "fail:<key>:<detail>". -/
abbrev Handler := String → String → String × String

end Pandora.Drv
