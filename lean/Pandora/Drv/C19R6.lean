import Pandora.Drv.Util
import Pandora.Model.C04
import Pandora.Model.C02Sched
import Pandora.Spec.C19

/-!
C19 model driver, round 6: the waiter between two schedule tokens.

* `k=wait`: the model's prediction is computed with C04's model of `coreutil.Waiter` (`Pandora.Model.C04.wait`,
  `isSlowDown`: proved equal to the REGENERATED `Gen.Waiter.Wait` / `IsSlowDown` by `Bridge.Waiter.Wait_eq` / `IsSlowDown_eq`,
  which Props/C19.lean imports) on a virtual clock; the verdict is the Spec's (`judgeWaitVerdicts`), independent of the model.
* `schedx=`: the instants of the tokens of a composite schedule are computed with C02's executable model of
  core/schedule (`Pandora.Model.C02`: `newComposite`, `compStart`, `compNext` over `Leaf.fin`).
-/
namespace Pandora.Drv.C19R6
open Pandora.Drv

/-- virtual clock of `k=wait`: some instant after year 1 (ns) -/
def t0 : Int := 1700000000000000000

def msNs (ms : Int) : Int := ms * 1000000

/-- the text after its first character -/
def tl (s : String) : String := String.ofList (s.toList.drop 1)

/-- `t<ms>` → offset -/
def tokOff (op : String) : Option Int :=
  if op.startsWith "t" then (tl op).toInt? else none

structure WaitSim where
  w : Model.C04.Waiter := {}
  now : Int := t0
  ctxDone : Bool := false
  /-- newest first: (ok, slow) -/
  out : List (Bool × Bool) := []
  /-- newest first: what the Spec looks at -/
  toks : List (Int × Bool × Bool) := []

def waitStep (s : WaitSim) (op : String) : Option WaitSim :=
  if op == "" then some s
  else if op == "c" then some { s with ctxDone := true }
  else if op.startsWith "z" then (tl op).toNat?.map fun ms => { s with now := s.now + msNs ms }
  else
    let tok : Option (Option Int) := if op == "e" then some none else (tokOff op).map fun off => some (s.now + msNs off)
    tok.map fun tk =>
      let r := Model.C04.wait s.w { ctxDone := s.ctxDone, tok := tk, now := s.now, timerWins := true }
      let slow := Model.C04.isSlowDown r.w s.ctxDone
      -- on the timer path the instance sleeps until the token's time
      let now' := match r.path, tk with
        | .timer, some next => next
        | _, _ => s.now
      { s with w := r.w, now := now', out := (r.ok, slow) :: s.out }

def b01 (b : Bool) : String := if b then "1" else "0"

/-- what the Spec is told about the tokens: offset, context alive, the IMPLEMENTATION's verdict -/
def implToks (ops : List String) (bits : List String) : List (Int × Bool × Bool) :=
  let rec go (live : Bool) : List String → List String → List (Int × Bool × Bool)
    | [], _ => []
    | op :: rest, bs =>
      if op == "c" then go false rest bs
      else if op == "e" then go live rest bs.tail
      else match tokOff op, bs with
        | some off, b :: bs' => (off, live, b.endsWith "1") :: go live rest bs'
        | _, _ => go live rest bs
  go true ops bits

def handleWait (kv : List (String × String)) (impl : String) : String × String :=
  if impl.startsWith "PANIC" then ("-", s!"fail:panic:{impl.take 160}") else
  let ops := splitList (getS kv "ops") ","
  match ops.foldlM waitStep ({} : WaitSim) with
  | none => ("-", "fail:driver:unparsable ops")
  | some s =>
    let mo := "w=" ++ ",".intercalate (s.out.reverse.map fun (ok, slow) => b01 ok ++ b01 slow)
    let bits := splitList (getS (parseKV impl) "w") ","
    (mo, Spec.C19.judgeWaitVerdicts (Model.C04.maxOverdue / 1000000) (implToks ops bits))

/-! composite schedules -/

open Pandora.Model.C02 in
/-- the leaves of a `schedx` spec (times in ms): `o<n>` once, `p<ms>` a const schedule with 0 ops, `c<ops>x<ms>` const -/
def schedxLeaves (spec : String) : Option (List Leaf) :=
  (spec.splitOn "+").mapM fun p =>
    if p.startsWith "o" then (tl p).toNat?.map fun n => Leaf.fin (List.replicate n 0) 0 0 none
    else if p.startsWith "p" then (tl p).toNat?.map fun ms => Leaf.fin [] ms 0 none
    else if p.startsWith "c" then
      match (tl p).splitOn "x" with
      | [a, b] => do
        let ops ← a.toNat?
        let ms ← b.toNat?
        -- NewConst: n = ops * seconds tokens, token i at i / ops seconds
        let n := ops * ms / 1000
        pure (Leaf.fin ((List.range n).map fun i => ((i * 1000 / ops : Nat) : Int)) ms 0 none)
      | _ => none
    else none

open Pandora.Model.C02 in
/-- the instants (ms after the start) of all tokens of the composite schedule, by C02's model: started at 0, `Next` until
it answers false (`fuel` bounds the number of calls) -/
def schedxDues (spec : String) : Option (List Int) := do
  let leaves ← schedxLeaves spec
  let n := (leaves.map fun | .fin offs _ _ _ => offs.length | _ => 0).sum
  match newComposite leafOps 0 leaves with
  | .error _ => none
  | .ok (.inl leaf) =>
    let rec goL (fuel : Nat) (l : Leaf) (acc : List Int) : List Int :=
      match fuel with
      | 0 => acc.reverse
      | fuel + 1 => match Leaf.next l 0 with
        | .ok (l', tx, true) => goL fuel l' (tx :: acc)
        | _ => acc.reverse
    match Leaf.start leaf 0 with
    | .ok l => pure (goL (n + 1) l [])
    | .error _ => none
  | .ok (.inr c) =>
    let rec goC (fuel : Nat) (c : Comp Leaf) (acc : List Int) : List Int :=
      match fuel with
      | 0 => acc.reverse
      | fuel + 1 => match compNext leafOps c 0 with
        | .ok (c', tx, true) => goC fuel c' (tx :: acc)
        | _ => acc.reverse
    match compStart leafOps c 0 with
    | .ok c' => pure (goC (n + 1) c' [])
    | .error _ => none

/-- `seq=d:2301,s:2802,…` -/
def parseSeq (s : String) : List (Bool × Int) :=
  (splitList s ",").filterMap fun e =>
    match e.splitOn ":" with
    | [k, ms] => ms.toInt?.map fun t => (k == "d", t)
    | _ => none

def judgeSeq (kv : List (String × String)) (impl : String) : String :=
  match schedxDues (getS kv "schedx") with
  | none => "fail:driver:unparsable schedx"
  | some dues => Spec.C19.judgeDiscardsLate (Model.C04.maxOverdue / 1000000) dues (parseSeq (getS (parseKV impl) "seq"))

end Pandora.Drv.C19R6
