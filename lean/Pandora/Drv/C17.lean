/-
C17 driver: one line of harness/cmd/c17 → the model's observation and the Spec verdict on the implementation's one.

input : kind=… root=… path=… exp=reject|accept|value|cast|meets|num|disc|none at=<Go field path> fk=<kind> raw=s(text)
        want=<value> env=m(…) props=m(file,l(s(line),…)) cfg=<value>
obs   : (err=<classes> | late=<classes> | ok val=<decoded value> | ok disc=<bool,…>) sch=<schema>
        (the schema is an observation too: the reflection dump of the real types; the model echoes it)
-/
import Pandora.Drv.Util
import Pandora.Model.C17
import Pandora.Spec.C17

namespace Pandora.Drv.C17
open Pandora.Drv Pandora.Model.C17 Pandora.Spec.C17

/-! ## terms -/

inductive Term
  | mk (name : String) (args : List Term)
  deriving Inhabited

def Term.name : Term → String | .mk n _ => n
def Term.args : Term → List Term | .mk _ a => a

def hexVal (c : Char) : Nat := (hexDigit c).getD 0

/-- percent-decoding -/
def decodeAtom (cs : List Char) : List Char :=
  let rec go : List Char → List Char → List Char
    | '%' :: a :: b :: r, acc => go r (Char.ofNat (hexVal a * 16 + hexVal b) :: acc)
    | c :: r, acc => go r (c :: acc)
    | [], acc => acc.reverse
  go cs []

partial def parseTermAt (a : Array Char) (i : Nat) : Term × Nat :=
  let rec atomEnd (j : Nat) : Nat :=
    if h : j < a.size then
      let c := a[j]
      if c == '(' || c == ')' || c == ',' then j else atomEnd (j + 1)
    else j
  let j := atomEnd i
  let name := String.ofList (decodeAtom (a.extract i j).toList)
  if j < a.size && a[j]! == '(' then
    if j + 1 < a.size && a[j+1]! == ')' then (.mk name [], j + 2)
    else
      let rec argsLoop (k : Nat) (acc : List Term) : List Term × Nat :=
        let (t, k') := parseTermAt a k
        if k' < a.size && a[k']! == ',' then argsLoop (k' + 1) (t :: acc)
        else ((t :: acc).reverse, k' + 1)
      let (args, k) := argsLoop (j + 1) []
      (.mk name args, k)
  else (.mk name [], j)

def parseTerm (s : String) : Term := (parseTermAt s.toList.toArray 0).1

/-! ## terms → model types -/

instance : Inhabited Val := ⟨.null⟩
instance : Inhabited DVal := ⟨.nil⟩
instance : Inhabited Schema := ⟨.opaque⟩
instance : Inhabited Fields := ⟨.nil⟩
instance : Inhabited Alts := ⟨.nil⟩

def strOf (t : Term) : Str := t.name.toList

/-- `s()` / `s(text)` -/
def sArg (t : Term) : Str :=
  match t.args with
  | [a] => strOf a
  | _ => []

def parseDecText (s : String) : Dec := (parseDecLit s.toList).getD ⟨false, 0, 0⟩

partial def toVal (t : Term) : Val :=
  match t.name with
  | "n" => .null
  | "b" => .bool ((t.args.head?.map Term.name) == some "true")
  | "i" => .int ((t.args.head?.bind fun a => a.name.toInt?).getD 0)
  | "d" => .float (parseDecText ((t.args.head?.map Term.name).getD "0"))
  | "s" => .str (sArg t)
  | "l" => .list (t.args.map toVal)
  | "m" => .map (pairs t.args)
  | _ => .null
where
  pairs : List Term → List (Str × Val)
    | k :: v :: r => (strOf k, toVal v) :: pairs r
    | _ => []

partial def toDVal (t : Term) : DVal :=
  match t.name with
  | "b" => .bool ((t.args.head?.map Term.name) == some "true")
  | "i" => .int ((t.args.head?.bind fun a => a.name.toInt?).getD 0)
  | "u" => .uint ((t.args.head?.bind fun a => a.name.toNat?).getD 0)
  | "d" => .float (parseDecText ((t.args.head?.map Term.name).getD "0"))
  | "s" => .str (sArg t)
  | "nil" => .nil
  | "st" => .struct (pairs t.args)
  | "ptr" => .ptr ((t.args.head?.map toDVal).getD .nil)
  | "l" => .slice (t.args.map toDVal)
  | "m" => .map (pairs t.args)
  | "any" => .any ((t.args.head?.map toVal).getD .null)
  -- `P` / `F`: the config the instance received was not observed; `P(conf)`; `F(conf,…)`: one per call of the factory
  | "P" => .plugin ((t.args.head?.map toDVal).getD .opaque)
  | "F" => if t.args.isEmpty then .factory .opaque else .factory (.slice (t.args.map toDVal))
  | "sp" => .special (sArg t)
  | _ => .opaque
where
  pairs : List Term → List (Str × DVal)
    | k :: v :: r => (strOf k, toDVal v) :: pairs r
    | _ => []

def toTag (t : Term) : VTag :=
  let s := t.name
  if s == "required" then .required
  else if s == "endpoint" then .endpoint
  else if s == "url-path" then .urlPath
  else if s == "dive" then .dive
  else if s == "omitempty" then .omitempty
  else if s.startsWith "min=" then
    match (s.drop 4).toString.toInt? with
    | some n => .min n
    | none => .other s.toList
  else if s.startsWith "min-time=" then
    match parseDuration (s.drop 9).toString.toList with
    | some ns => .minTime ns
    | none => .other s.toList
  else if s.startsWith "max-time=" then
    match parseDuration (s.drop 9).toString.toList with
    | some ns => .maxTime ns
    | none => .other s.toList
  else if s.startsWith "eq=" then
    -- eq=a|eq=b|eq=c
    .oneOf ((s.splitOn "|").map fun p => (if p.startsWith "eq=" then (p.drop 3).toString else p).toList)
  else .other s.toList

def toKindDefault (t : Term) : Option (Kind × DVal) :=
  let a (i : Nat) : String := (t.args[i]?.map Term.name).getD ""
  match t.name with
  | "bool" => some (.bool, .bool (a 0 == "true"))
  | "str" => some (.str, .str ((t.args.head?.map sArg).getD []))
  | "int" => some (.int ((a 0).toNat?.getD 64), .int ((a 1).toInt?.getD 0))
  | "uint" => some (.uint ((a 0).toNat?.getD 64), .uint ((a 1).toNat?.getD 0))
  | "float" => some (.float ((a 0).toNat?.getD 64), .float (parseDecText (a 1)))
  | "dur" => some (.dur, .int ((a 0).toInt?.getD 0))
  | _ => none

mutual
partial def toSchema (t : Term) : Schema :=
  match toKindDefault t with
  | some (k, d) => .scalar k d
  | none =>
    match t.name, t.args with
    | "st", fs => .struct (toFields fs)
    | "ptr", [n, s] => .ptr (n.name == "nil") (toSchema s)
    | "sl", [e, d] => .slice (toSchema e) (toDVal d)
    | "mp", [e, d] =>
      .map (toSchema e) (match toDVal d with | .map kvs => some kvs | _ => none)
    | "any", [d] => .any (toDVal d)
    | "pl", [_, k, h, n, alts, names] =>
      .plugin
        { factory := k.name == "f"
          hook := if h.name == "sink" then .sink else if h.name == "sched" then .sched else .none
          dfltSet := n.name == "set"
          names := names.args.map strOf }
        (toAlts alts.args)
    | "special", [_, r] => .special (strOf r)
    | _, _ => .opaque
partial def toFields : List Term → Fields
  | [] => .nil
  | f :: rest =>
    match f.args with
    | [name, key, x, q, v, s] =>
      .cons { name := strOf name, key := strOf key, settable := x.name == "x", squash := q.name == "q",
              tags := v.args.map toTag } (toSchema s) (toFields rest)
    | _ => toFields rest
partial def toAlts : List Term → Alts
  | [] => .nil
  | a :: rest =>
    match a.args with
    | [n, m, s] => .cons (strOf n) (m.name == "lazy") (toSchema s) (toAlts rest)
    | _ => toAlts rest
end

def toEnv (env props : Term) : Env :=
  let rec pairs : List Term → List (Str × Str)
    | k :: v :: r => (strOf k, sArg v) :: pairs r
    | _ => []
  -- a file is `l(s(line),…)`: its lines in order (older inputs: `m(key,s(value),…)`, read as lines `key=value`)
  let linesOf (t : Term) : List Str :=
    if t.name == "l" then t.args.map sArg
    else (pairs t.args).map fun kv => kv.1 ++ '=' :: kv.2
  let rec files : List Term → List (Str × List Str)
    | k :: v :: r => (strOf k, linesOf v) :: files r
    | _ => []
  { vars := pairs env.args, files := files props.args }

/-! ## printing (must agree byte for byte with harness/cmd/c17 `dval`, `rawVal`, `enc`) -/

def hexU (n : Nat) : Char := if n < 10 then Char.ofNat (n + 48) else Char.ofNat (n - 10 + 65)

def encStr (s : Str) : String :=
  String.ofList (s.flatMap fun c =>
    if c.isAlphanum || "_./:#${}@+*=[]-".toList.contains c then [c]
    else ['%', hexU (c.toNat / 16), hexU (c.toNat % 16)])

def sTerm (s : Str) : String := if s.isEmpty then "s()" else "s(" ++ encStr s ++ ")"

/-- `strconv.FormatFloat(f, 'f', -1, 64)` for a terminating decimal -/
def decText (d : Dec) : String :=
  -- strip trailing zeros of the fraction
  let rec strip (m e : Nat) (fuel : Nat) : Nat × Nat :=
    match fuel with
    | 0 => (m, e)
    | fuel + 1 => if e > 0 && m % 10 == 0 then strip (m / 10) (e - 1) fuel else (m, e)
  let (m, e) := strip d.mant d.exp d.exp
  let sign := if d.neg && m != 0 then "-" else ""
  if e == 0 then sign ++ toString m
  else
    let ip := m / 10 ^ e
    let fp := toString (m % 10 ^ e)
    let pad := String.ofList (List.replicate (e - fp.length) '0')
    sign ++ toString ip ++ "." ++ pad ++ fp

def node (n : String) (args : List String) : String := n ++ "(" ++ ",".intercalate args ++ ")"

partial def valText : Val → String
  | .null => "n"
  | .bool b => node "b" [toString b]
  | .int i => node "i" [toString i]
  | .float d => node "d" [decText d]
  | .str s => sTerm s
  | .list xs => node "l" (xs.map valText)
  | .map kvs =>
    let sorted := kvs.toArray.qsort (fun a b => String.ofList a.1 < String.ofList b.1) |>.toList
    node "m" (sorted.flatMap fun kv => [encStr kv.1, valText kv.2])

partial def dvalText : DVal → String
  | .bool b => node "b" [toString b]
  | .int i => node "i" [toString i]
  | .uint n => node "u" [toString n]
  | .float d => node "d" [decText d]
  | .str s => sTerm s
  | .nil => "nil"
  | .struct fs => node "st" (fs.flatMap fun f => [encStr f.1, dvalText f.2])
  | .ptr v => node "ptr" [dvalText v]
  | .slice xs => node "l" (xs.map dvalText)
  | .map kvs =>
    let sorted := kvs.toArray.qsort (fun a b => String.ofList a.1 < String.ofList b.1) |>.toList
    node "m" (sorted.flatMap fun kv => [encStr kv.1, dvalText kv.2])
  | .any v => node "any" [valText v]
  | .plugin _ => "P"
  | .factory _ => "F"
  | .special r => node "sp" [encStr r]
  | .opaque => "x"

/-- the model's value printed as far as the implementation's observation looks into constructed components: where the
implementation shows the config an instance received (`P(conf)`, probe plugins of the driver) the model's config of that
instance is printed; where it shows `F(c₁,…,cₙ)` — the configs n calls of the factory handed out — the model's config
is printed n times (every call decodes the same block into a fresh default config); elsewhere as `dvalText` -/
partial def dvalTextLike (impl : DVal) (model : DVal) : String :=
  match impl, model with
  | .plugin .opaque, .plugin _ => "P"
  | .plugin ic, .plugin mc => node "P" [dvalTextLike ic mc]
  | .factory (.slice ics), .factory mc => node "F" (ics.map fun ic => dvalTextLike ic mc)
  | .struct ifs, .struct mfs =>
    if ifs.length == mfs.length then
      node "st" ((ifs.zip mfs).flatMap fun p => [encStr p.2.1, dvalTextLike p.1.2 p.2.2])
    else dvalText model
  | .ptr iv, .ptr mv => node "ptr" [dvalTextLike iv mv]
  | .slice ixs, .slice mxs =>
    if ixs.length == mxs.length then node "l" ((ixs.zip mxs).map fun p => dvalTextLike p.1 p.2) else dvalText model
  | .map ikvs, .map mkvs =>
    let sortKV (kvs : List (Str × DVal)) := kvs.toArray.qsort (fun a b => String.ofList a.1 < String.ofList b.1) |>.toList
    let is := sortKV ikvs
    let ms := sortKV mkvs
    if is.length == ms.length then node "m" ((is.zip ms).flatMap fun p => [encStr p.2.1, dvalTextLike p.1.2 p.2.2])
    else dvalText model
  | _, m => dvalText m

def errName : ErrC → String
  | .unused => "unused" | .type => "type" | .plugintype => "plugintype" | .pluginname => "pluginname"
  | .validate => "validate" | .resolve => "resolve" | .castkind => "castkind" | .parse => "parse"

def classesText (es : List ErrC) : String :=
  let names := (es.map errName).eraseDups.toArray.qsort (· < ·) |>.toList
  "+".intercalate names

/-! ## does the configuration touch something the model does not describe? -/

/-- an `endpoint` field given a text whose host the model does not describe (IPv6 literal, over-long label) -/
def endpointOutside (f : FInfo) (s : Schema) (v : Val) : Bool :=
  match s, v with
  | .scalar .str _, .str t => (f.tags.any fun t => match t with | .endpoint => true | _ => false) && !endpointInModel t
  | _, _ => false

mutual
/-- a non-null value decoded into a `special` (library text type) or pruned / opaque position -/
partial def touchesUnmodelled : Schema → Val → Bool
  | _, .null => false
  | .special _, _ => true
  | .opaque, _ => true
  | .struct fs, .map kvs => touchesFields fs kvs
  | .ptr _ s, v => touchesUnmodelled s v
  | .slice e _, .list xs => xs.any (touchesUnmodelled e)
  | .map e _, .map kvs => kvs.any fun kv => touchesUnmodelled e kv.2
  | .plugin pi alts, v =>
    let v' : Val :=
      match v with
      | .str s => if pi.hook == .sink then .map (sinkMap s) else v
      | .list xs => if pi.hook == .sched then .map [("type".toList, .str "composite".toList), ("nested".toList, .list xs)] else v
      | w => w
    match v' with
    | .map kvs =>
      match typeEntries kvs with
      | [.str name] => touchesAlts alts name (.map (dropType kvs))
      | _ => false
    | _ => false
  | _, _ => false
partial def touchesFields : Fields → List (Str × Val) → Bool
  | .nil, _ => false
  | .cons f s rest, kvs =>
    (match (if f.settable then findKey kvs f.key else none) with
     | some (_, v) => touchesUnmodelled s v || endpointOutside f s v
     | none => false) || touchesFields rest kvs
partial def touchesAlts : Alts → Str → Val → Bool
  | .nil, _, _ => false
  | .cons n _ s rest, name, v => if n == name then touchesUnmodelled s v else touchesAlts rest name v
end

/-- a number the configuration-value syntax of the model cannot name (`d(+Inf)`, `d(NaN)`) -/
partial def hasNonFinite (t : Term) : Bool :=
  (t.name == "d" && (match t.args with
    | [a] => (parseDecLit a.name.toList).isNone
    | _ => true)) || t.args.any hasNonFinite

/-- a mapping key that is no string (`#!n`: the integer n): the model's configuration values have string keys only -/
partial def hasNonStringKey (t : Term) : Bool :=
  (t.name == "m" && (pairKeys t.args).any fun k => k.startsWith "#!" || k.startsWith "#?") || t.args.any hasNonStringKey
where
  pairKeys : List Term → List String
    | k :: _ :: r => k.name :: pairKeys r
    | _ => []

/-- a constraint case whose value lies outside what the model describes of the libraries (IPv6 host, very long label) -/
def consOutside (tags : List VTag) (v : DVal) : Bool :=
  match v with
  | .str s => (tags.any fun t => match t with | .endpoint => true | _ => false) && !endpointInModel s
  | _ => false

/-! ## the handler -/

def parseKind (s : String) : Option Kind :=
  match s.splitOn ":" with
  | ["bool"] => some .bool
  | ["str"] => some .str
  | ["dur"] => some .dur
  | ["int", b] => b.toNat?.map Kind.int
  | ["uint", b] => b.toNat?.map Kind.uint
  | ["float", b] => b.toNat?.map Kind.float
  | _ => none

def parseAt (s : String) : Option (List Str) :=
  let d := String.ofList (decodeAtom s.toList)
  if d == "-" then none else if d == "." then some [] else some ((d.splitOn ".").map String.toList)

def discOf (v : DVal) : List Bool :=
  match Spec.C17.lookup ["Pools".toList] v with
  | some (.slice ps) =>
    ps.filterMap fun p =>
      match Spec.C17.lookup ["DiscardOverflow".toList] p with
      | some (.bool b) => some b
      | _ => none
  | _ => []

def boolsText (bs : List Bool) : String := ",".intercalate (bs.map toString)

/-- the implementation's observation, parsed -/
def parseObs (impl : String) : Obs :=
  if impl.startsWith "err=" || impl.startsWith "late=" then
    if (impl.splitOn "ctor").length > 1 || (impl.splitOn "other").length > 1 then .unknown else .rejected
  else if impl.startsWith "PANIC" then .crashed
  else if impl.startsWith "UNSTABLE" then .unstable
  else if impl.startsWith "ok val=" then .accepted (some (toDVal (parseTerm (impl.drop 7).toString)))
  else if impl.startsWith "ok disc=" then
    let t := (impl.drop 8).toString
    .discards (if t.isEmpty then [] else (t.splitOn ",").map (· == "true"))
  else .unknown

def failKey (kind : String) (why : String) : String :=
  let base :=
    if kind == "unknown" || kind == "misspelled" then "unknown-key-accepted"
    else if kind == "mistyped" || (kind == "libtype" && why == "accepted") then "mistyped-accepted"
    else if kind == "inst" then "plugin-instance-config"
    else if kind == "num" then (if why == "accepted" then "number-out-of-range-accepted" else "valid-config")
    else if kind == "cons" then (if why == "accepted" then "constraint-accepted" else "valid-config")
    else if kind == "oor" || kind == "doc" || (kind == "typeonly" && why == "accepted") then "constraint-accepted"
    else if kind == "ph-unset" || kind == "ph-noprop" || kind == "ph-nofile" || (kind == "ph-twin" && why == "accepted") then
      "placeholder-missing-accepted"
    else if kind == "null" || kind == "base" || kind == "docdefault" then "default-lost"
    else if kind == "dockey" then "documented-option"
    else if kind.startsWith "ph-" then "placeholder-cast"
    else if kind.startsWith "plugin-" then "plugin-position"
    else if kind == "cli" then "cli-reader"
    else "valid-config"
  if why == "panic" then "fail:decode-panic:panic"
  else if why == "redecode" then "fail:second-decode-differs:redecode"
  else s!"fail:{base}:{why}"

def handle : Handler := fun input implFull =>
  let kv := parseKV input
  let kind := getS kv "kind"
  let (impl, schText) :=
    match implFull.splitOn " sch=" with
    | [a, b] => (a, b)
    | _ => (implFull, "")
  if schText.isEmpty then ("-", "skip:no-schema-observed") else
  let sch := normalize (toSchema (parseTerm schText))
  let cfg := toVal (parseTerm (getS kv "cfg"))
  let env := toEnv (parseTerm (getS kv "env" "m()")) (parseTerm (getS kv "props" "m()"))
  let isCli := kind == "cli"
  -- model
  let out := if isCli then cliRead repoFlags env sch cfg else decodeAndValidate repoFlags env sch cfg
  let consTags : List VTag := (parseTerm (getS kv "tags" "v()")).args.map toTag
  let consVal : DVal := toDVal (parseTerm (getS kv "want" "nil"))
  let unmodelled := touchesUnmodelled sch cfg || hasNonFinite (parseTerm (getS kv "cfg")) ||
    hasNonStringKey (parseTerm (getS kv "cfg")) ||
    (getS kv "exp" == "meets" && consOutside consTags consVal)
  let obs := parseObs impl
  let modelObs : String :=
    match out with
    | .err es => "err=" ++ classesText es
    | .late es => if isCli then "ok disc=" ++ "?" else "late=" ++ classesText es
    | .ok v =>
      if isCli then "ok disc=" ++ boolsText (discOf v)
      else "ok val=" ++ (match obs with
        | .accepted (some iv) => dvalTextLike iv v
        | _ => dvalText v)
  let modelObs :=
    match out, isCli with
    | .late _, true =>
      -- the CLI reader does not call factories: accepted; the pools' flags come from the decoded value
      let r := decode repoFlags env sch (defaultDiscard (lowerKeys cfg))
      "ok disc=" ++ boolsText (discOf r.val)
    | _, _ => modelObs
  -- expectation
  let at_ := parseAt (getS kv "at" "-")
  let expect : Expect :=
    match getS kv "exp" with
    | "reject" => .reject
    | "accept" => .accept
    | "value" => .value at_ (toDVal (parseTerm (getS kv "want")))
    | "cast" =>
      match parseKind (getS kv "fk") with
      | some k => .cast at_ k (sArg (parseTerm (getS kv "raw")))
      | none => .nothing
    | "meets" => .meets at_ consTags consVal
    | "values" =>
      -- want=l(p(<Go field path>,<value>),…)
      .values ((parseTerm (getS kv "want" "l()")).args.filterMap fun t =>
        match t.args with
        | [a, w] => (parseAt a.name).map fun loc => (loc, toDVal w)
        | _ => none)
    | "num" =>
      match parseKind (getS kv "fk") with
      | some k => .number at_ k (toVal (parseTerm (getS kv "want" "n"))) consTags
      | none => .nothing
    | "disc" =>
      match expectDisc cfg with
      | some ds => .disc ds
      | none => .nothing
    | _ => .nothing
  let verdict : String :=
    match holds expect obs with
    | .ok => "ok"
    | .inconclusive => "skip:not-a-decoding-outcome"
    | .fail why => failKey kind why
  if unmodelled then
    -- library text types (datasize, zap level, url, ip) and pruned positions: judged by the Spec, not predicted
    ("-", if verdict == "ok" then "skip:library-type" else verdict)
  else
    match obs with
    | .unknown => ("-", verdict)
    | .crashed => ("-", verdict)
    | .unstable => ("-", verdict)
    | _ => (modelObs ++ " sch=" ++ schText, verdict)

end Pandora.Drv.C17
