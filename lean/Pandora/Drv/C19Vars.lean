import Pandora.Drv.Util
import Pandora.Model.C19Vars
import Pandora.Spec.C19

/-!
C19 model driver, round 3: response-derived variables. Builds, from the tokens of an input line, the same variable
trees / list bodies the harness builds (harness/cmd/c19/vars.go) and evaluates the model on them.
-/
namespace Pandora.Drv.C19
open Pandora.Drv Pandora.Model.C10 Pandora.Model.C19

def strOfHexV (s : String) : Option String := do
  let bs ← parseHex s
  String.fromUTF8? (ByteArray.mk bs.toArray)

/-- `strings.ToLower(strings.TrimSpace(text))` on the ASCII texts the driver uses -/
def normIndexText (t : String) : String :=
  let cs := t.toList
  let f := fun (l : List Char) => l.dropWhile fun c => c == ' ' || c == '\t'
  String.ofList (((f (f cs).reverse).reverse).map Char.toLower)

/-- the index text of a path segment as `calcIndex` classifies it -/
def indexKindOfText (t : String) : IndexKind :=
  let s := normIndexText t
  indexKindOf s (parseInt64 s)

/-- index field of an input line: `-` = no index, else `i` + hex of the text -/
def parseIxField (f : String) : Option (Option String) :=
  if f == "-" then some none
  else if f.startsWith "i" then (strOfHexV (String.ofList (f.toList.drop 1))).map some
  else none

/-! ## list bodies (harness: `jsonListBody`, `htmlListBody`) -/

def jsonListBody (n : Nat) : String :=
  let ks := List.range n
  "{\"result\":\"ok\",\"items\":[" ++ ",".intercalate (ks.map toString) ++
  "],\"names\":[" ++ ",".intercalate (ks.map fun k => s!"\"e{k}\"") ++
  "],\"objs\":[" ++ ",".intercalate (ks.map fun k => "{\"id\":" ++ toString k ++ "}") ++
  "],\"n\":\"" ++ toString n ++ "\",\"a\":{\"b\":\"c\"}}"

def htmlListBody (n : Nat) : String :=
  "<html><head><title>T</title></head><body><ul>" ++
  String.join ((List.range n).map fun k => s!"<li class=\"it\">e{k}</li>") ++
  "</ul><div class=\"data\">v1</div><a href=\"/x\">one</a></body></html>"

def natAfterV (pfx : String) (s : String) : Option Nat :=
  if pfx.toList.isPrefixOf s.toList then (String.ofList (s.toList.drop pfx.length)).toNat? else none

def floatVal (k : Nat) : Val := .other s!"e{k}" none

/-- what `jsonpath.Get` yields for the fixed paths on the bodies of the driver, by body class (`none`: no match / not
JSON) -/
def jsonValOf (cls : String) (id : String) : Option Val :=
  let common : Option Val := match id with
    | "result" => some (.str "ok")
    | "ab" => some (.str "c")
    | "a" => some (.obj [("b", .str "c")])
    | _ => none
  if cls == "json" then
    match id with
    | "item0" => some (floatVal 1)
    | "items" => some (.list true [floatVal 1, floatVal 2, floatVal 3])
    | _ => common
  else match natAfterV "jl" cls with
    | some n =>
      let ks := List.range n
      match id with
      | "item0" => if n > 0 then some (floatVal 0) else none
      | "items" => some (.list true (ks.map floatVal))
      | "names" => some (.list true (ks.map fun k => .str s!"e{k}"))
      | "objs" => some (.list true (ks.map fun k => .obj [("id", floatVal k)]))
      | "n" => some (.str (toString n))
      | _ => common
    | none =>
      -- `jt<hex>`: {"v": <text>, "l": [<text>], "n": "<len>"}
      if cls.startsWith "jt" then
        match strOfHexV (String.ofList (cls.toList.drop 2)) with
        | some t =>
          (match id with
           | "v" => some (.str t)
           | "l" => some (.list true [.str t])
           | "n" => some (.str (toString t.utf8ByteSize))
           | _ => none)
        | none => none
      else none

def isJsonClass (cls : String) : Bool := cls == "json" || (natAfterV "jl" cls).isSome || cls.startsWith "jt"

/-- the values the fixed node-set expressions select on the bodies of the driver (`none`: not tabulated) -/
def xpathValsOf (cls : String) (id : String) : Option (List String) :=
  if !["divdata", "href", "title", "deep", "none", "lis"].contains id then none
  else if cls == "html" then
    some (match id with
      | "divdata" => ["v1", "v2"] | "deep" => ["v1", "v2"] | "href" => ["/x"] | "title" => ["T"] | _ => [])
  else match natAfterV "hl" cls with
    | some n =>
      some (match id with
        | "divdata" => ["v1"] | "deep" => ["v1"] | "href" => ["/x"] | "title" => ["T"]
        | "lis" => (List.range n).map fun k => s!"e{k}"
        | _ => [])
    | none =>
      -- text that is not HTML parses to a document without these elements
      if cls == "badhtml" then none else some []

/-- what `VarXpathPostprocessor.Process` stores for these values: one value is unwrapped, otherwise the `[]string` -/
def xpathStored (vals : List String) : Val :=
  match vals with
  | [v] => .str v
  | vs => .list true (vs.map .str)

/-! ## paths and preprocessor tokens -/

def postPath (src : String) (ix : Option String) (sub : Option String) : List Seg :=
  [{ name := "request" }, { name := src }, { name := "postprocessor" },
   { name := "v", index := ix.map indexKindOfText }] ++ (match sub with | some s => [{ name := s }] | none => [])

def litArg (t : String) : TplArg := { segs := [{ name := t }], text := t }

/-- `P~<src>~<ix>[~sub]` / `F~<fn>~<src>`: the preprocessor mapping of the step (`x = …`) -/
def parsePreTok (tok : String) : Option (Option (String × PreMap)) :=
  match tok.splitOn "~" with
  | ["P", src, ix] => (parseIxField ix).map fun i => some ("x", .path (postPath src i none) {})
  | ["P", src, ix, sub] => (parseIxField ix).map fun i => some ("x", .path (postPath src i (some sub)) {})
  | ["F", fn, src] =>
    let v : TplArg := { segs := postPath src none none, text := s!"request.{src}.postprocessor.v" }
    match fn with
    | "rs" => some (some ("x", .call .randString [v]))
    | "rs2" => some (some ("x", .call .randString [litArg "3", v]))
    | "ri" => some (some ("x", .call .randInt [v]))
    | "ri2" => some (some ("x", .call .randInt [v, litArg "10"]))
    | "ri3" => some (some ("x", .call .randInt [litArg "-5", v]))
    | _ => none
  | _ => some none

/-! ## `k=idx`: `mp.GetMapValue` on variable trees described level by level -/

structure IdxLevel where
  name : String
  index : Option String
  holds : String

def parseIdxLevels (s : String) : Option (List IdxLevel) :=
  (splitList s ";").mapM fun l =>
    match l.splitOn "|" with
    | [n, ix, h] => (parseIxField ix).map fun i => { name := n, index := i, holds := h }
    | _ => none

/-- the map the levels are looked up in (harness `buildIdx`); `mark`: the map is element `mark` of a list -/
def buildIdx : List IdxLevel → Option Nat → Fields
  | [], mark => (match mark with | some k => [("#", .str (toString k))] | none => [])
  | l :: rest, mark =>
    let mk : Fields := match mark with | some k => [("#", .str (toString k))] | none => []
    let h := l.holds
    let elems (f : Nat → Val) (n : Nat) : List Val := (List.range n).map f
    let v : Option Val :=
      if h == "missing" then none
      else if h == "sc" then some (.str "S")
      else if h == "num" then some (.other "num" none)
      else if h == "nil" then some .null
      else if h == "map" then some (.obj (buildIdx rest none))
      else if h == "nilmap" then some (.obj [])
      else
        let ty := (h.toList.drop 1).headD ' '
        let n := ((String.ofList (h.toList.drop 2)).toNat?).getD 0
        match ty with
        | 'a' => some (.list true (elems (fun k => .str s!"e{k}") n))
        | 'A' => some (.list true (elems (fun k => .obj (buildIdx rest (some k))) n))
        | 'M' => some (.list true (elems (fun k => .obj (buildIdx rest (some k))) n))
        | 'm' =>
          let extra : Fields := match rest with
            | nx :: _ => if nx.holds == "sc" then [(nx.name, .str "S")] else []
            | [] => []
          some (.list true (elems (fun k => .obj (("#", .str (toString k)) :: extra)) n))
        | 's' => some (.list true (elems (fun k => .str s!"e{k}") n))
        | 'n' => some (.list true [])
        | 'i' => some (.list true (elems (fun k => .other s!"e{k}" (some k)) n))
        | 'j' => some (.list true (elems (fun k => .other s!"e{k}" (some k)) n))
        | 'f' => some (.list true (elems (fun k => .other s!"e{k}" none) n))
        | _ => some (.list false (List.replicate n (.other "?" none)))
    mk ++ (match v with | some x => [(l.name, x)] | none => [])

def canonIdx : Val → String
  | .null => "nil"
  | .str s => "s:" ++ s
  | .other tag _ => tag
  | .obj fs => "m:" ++ (match lookupField fs "#" with | some (.str k) => k | _ => "-")
  | .list _ xs => "l:" ++ toString xs.length

/-- an element picked by `[rand]`: the harness prints `*` for any element of the list -/
def starRand (lv : List IdxLevel) (out : String) : String :=
  let listLv := lv.filter fun l => l.index.isSome && l.holds.startsWith "L"
  match listLv.getLast? with
  | some l =>
    if normIndexText (l.index.getD "") == "rand" then
      let n := ((String.ofList (l.holds.toList.drop 2)).toNat?).getD 0
      let try1 (pfx : String) : Option String :=
        match natAfterV pfx out with
        | some k => if k < n then some (pfx ++ "*") else some out
        | none => none
      ((try1 "s:e").orElse fun _ => (try1 "e").orElse fun _ => try1 "m:").getD out
    else out
  | none => out

def handleIdx (kv : List (String × String)) (impl : String) : String × String :=
  match parseIdxLevels (getS kv "lv") with
  | none => ("-", "fail:driver:unparsable levels")
  | some lv =>
    let segs : List Seg := lv.map fun l => { name := l.name, index := l.index.map indexKindOfText }
    let nx := (getN? kv "nx").getD 0
    let it : Iter := { next := fun _ => nx, rand := fun _ => 0 }
    let v := Spec.C19.judgeCall impl
    -- an index text with a dot is cut by the path splitter: the segment is then a plain name that does not exist
    let dotted := lv.any fun l => (l.index.getD "").contains '.'
    if dotted then ("err", v)
    else match getMapValue it (buildIdx lv none) segs with
      | .panic w => ("PANIC " ++ w, v)
      | .ok none => ("err", v)
      | .ok (some x) => ("ok:" ++ starRand lv (canonIdx x), v)

end Pandora.Drv.C19
