import Pandora.Drv.Util

namespace Pandora.Drv

partial def loop (h : IO.FS.Stream) (out : IO.FS.Stream) (f : Handler) : IO Unit := do
  let line ← h.getLine
  if line.isEmpty then return ()
  let line := (line.dropEndWhile (· == '\n')).toString
  match line.splitOn "\t" with
  | id :: input :: rest =>
      let impl := rest.headD ""
      let (m, v) := f input impl
      out.putStrLn s!"{id}\t{m}\t{v}"
  | _ => out.putStrLn s!"?\t-\tfail:driver:bad line"
  loop h out f

/-- stdin: `caseid \t input \t implobs` per line; stdout: `caseid \t modelobs \t verdict` -/
def runMain (f : Handler) : IO UInt32 := do
  let out ← IO.getStdout
  loop (← IO.getStdin) out f
  out.flush
  return 0

end Pandora.Drv
