import Pandora.Drv.Util
import Pandora.Model.C15
import Pandora.Model.C15Lock
import Pandora.Model.C15Post
import Pandora.Spec.C15

/-!
Line-protocol driver of C15: parses the case description produced by harness/cmd/c15, instantiates the
model's `World` with the scripted target / the harness's template fragments, prints the model's observation
and judges the implementation's observation with `Spec.C15`.
-/
namespace Pandora.Drv.C15
open Pandora.Drv Pandora.Model.C15
open Pandora.Spec.C15 (specSteps ringOK shotVerdict roundRobinOK OEv ringPeriod feedCount)

/-! ### escaping (mirror of harness/cmd/c15/common.go) -/

def hexU (n : Nat) : Char :=
  if n < 10 then Char.ofNat (n + '0'.toNat) else Char.ofNat (n - 10 + 'A'.toNat)

def utf8Bytes (c : Char) : List Nat := (String.singleton c).toUTF8.toList.map (·.toNat)

def escWith (extra : List Char) (s : List Char) : String :=
  String.ofList (s.flatMap fun c =>
    if c.isAlphanum && c.toNat < 128 || c == '_' || c == '.' || c == '(' || c == ')' || c == '+' || c == '-' || extra.contains c
    then [c]
    else (utf8Bytes c).flatMap fun b => ['%', hexU (b / 16), hexU (b % 16)])

def esc (s : String) : String := escWith [] s.toList
def escv (s : String) : String := escWith [',', '/'] s.toList

/-- %XX → bytes → UTF-8 decode -/
def unescBytes : List Char → List UInt8
  | '%' :: a :: b :: rest =>
    match hexDigit a, hexDigit b with
    | some x, some y => UInt8.ofNat (x * 16 + y) :: unescBytes rest
    | _, _ => ('%'.toNat.toUInt8) :: unescBytes (a :: b :: rest)
  | c :: rest => (String.singleton c).toUTF8.toList ++ unescBytes rest
  | [] => []

def unesc (s : String) : String :=
  let bs := ByteArray.mk (unescBytes s.toList).toArray
  match String.fromUTF8? bs with
  | some r => r
  | none => s

def splitNE (s : String) (sep : String) : List String := if s.isEmpty then [] else s.splitOn sep

/-! ### scenario descriptions -/

structure ScIn where
  cfg : ScenarioCfg
  weightGiven : Bool

def parseIntField (s : String) : Int := if s == "-" || s.isEmpty then 0 else (s.toInt?).getD 0

def parseSc (s : String) : List ScenarioCfg :=
  (splitNE s ";").map fun one =>
    match one.splitOn ":" with
    | n :: w :: m :: rest =>
      let shoots := String.intercalate ":" rest
      { name := (unesc n).toList, weight := parseIntField w, minWaitingTime := parseIntField m,
        requests := (splitNE shoots "|").map fun sh => (unesc sh).toList }
    | _ => { name := (unesc one).toList, weight := 0, minWaitingTime := 0, requests := [] }

/-- run-length form of a step list (tail recursive: lists of 2^20 steps are within the domain): `(step, pause, run)` -/
def rleGo : List (List Char × Int) → Option (List Char × Int × Nat) → List (List Char × Int × Nat) → List (List Char × Int × Nat)
  | [], none, acc => acc.reverse
  | [], some c, acc => (c :: acc).reverse
  | (n, s) :: rest, none, acc => rleGo rest (some (n, s, 1)) acc
  | (n, s) :: rest, some (n0, s0, k), acc =>
    if n == n0 && s == s0 then rleGo rest (some (n0, s0, k + 1)) acc
    else rleGo rest (some (n, s, 1)) ((n0, s0, k) :: acc)

/-- `<step>/<pause>` entries, a run of k > 1 equal consecutive entries written once as `<step>/<pause>*k` (mirror of
`describeSteps` of harness/cmd/c15/prov.go) -/
def stepsText (steps : List (List Char × Int)) : String :=
  String.intercalate "," ((rleGo steps none []).map fun (n, s, k) =>
    esc (String.ofList n) ++ "/" ++ toString s ++ (if k > 1 then "*" ++ toString k else ""))

def descr {ρ} (sc : Scenario ρ) : String :=
  esc (String.ofList sc.name) ++ "@" ++ toString sc.minWaitingTime ++ "[" ++
    stepsText (sc.steps.map fun st => (st.name, st.sleep)) ++ "]"

def dedup (l : List String) : List String :=
  l.foldl (fun acc x => if acc.contains x then acc else acc ++ [x]) []

def outcomeStr {α} (o : Outcome α) (f : α → String) : String :=
  match o with
  | .ok a => f a
  | .err "parse" => "err=parse"
  | .err "notfound" => "err=notfound"
  | .err "sleepfirst" => "err=sleepfirst"
  | .err "negweight" => "err=negweight"
  | .err "toomany" => "err=toomany"
  | .err "toolarge" => "err=toolarge"
  | .err e => "err=other:" ++ e
  | .panic p => "panic:" ++ p

def lastWins (names : List (List Char)) (k : List Char) : Option Unit :=
  if names.contains k then some () else none

/-- is every number of the description small enough for int64 arithmetic not to wrap (pauses: ms→ns; weights: the sum of at
most a few weights below 2^40)? The repeat count of a request item needs no bound: `cnt > MaxScenarioRequests - len` is
evaluated without overflow for every int (round 6); the count of a `sleep` item is a pause. -/
def smallNums (scs : List ScenarioCfg) : Bool :=
  scs.all fun sc => sc.weight.natAbs < 1099511627776 && sc.minWaitingTime.natAbs < 1000000000 &&
    sc.requests.all fun sh => match parseShootName sh with
      | .ok it => (it.name != sleepName || it.cnt.natAbs < 1000000000) && it.sleep.natAbs < 1000000000
      | .error _ => true

def allDistinct {α} [BEq α] : List α → Bool
  | [] => true
  | x :: xs => !xs.contains x && allDistinct xs

/-- a `sleep` item with no executed step before it: the description is rejected (`… must follow a request`) -/
def leadingSleep : List Item → Bool → Bool
  | [], _ => false
  | it :: rest, seen =>
    if it.name == sleepName then (!seen) || leadingSleep rest seen
    else leadingSleep rest (seen || it.cnt > 0)

/-- the property's domain for a scenario list; otherwise the reason for `skip` -/
def domain (reqNames : List (List Char)) (scs : List ScenarioCfg) : Option String :=
  if !smallNums scs then some "huge-number"
  else if scs.any (fun sc => sc.weight < 0) then some "negative-weight"
  else if !allDistinct (scs.map (·.name)) then some "duplicate-scenario-names"
  else if scs.any (fun sc => sc.requests.any fun sh => (parseShootName sh).toOption.isNone) then some "malformed-item"
  else if scs.any (fun sc => sc.requests.any fun sh => match parseShootName sh with
      | .ok it => it.name != sleepName && !reqNames.contains it.name | _ => false) then some "unknown-request"
  else if scs.any (fun sc => leadingSleep (sc.requests.filterMap fun sh => (parseShootName sh).toOption) false)
    then some "leading-sleep"
  else none

def specDescr (sc : ScenarioCfg) : Option String :=
  (specSteps (sc.requests.filterMap fun sh => (parseShootName sh).toOption)).map fun steps =>
    esc (String.ofList sc.name) ++ "@" ++ toString sc.minWaitingTime ++ "[" ++ stepsText steps ++ "]"

/-! ### kind=prov -/

def handleProv (kv : List (String × String)) (impl : String) : String × String :=
  let n := (getN? kv "n").getD 0
  let reqNames := (splitNE (getS kv "rq") "|").map fun s => (unesc s).toList
  let scs := parseSc (getS kv "sc")
  let ring := decodeAmmo (lastWins reqNames) scs
  -- provider options passes / limit (0 = unlimited)
  let pl := (getS kv "pl").splitOn ","
  let passes := ((pl.getD 0 "").toNat?).getD 0
  let limit := ((pl.getD 1 "").toNat?).getD 0
  let mobs := outcomeStr ring fun ring =>
    let deliv := feed ring passes limit n
    "ok ring=" ++ String.intercalate "|" (deliv.map fun a => esc (String.ofList a.name)) ++
      " sc=" ++ String.intercalate ";" (dedup (deliv.map descr))
  let verdict :=
    match domain reqNames scs with
    | some "leading-sleep" =>
      -- a pause with no step before it has no meaning: the description must be refused, not crash the provider
      if impl.startsWith "err=" then "skip:leading-sleep" else s!"fail:crash:leading sleep not refused: {impl.take 60}"
    | some why => "skip:" ++ why
    | none =>
      -- a list that expands beyond 2^20 steps / weights that spread beyond 2^24 ammo have no execution: they must be
      -- refused with an error (repairs 1eaf10a, 4cfc662), not allocated
      if (match ring with | .err "toomany" => true | .err "toolarge" => true | _ => false) then
        (if impl.startsWith "err=" then "skip:oversized-refused" else s!"fail:crash:oversized description not refused: {impl.take 60}")
      else
      if !impl.startsWith "ok " then s!"fail:crash:{impl.take 60}" else
      let ikv := parseKV impl
      let deliv := (splitNE (getS ikv "ring") "|").map fun s => (unesc s).toList
      let descrs := splitNE (getS ikv "sc") ";"
      let want := feedCount (ringPeriod (scs.map (·.weight))) passes limit n
      if deliv.length != want && !scs.isEmpty then s!"fail:count:delivered {deliv.length}, due {want} (taking at most {n}, passes={passes}, limit={limit})"
      else if !ringOK (scs.map (·.name)) (scs.map (·.weight)) deliv then "fail:weights:deliveries are not in proportion to the weights"
      else
        -- every delivered scenario has the step list its request list means
        let want := scs.filterMap fun sc => (specDescr sc).map fun d => (sc.name, d)
        let bad := descrs.find? fun d => !(want.any fun (_, w) => w == d)
        match bad with
        | some d => s!"fail:mult:{d}"
        | none => "ok"
  (mobs, verdict)

/-! ### kind=gun: concrete requests, target script, templating -/

structure CReq where
  name : String
  method : String
  pre : List (String × String)     -- var ↦ code, sorted by var
  uri : List String
  body : List String
  post : List String
  xh : List (String × String) := []   -- extra headers: name ↦ template part
deriving Repr

def strLe (a b : String) : Bool := a < b || a == b

def parseReqs (s : String) : List CReq :=
  (splitNE s ";").map fun one =>
    let f := one.splitOn ":"
    let g (i : Nat) := f.getD i ""
    let pre := (splitNE (g 2) "|").filterMap fun p =>
      match p.splitOn "=" with
      | k :: v :: rest => some (k, String.intercalate "=" (v :: rest))
      | _ => none
    let xh := (splitNE (g 6) "|").filterMap fun p =>
      match p.splitOn "=" with
      | k :: v :: rest => some (k, String.intercalate "=" (v :: rest))
      | _ => none
    { name := g 0, method := if g 1 == "P" then "POST" else "GET",
      pre := pre.mergeSort (fun a b => strLe a.1 b.1),
      uri := splitNE (g 3) "|", body := splitNE (g 4) "|", post := splitNE (g 5) "|", xh := xh }

/-- the `q<req>.<post|pre>.<var>` reference -/
def qPath (code : String) : String :=
  match ((code.drop 1).toString).splitOn "." with
  | [x, k, y] => "request." ++ x ++ "." ++ (if k == "post" then "postprocessor" else "preprocessor") ++ "." ++ y
  | _ => code

/-- mirror of `nextSpellings` / `lastSpellings` of harness/cmd/c15/gun.go -/
def nextSpellings : List String :=
  [".source.users[next].id", "source.users[NEXT].id", "source.users[ next ].id", " source . users[next] . id ", "source.users[Next ].id"]
def lastSpellings : List String := ["source.users[LAST].name", "source.users[ last ].name", ".source. users[Last] .name"]

def fnArg (a : String) : String := if a.startsWith "q" && (a.splitOn ".").length == 3 then qPath a else a

/-- mirror of `fnText`: the mapping value of a function code `F<kind><arg>~<arg>…` -/
def fnText (code : String) : String :=
  let args := (splitNE (code.drop 2).toString "~").map fnArg
  match (code.toList.drop 1).head? with
  | some 'S' => "randString(" ++ String.intercalate ", " args ++ ")"
  | some 'W' => "randString( " ++ String.intercalate " ," args ++ " )"
  | some 'Q' => "randString(" ++ String.intercalate "," args
  | some 'I' => "randInt(" ++ String.intercalate "," args ++ ")"
  | some 'U' => "uuid()"
  | some 'X' => "nosuch(1)"
  | some 'P' => " randString(2, z)"
  | _ => code

def prePath (code : String) : String :=
  if code == "n" then "source.users[next].id"
  else if code == "m" then "source.vars.users[next].id"
  else if code == "l" then "source.users[last].name"
  else if code == "r" then "source.users[rand].name"
  else if code.startsWith "N" then (((code.drop 1).toString.toNat?).bind fun k => nextSpellings[k]?).getD code
  else if code.startsWith "L" then (((code.drop 1).toString.toNat?).bind fun k => lastSpellings[k]?).getD code
  else if code.startsWith "I" then " source . users[ " ++ (code.drop 1).toString ++ " ] . name"
  else if code.startsWith "F" then fnText code
  else if code.startsWith "i" then "source.users[" ++ (code.drop 1).toString ++ "].name"
  else if code.startsWith "q" then qPath code
  else code

/-! ### template functions of a preprocessor mapping (`templater.RandInt`, `RandString`, `UUID`) -/

/-- `numbers.ParseInt`: a string in base 10 (sign allowed); a JSON number is a float64: unsupported type -/
def goParseInt : Val → Option Int
  | .str s => atoi s.toList
  | _ => none

/-- `str.FormatString` on the values the harness produces -/
def fmtString : Val → String
  | .str s => s
  | .num i => toString i
  | _ => ""

/-- `randString(cnt, letters)`: over ONE letter the result is determined; otherwise only its length is (`rnd<n>`) -/
def randStringM (cnt : Val) (letters : String) : Option String :=
  match goParseInt cnt with
  | none => none
  | some n0 =>
    let n := if n0 == 0 then 1 else n0
    if n < 0 || n > 16777216 then none
    else match letters.toList with
      | c :: rest => if rest.all (· == c) then some (String.ofList (List.replicate n.toNat c)) else some s!"rnd{n}"
      | [] => some s!"rnd{n}"

/-- the function library as the target canonicalises it (`fnCanon` of the harness): random results are reduced to their shape -/
def fnImpl (name : String) (args : List Val) : Option String :=
  if name == "randString" then
    match args with
    | [] => some "rnd1"
    | [c] => randStringM c ""
    | [c, l] => randStringM c (fmtString l)
    | _ => none
  else if name == "randInt" then
    match args with
    | [] => some "int"
    | [a] => (goParseInt a).map fun _ => "int"
    | [a, b] => (goParseInt a).bind fun _ => (goParseInt b).map fun _ => "int"
    | _ => none
  else if name == "uuid" then some "uuid"
  else none

def valText : Val → String
  | .str s => s
  | .num i => toString i
  | .nil => "<nil>"
  | .map _ => "map[]"
  | .list _ => "[]"

def lookupPath (t : List (String × Val)) : List String → Option Val
  | [] => some (.map t)
  | [k] => getKey k t
  | k :: rest => match getKey k t with
    | some (.map m) => lookupPath m rest
    | _ => none

/-- one template fragment; `none` = text/template execution error -/
def renderPart (rows : Nat) (t : List (String × Val)) (p : String) : Option String :=
  let body := (p.drop 1).toString
  match p.toList.head? with
  | some 'c' => some body
  | some 'p' | some 'e' =>
    match body.splitOn "." with
    | x :: rest =>
      let y := String.intercalate "." rest
      let kind := if p.startsWith "e" then "preprocessor" else "postprocessor"
      match lookupPath t ["request", x, kind, y] with
      | some v => some (valText v)
      | none => some "<no value>"
    | _ => some p
  | some 's' =>
    match body.toNat? with
    | some k => if k < rows then some s!"n{k}" else none
    | none => none
  | some 'm' => none   -- m1 … m4: a template that does not parse or fails when executed (harness `tmplPart`)
  | _ => some p

def mapMOpt {α β} (f : α → Option β) : List α → Option (List β)
  | [] => some []
  | x :: xs => match f x, mapMOpt f xs with
    | some y, some ys => some (y :: ys)
    | _, _ => none

/-- the canonical request line the target logs -/
def renderReq (reqs : List CReq) (rows : Nat) (d : ReqDef) (t : List (String × Val)) : Option String :=
  match reqs.find? (·.name == d.name) with
  | none => none
  | some r =>
    match mapMOpt (renderPart rows t) r.uri, mapMOpt (renderPart rows t) r.body,
          mapMOpt (fun (x : String × String) => (renderPart rows t x.2).map fun v => "H." ++ x.1 ++ "=" ++ escv v) r.xh with
    | some us, some bs, some xs =>
      let path := String.join (("/" ++ r.name) :: us.map ("/" ++ ·))
      let hdrs := r.pre.map fun (v, code) =>
        let val := match lookupPath t ["request", r.name, "preprocessor", v] with
          | some x => valText x | none => "<no value>"
        if code == "n" || code == "m" || code.startsWith "N" then "N." ++ v ++ "=" ++ escv val
        else "V." ++ v ++ "=" ++ escv (if code == "r" then "ok" else val)
      let hdrs := hdrs ++ xs
      let hs := if hdrs.isEmpty then "-" else String.intercalate "," (hdrs.mergeSort strLe)
      let body := String.intercalate "," bs
      some ("R~" ++ r.method ++ "~" ++ escv path ++ "~" ++ hs ++ "~" ++ (if body.isEmpty then "-" else escv body))
    | _, _, _ => none

structure Resp where
  status : Int
  json : Option (List (String × Val))
  hdrs : List (String × String)
  body : String

/-- `http.Header.Get`: the name is canonicalised, i.e. compared case-insensitively; "" when absent -/
def hdrGet (hdrs : List (String × String)) (name : String) : String :=
  match hdrs.find? (fun (k, _) => k.toLower == name.toLower) with
  | some (_, v) => v
  | none => ""

def viewOf (r : Resp) : RespView :=
  { status := r.status, header := fun n => (hdrGet r.hdrs (String.ofList n)).toList, body := r.body.toList }

/-- mirror of the scripted target of harness/cmd/c15/gun.go; `none` = the client gets a transport-level error
(garbage instead of a response, connection closed, body shorter than announced) -/
def respOf (inst : Nat) (oracle : List String) (_reqMethod : String) (k : Nat) : Option Resp :=
  let code := match oracle[k]? with | some c => (if c.isEmpty then "k" else c) | none => "k"
  let tok := s!"{inst}x{k}"
  let okBody := "{\"tok\":\"T" ++ tok ++ "\",\"n\":" ++ toString k ++ "}"
  let okJson : List (String × Val) := [("tok", .str ("T" ++ tok)), ("n", .num k)]
  let hdrs : List (String × String) :=
    [("X-Tok", "H" ++ tok), ("X-Kind", "Resp-" ++ code), ("Content-Type", "application/json")]
  let bigBody := "{\"tok\":\"T" ++ tok ++ "\",\"n\":" ++ toString k ++ ",\"pad\":\"" ++ String.ofList (List.replicate 5000 'x') ++ "\"}"
  if code == "g" || code == "c" || code == "t" then none
  else if code == "r" then some { status := 302, json := some okJson, hdrs := hdrs ++ [("Location", "/moved")], body := okBody }
  else if code == "n" then some { status := 204, json := none, hdrs, body := "" }
  else if code == "L" then some { status := 200, json := some okJson, hdrs, body := bigBody }
  else if code == "b" then some { status := 200, json := none, hdrs, body := "{\"tok\":" }
  else if code == "e" then some { status := 200, json := some [], hdrs, body := "{}" }
  else if code.startsWith "s" then
    some { status := ((code.drop 1).toString.toInt?).getD 200, json := some okJson, hdrs, body := okBody }
  else some { status := 200, json := some okJson, hdrs, body := okBody }

def sizeOpOfCode (c : Char) : String :=
  if c == 'e' then "eq" else if c == 'E' then "=" else if c == 'l' then "lt" else if c == 'L' then "<"
  else if c == 'g' then "gt" else if c == 'G' then ">" else "?"

/-- one condition of a combined assertion `A<cond>+<cond>…`: s<code> | b<text> | y<Header>~<text> | z<op><val> -/
def addCond (a : AssertCfg) (c : String) : AssertCfg :=
  match c.toList with
  | 's' :: r => { a with status := ((String.ofList r).toInt?).getD 0 }
  | 'b' :: r => { a with body := a.body ++ [r] }
  | 'y' :: r =>
    match (String.ofList r).splitOn "~" with
    | [h, t] => { a with headers := a.headers ++ [(h.toList, t.toList)] }
    | _ => a
  | 'z' :: o :: r => { a with size := some { val := ((String.ofList r).toInt?).getD 0, op := sizeOpOfCode o } }
  | _ => a

def emptyAssert : AssertCfg := { headers := [], body := [], status := 0, size := none }

def assertOf (p : String) : Option AssertCfg :=
  let body := (p.drop 1).toString
  match p.toList.head? with
  | some 'a' => some (addCond emptyAssert ("s" ++ body))
  | some 't' => some (addCond emptyAssert ("b" ++ body))
  | some 'z' => some (addCond emptyAssert p)
  | some 'A' => some ((body.splitOn "+").foldl addCond emptyAssert)
  | _ => none

def postOf (p : String) (r : Resp) : Option (List (String × Val)) :=
  let body := (p.drop 1).toString
  match p.toList.head? with
  | some 'j' =>
    match body.splitOn "=" with
    | [v, key] => match r.json with
      | none => none
      | some m => (getKey key m).map fun x => [(v, x)]
    | _ => some []
  | some 'J' =>
    -- one var/jsonpath extractor with several mapping entries: every path must resolve, otherwise the step fails
    match r.json with
    | none => none
    | some m =>
      mapMOpt (fun (e : String) => match e.splitOn "=" with
        | [v, key] => (getKey key m).map fun x => (v, x)
        | _ => none) (body.splitOn "&")
  | some 'H' =>
    -- one var/header extractor with several mapping entries
    let entries := (body.splitOn "&").filterMap fun e => match e.splitOn "=" with
      | [v, spec] => some (v, (String.intercalate "|" (spec.splitOn "/")).toList)
      | _ => none
    match varHeader entries (viewOf r) with
    | .ok vs => some vs
    | .error _ => none
  | some 'h' =>
    -- h<var>=<Header>/<modifier>/… : the mapping value is `Header|modifier|…`
    match body.splitOn "=" with
    | [v, spec] =>
      match varHeader [(v, (String.intercalate "|" (spec.splitOn "/")).toList)] (viewOf r) with
      | .ok vs => some vs
      | .error _ => none
    | _ => some []
  | _ =>
    match assertOf p with
    | some a => if assertResponse a (viewOf r) then some [] else none
    | none => some []

/-- all postprocessor items of all requests, globally numbered -/
def postTable (reqs : List CReq) : List String := reqs.flatMap (·.post)

def postIds (reqs : List CReq) (name : String) : List Nat :=
  let rec go : List CReq → Nat → List Nat
    | [], _ => []
    | r :: rest, off => if r.name == name then List.range' off r.post.length else go rest (off + r.post.length)
  go reqs 0

def methodOfLine (l : String) : String := (l.splitOn "~").getD 1 ""

def world (reqs : List CReq) (rows inst : Nat) (oracle : List String) : World String Resp where
  render := renderReq reqs rows
  target := fun hist => match hist.getLast? with
    | none => none
    | some l => respOf inst oracle (methodOfLine l) (hist.length - 1)
  post := fun id r => match (postTable reqs)[id]? with | some p => postOf p r | none => some []
  code := (·.status)
  fn := fnImpl

/-- iterator held by the (shared) preprocessor object of request `name`: the one of the LAST scenario that
references it (`InitIterator` overwrites) -/
def iterOf (scs : List ScenarioCfg) (name : List Char) : Nat :=
  let idxs := (List.range scs.length).filter fun i =>
    match scs[i]? with
    | some sc => sc.requests.any fun sh => match parseShootName sh with
        | .ok it => it.name == name | _ => false
    | none => false
  idxs.getLast?.getD 0

def reqDefOf (reqs : List CReq) (scs : List ScenarioCfg) (name : List Char) : Option ReqDef :=
  -- Go: reqRegistry[req.Name] = req, the last definition of a name wins
  match (reqs.filter (·.name.toList == name)).getLast? with
  | none => none
  | some r => some {
      name := r.name
      pre := if r.pre.isEmpty then none else some (r.pre.map fun (v, c) => (v, prePath c))
      iter := iterOf scs name
      posts := postIds reqs r.name }

/-- the data sources: `users` (file/csv, `rows` rows) and — when the case has `L2=` — `vars` (file/json) holding a
list that is also called `users` -/
def sourceVal (rows : Nat) (rows2 : Option Nat := none) : Val :=
  .map ([("users", .list ((List.range rows).map fun k => .map [("id", .str s!"u{k}"), ("name", .str s!"n{k}")]))] ++
    match rows2 with
    | some m => [("vars", .map [("users", .list ((List.range m).map fun k =>
        .map [("id", .str s!"w{k}"), ("name", .str s!"m{k}")]))])]
    | none => [])

def evStr : Ev String → Option String
  | .request r => some r
  | .sample tag code failed => some ("P~" ++ esc tag ++ "~" ++ toString code ++ "~" ++ (if failed then "1" else "0"))
  | .pause _ => none

structure ShotIn where
  idx : Nat
  sc : Scenario ReqDef

/-- rows drawn by `[next]` that a logged request shows (`N.<var>=u<k>` from `source.users`, `…=w<k>` from
`source.vars.users`), in header order; `pfx` restricts to one source -/
def drawsOfEventP (pfx : List String) (e : String) : List Nat :=
  if !e.startsWith "R~" then [] else
  let hs := (e.splitOn "~").getD 3 ""
  (splitNE hs ",").filterMap fun h =>
    if h.startsWith "N." then
      match h.splitOn "=" with
      | [_, v] => if pfx.any (v.startsWith ·) then (v.drop 1).toString.toNat? else none
      | _ => none
    else none

def drawsOfEvent (e : String) : List Nat := drawsOfEventP ["u", "w"] e

/-- run the shots of one instance; `feeds` (open-system view) gives per shot the rows its visible draws received.
Returns event strings per shot, the iterator state and the draws that were visible to the target (a draw of a
step whose request never left — template error after the preprocessor — is hidden: it is the last of its shot).
`none` = the model predicts a panic. -/
def runInstance (w : World String Resp) (rows : Nat) (rows2 : Option Nat) (shots : List ShotIn) (feeds : Option (List (List Nat)))
    (it0 : Iter) (hist0 : List String) : Option (List (List String) × Iter × List ((Nat × String) × Nat)) :=
  let rec go : List ShotIn → Nat → Iter → List String → List (List String) → List ((Nat × String) × Nat) →
      Option (List (List String) × Iter × List ((Nat × String) × Nat))
    | [], _, it, _, acc, vis => some (acc, it, vis)
    | s :: rest, k, it, hist, acc, vis =>
      let it := match feeds with
        | some fs => { it with feed := some (fs.getD k []) }
        | none => it
      match shoot w (sourceVal rows rows2) s.sc { iter := it, hist := hist, log := [] } with
      | none => none
      | some (_, g) =>
        let evs := ("S~" ++ toString s.idx ++ "~" ++ esc (String.ofList s.sc.name)) :: g.log.filterMap evStr
        let fresh := g.iter.trace.drop it.trace.length
        let nVis := (evs.flatMap drawsOfEvent).length
        go rest (k + 1) g.iter g.hist (acc ++ [evs]) (vis ++ fresh.take nVis)
  go shots 0 it0 hist0 [] []

/-! ### reading the implementation's observation -/

def splitShots (evs : List String) : List (List String) :=
  evs.foldl (fun acc e =>
    if e.startsWith "S~" then acc ++ [[e]]
    else match acc.reverse with
      | [] => [[e]]
      | l :: r => (((l ++ [e]) :: r).reverse)) []

def toOEv (e : String) : Option OEv :=
  match e.splitOn "~" with
  | "R" :: _ :: path :: _ =>
    some (.req (((unesc path).splitOn "/").getD 1 ""))
  | ["P", tag, _, f] => some (.sample (unesc tag) (f == "1"))
  | "V" :: rest => some (.viol (String.intercalate "~" rest))
  | "X" :: rest => some (.viol ("panic " ++ String.intercalate "~" rest))
  | _ => none

def natsStr (l : List Nat) : String := String.intercalate "," (l.map toString)

def handleGun (kv : List (String × String)) (impl : String) : String × String :=
  let nInst := max 1 ((getN? kv "inst").getD 1)
  let nShots := (getN? kv "shots").getD 0
  let rows := (getN? kv "L").getD 0
  let rows2 := getN? kv "L2"
  let reqs := parseReqs (getS kv "rq")
  let scs := parseSc (getS kv "sc")
  let oracles := (getS kv "or").splitOn "/"
  let ringO := decodeAmmo (reqDefOf reqs scs) scs
  match ringO with
  | .err e => (outcomeStr (ringO.bind fun _ => (.ok () : Outcome Unit)) fun _ => "", "skip:provider-" ++ e)
  | .panic _ => ("-", "skip:provider-panic")
  | .ok ring =>
    let shots : List ShotIn := (List.range nShots).filterMap fun j => (deliver ring j).map fun sc => { idx := j, sc }
    let shotsOf (i : Nat) := shots.filter fun s => s.idx % nInst == i
    let ikv := parseKV impl
    let implInst (i : Nat) : List String := splitNE (getS ikv s!"i{i}") "|"
    let feedsOf (i : Nat) : List (List Nat) := (splitShots (implInst i)).map fun evs => evs.flatMap drawsOfEvent
    -- model observation: closed system for one instance, open-system view (observed rows) for several
    let closed := nInst == 1
    let runI (i : Nat) (useFeed : Bool) :=
      runInstance (world reqs rows i ((oracles.getD i "").splitOn ",")) rows rows2 (shotsOf i)
        (if useFeed then some (feedsOf i) else none) Iter.empty []
    let outs := (List.range nInst).map fun i => runI i (!closed)
    -- the model has no reachable panic inside a shot (an empty data source is an error since d4ccb1f)
    if outs.any (·.isNone) then ("-", "skip:model-panic") else
    let outs' := outs.filterMap id
    let parts := (List.range nInst).zip outs' |>.map fun (i, (evs, _, _)) =>
      s!"i{i}=" ++ String.intercalate "|" evs.flatten
    let visible (pfx : String) (evs : List (List String)) : List Nat := evs.flatten.flatMap (drawsOfEventP [pfx])
    let allRows := (outs'.flatMap fun (evs, _, _) => visible "u" evs).mergeSort (· ≤ ·)
    let allRows2 := (outs'.flatMap fun (evs, _, _) => visible "w" evs).mergeSort (· ≤ ·)
    let mobs := "ok " ++ String.intercalate " " parts ++ " rows=" ++ natsStr allRows ++
      (if rows2.isSome then " rows2=" ++ natsStr allRows2 else "")
    -- (a header literally named url / body is an ordinary header since the templater's cache-key repair 2826876)
    -- Spec on the implementation's observation
    let verdict : String :=
      if !impl.startsWith "ok " then s!"fail:crash:{impl.take 80}" else
      match domain (reqs.map (·.name.toList)) scs with
      | some why => "skip:" ++ why
      | none =>
        -- expected step names per scenario
        let expected (scName : String) : List String :=
          match scs.find? (fun sc => String.ofList sc.name == scName) with
          | some sc => ((specSteps (sc.requests.filterMap fun sh => (parseShootName sh).toOption)).getD []).map
              fun (n, _) => String.ofList n
          | none => []
        let shotVerdicts := (List.range nInst).flatMap fun i =>
          (splitShots (implInst i)).map fun evs =>
            match evs with
            | s :: rest =>
              let scName := unesc ((s.splitOn "~").getD 2 "")
              shotVerdict scName (expected scName) (rest.filterMap toOEv)
            | [] => "ok"
        -- the scenarios of shots 0, 1, 2, … (over all instances): every complete pass in proportion to the weights
        let shotNames : List (Nat × String) := (List.range nInst).flatMap fun i =>
          (splitShots (implInst i)).filterMap fun evs => evs.head?.map fun s =>
            (((s.splitOn "~").getD 1 "").toNat?.getD 0, unesc ((s.splitOn "~").getD 2 ""))
        let delivered := (shotNames.mergeSort fun a b => a.1 ≤ b.1).map fun p => p.2.toList
        match shotVerdicts.find? (· != "ok") with
        | some v => v
        | none =>
          if !ringOK (scs.map (·.name)) (scs.map (·.weight)) delivered then
            "fail:weights:the scenarios of the shots are not in proportion to the weights"
          else
          if (List.range nInst).any (fun i => (splitShots (implInst i)).length != (shotsOf i).length) then
            "fail:count:number of shots"
          else
          -- round robin: run the open-system view to attribute every observed row to its counter. The shots are the
          -- ones the instance actually received (WHICH scenario is due is judged by `weights` above, not again here)
          let implShotsOf (i : Nat) : List ShotIn := (splitShots (implInst i)).filterMap fun evs =>
            match evs.head? with
            | some s =>
              let nm := unesc ((s.splitOn "~").getD 2 "")
              (ring.find? fun sc => String.ofList sc.name == nm).map fun sc =>
                { idx := ((s.splitOn "~").getD 1 "").toNat?.getD 0, sc }
            | none => none
          let fed := (List.range nInst).map fun i =>
            runInstance (world reqs rows i ((oracles.getD i "").splitOn ",")) rows rows2 (implShotsOf i)
              (some (feedsOf i)) Iter.empty []
          if fed.any (·.isNone) then "skip:model-panic" else
          -- variable flow: every request the target received is the rendering of its templates in the variable tree
          -- its shot had built so far (the model run on the same responses and the same observed [next] rows)
          let rlines (evs : List String) : List String := evs.filter (·.startsWith "R~")
          let vflow : Option String := (List.range nInst).findSome? fun i =>
            let mshots : List (List String) := (((fed.getD i none).map (·.1)).getD [])
            ((mshots.zip (splitShots (implInst i))).findSome? fun (m, im) =>
              let mr := rlines m
              let ir := rlines im
              if mr == ir then none else
              let shot := im.head?.getD ""
              match (mr.zip ir).find? (fun (a, b) => a != b) with
              | some (a, b) => some s!"i{i} {shot}: target received {b} but the variables in scope render {a}"
              | none => some s!"i{i} {shot}: target received {ir.length} requests, the variables in scope allow {mr.length}")
          -- stop on failure: a step fails exactly when its preprocessor, template, transport, extractor or assertion
          -- fails on the response the scripted target gave (the model run on the same responses)
          let plines (evs : List String) : List (String × String) := evs.filterMap fun e =>
            match e.splitOn "~" with
            | ["P", tag, _, f] => some (tag, f)
            | _ => none
          let stopv : Option String := (List.range nInst).findSome? fun i =>
            let mshots : List (List String) := (((fed.getD i none).map (·.1)).getD [])
            ((mshots.zip (splitShots (implInst i))).findSome? fun (m, im) =>
              let shot := im.head?.getD ""
              ((plines m).zip (plines im)).findSome? fun ((mt, mf), (it, f)) =>
                if mf == f then none
                else if mf == "1" then some s!"i{i} {shot}: step {unesc it} was reported successful but it failed (see the target script and its extractors/assertions)"
                else some s!"i{i} {shot}: step {unesc mt} was reported failed but nothing in it failed")
          let fkey (k : String) : String := "fail:" ++ k ++ ":"
          match stopv with
          | some d => fkey "stop" ++ (d.take 300).toString
          | none =>
          match vflow with
          | some d => fkey "var-flow" ++ (d.take 300).toString
          | none =>
          let traces : List (List ((Nat × String) × Nat)) := (fed.filterMap id).map fun (_, _, vis) => vis
          let full : List ((Nat × String) × Nat) := (fed.filterMap id).flatMap fun (_, it, _) => it.trace
          let key (k : Nat × String) : String := s!"{k.1}{k.2}"
          let counters := dedup (traces.flatten.map fun (k, _) => key k)
          let bad := counters.find? fun c =>
            -- the counter of the second source (path `.source.vars.users[next]`) runs over its own number of rows
            let rows := if (c.splitOn ".vars.").length > 1 then rows2.getD 0 else rows
            let perInst := traces.map fun tr => (tr.filter fun (k, _) => key k == c).map (·.2)
            let all := perInst.flatten
            -- a draw whose request never reached the target is invisible: the visible rows then have gaps
            let hidden := (full.filter fun (k, _) => key k == c).length != all.length
            !hidden && (!roundRobinOK rows all ||
              (closed && all != (List.range all.length).map (· % rows)) ||
              (all.length ≤ rows && perInst.any fun l => !(l.zip (l.drop 1)).all fun (a, b) => a < b))
          match bad with
          | some c => fkey "round-robin" ++ c
          | none => "ok"
    (mobs, verdict)

/-! ### kind=first: simultaneous FIRST `[next]` lookups of one path by all instances -/

/-- `inst` threads, each calling `Next` on the same counter `shots` times, executed by the instruction-level system
`LSys` on `nextCode` under a fair schedule (thread 0, 1, …, n-1, one instruction each, long enough for every call to
finish — by `C15_next_code_round_robin` every schedule hands out the same values); the rows selected over a source of
`rows` rows, sorted. -/
def firstRows (nInst shots rows : Nat) : List Nat :=
  let key : CKey := (0, ".source.users")
  let prog : NProg := fun t got => if t < nInst && got.length < shots then some key else none
  let sched := fairSched nInst (7 * nInst * shots + 7)
  let s := LSys.init.run nextCode prog sched
  ((s.vals key).map (rowOf rows)).mergeSort (· ≤ ·)

def handleFirst (kv : List (String × String)) (impl : String) : String × String :=
  let nInst := (getN? kv "inst").getD 0
  let shots := (getN? kv "shots").getD 0
  let rows := (getN? kv "L").getD 0
  let rounds := (getN? kv "rounds").getD 0
  let mobs := s!"ok n={rounds} distinct=" ++ natsStr (firstRows nInst shots rows)
  let verdict :=
    if !impl.startsWith "ok " then s!"fail:crash:{impl.take 80}" else
    let ikv := parseKV impl
    let sets := (splitNE (getS ikv "distinct") "/").map fun m => (splitNE m ",").filterMap (·.toNat?)
    match sets.find? (fun m => m.length != nInst * shots) with
    | some m => s!"fail:count:{m.length} rows were handed out in a round of {nInst}x{shots} lookups"
    | none =>
      match sets.find? (fun m => !roundRobinOK rows m) with
      | some m => s!"fail:round-robin:first use by {nInst} instances at once handed out rows {natsStr m}"
      | none => "ok"
  (mobs, verdict)

def handle : Handler := fun input impl =>
  let kv := parseKV input
  match getS kv "kind" with
  | "prov" => handleProv kv impl
  | "gun" => handleGun kv impl
  | "first" => handleFirst kv impl
  | _ => ("-", "fail:driver:unknown kind")

end Pandora.Drv.C15
