import Pandora.Drv.Util
import Pandora.Model.C12
import Pandora.Model.C12Pool
import Pandora.Model.C12Left
import Pandora.Spec.C12

/-
C12 driver: for one case (input line, observation of the real engine)
* the Spec verdict on the observation (`Spec.C12.judge`);
* the model's prediction: the observed history is REPLAYED through the transition system `Model.C12.run` — one `wait`
  (+ `timerFire`) per creation attempt with the observed token / hand-out / creation instants, then the observed causes
  and instance exits in the order of their instants, then the `Wait` call that ended the loop (entered with the start
  context cancelled, or on the exhausted schedule, or — when one more token was handed out than instances were attempted
  — asleep and woken by the cancellation).  Predicted from the final model state: `started`, the ids of the bound
  instances, the number of instances still running, the `err` class of the start loop where it is determined, and the
  number of instances `k` clamped into the margin-based bounds of the Spec.  Everything else is echoed.
-/
namespace Pandora.Drv.C12
open Pandora.Drv Pandora.Model.C04 Pandora.Model.C12 Pandora.Spec.C12

/-- split at '+' outside brackets -/
def splitTop (s : String) : List String :=
  let (parts, cur, _) := s.toList.foldl (fun (acc : List String × String × Nat) ch =>
    let (parts, cur, depth) := acc
    if ch == '[' then (parts, cur.push ch, depth + 1)
    else if ch == ']' then (parts, cur.push ch, depth - 1)
    else if ch == '+' && depth == 0 then (parts ++ [cur], "", depth)
    else (parts, cur.push ch, depth)) ([], "", 0)
  parts ++ [cur]

def parseLeaf (s : String) : Option Part :=
  match s.splitOn ":" with
  | ["none"] => some (.comp [])     -- a composite of no parts
  | ["once", n] => do pure (.once (← n.toInt?))
  | ["const", ops, ms] => do pure (.const (← ops.toInt?) (← ms.toInt?))
  | ["constm", mops, ms] => do pure (.constm (← mops.toInt?) (← ms.toInt?))
  | ["step", f, t, st, ms] => do pure (.step (← f.toInt?) (← t.toInt?) (← st.toInt?) (← ms.toInt?))
  | _ => none

/-- `part+part+…`, a part being a leaf or `[…]` (a nested composite); `fuel` bounds the nesting depth -/
def parsePartsFuel : Nat → String → Option (List Part)
  | 0, _ => none
  | fuel + 1, s => (splitTop s).mapM fun seg =>
      if seg.startsWith "[" && seg.endsWith "]" then
        (parsePartsFuel fuel (String.ofList ((seg.toList.drop 1).dropLast))).map Part.comp
      else parseLeaf seg

def parseParts (s : String) : Option (List Part) := parsePartsFuel 16 s

/-- an RPS profile: brackets removed, `unlim:MS` allowed -/
def parseRps (s : String) : Option (List RSeg) :=
  ((String.ofList (s.toList.filter fun ch => ch != '[' && ch != ']')).splitOn "+").mapM fun seg =>
    match seg.splitOn ":" with
    | ["unlim", ms] => do pure (.unlim (← ms.toInt?))
    | _ => (parseLeaf seg).map RSeg.leaf

def parsePairs (s : String) : Option (List (String × Int)) :=
  (splitList s).mapM fun p => match p.splitOn ":" with
    | [a, b] => do pure (a, ← b.toInt?)
    | _ => none

def parseSpans (s : String) : Option (List (Int × Int)) :=
  (splitList s).mapM fun p => match p.splitOn ":" with
    | [a, b] => do pure (← a.toInt?, ← b.toInt?)
    | _ => none

def parseExits (s : String) : Option (List (Nat × Int × String)) :=
  (splitList s).mapM fun p => match p.splitOn ":" with
    | [a, b, c] => do pure (← a.toNat?, ← b.toInt?, c)
    | _ => none

def parseObs (kv : List (String × String)) (ammo : Nat := 0) (rps : List RSeg := []) (discardOn : Bool := false) : Option Obs := do
  let binds ← (← parsePairs (getS kv "binds")).mapM fun (a, b) => do pure ((← a.toNat?), b)
  let shots ← (← parsePairs (getS kv "shots")).mapM fun (a, b) => do pure ((← a.toNat?), b.toNat)
  pure { k := ← getN? kv "k", err := getS kv "err", mstart := ← getN? kv "mstart", fails := ← getN? kv "fails",
         total := ← getN? kv "total", started := getN? kv "started", starterr := getS kv "starterr" "?",
         running := (getN? kv "running").getD 0,
         toks := ← parseInts (getS kv "toks"), picks := ← parseInts (getS kv "picks"),
         ctoks := ← parseInts (getS kv "ctoks"), guns := ← parseInts (getS kv "guns"),
         binds, exits := ← parseExits (getS kv "exits"), cuts := ← parsePairs (getS kv "cuts"),
         jitter := (getI? kv "jitter").getD 0,
         lastshot := (getI? kv "lastshot").getD (-1), gunctx := (getI? kv "gunctx").getD (-1),
         shots, rpstot := (getI? kv "rpstot").getD (-1), ammo,
         -- computed from the profile text (the harness prints its own figure as `rpsmin=`; it is not used)
         rpsmin := rpsMinNs rps, rpsfloor := rpsFloor rps,
         rpsspans := ← parseSpans (getS kv "rpsspans"), mfin := getN? kv "mfin",
         rpsgiven := ← parseInts (getS kv "rpsgiven"),
         rpsl0 := getI? kv "rpsl0", sul0 := getI? kv "sul0",
         rpsleaf := (getI? kv "rpsleaf").getD (-1), rpsout := (getI? kv "rpsout").getD 0,
         rpsatfin := ← parseInts (getS kv "rpsatfin"), discards := ← parseInts (getS kv "discards"), discardOn,
         rpsunk := rps.any (fun sg => match sg with | .unlim _ => true | _ => false) }

def reasonOf : String → Option ExitReason
  | "sched" => some .scheduleEnd
  | "ammo" => some .ammoEnd
  | "ctx" => some .cancelled
  | "err" => some .error
  | _ => none

/-- the environment events (causes and instance exits) in the order of their observed instants; a cause precedes an
exit at the same instant; an exit whose reason was not logged is replayed as the reason the current causes allow -/
def envEvents (perinst : Bool) (o : Obs) : List Event :=
  let causes : List (Int × Nat × List Event) := o.cuts.filterMap fun (kind, t) =>
    match kind with
    | "ammo" => none            -- becomes visible through the exit of the instance that was refused
    | "rps" => if perinst then none else some (t, 0, [.rpsFinished])
    | "cancel" => some (t, 0, [.runCancel])
    | "fail" => some (t, 0, [.runCancel])   -- the failing pool cancels the run (a failed FIRST instance ends the loop itself)
    -- a gun panicked: the error result of its instance makes the pool fail (below, with the exit)
    | _ => none
  let exits : List (Int × Nat × List Event) := o.exits.map fun (id, t, r) =>
    match reasonOf r with
    | some .ammoEnd => (t, 1, [.instanceExit id .ammoEnd, .outOfAmmoResult])
    | some .error => (t, 1, [.instanceExit id .error, .runCancel])
    | some rs => (t, 1, [.instanceExit id rs])
    | none => (t, 1, [.instanceExit id .cancelled, .instanceExit id .scheduleEnd, .instanceExit id .ammoEnd, .outOfAmmoResult])
  let all := (causes ++ exits).toArray.qsort (fun a b => a.1 < b.1 || (a.1 == b.1 && a.2.1 < b.2.1))
  all.toList.flatMap (·.2.2)

/-- replay of the observation through the model -/
def replay (perinst : Bool) (o : Obs) : St :=
  let c : Cfg := { perInstance := perinst }
  let attempts := o.guns.length
  let ids := o.binds.map (·.1)
  let waitOf (j : Nat) : Event :=
    let tok := o.toks[j]?.getD 0
    let pick := o.picks[j]?.getD tok
    let ret := max pick tok
    let created := match o.binds.find? (·.1 == j) with | some b => b.2 | none => o.guns[j]?.getD ret
    .wait { ctxDone := false, tok := some tok, pick := pick, now := pick, arm := pick, ret := ret, timerWins := true }
      (ids.contains j) (created - ret).toNat
  let starts := (List.range attempts).flatMap fun j => [waitOf j, .timerFire]
  -- the whole profile: the tokens handed out, then the remaining ones at their offsets from the observed start
  let base := match o.toks.head?, o.ctoks.head? with | some t0, some c0 => t0 - c0 | _, _ => 0
  let full := o.toks ++ (o.ctoks.drop o.toks.length).map (· + base)
  let s := run c (St.init full) starts
  -- a failed FIRST instance ends the loop; otherwise the last `Wait` call ends it
  if o.toks.length > attempts then
    -- one more token was handed out: that call went to sleep and was woken by the cancellation
    let s := run c s [waitOf attempts]
    let s := run c s (envEvents perinst o)
    run c s [.wakeCancelled]
  else
    let s := run c s (envEvents perinst o)
    run c s [.wait { ctxDone := s.startCtxDone, tok := s.toks.head?, timerWins := true } true 0]

/-! the same history through the POOL layer (`Model/C12Pool`): every observed exit becomes the pass of `instance.Run` that
produces it (refused ammo / `Left() == 0` / context done) with its result received at once by the await loop, the end of
the shared RPS schedule becomes a pass whose `Wait` finds no token (it runs the finish callback), results of failed
creations are received, and finally the start result.  Predicted: `checkAllInstancesAreFinished` went through with
`awaited` = … (the pool's log line "All instances runs awaited."). -/

def liftEv (perinst : Bool) (p : PSt) : Event → List PEvent
  | .instanceExit id .ammoEnd => [.iter id { ammoOk := false } false false, .recvRun p.pending.length]
  | .instanceExit id .scheduleEnd =>
      if perinst || p.base.sharedRpsDone then [.iter id { left := 0 } false false, .recvRun p.pending.length] else []
  | .instanceExit id .cancelled => [.iter id { ctxDone := true } true false, .recvRun p.pending.length]
  | .instanceExit id .error => [.panic id, .recvRun p.pending.length]
  | .outOfAmmoResult => []      -- the reaction of the await loop to the result it has just received
  | .rpsFinished => match p.base.running.head? with
      | some id => [.iter id { waitOk := false } false true]
      | none => []
  -- the run is cancelled (by the caller, or by the pool failing on the error result of a creation that failed in its
  -- goroutine: that result is received now)
  | .runCancel => .loop .runCancel :: List.replicate p.pending.length (.recvRun 0)
  | ev => [.loop ev]

/-- lift and run abstract events: the result of an exit is received at once (the abstract replay puts the reaction of the
await loop right after the exit, too) -/
def poolRunLift (c : Cfg) (perinst : Bool) (p : PSt) (evs : List Event) : PSt :=
  evs.foldl (fun p ev => poolRun c p (liftEv perinst p ev)) p

def poolReplay (perinst : Bool) (o : Obs) : PSt :=
  let c : Cfg := { perInstance := perinst }
  let attempts := o.guns.length
  let ids := o.binds.map (·.1)
  let waitOf (j : Nat) : Event :=
    let tok := o.toks[j]?.getD 0
    let pick := o.picks[j]?.getD tok
    let ret := max pick tok
    let created := match o.binds.find? (·.1 == j) with | some b => b.2 | none => o.guns[j]?.getD ret
    .wait { ctxDone := false, tok := some tok, pick := pick, now := pick, arm := pick, ret := ret, timerWins := true }
      (ids.contains j) (created - ret).toNat
  let starts := (List.range attempts).flatMap fun j => [waitOf j, .timerFire]
  let base := match o.toks.head?, o.ctoks.head? with | some t0, some c0 => t0 - c0 | _, _ => 0
  let full := o.toks ++ (o.ctoks.drop o.toks.length).map (· + base)
  let p := poolRunLift c perinst (PSt.init full) starts
  let p :=
    if o.toks.length > attempts then
      let p := poolRunLift c perinst p [waitOf attempts]
      let p := poolRunLift c perinst p (envEvents perinst o)
      poolRunLift c perinst p [.wakeCancelled]
    else
      let p := poolRunLift c perinst p (envEvents perinst o)
      poolRunLift c perinst p [.wait { ctxDone := p.base.startCtxDone, tok := p.base.toks.head?, timerWins := true } true 0]
  poolRun c p (List.replicate p.pending.length (.recvRun 0) ++ [.recvStart])

/-- `Left()` of a never started composite over the segments of an RPS profile, by the model of composite.go (−2: the model would
shift, which an unstarted composite never does) -/
def rpsFreshLeft (rps : List RSeg) : Int :=
  (Pandora.Model.C12Left.freshLeft (rps.map fun sg => match sg with
    | .unlim _ => (-1 : Int)
    | .leaf p => (partFloor p : Int))).getD (-2)

def natList (l : List Nat) : String := ",".intercalate (l.map toString)

/-- how `Engine.Run` returns, where that does not depend on timing (the caller never cancels): the sequential loop of
`Engine.Run` (`engSeq`, = the regenerated `engineRun`) fed with the results of the pools — a pool that failed (an instance could
not be created, its provider / aggregator failed, a gun panicked) returns an error, every other pool returns without error
once it has finished; `none`: not predicted -/
def engineErr (ins obss : List String) : Option String :=
  if ins.any (fun i => getS (parseKV i) "cancel" != "") || ins.length != obss.length then none else
  let failed := obss.map fun o => match parsePairs (getS (parseKV o) "cuts") with
    | some cs => cs.any (fun c => c.1 == "fail" || c.1 == "panic")
    | none => false
  let oks := (failed.filter (!·)).map fun _ => Pandora.Go.C12.EngEv.result true
  let evs := if failed.any id then oks ++ [.result false] else oks
  match (engSeq (obss.length : Int) 0 evs).ret with
  | some .ok => some "nil"
  | some .failed => some "other"
  | _ => none

/-- one pool: (model observation, verdict) -/
def handlePool (input impl : String) (engErr : Option String := none) : String × String :=
  let rps := (parseRps (getS (parseKV input) "rps")).getD []
  match parseParts (getS (parseKV input) "startup"),
      (parseRps (getS (parseKV input) "rps")).bind (fun rps => parseObs (parseKV impl) ((getN? (parseKV input) "ammo").getD 0) rps (getS (parseKV input) "discard" == "1")) with
  | some parts, some o =>
    let perinst := getS (parseKV input) "perinst" == "1"
    let s := replay perinst o
    let ps := poolReplay perinst o
    -- the pool layer must have done to the abstract state what the abstract replay did (refinement), else predict nonsense
    let agree := decide (ps.base.started = s.started) && decide (ps.base.running.length = s.running.length) &&
      ps.base.phase == s.phase
    -- (a pool that never got as far as awaiting the start result — its shared RPS schedule or its warm-up gun could not be
    -- created — cannot have found everything finished: `poolCancelled` needs `startFinished`)
    let allawaited : Int := if !agree then -2 else if o.started.isNone then -1 else if ps.poolCancelled then ps.aw.awaited else -1
    -- the model's number of instances: every token released `margin` before the first cause, none released `margin` after it
    let (lo, hi) := kBounds perinst o
    -- (not when the harness itself was being scheduled badly: its heartbeat overslept by more than `jitterMax`)
    let calm := decide (o.jitter ≤ jitterMax)
    let k := if !calm then o.k else if o.k < lo then lo else if o.k > hi then hi else o.k
    let mids := (s.created.filter (·.ok)).map (·.id)
    let starterr :=
      if s.phase != .done then "loop-not-finished"
      else if s.ret == .create then "other"
      else if o.cuts.isEmpty then "nil"
      else if o.toks.length > o.guns.length then "ctx"
      else o.starterr
    let mobs := " ".intercalate ((parseKV impl).map fun (a, b) =>
      if a == "k" then s!"k={k}" else if a == "mstart" then s!"mstart={k}"
      else if a == "err" then s!"err={engErr.getD b}"
      else if a == "mfin" then s!"mfin={o.exits.length}"
      else if a == "started" then (if o.started.isSome then s!"started={s.started}" else s!"started={b}")
      else if a == "starterr" then (if o.starterr == "?" then s!"starterr={b}" else s!"starterr={starterr}")
      else if a == "ids" then s!"ids={natList mids}"
      else if a == "running" then s!"running={s.running.length}"
      else if a == "allawaited" then s!"allawaited={allawaited}"
      -- `Left()` of the never started RPS profile, through the model of `NewComposite` / `(*compositeSchedule).Left` (`freshLeft` over
      -- what the parts answer: unknown for an unlimited part, else their tokens) where a part of unknown length decides it
      else if a == "rpsl0" && o.rpsunk then s!"rpsl0={rpsFreshLeft rps}"
      else if a == "rpsl0" && o.rpstot ≥ 0 then s!"rpsl0={o.rpstot}"
      else if a == "sul0" then s!"sul0={o.total}"
      else s!"{a}={b}")
    let v := judge parts perinst o
    let v := if v == "ok" && !calm then "skip:inconclusive-harness-scheduled-badly"
             else if v == "ok" && lo != hi then "skip:inconclusive-count-inside-margin" else v
    (mobs, v)
  | none, _ => ("-", "fail:driver:unparsable input")
  | _, none =>
    if impl == "HANG" then ("-", "fail:hang:the engine did not finish (Run + Wait) within the case timeout")
    else if impl.startsWith "PANIC" then ("-", s!"fail:panic:{impl.take 200}")
    else ("-", s!"fail:crash:unparsable observation {impl.take 120}")

/-- an engine of one or several pools (`||`-separated): every pool is judged and replayed on its own — ids, profile and
causes are per pool; the verdict is the first failure, else the first skip, else ok -/
def handle : Handler := fun input impl =>
  let ins := (input.splitOn "||").map fun x => x.trimAscii.toString
  let obss := (impl.splitOn "||").map fun x => x.trimAscii.toString
  if ins.length == obss.length then
    let rs := (ins.zip obss).map fun (i, o) => handlePool i o (engineErr ins obss)
    let mobs := if rs.any (·.1 == "-") then "-" else " || ".intercalate (rs.map (·.1))
    let v := match rs.find? (·.2.startsWith "fail") with
      | some r => r.2
      | none => match rs.find? (·.2.startsWith "skip") with
        | some r => r.2
        | none => "ok"
    (mobs, v)
  else
    -- the whole engine hung or crashed: one observation for all pools
    handlePool (ins.headD "") impl

end Pandora.Drv.C12
