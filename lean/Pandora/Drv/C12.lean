import Pandora.Drv.Util
import Pandora.Model.C12
import Pandora.Spec.C12

namespace Pandora.Drv.C12
open Pandora.Drv Pandora.Model.C12 Pandora.Spec.C12

def parsePart (s : String) : Option Part :=
  match s.splitOn ":" with
  | ["once", n] => do pure (.once (← n.toInt?))
  | ["const", ops, ms] => do pure (.const (← ops.toInt?) (← ms.toInt?))
  | ["step", f, t, st, ms] => do pure (.step (← f.toInt?) (← t.toInt?) (← st.toInt?) (← ms.toInt?))
  | _ => none

def parseParts (s : String) : Option (List Part) := (s.splitOn "+").mapM parsePart

def parsePairs (s : String) : Option (List (String × Int)) :=
  (splitList s).mapM fun p => match p.splitOn ":" with
    | [a, b] => do pure (a, ← b.toInt?)
    | _ => none

def parseObs (kv : List (String × String)) : Option Obs := do
  let binds ← (← parsePairs (getS kv "binds")).mapM fun (a, b) => do pure ((← a.toNat?), b)
  pure { k := ← getN? kv "k", err := getS kv "err", mstart := ← getN? kv "mstart", fails := ← getN? kv "fails",
         total := ← getN? kv "total", toks := ← parseInts (getS kv "toks"), ctoks := ← parseInts (getS kv "ctoks"),
         binds, exits := ← parseInts (getS kv "exits"), cuts := ← parsePairs (getS kv "cuts") }

def handle : Handler := fun input impl =>
  match parseParts (getS (parseKV input) "startup"), parseObs (parseKV impl) with
  | some parts, some o =>
    -- the model's number of instances: every token released `margin` before the first cause, none released `margin` after it
    let perinst := getS (parseKV input) "perinst" == "1"
    let (lo, hi) := kBounds perinst o
    let k := if o.k < lo then lo else if o.k > hi then hi else o.k
    let mobs := " ".intercalate ((parseKV impl).map fun (a, b) =>
      if a == "k" then s!"k={k}" else if a == "mstart" then s!"mstart={k}" else s!"{a}={b}")
    let v := judge parts perinst o
    let v := if v == "ok" && lo != hi then "skip:inconclusive-count-inside-margin" else v
    (mobs, v)
  | none, _ => ("-", "fail:driver:unparsable input")
  | _, none => ("-", s!"fail:crash:unparsable observation {impl.take 120}")

end Pandora.Drv.C12
