import Pandora.Drv.Util
import Pandora.Spec.C20
import Pandora.Model.C20Net

namespace Pandora.Drv.C20
open Pandora.Drv Pandora.Model.C20 Pandora.Model.C20Conc Pandora.Spec.C20

def cut (s : String) (sep : Char) : String × String := cutAt s sep

def parsePairs (s : String) : List (String × String) :=
  (splitList s ",").map fun p => cut p ':'

def parseVal (tok : String) : PVal :=
  let (kind, body) := cut tok '.'
  pvalOf kind (dec body)

def nth (l : List String) (n : Nat) : String := l.getD n ""

def parseEntry (e : String) : Entry :=
  let p := e.splitOn "|"
  { tag := dec (nth p 0), call := dec (nth p 1),
    md := (parsePairs (nth p 2)).map fun (k, v) => (dec k, dec v),
    payload := (parsePairs (nth p 3)).map fun (k, v) => (dec k, parseVal v) }

/-- the JSON line the harness writes for an entry: with `oe=1` an entry without metadata / payload has no such key -/
def lineOf (omitEmpty : Bool) (e : Entry) : Line :=
  { tag := some e.tag, call := some e.call,
    md := if omitEmpty && e.md.isEmpty then none else some e.md,
    payload := if omitEmpty && e.payload.isEmpty then none else some e.payload }

/-- the ammo objects the provider delivers for the lines of a file, through the model of `grpcjson.decodeAmmo`: every
line is delivered in an object that still holds the PREVIOUS line's content (the worst the pool can do) -/
def deliver (omitEmpty : Bool) (es : List Entry) : List Entry :=
  (es.foldl (fun (st : Entry × List Entry) e =>
    let cur := decodeAmmo st.1 (lineOf omitEmpty e)
    (cur, cur :: st.2)) (zeroEntry, [])).2.reverse

def parseCall (c : String) : CallDef :=
  let p := c.splitOn "|"
  { name := nth p 0, call := dec (nth p 1),
    md := (parsePairs (nth p 2)).map fun (k, v) => (dec k, parseTmpl (dec v)),
    payload := (parsePairs (nth p 3)).map fun (k, v) =>
      let (kind, body) := cut v '.'
      (dec k, kind, parseTmpl (dec body)),
    pre := nth p 4 == "u" }

/-- `sleep<ms>`: the scenario's `sleep(ms)` pseudo request — time only, nothing on the wire -/
def isSleep (r : String) : Bool :=
  r.startsWith "sleep" && (r.toList.drop 5).all Char.isDigit && r.length > 5

def parseScn (s : String) : ScenDef :=
  let p := s.splitOn ":"
  { name := nth p 0, weight := (nth p 1).toNat?.getD 0,
    reqs := ((splitList (nth p 2) "+").filter (fun r => !isSleep r)).flatMap fun r =>
      let (name, cnt) := cut r '*'
      List.replicate (if cnt.isEmpty then 1 else cnt.toNat?.getD 1) name }

/-- configured timeout in ms: `tmoms=` if present, else `tmo=` seconds -/
def parseTmo (kv : List (String × String)) : Nat :=
  match getN? kv "tmoms" with
  | some ms => ms
  | none => ((getN? kv "tmo").getD 0) * 1000

def parseCfg (kv : List (String × String)) : Cfg :=
  { tmo := parseTmo kv,
    users := (splitList (getS kv "users")).map dec,
    g := dec (getS kv "g"),
    calls := (splitList (getS kv "calls") ";").map parseCall,
    scns := (splitList (getS kv "scns") ";").map parseScn }

def parseSched (s : String) : List Nat := s.toList.map fun c => c.toNat - 48

def hasOther (es : List Entry) : Bool := es.any fun e => e.payload.any fun (_, v) => match v with | .other => true | _ => false

/-- values whose treatment by the JSON → message library is not recorded in the model: numeric-looking texts that are
not canonical literals (`05`, `+5`) given to an int64 field (or as a bare JSON number) -/
def hasOddNumeric (es : List Entry) : Bool := es.any fun e =>
  let fs := ((lookupMethod e.call).map (·.2)).getD []
  e.payload.any fun (k, v) =>
    let isInt := match findField fs k with
      | some f => f.kind == FKind.i64
      | none => false
    match v with
    | .s t => isInt && oddNumeric t
    | .n t => oddNumeric t
    | _ => false

def hasDup (l : List String) : Bool :=
  match l with
  | [] => false
  | x :: xs => xs.contains x || hasDup xs

/-- two payload keys naming the same field, or two metadata keys equal up to case (the library / transport decides
which value wins, in map order) -/
def hasDupKeys (es : List Entry) : Bool := es.any fun e =>
  hasDup (e.md.map (·.1.toLower)) ||
  (match lookupMethod e.call with
   | some (_, fs) => hasDup (e.payload.map fun (k, _) => ((findField fs k).map (·.name)).getD ("?" ++ k))
   | none => false)

/-- variable texts are spliced into the JSON text of the payload by `text/template` unescaped: texts that need JSON
escaping are outside the model -/
def plainText (s : String) : Bool := s.toList.all fun c => c != '"' && c != '\\' && c.toNat ≥ 32

def inconclusive (impl : String) : Bool := (impl.splitOn "|dl?").length > 1

/-- a call that took implausibly long to arrive is printed with `dl?<s>` by the recorder: give it the benefit of the
doubt on the deadline ONLY — substitute the expected deadline and judge everything else (counts, method, message,
metadata, samples) as usual -/
def fixDl (tmo : Nat) (impl : String) : String :=
  match impl.splitOn "|dl?" with
  | [] => impl
  | h :: rest => h ++ String.join (rest.map fun p => "|" ++ dlText tmo ++ String.ofList (p.toList.dropWhile Char.isDigit))

def handleCore : Handler := fun input impl =>
  let kv := parseKV input
  -- the in-process server could not be started (no free port on a busy machine): nothing was observed
  if impl.startsWith "ENV" then ("-", "skip:environment") else
  match getS kv "mode" with
  | "table" => (tableText, if impl == tableText then "ok" else "fail:method-table:the reflected method table differs from the model's")
  | "json" =>
    let es := deliver (getS kv "oe" == "1") ((splitList (getS kv "e") ";").map parseEntry)
    if hasOther es || hasOddNumeric es then ("-", "skip:unmodelled-value") else
    if hasDupKeys es then ("-", "skip:duplicate-keys") else
    let tmo := parseTmo kv
    if getS kv "run" == "sched" then
      let n := (getN? kv "n").getD 1
      let sc := (getN? kv "sc").getD 0
      let sched := parseSched (getS kv "sched")
      if sched.any (· ≥ n) then ("-", "skip:bad-schedule") else
      -- model: the pool of n instances bound the way `Bind` does it, entry k fired by instance sched[k]
      let (_, tr) := runPool tmo (initPool n sc) sched es
      let modelObs := traceText (tr.map fun (g, _, o) => (g, o)) ++ " conns=" ++ toString (connsUsed tr)
      (modelObs, judgeTrace (expectedJsonSched tmo sched es) impl)
    else
    -- model: every instance fires its share one entry at a time; the multiset does not depend on the split
    let (_, outs) := shootAll tmo { shots := 0 } es
    let (mc, ms) := multisetText outs
    let exp := expectedEntries tmo es
    ("run=- calls=" ++ mc ++ " samples=" ++ ms, judgeMultiset (exp.flatMap (·.calls)) (exp.flatMap (·.samples)) impl)
  | "scen" =>
    let c := parseCfg kv
    if !(namesDistinct c.calls) then ("-", "skip:duplicate-call-names") else
    if !(c.users.all plainText && plainText c.g) then ("-", "skip:unmodelled-variable-text") else
    if getS kv "run" == "engine" then
      ("-", judgeEngineScen c ((getN? kv "n").getD 1) ((getN? kv "shots").getD 0) impl)
    else
      let sched := parseSched (getS kv "sched")
      match expectedSched c sched 0 [] [] with
      | none => ("-", "skip:outside-modelled-fragment")
      | some exp =>
        let verdict := judgeTrace exp impl
        let modelObs := match runSched .copy c sched 0 (initWorld c) [] with
          | .inl (some tr) => traceText tr
          | _ => "-"
        if verdict == "ok" then (modelObs, verdict) else
        -- diagnostic: does the implementation behave like the in-place model (the code as written)?
        let inPlace := match runSched .inPlace c sched 0 (initWorld c) [] with
          | .inl (some tr) => traceText tr
          | _ => "-"
        (modelObs, verdict ++ (if inPlace == impl then " [observation equals the in-place (shared map) model]" else ""))
  | _ => ("-", "fail:driver:unknown mode")

/-- the model's count of calls that reach the separate reflection endpoint: the pool of `n` instances bound with a shared
client pool of `sc`, every entry fired by the scheduled instance through that instance's stub (`stubAddr`) -/
def modelStray (kv : List (String × String)) : Nat :=
  let net : Net := { target := "127.0.0.1:1", reflectPort := 2 }
  let n := (getN? kv "n").getD 1
  let sc := if getS kv "mode" == "json" then (getN? kv "sc").getD 0 else 0
  let es := (splitList (getS kv "e") ";").map parseEntry
  let sched := if getS kv "run" == "sched" then parseSched (getS kv "sched") else es.map fun _ => 0
  strayCalls net sc (runPool (parseTmo kv) (initPool n sc) sched es).2

/-- with `rp=1` the observation ends with ` stray=<n>`: the model predicts its own count (0: every stub is dialled to the
target, `C20_target`), the Spec demands 0 -/
def handleNet : Handler := fun input impl =>
  let kv := parseKV input
  let (modelObs, verdict) := handleCore input impl
  if getS kv "rp" == "1" && getS kv "mode" != "table" && !(impl.startsWith "ENV") then
    let m := if modelObs == "-" then "-" else modelObs ++ " stray=" ++ toString (modelStray kv)
    match judgeStray impl with
    | some f => if crashKey impl |>.isSome then (m, verdict) else (m, f)
    | none =>
      if (verdict == "ok" || verdict.startsWith "skip:") && Spec.C20.kvGet impl "stray" != "0" && (crashKey impl).isNone then
        (m, "fail:driver:no stray count in the observation")
      else (m, verdict)
  else (modelObs, verdict)

def handle : Handler := fun input impl =>
  if inconclusive impl then
    -- judged with the expected deadline substituted: a failure of anything else is still a failure
    let (_, verdict) := handleNet input (fixDl (parseTmo (parseKV input)) impl)
    if verdict == "ok" then ("-", "skip:inconclusive-deadline") else ("-", verdict)
  else handleNet input impl

end Pandora.Drv.C20
