import Pandora.Drv.Util
import Pandora.Spec.C20

namespace Pandora.Drv.C20
open Pandora.Drv Pandora.Model.C20 Pandora.Model.C20Conc Pandora.Spec.C20

def cut (s : String) (sep : Char) : String × String := cutAt s sep

def parsePairs (s : String) : List (String × String) :=
  (splitList s ",").map fun p => cut p ':'

def parseVal (tok : String) : PVal :=
  let (kind, body) := cut tok '.'
  pvalOf kind (dec body)

def nth (l : List String) (n : Nat) : String := l.getD n ""

def parseEntry (e : String) : Entry :=
  let p := e.splitOn "|"
  { tag := dec (nth p 0), call := dec (nth p 1),
    md := (parsePairs (nth p 2)).map fun (k, v) => (dec k, dec v),
    payload := (parsePairs (nth p 3)).map fun (k, v) => (dec k, parseVal v) }

def parseCall (c : String) : CallDef :=
  let p := c.splitOn "|"
  { name := nth p 0, call := dec (nth p 1),
    md := (parsePairs (nth p 2)).map fun (k, v) => (dec k, parseTmpl (dec v)),
    payload := (parsePairs (nth p 3)).map fun (k, v) =>
      let (kind, body) := cut v '.'
      (dec k, kind, parseTmpl (dec body)),
    pre := nth p 4 == "u" }

def parseScn (s : String) : ScenDef :=
  let p := s.splitOn ":"
  { name := nth p 0, weight := (nth p 1).toNat?.getD 0,
    reqs := (splitList (nth p 2) "+").flatMap fun r =>
      let (name, cnt) := cut r '*'
      List.replicate (if cnt.isEmpty then 1 else cnt.toNat?.getD 1) name }

def parseCfg (kv : List (String × String)) : Cfg :=
  { tmo := (getN? kv "tmo").getD 0,
    users := (splitList (getS kv "users")).map dec,
    g := dec (getS kv "g"),
    calls := (splitList (getS kv "calls") ";").map parseCall,
    scns := (splitList (getS kv "scns") ";").map parseScn }

def parseSched (s : String) : List Nat := s.toList.map fun c => c.toNat - 48

def hasOther (es : List Entry) : Bool := es.any fun e => e.payload.any fun (_, v) => match v with | .other => true | _ => false

def handle : Handler := fun input impl =>
  let kv := parseKV input
  match getS kv "mode" with
  | "table" => (tableText, if impl == tableText then "ok" else "fail:method-table:the reflected method table differs from the model's")
  | "json" =>
    let es := (splitList (getS kv "e") ";").map parseEntry
    if hasOther es then ("-", "skip:unmodelled-value") else
    let tmo := (getN? kv "tmo").getD 0
    -- model: every instance fires its share one entry at a time; the multiset does not depend on the split
    let (_, outs) := shootAll tmo { shots := 0 } es
    let (mc, ms) := multisetText outs
    let exp := expectedEntries tmo es
    ("run=- calls=" ++ mc ++ " samples=" ++ ms, judgeMultiset (exp.flatMap (·.calls)) (exp.flatMap (·.samples)) impl)
  | "scen" =>
    let c := parseCfg kv
    if getS kv "run" == "engine" then
      ("-", judgeEngineScen c ((getN? kv "shots").getD 0) impl)
    else
      let sched := parseSched (getS kv "sched")
      match expectedSched c sched 0 [] [] with
      | none => ("-", "skip:outside-modelled-fragment")
      | some exp =>
        let verdict := judgeTrace exp impl
        let modelObs := match runSched .copy c sched 0 (initWorld c) [] with
          | .inl (some tr) => traceText tr
          | _ => "-"
        if verdict == "ok" then (modelObs, verdict) else
        -- diagnostic: does the implementation behave like the in-place model (the code as written)?
        let inPlace := match runSched .inPlace c sched 0 (initWorld c) [] with
          | .inl (some tr) => traceText tr
          | _ => "-"
        (modelObs, verdict ++ (if inPlace == impl then " [observation equals the in-place (shared map) model]" else ""))
  | _ => ("-", "fail:driver:unknown mode")

end Pandora.Drv.C20
