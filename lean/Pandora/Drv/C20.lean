import Pandora.Drv.Util
import Pandora.Spec.C20
import Pandora.Model.C20Net
import Pandora.Model.C20Feed
import Pandora.Model.C20Pool
import Pandora.Model.C20Expand

namespace Pandora.Drv.C20
open Pandora.Drv Pandora.Model.C20 Pandora.Model.C20Conc Pandora.Spec.C20

def cut (s : String) (sep : Char) : String × String := cutAt s sep

def parsePairs (s : String) : List (String × String) :=
  (splitList s ",").map fun p => cut p ':'

def parseVal (tok : String) : PVal :=
  let (kind, body) := cut tok '.'
  pvalOf kind (dec body)

def nth (l : List String) (n : Nat) : String := l.getD n ""

def parseEntry (e : String) : Entry :=
  let p := e.splitOn "|"
  { tag := dec (nth p 0), call := dec (nth p 1),
    md := (parsePairs (nth p 2)).map fun (k, v) => (dec k, dec v),
    payload := (parsePairs (nth p 3)).map fun (k, v) => (dec k, parseVal v) }

/-- the JSON line the harness writes for an entry: with `oe=1` an entry without metadata / payload has no such key -/
def lineOf (omitEmpty : Bool) (e : Entry) : Line :=
  { tag := some e.tag, call := some e.call,
    md := if omitEmpty && e.md.isEmpty then none else some e.md,
    payload := if omitEmpty && e.payload.isEmpty then none else some e.payload }

/-- an upper bound of the length of the JSON line the harness writes for an entry (JSON escaping counted per byte)
and the length of its longest single text (a lower bound of the line's length) -/
def lineBounds (e : Entry) : Nat × Nat :=
  let texts : List String := [e.tag, e.call] ++ e.md.flatMap (fun (k, v) => [k, v]) ++
    e.payload.flatMap (fun (k, v) => [k, match v with | .s t => t | .n t => t | .f t => t | .b t => t | _ => ""])
  let cost := fun (c : Char) => if c = '"' || c = '\\' then 2 else if c = '<' || c = '>' || c = '&' || c.toNat < 32 || c.toNat ≥ 127 then 6 else 1
  let total := texts.foldl (fun a t => t.toList.foldl (fun b c => b + cost c) a) 0
  let longest := texts.foldl (fun a t => max a t.length) 0
  (total + 200 + 16 * texts.length, longest)

/-- the lines of the ammo file as the provider's scanner and decoder see them: `!<k>` is a line that cannot be decoded;
a line certainly longer than the scanner's buffer (`mas`, 64 KiB by default) is `long`; `none` = a line whose length
is too close to the buffer's for the model to tell -/
def rawsOf (omitEmpty : Bool) (mas : Nat) (toks : List String) : Option (List Raw) :=
  let maxTok := if mas == 0 then 65536 else mas
  toks.mapM fun tok =>
    if tok.startsWith "!" then some Raw.bad else
    let e := parseEntry tok
    let (upper, longest) := lineBounds e
    if longest ≥ maxTok then some Raw.long
    else if upper < maxTok then some (Raw.line (lineOf omitEmpty e))
    else none

def provCfgOf (kv : List (String × String)) : ProvCfg :=
  -- pas=d: `passes` is not written at all: the provider's default, 0 = unlimited
  { passes := if getS kv "pas" == "d" then 0 else (getN? kv "pas").getD 1, limit := (getN? kv "lim").getD 0,
    chosen := (splitList (getS kv "cc")).map dec, coe := getS kv "coe" == "1" }

/-- the shared client pool's effective size: `sc` clients when `sc > 0` (the harness enables the pool), `sce=1` enables
it whatever `sc` says -/
def clientsOf (kv : List (String × String)) : Nat :=
  let sc : Int := (getS kv "sc").toInt?.getD 0
  effClients (sc > 0 || getS kv "sce" == "1") sc

/-- the preprocessor field of a call: `u` = `[next]`, `uu` = two preprocessors (`[next]` first: the first definition of a
variable wins), `uL` = `[last]`, `u<d>` = `[<d>]`, `um<d>` = `[-<d>]`; anything else: no preprocessor -/
def parsePre (f : String) : Bool × Idx :=
  let cs := f.toList
  let num := fun (ds : List Char) => ds.foldl (fun a d => a * 10 + (d.toNat - 48)) 0
  if f == "u" || f == "uu" then (true, .next)
  else if f == "uL" then (true, .last)
  else match cs with
    | 'u' :: 'm' :: ds => if !ds.isEmpty && ds.all Char.isDigit then (true, .neg (num ds)) else (false, .next)
    | 'u' :: ds => if !ds.isEmpty && ds.all Char.isDigit then (true, .fixed (num ds)) else (false, .next)
    | _ => (false, .next)

def parseCall (c : String) : CallDef :=
  let p := c.splitOn "|"
  { name := nth p 0, call := dec (nth p 1),
    md := (parsePairs (nth p 2)).map fun (k, v) => (dec k, parseTmpl (dec v)),
    payload := (parsePairs (nth p 3)).map fun (k, v) =>
      let (kind, body) := cut v '.'
      (dec k, kind, parseTmpl (dec body)),
    pre := (parsePre (nth p 4)).1,
    idx := (parsePre (nth p 4)).2,
    assert := if (nth p 5).startsWith "a" then (String.ofList ((nth p 5).toList.drop 1)).toNat?.getD 0 else 0,
    -- seventh field `T<text>`: the call's tag as written (possibly empty, possibly shared); absent: `t<name>`
    tag := if (nth p 6).startsWith "T" then dec (String.ofList ((nth p 6).toList.drop 1)) else "t" ++ nth p 0 }

/-- `sleep<ms>`: the scenario's `sleep(ms)` pseudo request — time only, nothing on the wire -/
def isSleep (r : String) : Bool :=
  r.startsWith "sleep" && (r.toList.drop 5).all Char.isDigit && r.length > 5

/-- one entry of a scenario's `requests` as the harness writes it: `name`, `name*cnt`, `name*cnt_ms` (the three-part form
name(cnt, sleep)), `sleep<ms>` (the pseudo request sleep(ms)) -/
def parseShoot (r : String) : Shoot :=
  if isSleep r then { name := "sleep", cnt := ((String.ofList (r.toList.drop 5)).toNat?.getD 0 : Nat) }
  else
    let (name, cnt) := cut r '*'
    let (c, ms) := cut cnt '_'
    { name := name, cnt := if c.isEmpty then 1 else c.toInt?.getD 1, sleep := if ms.isEmpty then 0 else ms.toInt?.getD 0 }

/-- the scenario's steps: the model's expansion of its request list (`Model.expandReqs` = `convertScenarioToAmmo`); an
unknown name is kept (the run is then outside the modelled fragment: `resolveReqs`), a rejected list gives no steps (the
configuration error is predicted by `scnError`) -/
def parseScn (known : String → Bool) (s : String) : ScenDef :=
  let p := s.splitOn ":"
  let shoots := (splitList (nth p 2) "+").map parseShoot
  { name := nth p 0, weight := (nth p 1).toNat?.getD 0,
    reqs := match expandReqs (fun _ => true) shoots [] with
      | .ok steps => steps.map (·.1)
      | .error _ => [] }

/-- the configuration error the scenario provider must answer a request list with, if any (first scenario first) -/
def scnError (kv : List (String × String)) : Option String :=
  ((splitList (getS kv "scns") ";").findSome? fun s =>
    match expandReqs (fun _ => true) ((splitList (nth (s.splitOn ":") 2) "+").map parseShoot) [] with
    | .error .leadingSleep => some "scenario-leading-sleep"
    | .error .tooMany => some "scenario-too-many-requests"
    | _ => none)

/-- configured timeout in ms: `tmoms=` if present, else `tmo=` seconds -/
def parseTmo (kv : List (String × String)) : Nat :=
  match getN? kv "tmoms" with
  | some ms => ms
  | none => ((getN? kv "tmo").getD 0) * 1000

def parseCfg (kv : List (String × String)) : Cfg :=
  { tmo := parseTmo kv,
    users := (splitList (getS kv "users")).map dec,
    g := dec (getS kv "g"),
    -- the provider's registry keeps the LAST definition of a name (`C20_registry`)
    calls := registry ((splitList (getS kv "calls") ";").map parseCall),
    scns := (splitList (getS kv "scns") ";").map (parseScn fun _ => true),
    gn := if getS kv "gn" == "" then none else some (getS kv "gn") }

def parseSched (s : String) : List Nat := s.toList.map fun c => c.toNat - 48

def hasOther (es : List Entry) : Bool := es.any fun e => e.payload.any fun (_, v) => match v with | .other => true | _ => false

/-- values whose treatment by the JSON → message library is not recorded in the model: numeric-looking texts that are
not canonical literals (`05`, `+5`) given to an int64 field (or as a bare JSON number) -/
def hasOddNumeric (es : List Entry) : Bool := es.any fun e =>
  let fs := ((lookupMethod e.call).map (·.2)).getD []
  e.payload.any fun (k, v) =>
    let isInt := match findField fs k with
      | some f => f.kind == FKind.i64
      | none => false
    match v with
    | .s t => isInt && oddNumeric t
    | .n t => oddNumeric t
    | _ => false

def hasDup (l : List String) : Bool :=
  match l with
  | [] => false
  | x :: xs => xs.contains x || hasDup xs

/-- two payload keys naming the same field, or two metadata keys equal up to case (the library / transport decides
which value wins, in map order) -/
def hasDupKeys (es : List Entry) : Bool := es.any fun e =>
  hasDup (e.md.map (·.1.toLower)) ||
  (match lookupMethod e.call with
   | some (_, fs) => hasDup (e.payload.map fun (k, _) => ((findField fs k).map (·.name)).getD ("?" ++ k))
   | none => false)

/-- variable texts are spliced into the JSON text of the payload by `text/template` unescaped: texts that need JSON
escaping are outside the model -/
def plainText (s : String) : Bool := s.toList.all fun c => c != '"' && c != '\\' && c.toNat ≥ 32

def inconclusive (impl : String) : Bool := (impl.splitOn "|dl?").length > 1

/-- a call that took implausibly long to arrive is printed with `dl?<s>` by the recorder: give it the benefit of the
doubt on the deadline ONLY — substitute the expected deadline and judge everything else (counts, method, message,
metadata, samples) as usual -/
def fixDl (tmo : Nat) (impl : String) : String :=
  match impl.splitOn "|dl?" with
  | [] => impl
  | h :: rest => h ++ String.join (rest.map fun p => "|" ++ dlText tmo ++ String.ofList (p.toList.dropWhile Char.isDigit))

def handleCore : Handler := fun input impl =>
  let kv := parseKV input
  -- the in-process server could not be started (no free port on a busy machine): nothing was observed
  if impl.startsWith "ENV" then ("-", "skip:environment") else
  match getS kv "mode" with
  | "table" => (tableText, if impl == tableText then "ok" else "fail:method-table:the reflected method table differs from the model's")
  | "json" =>
    let cfg := provCfgOf kv
    if cfg.passes == 0 && cfg.limit == 0 then ("-", "skip:unbounded-feed") else
    match rawsOf (getS kv "oe" == "1") ((getN? kv "mas").getD 0) (splitList (getS kv "e") ";") with
    | none => ("-", "skip:line-length-near-the-buffer")
    | some raws =>
    -- model: the provider's reading loop (passes, limit, chosen cases, continueonerror), every line decoded into a pooled
    -- object that still holds the previously delivered ammo
    -- `dirty=<k>`: the pool already holds used objects (rich earlier entries, every other one flagged invalid): the loop over
    -- pooled OBJECTS with that oracle (`C20_pool_oracle`: the oracle makes no difference)
    let (es, stop) := if (getN? kv "dirty").getD 0 > 0 then
        let r := feedO cfg dirtyObj raws
        (r.1.map (·.e), r.2)
      else feed cfg raws
    if hasOther es || hasOddNumeric es then ("-", "skip:unmodelled-value") else
    if hasDupKeys es then ("-", "skip:duplicate-keys") else
    let tmo := parseTmo kv
    let sc := clientsOf kv
    if getS kv "run" == "sched" then
      let n := (getN? kv "n").getD 1
      let sched := parseSched (getS kv "sched")
      if sched.any (· ≥ n) then ("-", "skip:bad-schedule") else
      -- model: the pool of n instances bound the way `Bind` does it, entry k fired by instance sched[k]
      let (_, tr) := runPool tmo (initPool n sc) sched es
      let outOfAmmo := sched.length > es.length
      let modelObs := traceText (tr.map fun (g, _, o) => (g, o)) ++
        (if outOfAmmo then (if tr.isEmpty then "out-of-ammo" else ";out-of-ammo") else "") ++
        " conns=" ++ toString (connsUsed tr) ++ (if outOfAmmo then " perr=" ++ stopText stop else "")
      -- spec: the stateless description of the feed when the provider runs to its end, else the model's
      (modelObs, judgeFeedTrace (expectedJsonSched tmo sched (specFeed cfg raws es)) outOfAmmo (stopText stop) impl)
    else
    if stop != Stop.none then ("-", "skip:provider-stops-under-the-engine") else
    -- model: every instance fires its share one entry at a time; the multiset does not depend on the split
    let (_, outs) := shootAll tmo { shots := 0 } es
    let (mc, ms) := multisetText outs
    let exp := expectedEntries tmo (specFeed cfg raws es)
    ("run=- calls=" ++ mc ++ " samples=" ++ ms, judgeMultiset (exp.flatMap (·.calls)) (exp.flatMap (·.samples)) impl)
  | "scen" =>
    let c := parseCfg kv
    -- a request list `convertScenarioToAmmo` rejects (a pause before any step, more than MaxScenarioRequests steps): the
    -- provider's constructor must fail with that error
    match scnError kv with
    | some why =>
      let m := "setup=" ++ why
      (m, if impl == m then "ok" else "fail:setup:expected the configuration error " ++ why ++ ", got " ++ String.ofList (impl.toList.take 80))
    | none =>
    if !(c.users.all plainText && plainText c.g) then ("-", "skip:unmodelled-variable-text") else
    if getS kv "run" == "engine" then
      ("-", judgeEngineScen c ((getN? kv "n").getD 1) ((getN? kv "shots").getD 0) impl)
    else
      let asked := parseSched (getS kv "sched")
      -- the scenario provider's own passes / limit (`spas`, `slim`): how many of the shots asked for it delivers
      let delivered := (scenRun (ammoList c).length ((getN? kv "spas").getD 0) ((getN? kv "slim").getD 0) asked.length 0).length
      let outOfAmmo := delivered < asked.length
      let sched := asked.take delivered
      match expectedSched c sched 0 [] [] with
      | none => ("-", "skip:outside-modelled-fragment")
      | some exp =>
        let verdict := judgeFeedTrace exp outOfAmmo "" impl
        let modelObs := match runSched .copy c sched 0 (initWorld c) [] with
          | .inl (some tr) => traceText tr ++ (if outOfAmmo then (if tr.isEmpty then "out-of-ammo" else ";out-of-ammo") else "")
          | _ => "-"
        if verdict == "ok" then (modelObs, verdict) else
        -- diagnostic: does the implementation behave like the in-place model (the code as written)?
        let inPlace := match runSched .inPlace c sched 0 (initWorld c) [] with
          | .inl (some tr) => traceText tr ++ (if outOfAmmo then (if tr.isEmpty then "out-of-ammo" else ";out-of-ammo") else "")
          | _ => "-"
        (modelObs, verdict ++ (if inPlace == impl then " [observation equals the in-place (shared map) model]" else ""))
  | _ => ("-", "fail:driver:unknown mode")

/-- the gun's target option as the harness writes it (`tf=`: the same endpoint in the forms gRPC accepts; `b` / `c`: a
host without a port) and the text under which the reflection endpoint (same host, port `rp`) can be dialled -/
def targetForm (tf port : String) : String :=
  match tf with
  | "1" => "localhost:" ++ port
  | "2" => "dns:///127.0.0.1:" ++ port
  | "3" => "passthrough:///127.0.0.1:" ++ port
  | "6" => "[::1]:" ++ port
  | "b" => "127.0.0.1"
  | "c" => "[::1]"
  | _ => "127.0.0.1:" ++ port

def reflForm (tf port : String) : String :=
  match tf with
  | "b" => "127.0.0.1:" ++ port
  | "c" => "[::1]:" ++ port
  | _ => targetForm tf port

/-- the model's `replacePort` sends the reflection request of a gun whose target is written in form `tf` to the reflection
endpoint (checked for every generated form by `example`s in Props/C20.lean) -/
def reflReachable (tf : String) : Bool := replacePort (targetForm tf "1111") 2222 == reflForm tf "2222"

/-- the model's count of calls that reach the separate reflection endpoint: the pool of `n` instances bound with a shared
client pool of `sc`, every entry fired by the scheduled instance through that instance's stub (`stubAddr`) -/
def modelStray (kv : List (String × String)) : Nat :=
  let net : Net := { target := targetForm (getS kv "tf") "1", reflectPort := 2 }
  let n := (getN? kv "n").getD 1
  let sc := if getS kv "mode" == "json" then clientsOf kv else 0
  let es := (splitList (getS kv "e") ";").map parseEntry
  let sched := if getS kv "run" == "sched" then parseSched (getS kv "sched") else es.map fun _ => 0
  strayCalls net sc (runPool (parseTmo kv) (initPool n sc) sched es).2

/-- with `rp=1` the observation ends with ` stray=<n>`: the model predicts its own count (0: every stub is dialled to the
target, `C20_target`), the Spec demands 0 -/
def handleNet : Handler := fun input impl =>
  let kv := parseKV input
  let (modelObs, verdict) := handleCore input impl
  if getS kv "rp" == "1" && !(reflReachable (getS kv "tf")) then ("-", "skip:model-sends-reflection-elsewhere") else
  if getS kv "rp" == "1" && getS kv "mode" != "table" && !(impl.startsWith "ENV") then
    let m := if modelObs == "-" then "-" else modelObs ++ " stray=" ++ toString (modelStray kv)
    match judgeStray impl with
    | some f => if crashKey impl |>.isSome then (m, verdict) else (m, f)
    | none =>
      if (verdict == "ok" || verdict.startsWith "skip:") && Spec.C20.kvGet impl "stray" != "0" && (crashKey impl).isNone then
        (m, "fail:driver:no stray count in the observation")
      else (m, verdict)
  else (modelObs, verdict)

def handle : Handler := fun input impl =>
  if inconclusive impl then
    -- judged with the expected deadline substituted: a failure of anything else is still a failure
    let (_, verdict) := handleNet input (fixDl (parseTmo (parseKV input)) impl)
    if verdict == "ok" then ("-", "skip:inconclusive-deadline") else ("-", verdict)
  else handleNet input impl

end Pandora.Drv.C20
