/-
C05 driver: replays the pool model (`Pandora.Model.C05`, REPAIRED variant) on the order in which the real
`awaitRun` consumed results (the engine's own Debug log) and predicts what the harness observed: the result of
every `Pool.Run`, its log lines, the await log including the derived lines (`c` start cancelled on out of ammo,
`a` all instances awaited, `x` error suppressed, `w` wait finished), created guns and their Close counts, and
through the engine loop the result of `Engine.Run`. Environment choices (component returns, startup ticks, the
caller's cancel, the end of the shared schedule) are filled in on demand; every inserted choice must be ENABLED
in the model (a step that does not change the state is a rejection), so an order or a branch the model cannot
take shows up as `rejected:…`.
-/
import Pandora.Drv.Util
import Pandora.Model.C05Pool
import Pandora.Model.C05Cli
import Pandora.Model.C05Prov
import Pandora.Spec.C05

namespace Pandora.Drv.C05
open Pandora.Drv Pandora.Model.C05 Pandora.Spec.C05

def cfg : Cfg := Cfg.repaired

def errId : String → ErrId
  | "prov" => 1 | "agg" => 2 | "newgun" => 3 | "bind" => 4 | "warmup" => 5 | "sched" => 6 | "panic" => 7 | _ => 99

def errName : ErrId → String
  | 1 => "prov" | 2 => "agg" | 3 => "newgun" | 4 => "bind" | 5 => "warmup" | 6 => "sched" | 7 => "panic" | _ => "unknown"

def parseRet (v : String) : Option Ret :=
  if v == "ok" then some .ok else if v == "ctx" then some .ctx else if v == "ooa" then some .ooa
  else (errOfToken ("." ++ v)).map fun c => .err (errId c)

def retStr : Ret → String
  | .ok => "ok" | .ctx => "ctx" | .ooa => "ooa" | .err e => "e." ++ errName e

def wrapStr : Wrap → String
  | .provider => "provider" | .aggregator => "aggregator" | .start => "start" | .instance _ => "instance"
  | .warmup => "warmup" | .newgun => "newgun" | .raw => "raw"

/-- replay state: the model state, the predicted log lines (reversed), whether the caller's cancel may be inserted -/
structure R where
  s : State
  aw : List String := []
  main : List String := []
  allowExt : Bool

abbrev M := Except String

/-- fire a choice that must be enabled; `log` = the await goroutine's own log lines of this step, which precede
the derived ones (`a` = `checkAllInstancesAreFinished` fired, `w` = the await loop ended) -/
def fire (r : R) (c : Choice) (what : String) (log : List String := []) : M R :=
  let s' := step cfg r.s c
  if s' == r.s then .error s!"rejected:{what}" else
  if s'.panicked then .error s!"model-panic:{what}" else
  let aw := log.reverse ++ r.aw
  let aw := if r.s.runResOpen && !s'.runResOpen then "a" :: aw else aw
  let aw := if r.s.aw != .finished && s'.aw == .finished then "w" :: aw else aw
  .ok { r with s := s', aw := aw }

def extCancel (r : R) (why : String) : M R :=
  if r.s.extC then .ok r
  else if r.allowExt then fire r .extCancel "extCancel" else .error s!"rejected:{why}-needs-a-cancel"

/-- make `runC` true if the value is the context error -/
def needRunC (r : R) (v : Ret) (why : String) : M R :=
  if v == .ctx && !r.s.runC then extCancel r why else .ok r

def newOut (p : PoolIn) (v : Ret) : NewOut :=
  match v with
  | .err 3 => .gunFail 3
  | .err 4 => .bindFail 4 p.closable
  | .err 6 => .schedFail 6
  | _ => .ok p.closable

def spawnTo (p : PoolIn) (n : Nat) (r : R) : Nat → M R
  | 0 => if r.s.spawned < n then .error "rejected:spawn" else .ok r
  | fuel + 1 =>
    if r.s.spawned ≥ n then .ok r else do
      let r ← if r.s.spawned == 0 then fire r (.startFirst (.ok p.closable)) "startFirst" else fire r .startTick "startTick"
      spawnTo p n r fuel

/-- after an await step: the error branch (`onErrAwaited`) is resolved by the next log line -/
def resolveErr (r : R) (rest : List String) : M (R × List String) :=
  match r.s.aw with
  | .onErr w v _ =>
    match rest with
    | "x" :: rest' => do
      let r ← if r.s.poolC then pure r else extCancel r "suppress"
      let r ← fire r .errSuppress "errSuppress" ["x"]
      pure (r, rest')
    | _ => do
      let r ← fire r .errDeliver s!"errDeliver-{wrapStr w}"
      pure ({ r with main := "fin" :: s!"fail.{retStr v}" :: r.main }, rest)
  | _ => .ok (r, rest)

def instIndex (s : State) (id : Nat) : Option Nat := s.live.findIdx? (·.id == id)

/-- one primary token of the await log -/
def tokenStep (p : PoolIn) (r : R) (tok : String) : M R :=
  match tok.splitOn "." with
  | kind :: vs =>
    let vstr := ".".intercalate vs
    match parseRet vstr with
    | none => .error s!"unparsable:{tok}"
    | some v =>
      if kind == "P" then do
        let r ← if r.s.prov == .running then do
            let r ← needRunC r v "provider-ctx"
            fire r (.provRet v) s!"provRet-{vstr}"
          else pure r
        fire r .awaitProv "awaitProv" [tok]
      else if kind == "A" then do
        let r ← if r.s.agg == .running then do
            let r ← needRunC r v "aggregator-ctx"
            fire r (.aggRet v) s!"aggRet-{vstr}"
          else pure r
        fire r .awaitAgg "awaitAgg" [tok]
      else if kind.startsWith "S" then do
        let n ← match (kind.drop 1).toNat? with
          | some n => pure n
          | none => .error s!"unparsable:{tok}"
        let r ← if r.s.startRes.isSome then pure r else
          match v with
          | .err _ => fire r (.startFirst (newOut p v)) s!"startFirst-{vstr}"
          | _ => do
            let r ← spawnTo p n r (n + 1)
            let r ← if v == .ctx && !r.s.startC then
                (if !p.per then fire r .rpsFinished "rpsFinished" else extCancel r "start-ctx")
              else pure r
            fire r .startEnd "startEnd"
        let r ← fire r .awaitStart "awaitStart" [tok]
        if r.s.startedInstances != n then .error s!"started-{r.s.startedInstances}-vs-{n}" else
        match r.s.startRes with
        | some (_, v') => if v' == v then pure r else .error s!"start-result-{retStr v'}-vs-{vstr}"
        | none => .error "no-start-result"
      else if kind.startsWith "R" then do
        let id ← match (kind.drop 1).toNat? with
          | some n => pure n
          | none => .error s!"unparsable:{tok}"
        let r ← spawnTo p (id + 1) r (id + 2)
        let r ← match instIndex r.s id with
          | none => .error s!"rejected:instance-{id}-not-running"
          | some i => do
            let r ← match r.s.live[i]? with
              | some ⟨_, none⟩ => fire r (.instCreate i (newOut p v)) s!"instCreate-{id}"
              | _ => pure r
            match v with
            | .err 3 | .err 4 | .err 6 => pure r       -- `newInstance` failed: the result is already sent
            | _ => do
              let r ← needRunC r v "instance-ctx"
              match instIndex r.s id with
              | some i => fire r (.instRet i v) s!"instRet-{id}-{vstr}"
              | none => .error s!"rejected:instance-{id}-gone"
        match r.s.buf with
        | [(id', v')] =>
          if id' != id || v' != v then .error s!"result-{id'}.{retStr v'}-vs-{tok}" else
          fire r .awaitRun s!"awaitRun-{id}" (tok :: (if v == .ooa && !r.s.startTaken then ["c"] else []))
        | _ => .error s!"rejected:run-result-{id}"
      else .error s!"unknown-token:{tok}"
  | _ => .error s!"unknown-token:{tok}"

def isPrimary (t : String) : Bool := !(t == "c" || t == "a" || t == "w")

partial def tokens (p : PoolIn) (r : R) : List String → M R
  | [] => .ok r
  | tok :: rest =>
    if !isPrimary tok then tokens p r rest       -- derived lines are re-predicted by the model
    else if tok == "x" then .error "rejected:suppress-without-error" else do
      let r ← tokenStep p r tok
      let (r, rest) ← resolveErr r rest
      tokens p r rest

def mainStr : PRes → String
  | .ok => "ok" | .ctx => "ctx" | .fail w (.err e) => s!"err:{wrapStr w}:{errName e}" | .fail w r => s!"err:{wrapStr w}:{retStr r}"

structure PoolPred where
  res : Option PRes
  result : String          -- ok | ctx | err:<wrap>:<comp> | running
  main : List String
  aw : List String
  guns : Nat
  closes : List Nat
  errs : List String
  done : Bool

def insertSorted (x : Nat) : List Nat → List Nat
  | [] => [x]
  | y :: ys => if x ≤ y then x :: y :: ys else y :: insertSorted x ys

def insertStr (x : String) : List String → List String
  | [] => [x]
  | y :: ys => if x ≤ y then x :: y :: ys else y :: insertStr x ys

def sortStr (l : List String) : List String := l.foldl (fun acc x => insertStr x acc) []

def finishedPool (s : State) : Bool :=
  s.waitDone == 1 && s.live.isEmpty && s.buf.isEmpty && (s.aw == .off || s.aw == .finished) &&
  (s.prov == .idle || s.prov == .taken) && (s.agg == .idle || s.agg == .taken) &&
  (match s.main with | .returned _ => true | _ => false)

/-- replay one pool -/
def replayPool (p : PoolIn) (o : PoolObs) (allowExt preCancel : Bool) : M PoolPred := do
  let r : R := { s := init, allowExt := allowExt }
  let r ← if preCancel then extCancel r "pre" else pure r
  let warm : WarmOut :=
    if p.has "newgun" 0 then .gunFail 3
    else if p.warm && p.fails.any (·.1 == "warmup") then .warmFail 5 p.closable
    else .ok p.closable
  let r ← fire r (.warm warm) "warm"
  let r ← match r.s.main with
    | .returned _ => pure { r with main := ["fin"] }
    | _ => do
      let r ← fire r (.sched (if !p.per && p.has "sched" 1 then some 6 else none)) "sched"
      match r.s.main with
      | .returned _ => pure { r with main := ["fin"] }
      | _ => do
        -- instances the start goroutine spawned, and its clean end, do not depend on the await order: do them first
        let sTok := o.aw.find? (·.startsWith "S")
        let r ← match sTok with
          | some t =>
            match t.splitOn "." with
            | kind :: vs =>
              let n := ((kind.drop 1).toNat?).getD 0
              let v := parseRet (".".intercalate vs)
              if r.s.startC then pure r else do
                let r ← match v with
                  | some (.err _) => pure r
                  | _ => spawnTo p n r (n + 1)
                if v == some .ok then fire r .startEnd "startEnd" else pure r
            | _ => pure r
          | none => pure r
        let r ← tokens p r o.aw
        -- the end of `Pool.Run` as its own log tells it
        if o.main.contains "cancel" then
          match r.s.main with
          | .selecting => do
            let r ← extCancel r "main-cancel"
            let r ← fire r .mainCancel "mainCancel"
            pure { r with main := "fin" :: "cancel" :: r.main }
          | _ => pure r
        else if o.main.contains "ok" then
          match r.s.main with
          | .selecting => do
            let r ← fire r .mainClosed "mainClosed"
            pure { r with main := "fin" :: "ok" :: r.main }
          | _ => pure r
        else pure r
  let s := r.s
  pure { res := s.result, result := (s.result.map mainStr).getD "running", main := r.main.reverse, aw := r.aw.reverse,
         guns := s.guns.length, closes := s.guns.foldl (fun acc g => insertSorted g.closes acc) [],
         errs := (s.compErrs.foldl (fun acc e => insertSorted e acc) []).eraseDups.map errName |> sortStr,
         done := finishedPool s }

/-- `rp:` pools: what the provider model (`Model/C05Prov.lean`) says `Provider.Run` returns on the written source when it
is read to its end: `some true` an error, `some false` nil -/
def provModelFails (p : PoolIn) : Option Bool :=
  match p.rp with
  | none => none
  | some (kind, k, tail) =>
    let openOk := !(tail == "nofile" || tail == "slowopen")
    let t : Prov.Tail := if tail == "tr" then .truncated else if tail == "bad" then .garbage
      else if tail == "rderr" then .ioError else .clean
    if kind == "json" then
      (Prov.decodeRun { openOk := openOk } none (Prov.answers k t)).map (·.res.isErr)
    else if kind != "gj" then none    -- the http provider is not modelled here
    else
      -- grpc/json: the base provider's `Run`; what the concrete `start` returns on a broken line is an error
      some (Prov.grpcRun openOk (if t == .clean then .nil else .decodeFailed k .parseErr) k).res.isErr

/-- the provider's result in the await log against the provider model: a source the model reads to a regular end never
gives an error; a broken source the run has to get to (more demand than complete ammo, no cancel, no other fault) always does -/
def provModelBad (pl : Plan) (o : Obs) (i : Nat) (p : PoolIn) (po : PoolObs) : Option String :=
  match provModelFails p, po.aw.find? (·.startsWith "P.") with
  | some false, some tok => if tok == "P.ok" || tok == "P.ctx" then none else some s!"prov-model-nil-vs-{tok}-p{i}"
  | some true, some tok =>
    let (_, k, _) := p.rp.getD ("", 0, "")
    -- `P.ctx`: something cancelled the provider before it got there (another fault of the plan, the end of the run)
    if tok == "P.e.prov" || tok == "P.ctx" then none
    else if p.demand > k && !o.canc && pl.cancel == "none" && pl.pools.length == 1 && p.fails.isEmpty && p.blk == "" && !p.aggErr then
      some s!"prov-model-err-vs-{tok}-p{i}"
    else none
  | _, _ => none

def poolCls (res : String) : String :=
  match res.splitOn ":" with
  | ["err", _, c] => "e." ++ c
  | _ => res

def listStr (l : List String) : String := if l.isEmpty then "-" else ",".intercalate l

/-- `cli=` cases: what `awaitPandoraTermination` (model `Cli.run`) does with the result `res` of `Engine.Run`; whether
its outer select read the signal first is what the process says in its own log (`rcv`) -/
def cliPred (kind var res : String) (csig2 : Bool) (evs : List String) : String :=
  let sg : Cli.Sig := if kind == "term" then .term else .int
  let events : List Cli.Ev :=
    (if evs.contains "rcv" then [Cli.Ev.sig sg] else []) ++ [Cli.Ev.err (res == "ok")] ++
    -- while `Engine.Wait` is held up: the await timeout fires (`runT`) / the second signal arrives (`int2`, `term2`)
    (if var == "T" then [Cli.Ev.timeout] else if csig2 then [Cli.Ev.sig sg] else []) ++ [Cli.Ev.waitDone]
  let acts := Cli.run events
  let waited := acts.contains .waited
  listStr (acts.filterMap fun a =>
    match a with
    | .rcv => some "rcv"
    | .shutdown => some "gs"
    | .exit 0 => some "ok"
    | .exit _ => some (if waited then "fatal.w1" else "fatal.w0")
    | _ => none)

def handle : Handler := fun input impl =>
  if impl == "SKIPPED-AFTER-HANGS" then ("-", "skip:not-run-after-hangs") else
  if impl.startsWith "NOINSTR" then ("-", "skip:no-instrumented-worker") else
  if impl.startsWith "NOREAL" then ("-", "skip:no-registered-gun-factory") else
  if impl.startsWith "PANIC" || impl.startsWith "HANG" || impl.startsWith "BADINPUT" then
    ("-", s!"fail:crash:{impl.take 80}") else
  match parsePlan input with
  | none => ("-", "skip:unparsable-input")
  | some pl =>
  match parseObs pl.pools.length impl with
  | none => ("-", s!"fail:crash:unparsable observation {impl.take 80}")
  | some o =>
    -- a signal the process did not send itself (another process of the machine): nothing to judge
    if (o.cli.getD []).contains "rcv" && !o.csig then ("-", "skip:stray-signal") else
    let v := verdict pl o
    let n := pl.pools.length
    -- the caller's cancel may be inserted when the harness cancelled before Run returned; a pool of a multi-pool
    -- run also sees the deferred cancel of `Engine.Run` once another pool has made it return
    let allowExt := o.canc || (n > 1 && o.res != "ok")
    let preds := (List.range n).map fun i =>
      match pl.pools[i]?, o.pools[i]? with
      | some p, some po => replayPool { p with closable := closableOf p po, warm := warmOf p po } po allowExt (pl.cancel.startsWith "pre")
      | _, _ => .error "missing-pool"
    let provBad := ((List.range n).filterMap fun i =>
      match pl.pools[i]?, o.pools[i]? with
      | some p, some po => provModelBad pl o i p po
      | _, _ => none).head?
    match provBad with
    | some e => (e, v)
    | none =>
    match preds.mapM id with
    | .error e => (e, v)
    | .ok ps =>
      -- the engine loop (`Engine.Run`): results it consumed, in order
      let engBad := o.eng.filterMap fun t0 =>
        let t := if t0.endsWith "!" then (t0.dropEnd 1).toString else t0
        match t.splitOn "." with
        | pk :: cls =>
          match (pk.drop 1).toNat? >>= (ps[·]?) with
          | some pp => if poolCls pp.result == ".".intercalate cls then none else some s!"eng-{t}-vs-{pp.result}"
          | none => some s!"eng-{t}"
        | _ => some s!"eng-{t}"
      match engBad.head? with
      | some e => (e, v)
      | none =>
      -- `Engine.Run` (model `engRun`) over the results it consumed; the outcome of its non-blocking context check on
      -- an error result is the runtime's choice: possible only after a cancel
      let evs : List EEv := o.eng.filterMap fun t =>
        match t.splitOn "." with
        | pk :: _ =>
          match (pk.drop 1).toNat? with
          | some k => (ps[k]? >>= (·.res)).map fun r => EEv.pool k r (r == .ctx || t.endsWith "!" || (o.canc && o.res == "ctx"))
          | none => none
        | _ => none
      let evs := if o.engc == "1" then evs ++ [EEv.ctxDone] else evs
      let res : String :=
        match engRun n evs with
        | some .ok => "ok"
        | some .ctx => "ctx"
        | some (.fail k (.fail w (.err e))) => s!"err:p{k}:{wrapStr w}:{errName e}"
        | some (.fail k r) => s!"?p{k}:{mainStr r}"
        | none => "running"
      let wait := if ps.all (·.done) then "ok" else "hang"
      let head := s!"res={res} canc={if o.canc then 1 else 0} lat={o.lat} wait={wait} busy={if wait == "ok" then 0 else o.busy} leak=0 eng={listStr o.eng} engc={o.engc} sup={o.sup}"
      let head := match o.blk with
        | some b => head ++ s!" blk={b}"
        | none => head
      let head := match o.cli with
        | some evs =>
          -- `runT`: the await timeout fires only if the planned call was entered at all (`blk=-`: the run was over before
          -- the stub was reached - a loaded machine -, nothing holds `Engine.Wait` up and the cli waits for it normally)
          let var := if pl.cliVar == "T" && o.blk == some "-" then "" else pl.cliVar
          head ++ s!" cli={cliPred pl.cliKind var res o.csig2 evs} csig={if o.csig2 then 2 else if o.csig then 1 else 0}"
        | none => head
      let body := (List.range n).zip ps |>.map fun (i, pp) =>
        let real := match pl.pools[i]?, o.pools[i]? with
          | some p, some po =>
            if p.real then
              s!" p{i}.gcl={if po.gcl.getD false then 1 else 0} p{i}.gwu={if po.gwu.getD false then 1 else 0} p{i}.icl={if po.icl.getD false then 1 else 0} p{i}.srvopen=0"
            else ""
          | _, _ => ""
        -- what the pool consumed is echoed (the Spec judges it; the pool model does not count tokens)
        let use := match o.pools[i]? >>= (·.use) with
          | some u => s!" p{i}.use={u}"
          | none => ""
        s!" p{i}.main={listStr pp.main} p{i}.aw={listStr pp.aw} p{i}.guns={pp.guns} p{i}.closes={listStr (pp.closes.map toString)} p{i}.errs={listStr pp.errs}" ++ use ++ real
      (head ++ String.join body, v)

end Pandora.Drv.C05
