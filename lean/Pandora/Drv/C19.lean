import Pandora.Drv.Util
import Pandora.Model.C19
import Pandora.Model.C19Run
import Pandora.Spec.C19
import Pandora.Drv.C19Vars
import Pandora.Drv.C19R6

/-!
C19 model driver: for one input line of harness/cmd/c19 computes the model's prediction of the observation and the
Spec's verdict on what the real code did. Library behaviour the model cannot exhibit (does this random byte string
parse as JSON, the in-flight call of a server that goes away) is predicted as `-`; the Spec still judges it.
-/
namespace Pandora.Drv.C19
open Pandora.Drv Pandora.Model.C10 Pandora.Model.C19

def bytesOfHex (s : String) : Option (List Char) :=
  (parseHex s).map fun bs => bs.map fun b => Char.ofNat b.toNat

def hexOfChars (cs : List Char) : String := toHex (cs.map fun c => UInt8.ofNat c.toNat)

def strOfHex (s : String) : Option String := do
  let bs ← parseHex s
  String.fromUTF8? (ByteArray.mk bs.toArray)

def hexOfStr (s : String) : String := toHex s.toUTF8.toList

/-! modifiers -/

/-- `lo | up | s1:a | s2:a:b | rp:hexold:hexnew | bad`; `none` inside = the text does not parse as a modifier -/
def parseMod (s : String) : Option (Option Modifier) :=
  match s.splitOn ":" with
  | ["lo"] => some (some .lower)
  | ["up"] => some (some .upper)
  | ["s1", a] => a.toInt?.map fun a => some (.substr a 0)
  | ["s2", a, b] => do pure (some (.substr (← a.toInt?) (← b.toInt?)))
  | ["rp", o, n] => do pure (some (.replace (← bytesOfHex o) (← bytesOfHex n)))
  | ["bad"] => some none
  | _ => none

/-- `some none`: the chain contains an unknown modifier (config error at every Process call) -/
def parseMods (s : String) : Option (Option (List Modifier)) := do
  let ms ← (splitList s "/").mapM parseMod
  pure (ms.mapM id)

def chainIsBytewise (ms : List Modifier) : Bool :=
  ms.all fun
    | .lower => false
    | .upper => false
    | .replace o _ => !o.isEmpty
    | .substr _ _ => true

def handleMod (kv : List (String × String)) (impl : String) : String × String :=
  match parseMods (getS kv "mods"), bytesOfHex (getS kv "val") with
  | some mods, some val =>
    let v := Spec.C19.judgeCall impl
    match mods with
    | none => ("err", v)
    | some ms =>
      if val.isEmpty then ("unset", v)
      else if getS kv "bin" == "1" && !chainIsBytewise ms then ("-", v)
      else match applyChain ms val with
        | .ok r => ("ok:" ++ hexOfChars r, v)
        | .panic w => ("PANIC " ++ w, v)
  | _, _ => ("-", "fail:driver:unparsable input")

/-! bodies -/

def jsonBody : String := "{\"result\":\"ok\",\"token\":\"abcdef\",\"items\":[1,2,3],\"a\":{\"b\":\"c\"}}"
def badJsonBody : String := "{\"result\": \"ok\", \"items\": [1,2,"
def htmlBody : String := "<html><head><title>T</title></head><body><div class=\"data\">v1</div><div class=\"data\">v2</div><a href=\"/x\">one</a></body></html>"
def badHtmlBody : String := "<html><div class=\"data\">unclosed <<<< <a href=</bod"

inductive Body where
  | lit (s : List Char)
  | filler (n : Nat)

def natAfter (pfx : String) (s : String) : Option Nat :=
  if pfx.toList.isPrefixOf s.toList then (String.ofList (s.toList.drop pfx.length)).toNat? else none

def bodyOfClass (c : String) : Option Body :=
  match c with
  | "json" => some (.lit jsonBody.toList)
  | "badjson" => some (.lit badJsonBody.toList)
  | "html" => some (.lit htmlBody.toList)
  | "badhtml" => some (.lit badHtmlBody.toList)
  | "empty" => some (.lit [])
  | _ =>
    -- the list bodies of round 3 (harness: vars.go)
    match natAfter "jl" c, natAfter "hl" c with
    | some n, _ => some (.lit (jsonListBody n).toList)
    | none, some n => some (.lit (htmlListBody n).toList)
    | none, none => (natAfter "x" c).map .filler

def Body.len : Body → Nat
  | .lit s => s.length
  | .filler n => n

def Body.has (b : Body) (pat : String) : Bool :=
  match b with
  | .lit s => isInfix pat.toList s
  | .filler n => pat.toList.all (· == 'x') && pat.length ≤ n

/-- `jsonpath.Get` on the fixed JSON body, by path id (direct calls) -/
def jsonGetById (id : String) : Bool := (jsonValOf "json" id).isSome

def trimWS (cs : List Char) : List Char :=
  let f := fun (l : List Char) => l.dropWhile fun c => c == ' ' || c == '\t'
  (f (f cs).reverse).reverse

/-- the response a script delivers (only meaningful when its truth token is `r<status>`) -/
structure ScriptInfo where
  headers : List (String × List Char) := []
  body : Body := .lit []
  jsonClass : Bool := false
  /-- the body class of the script (`json`, `jl3`, `hl0`, `x7`, …) -/
  cls : String := "empty"

def parseScript (s : String) : ScriptInfo :=
  (s.splitOn ".").foldl (init := {}) fun acc f =>
    if f.startsWith "act" then acc
    else if f.startsWith "h" then
      match (String.ofList (f.toList.drop 1)).splitOn "~" with
      | [name, hx] => { acc with headers := acc.headers ++ [(name, trimWS ((bytesOfHex hx).getD []))] }
      | _ => acc
    else if f.startsWith "v" then
      match (String.ofList (f.toList.drop 1)).splitOn "~" with
      | [name, n] => { acc with headers := acc.headers ++ [(name, List.replicate (n.toNat?.getD 0) 'v')] }
      | _ => acc
    else if f.startsWith "b" then
      let c := String.ofList (f.toList.drop 1)
      { acc with body := (bodyOfClass c).getD (.lit []), jsonClass := isJsonClass c, cls := c }
    else acc

/-- the scripted targets send no body with 1xx / 204 / 304 (whatever body class the script names) -/
def statusHasNoBody (status : Nat) : Bool := status / 100 == 1 || status == 204 || status == 304

def respOf (status : Nat) (si0 : ScriptInfo) : Resp :=
  let si : ScriptInfo := if statusHasNoBody status then { si0 with body := .lit [], jsonClass := false, cls := "empty" } else si0
  { status := status
    header := fun name => ((si.headers.find? (·.1 == name)).map (·.2)).getD []
    bodyLen := si.body.len
    bodyHas := si.body.has
    jsonOk := si.jsonClass
    jsonGet := fun id => (jsonValOf si.cls id).isSome }

/-- `u`: the library decides what a client sees of this script; the model predicts nothing for the run -/
def truthUnknown (truth : String) : Bool := truth == "u"

def replyOf (truth : String) (script : String) : Reply :=
  match natAfter "rbx" truth, natAfter "rb" truth, natAfter "r" truth with
  | some st, _, _ => .brokenBody st .other
  | none, some st, _ => .brokenBody st .other
  | none, none, some st => .full (respOf st (parseScript script))
  | none, none, none => .noResponse .other

/-! direct calls -/

def parseHexList (s : String) : Option (List String) := (splitList s ",").mapM strOfHex

def parseSize (s : String) : Option (Option (Nat × SizeOp)) :=
  if s == "-" || s == "" then some none
  else match s.splitOn ":" with
    | [op, v] => do
      -- the operator names of the input lines and how the configuration spells them (harness: `opSpelling`);
      -- which arm of `switch a.Size.Op` a spelling selects is `sizeOpOfString` (tied to the source by Bridge.C19.sizeRejects_eq)
      let spelled : String := match op with
        | "eq" => "eq" | "lt" => "lt" | "gt" => "gt" | "eqs" => "=" | "lts" => "<" | "gts" => ">"
        | "eqw" => "eq" | "ltw" => "lt" | "gtw" => "gt" | "ge" => ">=" | _ => "~"
      pure (some (← v.toNat?, sizeOpOfString spelled))
    | _ => none

def parseNamed (s : String) : Option (List (String × List Char)) :=
  (splitList s ",").mapM fun kvs =>
    match kvs.splitOn ":" with
    | [k, v] => (bytesOfHex v).map fun b => (k, b)
    | _ => none

def postStr : PostRes → String
  | .ok => "ok"
  | .err => "err"
  | .panic => "PANIC"

def handleAssert (kv : List (String × String)) (impl : String) : String × String :=
  match parseHexList (getS kv "pats"), parseNamed (getS kv "hdrs"), parseNamed (getS kv "chk"), parseSize (getS kv "size"),
      bytesOfHex (getS kv "body") with
  | some pats, some hdrs, some chk, some size, some body0 =>
    -- `nobody=1`: Process is handed a nil reader; under the `body != nil` guard (Bridge.C19.httpBodyReadCond_eq) nothing is
    -- read and `b` stays nil: the assertion sees an empty body
    let body : List Char := if getS kv "nobody" == "1" then [] else body0
    let a : AssertCfg := { headers := chk, body := pats, statusCode := (getN? kv "cfgst").getD 0, size := size }
    let r : Resp := { status := (getN? kv "st").getD 200
                      header := fun n => ((hdrs.find? (·.1 == n)).map (·.2)).getD []
                      bodyLen := body.length
                      bodyHas := fun p => isInfix p.toList body
                      jsonOk := false, jsonGet := fun _ => false }
    (postStr (assertHttp a r), Spec.C19.judgeCall impl)
  | _, _, _, _, _ => ("-", "fail:driver:unparsable input")

def handleGAssert (kv : List (String × String)) (impl : String) : String × String :=
  match parseHexList (getS kv "pats") with
  | some pats =>
    let outNil := getS kv "out" == "nil"
    let hello := if outNil then [] else ((bytesOfHex (getS kv "out")).getD [])
    let a : GrpcAssert := { payload := pats, statusCode := (getN? kv "cfgst").getD 0 }
    (postStr (assertGrpc a ((getN? kv "code").getD 0) outNil (fun p => isInfix p.toList hello)), Spec.C19.judgeCall impl)
  | none => ("-", "fail:driver:unparsable input")

def xkindOf (s : String) : Option XKind :=
  match s with
  | "nodeSet" => some .nodeSet
  | "scalar" => some .scalar
  | "invalid" => some .invalid
  | _ => none

def exprKind (id : String) : Option XKind :=
  if ["divdata", "href", "title", "deep", "none", "lis"].contains id then some .nodeSet
  else if ["count", "string", "arith", "bool"].contains id then some .scalar
  else if ["bad", "bad2"].contains id then some .invalid
  else none

def handleXpath (kv : List (String × String)) (impl : String) : String × String :=
  match xkindOf (getS kv "kind") with
  | some k => (postStr (varXpath [k]), Spec.C19.judgeCall impl)
  | none => ("-", "fail:driver:unparsable input")

def handleJsonpath (kv : List (String × String)) (impl : String) : String × String :=
  let body := getS kv "body"
  let v := Spec.C19.judgeCall impl
  if body.startsWith "raw:" then ("-", v)
  else
    let r : Resp := { status := 200, header := fun _ => [], bodyLen := 0, bodyHas := fun _ => false,
                      jsonOk := isJsonClass body, jsonGet := fun id => (jsonValOf body id).isSome }
    (postStr (varJsonpath [getS kv "path"] r), v)

/-! engine runs -/

def parsePP (tok : String) : Option (Option PP) :=     -- `some none` = "tpl" marker (not a postprocessor)
  match tok.splitOn "~" with
  | ["-"] => some none
  | ["tpl"] => some none
  | ["U"] => some none
  | ["TH"] => some none
  | "UH" :: _ => some none
  | "UB" :: _ => some none
  | "P" :: _ => some none
  | "F" :: _ => some none
  | "T" :: _ => some none
  | ["H", hdr] => some (some (.varHeader [{ header := hdr, mods := some [] }]))
  | ["H", hdr, mods] => (parseMods mods).map fun ms => some (.varHeader [{ header := hdr, mods := ms }])
  | ["A", st, pat, hdr, size] => do
    let body ← if pat == "-" then some [] else (strOfHex pat).map fun p => [p]
    let hs ← if hdr == "-" then some [] else parseNamed hdr
    let sz ← parseSize size
    pure (some (.assertResponse { headers := hs, body := body, statusCode := ← st.toNat?, size := sz }))
  | ["J", id] => some (some (.varJsonpath [id]))
  | ["X", id] => (exprKind id).map fun k => some (.varXpath [k])
  | _ => none

def aggregate (samples : List Sample) : String :=
  let keys := samples.map fun s => hexOfStr s.tags ++ ":" ++ toString s.proto ++ ":" ++ (if s.net == 0 then "0" else "nz")
  let sorted := (keys.toArray.qsort (· < ·)).toList
  let rec group : List String → List (String × Nat) → List (String × Nat)
    | [], acc => acc.reverse
    | k :: ks, (k', n) :: acc => if k == k' then group ks ((k', n + 1) :: acc) else group ks ((k, 1) :: (k', n) :: acc)
    | k :: ks, [] => group ks [(k, 1)]
  String.intercalate "," ((group sorted []).map fun (k, n) => k ++ "*" ++ toString n)

def fmtRun (r : InstanceRun) (fatalWhy : String) : String :=
  let res := match r.result with | .finished => "ok" | .poolFailed => fatalWhy
  s!"res={res} n={r.samples.length} s={aggregate r.samples}"

def replicate {α} (n : Nat) (l : List α) : List α := (List.replicate n l).flatten

def implRes (impl : String) : String × Nat :=
  let ikv := parseKV impl
  (getS ikv "res", (getN? ikv "n").getD 0)

/-- the gRPC status code the gun sees for a scripted call kind (harness: `grpcKindMeta`): an undecodable response
message is `Internal`, a well-formed one with foreign fields (or no bytes at all) is `OK`, one beyond the client's
receive limit is `ResourceExhausted`, a silent server ends in `DeadlineExceeded` -/
def grpcKindCode (kind : String) (arg : Nat) : Option Nat :=
  match kind with
  | "ok" => some 0
  | "code" => some arg
  | "details" => some arg
  | "hang" => some 4
  | "garbage" => some 13
  | "foreign" => some 0
  | "empty" => some 0
  | "big" => some 8
  | _ => none

/-- `Unavailable` (503) / `DeadlineExceeded` (504) samples the model does not predict: when the machine runs out of
local ports (many checks run at once) a gRPC client cannot connect and the call ends this way without the target
having been asked. Such a run is judged by the Spec (no abort, sample counts) but not compared with the model. -/
def transportNoise (modelObs impl : String) : Bool :=
  let has (o : String) (code : String) : Bool :=
    ((getS (parseKV o) "s").splitOn ",").any fun e => match e.splitOn ":" with | [_, p, _] => p == code | _ => false
  (has impl "503" && !has modelObs "503") || (has impl "504" && !has modelObs "504")

/-! TLS targets scripted per connection (harness: tlstarget.go) -/

/-- what a connection of kind `tok` is for the gun: `h2gun` = the gun offers `h2` only (http2, http2/scenario), else it
offers http/1.1 only (http with `ssl`): every TLS server of the plan serves it. `none`: unknown token. -/
def connFateOf (h2gun : Bool) (tok : String) : Option ConnFate :=
  let alert : Option ConnFate :=
    if tok.startsWith "a" then
      match (String.ofList (tok.toList.drop 1)).splitOn "." with
      | [l, c] => do pure (.fails (alertErr (← l.toNat?) (← c.toNat?)))
      | _ => none
    else none
  match tok with
  | "h2" | "h2v12" => some .h2
  -- a server offering http/1.1 only answers the `h2`-only offer with alert 120 (crypto/tls does, by itself)
  | "h1" => some (if h2gun then .fails (alertErr 2 120) else .h2)
  -- no ALPN at all: the handshake completes, `NegotiatedProtocol` is empty, the server speaks HTTP/1.1
  | "noalpn" => some (if h2gun then .noH2 (some ("", false)) else .h2)
  -- client certificate required: bad_certificate inside the TLS 1.2 handshake, certificate_required on the
  -- established TLS 1.3 connection (an alert at any level is an error there)
  | "cc12" => some (.fails (alertErr 2 42))
  | "cc13" => some (.fails (alertErr 2 116))
  | "warn" | "eof0" | "eof" | "rst" | "garb" | "trunc" | "big" | "badsh" | "stall" => some (.fails {})
  | _ => alert

/-- connections whose cost in connection attempts the client library decides (the alert arrives on an established
connection: the pending request fails, but the pool may or may not have handed the dead connection out) -/
def connRacy (tok : String) : Bool := tok == "cc13"

structure ConnPlan where
  fates : List ConnFate
  dflt : ConnFate
  racy : Bool

def parsePlan (h2gun : Bool) (s : String) : Option ConnPlan := do
  let toks := splitList s "/"
  let fates ← toks.mapM (connFateOf h2gun)
  let dflt ← fates.getLast?
  pure { fates := fates, dflt := dflt, racy := toks.any connRacy }

/-- what the postprocessors of a step store as the variable `v` (harness: every mapping is `v = …`; a later
postprocessor overwrites an earlier one) when the step's response is the complete one of `script` -/
def postVarsOf (truth script : String) (toks : List String) : Fields :=
  match natAfter "rbx" truth, natAfter "rb" truth, natAfter "r" truth with
  | none, none, some st =>
    let si0 := parseScript script
    let si : ScriptInfo := if statusHasNoBody st then { si0 with body := .lit [], jsonClass := false, cls := "empty" } else si0
    let hdr (name : String) : List Char := ((si.headers.find? (·.1 == name)).map (·.2)).getD []
    let v : Option Val := toks.foldl (init := none) fun acc tok =>
      match tok.splitOn "~" with
      | ["H", h] => if (hdr h).isEmpty then acc else some (.str (String.ofList (hdr h)))
      | ["H", h, mods] =>
        match parseMods mods with
        | some (some ms) =>
          if (hdr h).isEmpty then acc
          else match applyChain ms (hdr h) with
            | .ok r => some (.str (String.ofList r))
            | .panic _ => acc
        | _ => acc
      | ["J", id] => (jsonValOf si.cls id).orElse fun _ => acc
      | ["X", id] => ((xpathValsOf si.cls id).map xpathStored).orElse fun _ => acc
      | _ => acc
    match v with
    | some x => [("v", x)]
    | none => []
  | _, _, _ => []

/-- a step stores a variable whose value the driver does not tabulate (an xpath on a broken document), or a header
value with bytes outside ASCII -/
def varsUnknown (script : String) (toks : List String) : Bool :=
  let si := parseScript script
  toks.any fun tok =>
    match tok.splitOn "~" with
    | ["X", id] => (exprKind id) == some .nodeSet && (xpathValsOf si.cls id).isNone
    | _ => false

/-- the calls of a gRPC scenario, in order: `req` is what the earlier calls of the shot stored under `request`
(`c<i>.postprocessor` = the response message as JSON, only for a call that returned a message). A `Pg~` / `Fg~` token is
a preprocessor of the call that reads a field of an earlier response: when it cannot produce its variable the call
fails before it is made (`GrpcCallKind.prepFails`). -/
def grpcCallsOf : Nat → Fields → List (List String) → Option (List (GrpcCallCfg × GrpcReply))
  | _, _, [] => some []
  | i, req, [tag, kind, code, pp0] :: rest => do
    let toks := splitList pp0 "+"
    let cd ← code.toNat?
    let asserts : List GrpcAssert ← (toks.filter (·.startsWith "as")).mapM fun pp =>
      match natAfter "as" ((pp.splitOn ":").headD ""), pp.splitOn ":" with
      | some st, [_] => some ({ statusCode := st } : GrpcAssert)
      | some st, [_, pat] => (strOfHex pat).map fun p => ({ payload := [p], statusCode := st } : GrpcAssert)
      | _, _ => none
    let k0 : GrpcCallKind := match kind with
      | "nomethod" => .unknownMethod
      | "badpayload" => .badPayload
      | _ => .callable
    let tv : Fields := [("source", .obj []), ("request", .obj ((s!"c{i}", .obj []) :: req))]
    let fieldPath (src field : String) (ix : Option String) (sub : Option String) : List Seg :=
      [{ name := "request" }, { name := "c" ++ src }, { name := "postprocessor" },
       { name := field, index := ix.map indexKindOfText }] ++ (match sub with | some x => [{ name := x }] | none => [])
    let pre : List (Option PreMap) ← toks.mapM fun tok =>
      match tok.splitOn "~" with
      | ["Pg", src, field, ix] => (parseIxField ix).map fun j => some (PreMap.path (fieldPath src field j none) {})
      | ["Pg", src, field, ix, sub] => (parseIxField ix).map fun j => some (PreMap.path (fieldPath src field j (some sub)) {})
      | ["Fg", fn, src, field] =>
        let v : TplArg := { segs := fieldPath src field none none, text := s!"request.c{src}.postprocessor.{field}" }
        (match fn with
         | "rs" => some (some (.call .randString [v]))
         | "rs2" => some (some (.call .randString [litArg "3", v]))
         | "ri" => some (some (.call .randInt [v]))
         | "ri2" => some (some (.call .randInt [v, litArg "10"]))
         | "ri3" => some (some (.call .randInt [litArg "-5", v]))
         | _ => none)
      | _ => some none
    let preOk : Bool := match preprocess (some maxRandStringLength) tv ((pre.filterMap id).map fun m => ("x", m)) with
      | .ok (some _) => true
      | _ => false
    let k : GrpcCallKind := if preOk then k0 else .prepFails
    let code ← if k0 == .callable then (if kind == "list" then some 0 else grpcKindCode kind cd) else some 0
    -- `out.String()`: the service's greeting; a message of foreign fields only does not contain the patterns used
    let reply : GrpcReply := { code := code
                               payloadHas := fun p => kind == "ok" && isInfix p.toList "Hello verif!".toList }
    -- what the call stores: the response message as JSON (proto3: empty lists and strings are omitted)
    let post : Option Fields :=
      if k != .callable || code != 0 then none
      else if kind == "ok" then some [("hello", .str "Hello verif!")]
      else if kind == "list" then
        some (if cd == 0 then [] else [("result", .list true ((List.range cd).map fun j => .obj [("itemId", .str (toString (j + 1)))]))])
      else some []
    let entry : Fields := [("preprocessor", .obj [])] ++ (match post with | some f => [("postprocessor", .obj f)] | none => [])
    let tl ← grpcCallsOf (i + 1) ((s!"c{i}", .obj entry) :: req) rest
    pure ((({ tag := tag, kind := k, asserts := asserts } : GrpcCallCfg), reply) :: tl)
  | _, _, _ => none

/-- tokens of `sched=<ops>x<ms>` (`rps: [{type: const, ops, duration: <ms>ms}]`) -/
def tokensOf (kv : List (String × String)) : Option Nat :=
  -- round 6: a composite schedule, token instants by C02's model of core/schedule
  if (lookup kv "schedx").isSome then (C19R6.schedxDues (getS kv "schedx")).map List.length else
  match (getS kv "sched").splitOn "x" with
  | [a, b] => do pure ((← a.toNat?) * (← b.toNat?) / 1000)
  | _ => none

/-- a run on a timed schedule with `discard_overflow: true` (round 4): WHICH tokens the instance finds overdue is decided
by the clock, so nothing is predicted; the Spec judges Engine.Run's result, one sample (or the samples of a shot) per
token, what the `discarded` samples carry, and — for the plain http guns — what the other samples carry. -/
def handleLoop (kv : List (String × String)) (impl : String) : String × String :=
  let (res, n) := implRes impl
  match tokensOf kv with
  | none => ("-", "fail:driver:unparsable sched")
  | some tokens =>
    let agg := getS (parseKV impl) "s"
    let dtag := hexOfStr discardedSample.tags  -- Model/C19Run.lean, = the constants of the current source (Bridge discardedSample_eq)
    let entries : List (String × String × String × Nat) := (agg.splitOn ",").filterMap fun e =>
      match e.splitOn "*" with
      | [k, c] => (match k.splitOn ":" with | [t, p, nt] => some (t, p, nt, c.toNat?.getD 0) | _ => none)
      | _ => none
    let disc := entries.filter (·.1 == dtag)
    let d := (disc.map (·.2.2.2)).sum
    let discOk := disc.all fun (_, p, nt, _) => p == "0" && nt != "0"
    let gun := getS kv "gun"
    let steps := match gun with
      | "http/scenario" | "http2/scenario" => (splitList (getS kv "steps") ";").length
      | "grpc/scenario" => (splitList (getS kv "calls") ";").length
      | _ => 1
    let v0 := Spec.C19.judgeLoop tokens steps res n d discOk
    let v := if v0 != "ok" then v0
      else if gun == "http" || gun == "connect" || gun == "http2" then
        let reqs := splitList (getS kv "reqs") ","
        let truthTab := (List.range reqs.length).map fun i =>
          (hexOfStr s!"r{i}", match (reqs[i]!).splitOn ":" with | [_, t] => t | _ => "f")
        Spec.C19.judgeCarry ((dtag, "u") :: truthTab) agg
      else v0
    -- round 6: a token may be dropped only when the instance asks for it MaxOverdueDuration or more after its time
    let v := if v == "ok" && (lookup kv "schedx").isSome then C19R6.judgeSeq kv impl else v
    ("-", v)

def handleRun (kv : List (String × String)) (impl : String) : String × String :=
  if getS kv "disc" == "1" && ((lookup kv "sched").isSome || (lookup kv "schedx").isSome) then handleLoop kv impl else
  let (res, n) := implRes impl
  let noCfg : AutoTagCfg := { enabled := false, uriElements := 2, noTagOnly := true }
  match getS kv "gun" with
  | "http" | "connect" | "http2" =>
    let h2 := getS kv "gun" == "http2"
    let tgt := getS kv "tgt"
    -- what the peer negotiates: `tls1` answers the ALPN offer `h2` with the alert "no application protocol";
    -- `tls2` negotiates h2 mutually; a plain-TCP target (`live`) breaks the TLS handshake (an ordinary error)
    -- (`h2raw`: TLS with h2 negotiated, then scripted frames)
    let h2ok := tgt == "tls2" || tgt == "h2raw"
    let facts : H2Facts := .ofAlpnAlert (tgt == "tls1") (if h2ok then some ("h2", true) else none)
    -- `c403` … : the connect gun's CONNECT request is refused / answered with garbage / stray bytes / dropped: no tunnel
    let noConn := tgt == "dead" || (h2 && !h2ok && tgt != "tlsplan") || ["c403", "cgarbage", "cextra", "cclose"].contains tgt
    let reqs := splitList (getS kv "reqs") ","
    let truths := reqs.map fun r => match r.splitOn ":" with | [_, t] => t | _ => "f"
    let m := (getN? kv "m").getD 1
    let inst := (getN? kv "inst").getD 1
    let replies : List Reply := (List.range reqs.length).map fun i =>
      let (script, truth) := match (reqs[i]!).splitOn ":" with
        | [s, t] => (s, t)
        | _ => ("", "f")
      if noConn then Reply.noResponse .other else replyOf truth script
    let mk (i : Nat) (f : H2Facts) (r : Reply) : GunShot := .http h2 f noCfg s!"r{i}" (i + 1) s!"/p/{i}" r
    if tgt == "tlsplan" then
      match parsePlan h2 (getS kv "plan") with
      | none => ("-", "fail:driver:unparsable plan")
      | some plan =>
        let n0 := reqs.length
        let idx := replicate m (List.range n0)
        let frs := connShots (getS kv "dka" == "1") plan.dflt false plan.fates (replicate m replies)
        let shots := (idx.zip frs).map fun (i, f, r) => mk i f r
        let run := instanceRun (shots.map GunShot.run)
        -- one client, no connection whose cost the library decides: the assignment of requests to connections is exact
        let certain := inst == 1 && !plan.racy
        let fatal := if certain then shots.any GunShot.documentedFatal else h2 && (plan.fates.any ConnFate.fatal)
        let v0 := Spec.C19.judgeRun fatal shots.length shots.length shots.length res n
        -- ground truth per request: what the script says, or a failure when its connection fails
        let truthTab := (List.range n0).map fun i => (hexOfStr s!"r{i}", "o" ++ truths[i]!)
        let v := if v0 != "ok" || res != "ok" then v0 else Spec.C19.judgeCarry truthTab (getS (parseKV impl) "s")
        if certain && !truths.any truthUnknown then (fmtRun run "panic:not-http2", v) else ("-", v)
    else
    let cycle : List GunShot := (List.range reqs.length).map fun i => mk i facts (replies.getD i (.noResponse .other))
    let shots := replicate m cycle
    let run := instanceRun (shots.map GunShot.run)
    let fatal := shots.any GunShot.documentedFatal
    let v0 := Spec.C19.judgeRun fatal shots.length shots.length shots.length res n
    -- the samples must carry what the target really did (ground truth of the scripts, independent of the model)
    let truthTab := (List.range reqs.length).map fun i => (hexOfStr s!"r{i}", if noConn then "f" else truths[i]!)
    let v := if v0 != "ok" || fatal then v0 else Spec.C19.judgeCarry truthTab (getS (parseKV impl) "s")
    -- not predicted: a script whose fate the library decides; how many instances get a shot in before a failing pool stops
    if (!noConn && truths.any truthUnknown) || (fatal && inst > 1) then ("-", v)
    else (fmtRun run "panic:not-http2", v)
  | "http/scenario" | "http2/scenario" =>
    let h2 := getS kv "gun" == "http2/scenario"
    let tgt := getS kv "tgt"
    let h2ok := tgt == "tls2" || tgt == "h2raw"
    let facts : H2Facts := .ofAlpnAlert (tgt == "tls1") (if h2ok then some ("h2", true) else none)
    let noConn := tgt == "dead" || (h2 && !h2ok && tgt != "tlsplan")
    let parsed := (splitList (getS kv "steps") ";").mapM fun st =>
      match st.splitOn "," with
      | [name, script, truth, pps] => do
        let toks := splitList pps "+"
        let ps ← toks.mapM parsePP
        let pre ← toks.mapM parsePreTok
        let cfg : StepCfg := { name := name, prepFails := toks.contains "tpl", pps := ps.filterMap id }
        let reply := if noConn then Reply.noResponse .other else replyOf truth script
        pure ({ cfg := cfg, pre := pre.filterMap id, facts := facts, reply := reply, post := postVarsOf truth script toks } : VStep)
      | _ => none
    match parsed, (if tgt == "tlsplan" then (parsePlan h2 (getS kv "plan")).map some else some none) with
    | none, _ => ("-", "fail:driver:unparsable steps")
    | _, none => ("-", "fail:driver:unparsable plan")
    | some vsteps, some plan? =>
      let shotsN := (getN? kv "n").getD 1
      let inst := (getN? kv "inst").getD 1
      let steps : List (StepCfg × Reply) := vsteps.map fun v => (v.cfg, v.reply)
      -- the variable mechanism (preprocessors reading what earlier responses stored) resolved into `prepFails`
      let resolved := resolveV (some maxRandStringLength) h2 {} vsteps
      let shots : List GunShot := match plan? with
        | none => List.replicate shotsN (GunShot.scenario h2 "scn" resolved)
        | some plan => scenarioShotsOverConns (getS kv "dka" == "1") plan.dflt h2 "scn" steps shotsN false plan.fates
      let run := instanceRun (shots.map GunShot.run)
      let certain := match plan? with | none => true | some plan => inst == 1 && !plan.racy
      let fatal := match plan? with
        | some plan => if certain then shots.any GunShot.documentedFatal else h2 && plan.fates.any ConnFate.fatal
        | none => shots.any GunShot.documentedFatal
      let v0 := Spec.C19.judgeRun fatal shotsN shotsN (shotsN * steps.length) res n
      -- the open finding of round 3 (fixes/C19-randstring-cap.diff): a response-derived length handed to randString
      -- beyond what `make([]rune, n)` accepts; reported under its own key, not compared with the (repaired) model
      let makeslice := res.startsWith "panic:other:runtime_error:_makeslice"
      let v := if makeslice then "fail:makeslice:a response-derived length handed to randString aborted the run (" ++ res ++ ")" else v0
      -- not predicted: a step whose request is built from a variable of an earlier RESPONSE by a TEMPLATE (the rendered
      -- request may or may not be sendable; text/template decides what `index` does), a script whose fate the library decides
      let stepToks := (splitList (getS kv "steps") ";").map fun st => st.splitOn ","
      let hasVarTok := stepToks.any fun f =>
        match f with
        | [_, _, _, pps] => (splitList pps "+").any fun t => t.startsWith "P~" || t.startsWith "F~"
        | _ => false
      let unknown := !noConn && stepToks.any fun f =>
        match f with
        | [_, script, truth, pps] =>
          truthUnknown truth || (script.splitOn ".").any (·.startsWith "bjt") || (splitList pps "+").any (fun t => t == "U" || t.startsWith "T~" || t.startsWith "UH~" || t.startsWith "UB~") ||
            (hasVarTok && varsUnknown script (splitList pps "+"))
        | _ => false
      if unknown || !certain || (fatal && inst > 1) || makeslice then ("-", v) else (fmtRun run "panic:not-http2", v)
  | "grpc" =>
    let parsed := (splitList (getS kv "reqs") ",").mapM fun r =>
      match r.splitOn ":" with
      | [kind, code] => do
        let c ← code.toNat?
        match kind with
        | "nomethod" => some GrpcOutcome.unknownMethod
        | "badpayload" => some .badPayload
        | _ => (grpcKindCode kind c).map .invoked
      | _ => none
    match parsed with
    | none => ("-", "fail:driver:unparsable reqs")
    | some outs =>
      let cycle : List GunShot := (List.range outs.length).map fun i => .grpc s!"r{i}" (outs[i]!)
      let shots := replicate ((getN? kv "m").getD 1) cycle
      let run := instanceRun (shots.map GunShot.run)
      let v := Spec.C19.judgeRun false shots.length shots.length shots.length res n
      let mo := fmtRun run "panic:unexpected"
      if (lookup kv "stopafter").isSome || transportNoise mo impl then ("-", v) else (mo, v)
  | "grpc/scenario" =>
    match grpcCallsOf 0 [] ((splitList (getS kv "calls") ";").map fun c => c.splitOn ",") with
    | none => ("-", "fail:driver:unparsable calls")
    | some calls =>
      let shotsN := (getN? kv "n").getD 1
      let shots := List.replicate shotsN (GunShot.grpcScenario "gscn" calls)
      let run := instanceRun (shots.map GunShot.run)
      let mo := fmtRun run "panic:unexpected"
      (if transportNoise mo impl then "-" else mo, Spec.C19.judgeRun false shotsN shotsN (shotsN * calls.length) res n)
  | _ => ("-", "fail:driver:unknown gun")

def handle : Handler := fun input impl =>
  let kv := parseKV input
  -- the machine ran out of local ports while the case ran (many checks share it): nothing was observed about the guns
  if impl.startsWith "INCONCLUSIVE" || impl.startsWith "PANIC listen tcp" then ("-", "skip:inconclusive")
  else if impl == "HANG" then ("-", "fail:hang:driver case timed out")
  -- the child process that ran the engine case died (harness: child.go): a panic outside Shoot's recover (transport /
  -- aggregator goroutine, Bind) or a fatal runtime error took the whole generator down
  else if impl.startsWith "CRASH" then ("-", s!"fail:crash:{impl.take 200}")
  else match getS kv "k" with
  | "mod" => handleMod kv impl
  | "assert" => handleAssert kv impl
  | "gassert" => handleGAssert kv impl
  | "xpath" => handleXpath kv impl
  | "idx" => handleIdx kv impl
  | "jsonpath" => handleJsonpath kv impl
  -- the real NextIterator under real concurrency (harness runIter). Model: `iterRun true` never reaches `fatal` for any
  -- number of goroutines and any schedule (C19_iterator_interleaving); the counter of a segment hands out 0, 1, 2, …
  -- (`iterStep`, pc 2), so no value twice and none missing; Rand is `intn` (inside [0, n)).
  | "iter" =>
    if impl.startsWith "PANIC" then ("-", s!"fail:panic:{impl.take 160}")
    else
      let g := (getN? kv "g").getD 2
      let sched := (List.range (4 * g)).map (· % g)     -- every goroutine makes one call, round robin
      let s := iterRun true g {} sched
      (s!"fatal={if s.fatal then 1 else 0} dup=0 gap=0 randbad=0", "ok")
  -- the real DNS-caching dialer + SimpleDNSCache under real concurrency (harness runDnsc). Model: `dnsDials {}` hands the
  -- outcomes of the underlying dials through, never panics, remembers nothing for a refused dial and the address of the
  -- first successful one (C19_dns_cache_transparent)
  | "dnsc" =>
    if impl.startsWith "PANIC" then ("-", s!"fail:panic:{impl.take 160}")
    else
      let os : List DialOutcome := [.refused, .connected, .refused, .connected]
      match dnsDials {} false os with
      | .ok (rs, cached) => (s!"fatal=0 bad={if rs == os && cached then 0 else 1}", "ok")
      | .panic m => (s!"fatal=1 {m}", "ok")
  -- the real coreutil.Waiter over a scripted schedule (round 6; model: C04's `wait`, tied by Bridge.Waiter.Wait_eq)
  | "wait" => C19R6.handleWait kv impl
  | "run" => if impl.startsWith "PANIC" then ("-", s!"fail:panic:{impl.take 160}") else handleRun kv impl
  | _ => ("-", "fail:driver:unknown case kind")

end Pandora.Drv.C19
