import Pandora.Drv.Util
import Pandora.Spec.C18
import Pandora.Model.C18Reg
import Pandora.Model.C18Engine
import Pandora.Spec.C18Sess
import Pandora.Model.C18Hook
import Pandora.Spec.C18Valid
import Pandora.Model.C18Nest
import Pandora.Model.C18Over

namespace Pandora.Drv.C18
open Pandora.Drv Pandora.Model.C18 Pandora.Spec.C18

def parseShape (s : String) : Option Shape :=
  match s.toList with
  | [fa, cf, ce, fe, ifc, df] => do
    let factory ← (match fa with | 'F' => some true | 'P' => some false | _ => none)
    let cfg ← (match cf with | 'n' => some CfgKind.none | 's' => some CfgKind.struct | 'p' => some CfgKind.ptr | _ => none)
    let dflt ← (match df with | 'a' => some DefKind.absent | 'f' => some DefKind.fresh | 'n' => some DefKind.nilPtr
                              | 's' => some DefKind.shared | _ => none)
    pure { factory, cfg, ctorErr := ce == 'E', factErr := fe == 'E', iface := ifc == 'I', dflt }
  | _ => none

def parseForm : String → Option Form
  | "c" => some .component | "f1" => some .facNoErr | "f2" => some .facErr | _ => none

/-- "5/6/7" / "_/9/_" → bindings of fields 1,2,3 -/
def parseCfg (s : String) : Option Cfg :=
  let rec go : List String → Nat → Option Cfg
    | [], _ => some []
    | t :: ts, i => do
      let rest ← go ts (i + 1)
      if t == "_" || t == "~" then pure rest else pure ((i, ← t.toInt?) :: rest)
  go (s.splitOn "/") 1

/-! ### round 4: structured options (`ext=1`, Model/C18Over) -/
namespace Over
open Pandora.Model.C18Over

def parseOptInt (t : String) : Option (Opt Int) :=
  if t == "_" || t == "" then some .absent else if t == "~" then some .null else t.toInt?.map .val

/-- "7,~,3" -/
def parseElems (s : String) : Option (List (Option Int)) :=
  if s == "e" then some [] else
  (splitList s).mapM fun t => if t == "~" then some none else t.toInt?.map some

/-- "k1:9,k3:4" -/
def parseEntries (s : String) : Option (List (Nat × Int)) :=
  if s == "e" then some [] else
  (splitList s).mapM fun t =>
    match t.splitOn ":" with
    | [k, v] => do pure ((← (k.drop 1).toString.toNat?), (← v.toInt?))
    | _ => none

def parseOptWith {α : Type} (f : String → Option α) (t : String) : Option (Opt α) :=
  if t == "_" || t == "" then some .absent else if t == "~" then some .null else (f t).map .val

def parsePtrSet (s : String) : Option (Option Int × Option Int) :=
  if s == "e" then some (none, none) else do
  let es ← (splitList s).mapM fun t =>
    match t.splitOn ":" with
    | [k, v] => do pure (k, ← v.toInt?)
    | _ => none
  pure ((es.find? (·.1 == "x")).map (·.2), (es.find? (·.1 == "y")).map (·.2))

/-- the registered defaults: d=A/B/C dm= dl= dr= dp= -/
def parseOCfg (kv : List (String × String)) : Option OCfg := do
  let abc ← ((getS kv "d").splitOn "/").mapM String.toInt?
  let m ← (if getS kv "dm" "-" == "-" then some none else (parseEntries (getS kv "dm")).map some)
  let l ← (if getS kv "dl" "-" == "-" then some none else ((splitList (getS kv "dl")).mapM String.toInt?).map some)
  let r ← (splitList (getS kv "dr" "0,0,0")).mapM String.toInt?
  let p ← (if getS kv "dp" "-" == "-" then some none else
    match (getS kv "dp").splitOn ":" with
    | [x, y] => do pure (some (⟨← x.toInt?, ← y.toInt?⟩ : Inner))
    | _ => none)
  match abc, r with
  | [a, b, c], [r0, r1, r2] => pure ⟨a, b, c, m, l, r0, r1, r2, p⟩
  | _, _ => none

/-- the user's settings: `A/B/C` and the four structured ones -/
def parseOSet (abc um ul ur up : String) : Option OSet := do
  match (abc.splitOn "/").mapM parseOptInt with
  | some [a, b, c] =>
    pure ⟨a, b, c, ← parseOptWith parseEntries um, ← parseOptWith parseElems ul, ← parseOptWith parseElems ur,
          ← parseOptWith parsePtrSet up⟩
  | _ => none

def isExt (kv : List (String × String)) : Bool := getS kv "ext" == "1"

/-- the fields printed after Mark/A/B/C -/
def shown (kv : List (String × String)) : List Nat := if isExt kv then extFields else []

end Over

/-- the validation rule of the instrumented config type on the hook / engine path: field 3 (`Conf.C`) ≥ vmin -/
def ruleOf (kv : List (String × String)) : Rule := ⟨3, ((getN? kv "vmin").getD 0 : Nat)⟩

def parseInput (s : String) : Option Input := do
  let kv := parseKV s
  let sh ← parseShape (getS kv "sh")
  let form ← parseForm (getS kv "form")
  -- ext=1: the configuration has structured options; defaults and settings are their flattenings (Model/C18Over)
  let d ← (if Over.isExt kv then (Over.parseOCfg kv).map (Pandora.Model.C18Over.flat Pandora.Model.C18Over.allFields)
           else parseCfg (getS kv "d"))
  let u ← (if Over.isExt kv then
             (Over.parseOSet (getS kv "u") (getS kv "um") (getS kv "ul") (getS kv "ur") (getS kv "up")).map
               (Pandora.Model.C18Over.flatSet Pandora.Model.C18Over.allFields)
           else parseCfg (getS kv "u"))
  let k ← getN? kv "k"
  let ff ← parseNats (getS kv "ff")
  let cf ← parseNats (getS kv "cf")
  let rf ← parseNats (getS kv "rf")
  -- bad=1 (hook / engine path): the user's settings do not decode, so EVERY fillConf invocation fails
  let bad := getS kv "bad" == "1" || getS kv "bad" == "2"
  let w : World := { dflt := d, user := u, hasFill := getS kv "fill" == "1",
                     fillFault := if bad then fun _ => true else ff.contains,
                     ctorFault := cf.contains, factFault := rf.contains }
  let inp : Input := { sh, form, k, w }
  -- vmin=N (hook / engine path): the fillConf is the VALIDATING decoder, the config type's rule is `C >= N`: when the
  -- defaults overlaid by the user's settings break the rule every fillConf invocation fails
  if !ruleHolds (ruleOf kv) inp then pure { inp with w := { inp.w with fillFault := fun _ => true } } else pure inp

def okc (b : Bool) : String := if b then "+" else "!"

def showEv (sh : Shape) : Ev → String
  | .dflt => "D"
  | .fill i a ok => s!"F{i}@{match a with | some c => toString c | none => "e"}{okc ok}"
  | .ctor i c ok =>
      let n := match sh.cfg, c with
        | .ptr, some c => toString c
        | .ptr, none => "?"
        | .struct, _ => "v"
        | .none, _ => "n"
      s!"C{i}@{n}{okc ok}"
  | .fact i ok => s!"R{i}{okc ok}"

def showErr : Err → String
  | .fill i => s!"fill{i}" | .ctor i => s!"ctor{i}" | .fact i => s!"fact{i}"

/-- `xf`: the fields printed after Mark/A/B/C (the structured options of an ext case) -/
def showRes (r : Res) (xf : List Nat := []) : String :=
  match r with
  | .made => "made"
  | .ok p => s!"ok.{p.serial}.{match p.cell with | some c => toString c | none => "-"}.{"/".intercalate (([0, 1, 2, 3] ++ xf).map fun f => toString (p.seen.get f))}"
  | .err e => s!"err.{showErr e}"
  | .panic e => s!"panic.{showErr e}"

def showObs (sh : Shape) (o : Option Obs) (xf : List Nat := []) : String :=
  match o with
  | none => "regpanic"
  | some o =>
    let steps := o.steps.map fun s => "|".intercalate (s.evs.map (showEv sh)) ++ ">" ++ showRes s.res xf
    let views := o.views.map fun v => s!"{v.1}:{v.2}"
    s!"steps={";".intercalate steps} views={",".intercalate views}"

/-! parsing the implementation's observation back (for the Spec) -/

def parseOk (c : Char) : Option Bool := if c == '+' then some true else if c == '!' then some false else none

def parseEv (t : String) : Option Ev :=
  if t == "D" then some .dflt else
  match t.toList with
  | 'R' :: rest => do
      let ok ← parseOk (← rest.getLast?)
      pure (.fact (← (String.ofList rest.dropLast).toNat?) ok)
  | k :: rest => do
      let ok ← parseOk (← rest.getLast?)
      match (String.ofList rest.dropLast).splitOn "@" with
      | [i, a] =>
        let i ← i.toNat?
        let a := a.toNat?
        if k == 'F' then pure (.fill i a ok) else if k == 'C' then pure (.ctor i a ok) else none
      | _ => none
  | [] => none

def parseErr (s : String) : Option Err :=
  if s.startsWith "fill" then (s.drop 4).toString.toNat?.map .fill
  else if s.startsWith "ctor" then (s.drop 4).toString.toNat?.map .ctor
  else if s.startsWith "fact" then (s.drop 4).toString.toNat?.map .fact
  else none

def parseRes (s : String) : Option Res :=
  if s == "made" then some .made else
  match s.splitOn "." with
  | ["ok", serial, cell, seen] => do
      let vals ← (seen.splitOn "/").mapM String.toInt?
      match vals with
      | [m, a, b, c] =>
        -- zero-valued fields are bound explicitly; `Cfg.get` cannot tell the difference
        pure (.ok ⟨← serial.toNat?, cell.toNat?, [(0, m), (1, a), (2, b), (3, c)]⟩)
      | _ =>
        -- an ext case: Mark/A/B/C and the flattened structured options
        if vals.length == 4 + Pandora.Model.C18Over.extFields.length then
          pure (.ok ⟨← serial.toNat?, cell.toNat?, ([0, 1, 2, 3] ++ Pandora.Model.C18Over.extFields).zip vals⟩)
        else none
  | ["err", e] => (parseErr e).map .err
  | ["panic", e] => (parseErr e).map .panic
  | _ => none

def parseStep (s : String) : Option Step :=
  match s.splitOn ">" with
  | [evs, res] => do
      let evs ← (splitList evs "|").mapM parseEv
      pure ⟨evs, ← parseRes res⟩
  | _ => none

def parseObs (s : String) : Option (Option Obs) :=
  if s == "regpanic" then some none else do
  let kv := parseKV s
  let steps ← (splitList (getS kv "steps") ";").mapM parseStep
  let views ← (splitList (getS kv "views")).mapM fun v =>
    match v.splitOn ":" with
    | [a, b] => do pure ((← a.toNat?), (← b.toInt?))
    | _ => none
  pure (some ⟨steps, views⟩)

def fields : List Nat := [1, 2, 3]

/-- `via=hook`: fillConf is the real config decoder, its invocations are not logged -/
def eraseFills (o : Obs) : Obs :=
  { o with steps := o.steps.map fun s => { s with evs := s.evs.filter (!isFill ·) } }

/-- the Spec on an observation without fill events: errors and configuration in full (the user's settings ARE
applied), the per-call structure (default-config / constructor / factory invocations, identities, views) as for a
run without fillConf -/
def judgeHook (inp : Input) (obs : Option Obs) (bad : Bool) (skipConfig : Bool := false) (rule : Rule := ⟨3, 0⟩)
    (fs : List Nat := fields) (undec : Bool := false) : String :=
  let noFill : Input := { inp with w := { inp.w with hasFill := false } }
  match obs with
  | none => judge inp obs fs
  | some o =>
    -- a failed decode is visible only as the operation's result: put the failing invocation back for `errorsOk`
    let restored : Obs := { o with steps := o.steps.map fun s =>
      match s.res with
      | .err (.fill i) | .panic (.fill i) => { s with evs := s.evs ++ [Ev.fill i none false] }
      | _ => s }
    if !registerOk inp.sh then "fail:registered:invalid registration accepted"
    else if o.steps.any (fun s => s.evs.any isFill) then "fail:driver:fill event on the hook path"
    else if !validProductsOk rule inp o then
      "fail:errors:a component was built from a configuration that fails validation (the config error did not reach the caller)"
    else if !invalidRefusedOk rule inp o then
      "fail:errors:the configuration (defaults overlaid by the user's settings) fails validation, but an operation that needs it did not end with the config error"
    else if undec && !(o.steps.all (fun s => isMade s || resFill s) && (products o.steps).isEmpty) then
      "fail:errors:the user's settings do not decode (a wrongly typed value / an option the config type does not have), but an operation that needs the configuration did not end with the config error"
    else if !bad && !validAcceptedOk rule inp o then "fail:errors:a valid configuration was refused with a config error"
    else if !errorsOk inp restored then "fail:errors:error not delivered as the error result / panic rule"
    else if !skipConfig && !configOk inp o fs then "fail:config:product config is not defaults overlaid by user settings"
    else if !bad && freshApplies noFill && !freshOk noFill o then "fail:fresh:config not created per product or shared between products"
    else if !bad && onceApplies noFill && !onceOk noFill o then "fail:once:factory constructor not configured exactly once"
    else if !structOkBy resFill noFill o then "fail:counts:user code invoked in another number or order than the constructor shape prescribes"
    else "ok"

/-! ### `via=reg`: which constructor / default-config types `Register` accepts -/

open Pandora.Model.C18Ty Pandora.Model.C18Reg in
mutual
/-- type descriptions: `I` plugin interface, `E` error, `J` another interface, `S` Conf, `T` another struct, `i` int,
`M` *comp (implements the plugin interface), `*t` pointer, `F(t,…;t,…)` func -/
def parseTy : Nat → List Char → Option (Ty × List Char)
  | 0, _ => none
  | _ + 1, 'I' :: r => some (plugT, r)
  | _ + 1, 'E' :: r => some (Ty.error, r)
  | _ + 1, 'J' :: r => some (.base .iface 5 [], r)
  | _ + 1, 'S' :: r => some (confT, r)
  | _ + 1, 'T' :: r => some (.base .struct 4 [], r)
  | _ + 1, 'i' :: r => some (.base .other 6 [], r)
  | _ + 1, 'M' :: r => some (implT, r)
  | _ + 1, 'R' :: r => some (.ptr (.base .struct 7 []) [0], r)   -- *tErr: implements `error`, is not `error`
  | f + 1, '*' :: r => (parseTy f r).map fun x => (.ptr x.1 [], x.2)
  | f + 1, 'F' :: '(' :: r =>
    match parseTys f r with
    | some (ins, ';' :: r2) =>
      (match parseTys f r2 with
       | some (outs, ')' :: r4) => some (.func ins outs, r4)
       | _ => none)
    | _ => none
  | _ + 1, _ => none
def parseTys : Nat → List Char → Option (Tys × List Char)
  | 0, _ => none
  | f + 1, cs =>
    match cs with
    | ';' :: _ => some (.nil, cs)
    | ')' :: _ => some (.nil, cs)
    | _ =>
      match parseTy f cs with
      | some (t, ',' :: r) => (parseTys f r).map fun x => (.cons t x.1, x.2)
      | some (t, r) => some (.cons t .nil, r)
      | none => none
end

open Pandora.Model.C18Ty in
def parseTyStr (s : String) : Option Ty :=
  match parseTy (s.length + 2) s.toList with
  | some (t, []) => some t
  | _ => none

open Pandora.Model.C18Ty Pandora.Model.C18Reg in
def handleReg (kv : List (String × String)) (impl : String) : String × String :=
  match parseTyStr (getS kv "ty"), parseTyStr (getS kv "pt" "I") with
  | some ty, some pt =>
    let dts := getS kv "dt" "-"
    let dt : Option (Option Ty) := if dts == "-" then some none else (parseTyStr dts).map some
    match dt with
    | none => ("-", "fail:driver:unparsable default-config type")
    | some dt =>
      let ok := regSelfOk pt (getS kv "nm" "x" == "e") (getS kv "dup" == "1") && supported pt ty dt
      let m := if ok then "accepted" else "regpanic"
      if impl == m then (m, "ok")
      else if ok then (m, "fail:register:a supported way of registering a constructor is refused")
      else (m, "fail:register:an unsupported constructor / default-config function is accepted")
  | _, _ => ("-", "fail:driver:unparsable type")

/-! ### round 6 — `via=facty`: the REQUESTED form (`NewFactory`, `LookupFactory`, `FactoryPluginType`, `New`) over requested
types; one registration (plugin interface, "x").  `requestedOk` is proved equal to the regenerated `isFactoryType` for every
Go type (Proofs/C18R6 `isFactoryType_eq`). -/

open Pandora.Model.C18Ty Pandora.Model.C18Reg in
def handleFacTy (kv : List (String × String)) (impl : String) : String × String :=
  match parseTyStr (getS kv "ft") with
  | none => ("-", "fail:driver:unparsable requested type")
  | some ft =>
    let nm := getS kv "nm" "x"
    let nameOk := nm != "e"
    let known := nm == "x"
    let nf := if !(requestedOk ft && nameOk) then "expect"
      else if requestedPlugin ft == plugT && known then "made.ok" else "noentry"
    let lf := if requestedOk ft && requestedPlugin ft == plugT then "+" else "!"
    let fpt := if requestedOk ft then "+" else "!"
    let nw := if !(ft.kind == .iface && nameOk) then "expect" else if ft == plugT && known then "ok" else "noentry"
    let m := s!"nf={nf} lf={lf} fpt={fpt} nw={nw}"
    if impl == m then (m, "ok") else
    let ikv := parseKV impl
    let inf := getS ikv "nf"
    let inw := getS ikv "nw"
    if (nf == "expect" && inf != "expect") || (nw == "expect" && inw != "expect") ||
        (fpt == "!" && getS ikv "fpt" != "!") || (lf == "!" && getS ikv "lf" != "!") then
      (m, "fail:register:a requested type that is none of the supported forms is accepted")
    else if (nf != "expect" && inf == "expect") || (nw != "expect" && inw == "expect") ||
        (fpt == "+" && getS ikv "fpt" != "+") || (lf == "+" && getS ikv "lf" != "+") then
      (m, "fail:register:a supported requested form is refused")
    else (m, "fail:lookup:creation by requested type and name does not follow the registrations")

/-- round 6 — `fillopt=two` / `dopt=two`: more than one optional argument is an expectation panic before anything runs
(regenerated: `getFillConfTable`, `getNewDefaultConfigTable`) -/
def handleOpt (kv : List (String × String)) (impl : String) : String × String :=
  let sh := getS kv "sh"
  let refused := match sh.toList with
    | [_, c, _, _, _, d] => (c == 'n' && d != 'a') || (c == 's' && (d == 'n' || d == 's'))
    | _ => false
  let m := if refused && getS kv "dopt" != "two" then "regpanic" else "optpanic evs=0"
  if impl == m then (m, "ok")
  else if impl.startsWith "optpanic" then (m, "fail:counts:user code ran although the call was refused for its optional arguments")
  else (m, "fail:register:more than one optional fillConf / default-config argument is accepted")

/-! ### `via=engine`: a pool of the real engine with the registered gun -/

open Pandora.Model.C18Engine in
def showEngine (e : EngineObs) : String :=
  let seen := ",".intercalate (e.seen.map fun t => s!"{t.1}/{t.2.1}/{t.2.2}")
  let binds := ",".intercalate (e.binds.map toString)
  s!"eng res={e.res} guns={e.guns} cells={e.cells} d={e.dflts} c={e.ctors} r={e.facts} seen={seen} own={e.own} binds={binds} sched={e.sched}"

def parseTriple (s : String) : Option (Int × Int × Int) :=
  match (s.splitOn "/").mapM String.toInt? with
  | some [a, b, c] => some (a, b, c)
  | _ => none

/-- the Spec on the summary of what the REAL engine did -/
def judgeEngine (inp : Input) (inst : Nat) (model : Pandora.Model.C18Engine.EngineObs) (kv : List (String × String))
    (rule : Rule := ⟨3, 0⟩) : String :=
  let gi := Pandora.Model.C18Engine.gunInput inp inst
  let exp := expected inp.sh inp.w
  match getN? kv "guns", getN? kv "cells", getN? kv "own", parseNats (getS kv "binds"),
        (splitList (getS kv "seen")).mapM parseTriple with
  | some guns, some cells, some own, some binds, some seen =>
    if inp.sh.cfg != .none && seen.any (fun t => rule.min > t.2.2) then
      "fail:errors:a gun was built from a configuration that fails validation (the config error did not reach the caller)"
    else if binds.any (· > 1) then "fail:fresh:one gun was bound to more than one instance"
    else if getS kv "res" == "nilgun" then "fail:errors:the gun factory handed out a nil gun with a nil error (an error did not reach the caller)"
    else if getS kv "res" != model.res then
      s!"fail:errors:the pool run ended {getS kv "res"}, the constructor/config error plan says {model.res}"
    else if getS kv "res" == "ok" && guns != inst + 1 then "fail:errors:a pool without error built another number of guns than instances + 1"
    else if !seen.all (fun t => if inp.sh.cfg = .none then t == (0, 0, 0) else t == (exp.get 1, exp.get 2, exp.get 3)) then
      "fail:config:a gun was not built from the defaults overlaid by the user's settings"
    else if freshApplies gi && (own != cells || (inp.sh.cfg == .ptr && cells != guns)) then
      "fail:fresh:guns of different instances share a configuration object"
    else "ok"
  | _, _, _, _, _ => s!"fail:crash:unparsable engine observation"

def handleEngine (input impl : String) : String × String :=
  let kv := parseKV input
  match parseInput (input ++ " form=f2 k=0 ff="), getN? kv "inst" with
  | some inp, some inst =>
    if !inp.w.hasFill then ("-", "fail:driver:via=engine needs fill=1") else
    match Pandora.Model.C18Engine.engineRun inp inst (getS kv "per" == "1") with
    | none => ("-", "fail:driver:via=engine with a registration Register refuses")
    | some m =>
      if impl.startsWith "eng skip=" then ("-", "skip:inconclusive " ++ (impl.drop 9).toString) else
      if impl == "regpanic" then (showEngine m, "fail:regpanic:valid registration through core/register panicked") else
      (showEngine m, judgeEngine inp inst m (parseKV impl) (ruleOf kv))
  | _, _ => ("-", "fail:driver:unparsable input")

/-! ### `hist=1`: several creations on one registration -/

/-- "f1:1:_/9/_:3" -/
def parsePhase (s : String) : Option Phase :=
  match s.splitOn ":" with
  | [f, fill, u, k] => do pure { form := ← parseForm f, hasFill := fill == "1", user := ← parseCfg u, k := ← k.toNat? }
  | _ => none

def parseHist (kv : List (String × String)) : Option HInput := do
  let sh ← parseShape (getS kv "sh")
  let d ← parseCfg (getS kv "d")
  let ff ← parseNats (getS kv "ff")
  let cf ← parseNats (getS kv "cf")
  let rf ← parseNats (getS kv "rf")
  let phases ← (splitList (getS kv "ph") "|").mapM parsePhase
  pure { sh, dflt := d, fillFault := ff.contains, ctorFault := cf.contains, factFault := rf.contains, phases }

def showSteps (sh : Shape) (steps : List Step) : String :=
  ";".intercalate (steps.map fun s => "|".intercalate (s.evs.map (showEv sh)) ++ ">" ++ showRes s.res)

def showViews (vs : List (Nat × Int)) : String := ",".intercalate (vs.map fun v => s!"{v.1}:{v.2}")

/-- the harness numbers configuration objects in the order in which it first SEES them (a struct config that is
never handed to fillConf is never seen); the model numbers them in allocation order: rename the model's identities
by first appearance in what is printed -/
def renumber (sh : Shape) (phases : List Obs) : List Obs :=
  let shown (s : Step) : List Nat :=
    (s.evs.filterMap fun e =>
      match e with
      | .fill _ a _ => a
      | .ctor _ c _ => if sh.cfg = .ptr then c else none
      | _ => none) ++
    (match s.res with | .ok p => p.cell.toList | _ => [])
  let order := (phases.flatMap fun o => o.steps.flatMap shown).foldl (fun acc c => if acc.contains c then acc else acc ++ [c]) []
  let ren (c : Nat) : Nat := (order.findIdx? (· == c)).getD c
  phases.map fun o => { o with steps := o.steps.map fun s =>
    { evs := s.evs.map fun e =>
        match e with
        | .fill i a ok => .fill i (a.map ren) ok
        | .ctor i c ok => .ctor i (c.map ren) ok
        | e => e
      res := match s.res with
        | .ok p => .ok { p with cell := p.cell.map ren }
        | r => r } }

def showHist (sh : Shape) : Option HObs → String
  | none => "regpanic"
  | some o =>
    s!"hist steps={"#".intercalate (o.phases.map fun ob => showSteps sh ob.steps)} pv={"#".intercalate (o.phases.map fun ob => showViews ob.views)} views={showViews o.views}"

def parseViews (s : String) : Option (List (Nat × Int)) :=
  (splitList s).mapM fun v =>
    match v.splitOn ":" with
    | [a, b] => do pure ((← a.toNat?), (← b.toInt?))
    | _ => none

def parseHistObs (s : String) : Option (Option HObs) :=
  if s == "regpanic" then some none else do
  let kv := parseKV s
  let ps ← ((getS kv "steps").splitOn "#").mapM fun p => (splitList p ";").mapM parseStep
  let pvs ← ((getS kv "pv").splitOn "#").mapM parseViews
  if ps.length != pvs.length then none else
  pure (some ⟨(ps.zip pvs).map fun x => ⟨x.1, x.2⟩, ← parseViews (getS kv "views")⟩)

/-- the single-creation Spec on one phase, with the key of the clause that fails (the configuration clause is not
judged for a shared default pointer: there earlier creations' settings stay in the shared object) -/
def judgePhaseH (inp : Input) (o : Obs) (hook : Bool) (rule : Rule := ⟨3, 0⟩) : String :=
  if hook then judgeHook inp (some o) (!ruleHolds rule inp) (inp.sh.dflt == .shared) rule
  else if !errorsOk inp o then "fail:errors:error not delivered as the error result / panic rule"
  else if inp.sh.dflt != .shared && !configOk inp o fields then "fail:config:product config is not the defaults overlaid by the settings of ITS creation"
  else if freshApplies inp && !freshOk inp o then "fail:fresh:config not created+filled per product or shared between products"
  else if onceApplies inp && !onceOk inp o then "fail:once:factory constructor not configured exactly once"
  else if percallApplies inp && !percallOk inp o then "fail:fresh:a product not built by its own default-config + fillConf + constructor call"
  else if !structOk inp o then "fail:counts:user code invoked in another number or order than the constructor shape prescribes"
  else "ok"

def zeroSeen (sh : Shape) (o : Obs) : Obs :=
  if sh.cfg = .none then
    { o with steps := o.steps.map fun s =>
        match s.res with
        | .ok p => if p.seen == [(0, 0), (1, 0), (2, 0), (3, 0)] then { s with res := .ok { p with seen := [] } } else s
        | _ => s }
  else o

/-- a history through the hooks with a validation rule: the creations whose configuration (defaults overlaid by the
settings of THAT creation) breaks the rule run in the world in which every fillConf fails, the others in the world of
the history; every creation starts in the state the earlier ones left (`phaseSt`, as `histSt` does) -/
def histStV (h : HInput) (rule : Rule) : List Phase → St → St × List Obs
  | [], st => (st, [])
  | p :: ps, st =>
    let inp := h.input p
    let inp : Input := if ruleHolds rule inp then inp else { inp with w := { inp.w with fillFault := fun _ => true } }
    let rest := histStV h rule ps (phaseSt inp st).1
    (rest.1, phaseObs inp st :: rest.2)

def runHistV (h : HInput) (rule : Rule) : Option HObs :=
  if !registerOk h.sh then none else
  let r := histStV h rule h.phases (histInit h)
  some ⟨r.2, viewsOf r.1.heap (r.2.flatMap (·.steps))⟩

/-- on the hook path the harness cannot see fillConf's invocation index: it numbers the FAILED decodes; the model's
fill errors are renumbered the same way (first failure = 0), across the phases of a history -/
def renumFillErrs : Nat → List Step → Nat × List Step
  | n, [] => (n, [])
  | n, s :: ss =>
    match s.res with
    | .err (.fill _) => let r := renumFillErrs (n + 1) ss; (r.1, { s with res := .err (.fill n) } :: r.2)
    | .panic (.fill _) => let r := renumFillErrs (n + 1) ss; (r.1, { s with res := .panic (.fill n) } :: r.2)
    | _ => let r := renumFillErrs n ss; (r.1, s :: r.2)

def renumFillErrsH : Nat → List Obs → List Obs
  | _, [] => []
  | n, o :: os => let r := renumFillErrs n o.steps; { o with steps := r.2 } :: renumFillErrsH r.1 os

def handleHist (input impl : String) : String × String :=
  let kv := parseKV input
  match parseHist kv with
  | none => ("-", "fail:driver:unparsable history")
  | some h =>
    let hook := getS kv "via" == "hook"
    let rule := ruleOf kv
    let mo := if hook then runHistV h rule else runHist h
    let mo := if hook then mo.map fun o => { o with phases := renumFillErrsH 0 (o.phases.map eraseFills) } else mo
    let mo := mo.map fun o => { o with phases := renumber h.sh o.phases }
    let m := showHist h.sh mo
    if ((getS (parseKV impl) "steps").splitOn "#").any (fun ph => (splitList ph ";").any (·.endsWith ">nil")) then
      (m, "fail:errors:nil component with nil error (an error did not reach the caller)")
    else if (impl.splitOn ">err.other:").length > 1 || (impl.splitOn ">panic.other:").length > 1 then
      (m, "fail:errors:an error or panic that is none of the constructor / config errors reached the caller")
    else
    match parseHistObs impl with
    | none => (m, s!"fail:crash:unparsable observation {impl.take 120}")
    | some none => (m, judgeHist h none fields)
    | some (some o) =>
      if !registerOk h.sh then (m, "fail:registered:invalid registration accepted")
      else if o.phases.length != h.phases.length then (m, "fail:crash:number of phases")
      else
        let o : HObs := { o with phases := o.phases.map (zeroSeen h.sh) }
        let bad := ((h.phases.zip o.phases).map fun x => judgePhaseH (h.input x.1) x.2 hook rule).filter (· != "ok")
        match bad with
        | v :: _ => (m, v)
        | [] =>
          if !histCrossOk h o then
            (m, "fail:fresh:products of different creations share a configuration object or a later creation disturbed an earlier product")
          else (m, "ok")

/-! ### `sess=1`: one registry, several registrations, any interleaving of operations -/

namespace Sess
open Pandora.Model.C18Sess Pandora.Spec.C18Sess

def parseOp (s : String) : Option Op :=
  match s.splitOn ":" with
  | ["R", t, name, sh, d, ff, cf, rf] => do
    let ff ← parseNats ff
    let cf ← parseNats cf
    let rf ← parseNats rf
    pure (.register { ptype := ← t.toNat?, name := name, sh := ← parseShape sh, dflt := ← parseCfg d,
                      fillFault := ff.contains, ctorFault := cf.contains, factFault := rf.contains })
  | ["N", t, name, fill, u] => do pure (.new (← t.toNat?) name (← parseCfg u) (fill == "1"))
  | ["F", t, name, e, fill, u] => do pure (.newFactory (← t.toNat?) name (e == "1") (← parseCfg u) (fill == "1"))
  | ["C", h] => do pure (.call (← h.toNat?))
  | ["L", t] => do pure (.lookup (← t.toNat?))
  | _ => none

/-- the shape of the registration an operation ran on (for printing the constructor's argument) -/
def shapeOfSlot (ops : List Op) (outs : List Out) (i : Nat) : Shape :=
  let regs := (ops.zip outs).filterMap fun x =>
    match x.1, x.2 with
    | .register r, .accepted => some r.sh
    | _, _ => none
  regs.getD i ⟨false, .none, false, false, false, .absent⟩

def showOut (sh : Nat → Shape) : Out → String
  | .accepted => "acc"
  | .refused => "ref"
  | .noEntry _ => "noentry"
  | .noHandle => "nohandle"
  | .found b => if b then "found.1" else "found.0"
  | .step i s =>
    let shown := !s.evs.isEmpty || (product? s).isSome
    s!"{if shown then toString i else "-"}~{"|".intercalate (s.evs.map (showEv (sh i)))}>{showRes s.res}"

/-- the harness numbers the configuration objects of every registration in the order in which it first SEES them -/
def renumberOuts (sh : Nat → Shape) (outs : List Out) : List Out :=
  let shown (i : Nat) (s : Step) : List (Nat × Nat) :=
    ((s.evs.filterMap fun e =>
      match e with
      | .fill _ a _ => a
      | .ctor _ c _ => if (sh i).cfg = .ptr then c else none
      | _ => none) ++
    (match s.res with | .ok p => p.cell.toList | _ => [])).map fun c => (i, c)
  let order := (outs.flatMap fun o => match o with | .step i s => shown i s | _ => []).foldl
    (fun acc c => if acc.contains c then acc else acc ++ [c]) []
  let ren (i c : Nat) : Nat :=
    -- identity 0 of a shared default configuration is owned by the default-config function from registration on
    if (sh i).dflt = .shared then c else
    (((order.filter (·.1 == i)).findIdx? (· == (i, c))).getD c)
  outs.map fun o =>
    match o with
    | .step i s =>
      .step i { evs := s.evs.map fun e =>
                  match e with
                  | .fill k a ok => .fill k (a.map (ren i)) ok
                  | .ctor k c ok => .ctor k (c.map (ren i)) ok
                  | e => e
                res := match s.res with
                  | .ok p => .ok { p with cell := p.cell.map (ren i) }
                  | r => r }
    | o => o

def showViews (vs : List (Option Int)) : String :=
  ",".intercalate (vs.map fun v => match v with | some x => toString x | none => "-")

def parseOut (s : String) : Option Out :=
  if s == "acc" then some .accepted
  else if s == "ref" then some .refused
  else if s == "noentry" then some (.noEntry false)
  else if s == "nohandle" then some .noHandle
  else if s == "found.1" then some (.found true)
  else if s == "found.0" then some (.found false)
  else
    match s.splitOn "~" with
    | [slot, st] => do
      let st ← parseStep st
      -- "-": nothing ran and nothing came out, any registration fits: the Spec judges it for the one that was meant
      pure (.step (slot.toNat?.getD 1000000) st)
    | _ => none

/-- zero-valued fields of a product of a constructor without config -/
def zeroOut (sh : Nat → Shape) : Out → Out
  | .step i s =>
    if (sh i).cfg = .none then
      match s.res with
      | .ok p => if p.seen == [(0, 0), (1, 0), (2, 0), (3, 0)] then .step i { s with res := .ok { p with seen := [] } } else .step i s
      | _ => .step i s
    else .step i s
  | o => o

/-- `-` as slot: put the slot the Spec resolves to -/
def fillSlots (ops : List Op) (outs : List Out) : List Out :=
  let rec go (tr : Track) : List Op → List Out → List Out
    | op :: ops, out :: outs =>
      let out := match out with
        | .step 1000000 s => (match target tr op with | some (i, _, _) => .step i s | none => out)
        | o => o
      out :: go (trackStep tr op out) ops outs
    | _, outs => outs
  go Track.empty ops outs

def handleSess (input impl : String) : String × String :=
  let kv := parseKV input
  match (splitList (getS kv "ops") "|").mapM parseOp with
  | none => ("-", "fail:driver:unparsable session")
  | some ops =>
    let mo := run ops
    let sh := shapeOfSlot ops mo.outs
    let m := s!"sess outs={";".intercalate ((renumberOuts sh mo.outs).map (showOut sh))} views={showViews mo.views}"
    let ikv := parseKV impl
    let toks := splitList (getS ikv "outs") ";"
    if toks.any (·.endsWith ">nil") then
      (m, "fail:errors:nil component with nil error (an error did not reach the caller)")
    else if toks.any (fun t => (t.splitOn ">err.other:").length > 1 || (t.splitOn ">panic.other:").length > 1) then
      (m, "fail:errors:an error or panic that is none of the constructor / config errors reached the caller")
    else if toks.any (fun t => t.startsWith "x~") then
      (m, "fail:lookup:user code of a registration other than the one registered for this type and name ran")
    else if toks.any (fun t => t.endsWith ">noentry") then
      (m, "fail:lookup:user code ran although the lookup failed")
    else
    match toks.mapM parseOut, (splitList (getS ikv "views")).mapM (fun v => if v == "-" then some none else v.toInt?.map some) with
    | some outs, some views =>
      let outs := fillSlots ops outs
      let shI := shapeOfSlot ops outs
      (m, judgeSess ops ⟨outs.map (zeroOut shI), views⟩ fields)
    | _, _ => (m, s!"fail:crash:unparsable observation {impl.take 160}")

end Sess

/-! ### `nm=` / `pt=`: a creation for another name / another plugin type than the one registration (Iface, "x") -/

def handleMiss (inp : Input) (kv : List (String × String)) (impl : String) : String × String :=
  let hook := getS kv "via" == "hook"
  let nm := getS kv "nm" "x"
  let pt := (getN? kv "pt").getD 0
  let reg : Pandora.Model.C18Sess.Reg :=
    { ptype := 0, name := "x", sh := inp.sh, dflt := inp.w.dflt, fillFault := inp.w.fillFault,
      ctorFault := inp.w.ctorFault, factFault := inp.w.factFault }
  let creation : Pandora.Model.C18Sess.Op :=
    match inp.form with
    | .component => .new pt nm inp.w.user inp.w.hasFill
    | .facNoErr => .newFactory pt nm false inp.w.user inp.w.hasFill
    | .facErr => .newFactory pt nm true inp.w.user inp.w.hasFill
  let n := if inp.form == .component then inp.k else 1
  let ops := Pandora.Model.C18Sess.Op.register reg :: (List.replicate n [Pandora.Model.C18Sess.Op.lookup pt, creation]).flatten
  let outs := (Pandora.Model.C18Sess.run ops).outs.drop 1
  -- pairs (Lookup, creation)
  let rec pairs : List Pandora.Model.C18Sess.Out → Option (List String)
    | .found b :: o :: rest => do
      let r ← pairs rest
      if hook && !b then pure (">pass" :: r)
      else match o with
        | .noEntry _ => pure (">noentry" :: r)
        | _ => none
    | [] => some []
    | _ => none
  if !registerOk inp.sh then ("-", "fail:driver:nm=/pt= with a registration Register refuses") else
  match pairs outs with
  | none => ("-", "fail:driver:nm=/pt= that name the registration itself")
  | some exp =>
    let m := s!"steps={";".intercalate exp} views="
    let toks := splitList (getS (parseKV impl) "steps") ";"
    -- the Spec: nothing runs; the error result of the lookup — through the hooks the untouched data is also right when NO
    -- plugin is registered for the type at all
    let typeKnown := pt == 0
    if toks.length != exp.length then (m, "fail:lookup:number of results")
    else if hook && !typeKnown && toks.any (fun t => t == ">noentry") then
      -- round 6: `Hook` / `FactoryHook` ask the registry AS IT IS NOW whether the field's type has plugins (`C18_hook`:
      -- a type without registered plugins gets its data back untouched); a lookup error here means the answer was
      -- stale or came from another registry
      (m, "fail:lookup:the config hook treated a field whose type has no registered plugin as a plugin field (stale or foreign Lookup answer)")
    else if toks.all (fun t => t == ">noentry" || (hook && !typeKnown && t == ">pass")) then (m, "ok")
    else if toks.any (fun t => !t.startsWith ">") then
      (m, "fail:lookup:user code ran although nothing is registered for this type and name")
    else (m, "fail:lookup:a creation for a type and name nobody registered did not end with the lookup error")

/-! ### `via=hookconf`: the config hooks on well- and ill-formed plugin config data -/

namespace HookConf
open Pandora.Model.C18Hook

/-- "key~s~value" / "key~n~digits" -/
def parseKVs (s : String) : Option (List KV) :=
  (splitList s).mapM fun e =>
    match e.splitOn "~" with
    | [k, "s", v] => some ⟨k.toList, true, v⟩
    | [k, "n", v] => some ⟨k.toList, false, v⟩
    | _ => none

/-- the user's settings among the entries that are no `type` key: a/b/c with numbers are fields 1/2/3; anything else the
decoder refuses -/
def settings (rest : List KV) : Option Cfg :=
  rest.mapM fun kv =>
    if kv.isStr then none else
    match String.ofList kv.key, kv.val.toInt? with
    | "a", some v => some (1, v)
    | "b", some v => some (2, v)
    | "c", some v => some (3, v)
    | _, _ => none

def handleHookConf (input impl : String) : String × String :=
  let kv := parseKV input
  match parseShape (getS kv "sh"), parseForm (getS kv "form"), parseCfg (getS kv "d"), parseKVs (getS kv "conf") with
  | some sh, some form, some d, some data =>
    if !registerOk sh then ("-", "fail:driver:via=hookconf with a registration Register refuses") else
    let dk := match getS kv "dk" with | "i" => DataKind.anyMap | "x" => DataKind.other | _ => DataKind.strMap
    let nsk := data.any fun e => e.key.head? == some '#'
    let typeKnown := (getN? kv "pt").getD 0 == 0
    let noFault : Nat → Bool := fun _ => false
    let mk (user : Cfg) (ff : Nat → Bool) : Input :=
      { sh, form, k := 1, w := { dflt := d, user, hasFill := true, fillFault := ff, ctorFault := noFault, factFault := noFault } }
    let evCount (o : Obs) : Nat := (o.steps.map fun s => (s.evs.filter (!isFill ·)).length).sum
    let rule := ruleOf kv
    let exp : String × Nat :=
      match hook true typeKnown dk nsk data with
      | .pass => ("pass", 0)
      | .parseErr => ("err.parse", 0)
      | .create name rest =>
        if name != "x" then ("noentry", 0) else
        -- in a map with string keys a "#…" key is just an unknown key
        match settings rest with
        | none =>
          (match run (mk [] fun _ => true) with
           | some o => ("err.decode", evCount o)
           | none => ("?", 0))
        | some user =>
          -- fillConf = decode AND validate: a configuration that breaks the rule of the config type is refused
          if !ruleHolds rule (mk user noFault) then
            (match run (mk [] fun _ => true) with
             | some o => ("err.valid", evCount o)
             | none => ("?", 0))
          else
          match run (mk user noFault) with
          | some o =>
            (match (products o.steps).getLast? with
             | some p =>
               if sh.cfg = .none then ("ok.0/0/0", evCount o)
               else (s!"ok.{p.seen.get 1}/{p.seen.get 2}/{p.seen.get 3}", evCount o)
             | none => ("?", 0))
          | none => ("?", 0)
    let m := s!"hc res={exp.1} ev={exp.2}"
    let ikv := parseKV impl
    let res := getS ikv "res"
    -- the Spec: ill-formed data and unknown names end with the error result and run no user code; well-formed data
    -- creates the component from the defaults overlaid by the settings
    if res == "panic.emptyname" then
      -- the model is the REPAIRED behaviour (`err.parse`); for the witness of the open finding it predicts nothing, so
      -- that the case is reported as the known finding and not as a disagreement as well
      ("-", "fail:emptyname:a plugin config with an empty plugin name ends in a panic (expectation failed: empty name) instead of the error result")
    else if res.startsWith "panic." then (m, "fail:errors:the config hook panicked on config data")
    else if res == "nil" || res.startsWith "other:" then (m, "fail:errors:the hook handed out neither a component nor an error")
    else if exp.1 == "err.parse" || exp.1 == "noentry" then
      if res.startsWith "ok." || res == "pass" then (m, "fail:lookup:ill-formed plugin config data / an unknown plugin name did not end with the error result")
      else if getN? ikv "ev" != some 0 then (m, "fail:lookup:user code ran although the plugin config data are ill-formed / the name is unknown")
      else (m, "ok")
    else if exp.1 == "err.valid" then
      if res.startsWith "ok." then
        (m, "fail:errors:a component was built from a configuration that fails validation (the config error did not reach the caller)")
      else (m, "ok")
    else if exp.1.startsWith "ok." then
      if res == "err.valid" then (m, "fail:errors:a valid configuration was refused with a config error")
      else if res != exp.1 then (m, "fail:config:the component created through the hook was not built from the defaults overlaid by the user's settings")
      else if getN? ikv "ev" != some exp.2 then (m, "fail:counts:user code invoked another number of times than the constructor shape prescribes")
      else (m, "ok")
    else if exp.1 == "pass" then
      -- round 6: no plugin is registered for the field's type: the data go back untouched, whatever they look like
      if res == "pass" then (m, "ok")
      else (m, "fail:lookup:the config hook treated a field whose type has no registered plugin as a plugin field (stale or foreign Lookup answer)")
    else (m, "ok")
  | _, _, _, _ => ("-", "fail:driver:unparsable input")

end HookConf

/-! ### `via=nest`: a plugin whose configuration contains another plugin (created by the decoder while it fills the
outer configuration: the registry and the hooks are re-entered)

The model is a composition of two single-registration runs: the nested registration runs `New` once per fillConf
invocation of the outer creation; the outer fillConf fails exactly when the nested creation failed or the outer
configuration breaks the validation rule.  Every theorem about `Model.C18.run` holds for ANY fault plan, so in particular
for the plan the nested creations induce. -/

namespace Nest

/-- index of the fillConf invocation of a step (at most one `Get` per operation) -/
def fillIdx? (s : Step) : Option Nat := s.evs.findSome? fun | .fill i _ _ => some i | _ => none

open Pandora.Model.C18Nest in
abbrev NestModel := NestObs

def showNest (osh ish : Shape) (m : Pandora.Model.C18Nest.NestObs) : String :=
  let outerShown : Obs := { eraseFills m.outer with steps := (renumFillErrs 0 (eraseFills m.outer).steps).2 }
  let outerShown := (renumber osh [outerShown]).headD outerShown
  let innerShown := (renumber ish [eraseFills m.inner]).headD m.inner
  let isteps := m.outer.steps.map fun s =>
    match fillIdx? s with
    | some i => (match innerShown.steps[i]? with | some st => "|".intercalate (st.evs.map (showEv ish)) | none => "?")
    | none => ""
  -- which fillConf invocation made the configuration a product was built from: the last one so far
  let rec subs (cur : Option Nat) : List Step → List String
    | [] => []
    | s :: ss =>
      let cur := match fillIdx? s with | some i => some i | none => cur
      match product? s with
      | some p =>
        let e := match cur.bind (fun i => m.inner.steps[i]?) |>.bind product? with
          | some ip => s!"{p.serial}:{ip.serial}:{ip.seen.get 1}/{ip.seen.get 2}/{ip.seen.get 3}"
          | none => s!"{p.serial}:-"
        e :: subs cur ss
      | none => subs cur ss
  s!"nest steps={showSteps osh outerShown.steps} isteps={";".intercalate isteps} subs={",".intercalate (subs none m.outer.steps)} views={showViews m.outer.views} iviews={showViews m.inner.views}"

def parseSub (s : String) : Option (Nat × Option (Nat × Int × Int × Int)) :=
  match s.splitOn ":" with
  | [o, "-"] => do pure (← o.toNat?, none)
  | [o, i, t] => do
    let t ← parseTriple t
    pure (← o.toNat?, some (← i.toNat?, t))
  | _ => none

def handleNest (input impl : String) : String × String :=
  let kv := parseKV input
  match parseInput (input ++ " fill=1 ff="), parseShape (getS kv "ish"), parseCfg (getS kv "id"), parseCfg (getS kv "iu"),
        parseNats (getS kv "icf"), parseNats (getS kv "irf") with
  | some outer0, some ish, some idf, some iu, some icf, some irf =>
    let rule := ruleOf kv
    let iw : World := { dflt := idf, user := iu, hasFill := true, fillFault := fun _ => false, ctorFault := icf.contains, factFault := irf.contains }
    let innerBase : Input := { sh := ish, form := .component, k := 0, w := iw }
    let innerBad := !ruleHolds rule innerBase
    let inner0 : Input := { innerBase with w := { innerBase.w with fillFault := fun _ => innerBad } }
    if outer0.sh.cfg == .none then ("-", "fail:driver:via=nest needs an outer constructor with a config") else
    if outer0.sh.dflt == .shared then
      ("-", "skip:one shared default config: the decoder decodes a new nested component INTO the one the shared config holds (the plugin author's sharing)") else
    match Pandora.Model.C18Nest.nestRun outer0 inner0 with
    | none =>
      if impl == "regpanic" then ("regpanic", if registerOk outer0.sh && registerOk ish then "fail:regpanic:valid registration panicked" else "ok")
      else ("regpanic", "fail:registered:invalid registration accepted")
    | some m =>
      let ms := showNest outer0.sh ish m
      if impl == "HANG" then (ms, "fail:hang:a creation whose configuration contains another plugin never returned (the registry / the hooks are not re-entrant)")
      else if impl.startsWith "PANIC" then (ms, "fail:errors:a creation whose configuration contains another plugin panicked")
      else if impl == "regpanic" then (ms, "fail:regpanic:valid registration panicked")
      else
      let ikv := parseKV impl
      let stepToks := splitList (getS ikv "steps") ";"
      if stepToks.any (·.endsWith ">nil") then (ms, "fail:errors:nil component with nil error (an error did not reach the caller)")
      else if (impl.splitOn ">err.other:").length > 1 || (impl.splitOn ">panic.other:").length > 1 then
        (ms, "fail:errors:an error or panic that is none of the constructor / config errors reached the caller")
      else
      match stepToks.mapM parseStep, parseViews (getS ikv "views"), (splitList (getS ikv "subs")).mapM parseSub with
      | some steps, some views, some subs =>
        -- the outer creation: the Spec of the hook path (a fillConf may fail because the nested creation failed)
        let relaxed := innerBad || !ruleHolds rule outer0 || !icf.isEmpty || !irf.isEmpty
        let v := judgeHook outer0 (some ⟨steps, views⟩) relaxed false rule
        if v != "ok" then (ms, v)
        else
          let exp := expected ish inner0.w
          let want : Int × Int × Int := if ish.cfg = .none then (0, 0, 0) else (exp.get 1, exp.get 2, exp.get 3)
          if subs.any (fun x => x.2.isNone) then
            (ms, "fail:config:a component was built although the nested plugin of its configuration was not created")
          else if subs.any (fun x => match x.2 with | some (_, t) => t != want | none => false) then
            (ms, "fail:config:the nested component was not built from ITS registration's defaults overlaid by ITS settings")
          else if ish.cfg != .none && subs.any (fun x => match x.2 with | some (_, t) => rule.min > t.2.2 | none => false) then
            (ms, "fail:errors:a nested component was built from a configuration that fails validation")
          else if reconfigures outer0 && !nodup (subs.filterMap fun x => x.2.map (·.1)) then
            (ms, "fail:fresh:two products that were configured separately share one nested component")
          else (ms, "ok")
      | _, _, _ => (ms, s!"fail:crash:unparsable observation {impl.take 160}")
  | _, _, _, _, _, _ => ("-", "fail:driver:unparsable input")

end Nest

/-- one creation on one registration, directly or through the hooks -/
def handlePlain (input impl : String) : String × String :=
  match parseInput input with
  | none => ("-", "fail:driver:unparsable input")
  | some inp =>
    let hook := getS (parseKV input) "via" == "hook"
    if (lookup (parseKV input) "nm").isSome || (lookup (parseKV input) "pt").isSome then handleMiss inp (parseKV input) impl else
    if hook && !inp.w.hasFill then ("-", "fail:driver:via=hook needs fill=1") else
    let xf := Over.shown (parseKV input)
    if !xf.isEmpty && (!hook || inp.sh.cfg == .none) then ("-", "fail:driver:ext=1 needs via=hook and a constructor with a config") else
    let m := showObs inp.sh (if hook then (run inp).map fun o => { eraseFills o with steps := (renumFillErrs 0 (eraseFills o).steps).2 }
                             else run inp) xf
    -- an operation that hands out neither a component nor an error (a nil component with a nil error, printed
    -- `nil` by the harness) has no place in `Res`: that is an error that did not reach the caller
    -- round 4: products that were configured separately hold one map / list / nested struct (the harness says so only
    -- when it happens: `shared=N`)
    if (lookup (parseKV impl) "shared").isSome then
      (m, "fail:fresh:products of a component constructor share a map / list / nested-struct option of their configurations (not freshly created and decoded per product)") else
    if (splitList (getS (parseKV impl) "steps") ";").any (fun st => st.endsWith ">nil") then
      (m, "fail:errors:nil component with nil error (an error did not reach the caller)")
    else if (impl.splitOn ">err.other:").length > 1 || (impl.splitOn ">panic.other:").length > 1 then
      (m, "fail:errors:an error or panic that is none of the constructor / config errors reached the caller")
    else
    match parseObs impl with
    | none => (m, s!"fail:crash:unparsable observation {impl.take 120}")
    | some obs =>
      -- products of a no-config shape are printed with zero fields: the Spec wants `seen = []` there
      let obs := if inp.sh.cfg = .none then
          obs.map fun o => { o with steps := o.steps.map fun s =>
            match s.res with
            | .ok p => if p.seen == [(0, 0), (1, 0), (2, 0), (3, 0)] then { s with res := .ok { p with seen := [] } } else s
            | _ => s }
        else obs
      let rule := ruleOf (parseKV input)
      (m, if hook then judgeHook inp obs (getS (parseKV input) "bad" == "1" || getS (parseKV input) "bad" == "2" || !ruleHolds rule inp) false rule (fields ++ xf) (getS (parseKV input) "bad" == "1" || getS (parseKV input) "bad" == "2")
          else judge inp obs fields)

/-! ### `conc=1`: several registrations of ONE registry, their creations running concurrently (one goroutine each).
Every registration's user code runs in its own goroutine only, so its observation is what the registration does alone
(`C18_isolation`): the plain single-creation handler judges each of them. -/
def handleConc (input impl : String) : String × String :=
  let subs := ((getS (parseKV input) "cases").splitOn "@@").map fun c => c.replace "+" " "
  if impl.startsWith "RACE " || impl == "RACE" then
    -- the driver built with -race: the race runtime reported a data race while this case ran
    ("conc " ++ " ## ".intercalate (subs.map fun c => (handlePlain c "").1),
     s!"fail:race:a data race between creations that run concurrently on one registry (documented thread safe without concurrent Register): {(impl.drop 5).toString}") else
  let obs := (if impl.startsWith "conc " then (impl.drop 5).toString else impl).splitOn " ## "
  if subs.length != obs.length then ("-", s!"fail:crash:{obs.length} observations for {subs.length} concurrent creations") else
  let rs := (subs.zip obs).map fun x => handlePlain x.1 x.2
  let m := "conc " ++ " ## ".intercalate (rs.map (·.1))
  match (rs.zip obs).find? (fun x => x.1.2 != "ok") with
  | some (r, o) =>
    if o.startsWith "PANIC" then (m, "fail:errors:a creation that ran concurrently with creations on other registrations panicked")
    else (m, r.2)
  | none => (m, "ok")

/-! ### `via=par` (round 4): ONE registration, creations through the hooks from several goroutines at the same time,
every goroutine with its own settings.  The observation is independent of the schedule (results without serial numbers
and identities per goroutine, totals for the case).  The model: every goroutine's creation is a run of its own — at
step granularity the real execution is a session on one registration (any interleaving of creations and factory calls),
and `C18_session` gives every step of a session the clauses of the single-creation Spec w.r.t. the settings of ITS
creation, pairwise distinct configurations and undisturbed final views (the step-level interleavings only: what happens
INSIDE concurrently running registry / decoder code is observed — results, totals, the race detector — not modelled).
The verdict below judges every goroutine's results against ITS settings directly (Spec clauses on the real observation);
the model observation (every goroutine a run of its own) is the prediction the session theorem justifies. -/
namespace Par

def tokOf (xf : List Nat) : Res → String
  | .made => "made"
  | .ok p => "ok." ++ "/".intercalate (([1, 2, 3] ++ xf).map fun f => toString (p.seen.get f))
  | .err (.fill _) => "err.fill"
  | .err (.ctor _) => "err.ctor"
  | .err (.fact _) => "err.fact"
  | .panic (.fill _) => "panic.fill"
  | .panic (.ctor _) => "panic.ctor"
  | .panic (.fact _) => "panic.fact"

/-- run-length encoding of equal neighbours: `tok*n` -/
def rle : List String → List String
  | [] => []
  | t :: ts =>
    let same := ts.takeWhile (· == t)
    let n := same.length + 1
    (if n > 1 then s!"{t}*{n}" else t) :: rle (ts.drop same.length)
termination_by l => l.length
decreasing_by simp_wf; omega

def unrle (s : String) : List String :=
  (splitList s).flatMap fun t =>
    match t.splitOn "*" with
    | [a, n] => List.replicate (n.toNat?.getD 1) a
    | _ => [t]

structure Totals where
  prods : Nat
  cells : Nat
  own : Nat
  d : Nat
  c : Nat
  r : Nat
deriving BEq

def totalsOf (o : Obs) : Totals :=
  let evs := o.steps.flatMap (·.evs)
  { prods := (products o.steps).length
    cells := ((products o.steps).filterMap (·.cell)).eraseDups.length
    own := (o.views.filter fun v => (v.1 : Int) == v.2).length
    d := evs.countP isDflt, c := evs.countP isCtor, r := evs.countP isFact }

def Totals.add (a b : Totals) : Totals := ⟨a.prods + b.prods, a.cells + b.cells, a.own + b.own, a.d + b.d, a.c + b.c, a.r + b.r⟩

def chunks (m : Nat) : Nat → List String → List (List String)
  | 0, _ => []
  | g + 1, l => l.take m :: chunks m g (l.drop m)

def handlePar (input impl : String) : String × String :=
  let kv := parseKV input
  let xf := Over.shown kv
  let mode := getS kv "mode"
  let sets := (getS kv "us").splitOn "|"
  match getN? kv "g", getN? kv "m" with
  | some g, some m =>
    let rule := ruleOf kv
    -- the input of goroutine j's creation: its own settings, fault-free user code, the validating decoder as fillConf
    let inputOf (u : String) (k : Nat) : Option Input :=
      let f := u.splitOn "^"
      let abc := f.headD "_/_/_"
      let extra := if Over.isExt kv then s!" um={f.getD 1 "_"} ul={f.getD 2 "_"} ur={f.getD 3 "_"} up={f.getD 4 "_"}" else ""
      let drop (k : String) : Bool := k == "us" || k == "g" || k == "m" || k == "mode"
      let base := " ".intercalate ((kv.filter fun e => !drop e.1).map fun e => s!"{e.1}={e.2}")
      parseInput (s!"{base} u={abc}{extra} fill=1 k={k} ff= cf= rf=")
    let inputs : Option (List Input) :=
      if mode == "one" then (inputOf (sets.headD "_/_/_") (g * m)).map ([·])
      else (sets.take g).mapM fun u => inputOf u m
    (match inputs with
     | none => ("-", "fail:driver:unparsable via=par input")
     | some inps =>
       if sets.length < g || g == 0 then ("-", "fail:driver:via=par needs one settings entry per goroutine") else
       if inps.any (fun i => !registerOk i.sh) then ("-", "fail:driver:via=par with a registration Register refuses") else
       if inps.any (fun i => i.sh.dflt == .shared) then
         ("-", "skip:one shared default config decoded by several goroutines at once (the plugin author's sharing)") else
       if inps.any (fun i => (mode == "new") != (i.form == .component)) then ("-", "fail:driver:mode=new goes with form=c, the others with a factory form") else
       let obs := inps.filterMap run
       let toks (o : Obs) : List String := o.steps.map fun s => tokOf xf s.res
       let perG : List (List String) :=
         if mode == "one" then
           match obs.head? with
           | some o =>
             (match toks o with
              | t :: rest =>
                if t == "made" then (chunks m g rest).mapIdx fun i c => if i == 0 then t :: c else c
                else [t] :: List.replicate (g - 1) []
              | [] => List.replicate g [])
           | none => []
         else obs.map toks
       let tot := (obs.map totalsOf).foldl Totals.add ⟨0, 0, 0, 0, 0, 0⟩
       let ms := s!"par res={";".intercalate (perG.map fun l => ",".intercalate (rle l))} prods={tot.prods} cells={tot.cells} own={tot.own} d={tot.d} c={tot.c} r={tot.r}"
       if impl.startsWith "RACE " || impl == "RACE" then
         (ms, s!"fail:race:a data race between creations that run concurrently on one registration through the config hooks: {(impl.drop 5).toString}") else
       if impl == "regpanic" then (ms, "fail:regpanic:valid registration panicked") else
       let ikv := parseKV impl
       if (lookup ikv "shared").isSome then
         (ms, "fail:fresh:products built concurrently from separately decoded configurations share a map / list / nested-struct option") else
       let iG := ((getS ikv "res").splitOn ";").map unrle
       -- the Spec on what the goroutines got
       let inpOfG (j : Nat) : Option Input := if mode == "one" then inps.head? else inps[j]?
       let bad : Option String := (List.range iG.length).findSome? fun j =>
         match inpOfG j, iG[j]? with
         | some inp, some ts =>
           let exp := expected inp.sh inp.w
           let valid := ruleHolds rule inp
           (ts.zipIdx).findSome? fun (t, ti) =>
             -- the creation of a factory has an error result whatever the factory type is
             let creation := ti == 0 && (mode == "fac" || (mode == "one" && j == 0))
             if t == "made" then none
             else if t.startsWith "ok." then
               let vals := ((t.drop 3).toString.splitOn "/").map String.toInt?
               let want := ([1, 2, 3] ++ xf).map fun f => if inp.sh.cfg == CfgKind.none then some (0 : Int) else some (exp.get f)
               if !valid then some "fail:errors:a component was built from a configuration that fails validation (the config error did not reach the caller)"
               else if vals != want then
                 some s!"fail:config:goroutine {j} got a component that was not built from the defaults overlaid by ITS settings"
               else none
             else if t == "err.fill" || t == "panic.fill" then
               if valid then some "fail:errors:a valid configuration was refused with a config error"
               else if (t == "panic.fill") != (inp.form == .facNoErr && !creation) then some "fail:errors:error not delivered as the error result / panic rule"
               else none
             else some s!"fail:errors:a concurrent creation ended with {t.take 60}"
         | _, _ => some "fail:crash:number of goroutines"
       match bad with
       | some v => (ms, v)
       | none =>
         if iG.map (·.length) != perG.map (·.length) then (ms, "fail:errors:another number of results than operations")
         else
         let it : Totals := ⟨(getN? ikv "prods").getD 0, (getN? ikv "cells").getD 0, (getN? ikv "own").getD 0,
                            (getN? ikv "d").getD 0, (getN? ikv "c").getD 0, (getN? ikv "r").getD 0⟩
         let factory := inps.any (·.sh.factory)
         if it.prods != tot.prods then (ms, "fail:errors:another number of components than successful operations")
         else if it.cells != tot.cells || it.own != tot.own then
           (ms, if factory && mode != "new" then "fail:once:the products of a factory constructor's factory do not share exactly the configuration of their creation"
                else "fail:fresh:products built concurrently share a configuration object / a product does not read its own serial number")
         else if it.d != tot.d || it.c != tot.c || it.r != tot.r then
           (ms, "fail:counts:user code invoked another number of times than the constructor shape prescribes")
         else (ms, "ok"))
  | _, _ => ("-", "fail:driver:unparsable via=par input")

end Par

def handle : Handler := fun input impl =>
  if impl == "RACE-SKIP" then ("-", "skip:the -race driver runs the concurrent cases only") else
  if getS (parseKV input) "sess" == "1" then Sess.handleSess input impl else
  if getS (parseKV input) "conc" == "1" then handleConc input impl else
  if getS (parseKV input) "via" == "par" then Par.handlePar input impl else
  if getS (parseKV input) "via" == "hookconf" then HookConf.handleHookConf input impl else
  if getS (parseKV input) "via" == "nest" then Nest.handleNest input impl else
  if getS (parseKV input) "hist" == "1" then handleHist input impl else
  if getS (parseKV input) "via" == "reg" then handleReg (parseKV input) impl else
  if getS (parseKV input) "via" == "facty" then handleFacTy (parseKV input) impl else
  if getS (parseKV input) "fillopt" == "two" || getS (parseKV input) "dopt" == "two" then handleOpt (parseKV input) impl else
  if getS (parseKV input) "via" == "engine" then handleEngine input impl else
  handlePlain input impl

end Pandora.Drv.C18
