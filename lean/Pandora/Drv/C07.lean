import Pandora.Drv.Util
import Pandora.Model.C07
import Pandora.Spec.C07
import Pandora.Model.C07Json

/-!
Line driver of C07.  Input = what harness/cmd/c07 generated (format, limit, file bytes, and for the
well-formed stream the entries + layout the file was rendered from), impl = the canonical observation of the
real provider.  Output: the model's observation for the same file bytes (`*` when the file leaves the class where
the model knows net/url or the allocator) and the Spec verdict on the implementation's observation.
-/
namespace Pandora.Drv.C07
open Pandora.Drv Pandora.Model.C07 Pandora.Spec.C07

def hexB (s : String) : Option Bytes := parseHex s

def parseItem (s : String) : Option Item :=
  match s.splitOn ":" with
  | ["h", k, v] => do pure (.hdr (← hexB k) (← hexB v))
  | ["r", u, t, b] => do pure (.req (← hexB u) (← hexB t) (← hexB b))
  | ["f", t, fr] => do pure (.frame (← hexB t) (← hexB fr))
  | _ => none

/-- "<n>/<pad,pad,…>" -/
def parseBlankList (s : String) : Option (List Bytes) :=
  match s.splitOn "/" with
  | [n, ps] => do
    let n ← n.toNat?
    if n == 0 then pure [] else
    let l ← (ps.splitOn ",").mapM hexB
    if l.length == n then pure l else none
  | _ => none

def parseItemLay (s : String) : Option ItemLay :=
  match s.splitOn ":" with
  | [pre, post, i1, i2, i3, i4, bl] => do
    pure { pre := ← hexB pre, post := ← hexB post, i1 := ← hexB i1, i2 := ← hexB i2, i3 := ← hexB i3, i4 := ← hexB i4,
           blanks := ← parseBlankList bl }
  -- with the spelling of the size field: `+` (0|1) and the number of leading zeros
  | [pre, post, i1, i2, i3, i4, bl, plus, zeros] => do
    pure { pre := ← hexB pre, post := ← hexB post, i1 := ← hexB i1, i2 := ← hexB i2, i3 := ← hexB i3, i4 := ← hexB i4,
           blanks := ← parseBlankList bl, szPlus := plus == "1", szZeros := ← zeros.toNat? }
  | _ => none

def parseLayout (kv : List (String × String)) : Option Layout := do
  let lead ← parseBlankList (getS kv "lead")
  let per ← (splitList (getS kv "per") ";").mapM parseItemLay
  let trail ← hexB (getS kv "trail")
  pure { lead := lead, per := per, finalNL := getS kv "fnl" == "1", trail := trail }

def parseFmt : String → Option Fmt
  | "uri" => some .uri | "uripost" => some .uripost | "raw" => some .raw | _ => none

/-- raw: frame hex ↦ canonical text of `raw.DecodeRequest(frame)` = `http.ReadRequest` ("!" = it fails), computed by the harness;
the provider's `headers` option is NOT in the table: `enrichCanon` applies it -/
def parseTable (s : String) : List (String × String) :=
  (splitList s ";").filterMap fun e =>
    match e.splitOn ">" with
    | [f, c] => some (f, c)
    | _ => none

/-- `cons=<n>`, n > 1: the provider was drained by n concurrent consumers; which consumer got which entry is up to the
scheduler, so the harness prints the MULTISET of delivered requests (sorted bytewise) and both the model's
prediction and the Spec's expectation are sorted the same way (every request text is ASCII) -/
def isConc (kv : List (String × String)) : Bool := ((getN? kv "cons").getD 1) > 1

def sortStrs (l : List String) : List String := (l.toArray.qsort (· < ·)).toList

def canonOrder (conc : Bool) (l : List String) : List String := if conc then sortStrs l else l

/-- model observation of a list of decoded ammo: `none` when some URL is outside the modelled class -/
def ammoObs (conc : Bool) (res : List Ammo × Stop) : Option String :=
  (modelObs res).map fun o => obsLine o.1 (canonOrder conc o.2)

/-- raw: requests are delivered until the first frame that `http.ReadRequest` rejects (Acquire returns false) -/
def rawObs (conc : Bool) (cfg : Hdrs) (tbl : List (String × String)) (res : List RawAmmo × Stop) : Option String := do
  let rec go : List RawAmmo → List String → Option (List String × Bool)
    | [], acc => some (acc.reverse, false)
    | a :: r, acc =>
      match lookup tbl (hex a.frame) with
      | none => none
      | some "!" => some (acc.reverse, true)
      | some c => go r ((enrichCanon cfg c ++ ",t=" ++ hex a.tag) :: acc)
  let (reqs, buildErr) ← go res.1 []
  pure (obsLine (if buildErr then "build" else stopName res.2) (canonOrder conc reqs))

def parseObs (impl : String) : Option (String × List String) :=
  let kv := parseKV impl
  match lookup kv "err", lookup kv "reqs" with
  | some e, some r => some (e, splitList r ";")
  | _, _ => none

def parseEntity (s : String) : Option Entity :=
  match s.splitOn ":" with
  | [h, m, u, t, b, hs] => do
    let hdrs ← (splitList hs "+").mapM fun kv =>
      match kv.splitOn "=" with
      | [k, v] => do pure ((← hexB k), (← hexB v))
      | _ => none
    pure { host := ← hexB h, method := ← hexB m, uri := ← hexB u, tag := ← hexB t, body := ← hexB b, headers := hdrs }
  | _ => none

/-- the provider's `headers` option: `cfgh=<n>/<hex,hex,…>` (the strings `[key: value]`), absent = none -/
def parseCfg (kv : List (String × String)) : Option (List Bytes) :=
  match lookup kv "cfgh" with
  | none => some []
  | some s => parseBlankList s

/-- `some (.ok cfg)`: decoded option; `some (.error obs)`: `NewProvider` fails with this observation;
`none`: outside the model (repeated key) -/
def cfgOf (kv : List (String × String)) : Option (Except String Hdrs) :=
  match parseCfg kv with
  | none => none
  | some strs =>
    match decodeCfg strs with
    | .error e => some (.error (obsLine e.name []))
    | .ok cfg => if cfgDistinct cfg then some (.ok cfg) else none

def handleFileCfg (f : Fmt) (cfg : Hdrs) (kv : List (String × String)) (impl : String) : String × String :=
  let k := (getN? kv "k").getD 1
  let pre := getS kv "pre" == "1"
  let conc := isConc kv
  match hexB (getS kv "file") with
  | none => ("-", "fail:driver:bad file hex")
  | some file =>
    let tbl := parseTable (getS kv "tbl")
    -- preload scans the whole file before anything is delivered: a target outside the class where the model knows
    -- `url.Parse` anywhere in the pass (not only among the delivered ones) leaves the outcome unpredicted
    let known (pass : List Ammo × Stop) : Bool := !pre || pass.1.all fun a => (parseURL a.url).isSome
    let mobs : Option String :=
      match f with
      | .uri => if known (uriPass file []) then ammoObs conc (withCfgRes cfg (uriDeliver file k pre)) else none
      | .uripost => if known (uripostPass true file []) then ammoObs conc (withCfgRes cfg (uripostDeliver true file k pre)) else none
      | .raw => rawObs conc cfg tbl (rawDeliver file k pre)  -- the table is the library's part (http.ReadRequest); the `headers` option is applied here
    let m := mobs.getD "*"
    match lookup kv "items" with
    | none => (m, if mobs.isSome then "skip:malformed" else "skip:outside-model")
    | some its =>
      match (splitList its ";").mapM parseItem, parseLayout kv, parseObs impl with
      | some items, some lay, some (ierr, ireqs) =>
        if render f items lay != file then (m, "fail:driver:the Lean renderer disagrees with the harness renderer")
        else if !(itemsOK f items && layoutOK lay) then (m, "skip:not-wellformed")
        else if !targetsKnown items then (m, "skip:url-class")
        else
          match f with
          | .raw =>
            let fr := expFrames items
            -- what each frame denotes: the Lean reading of its HTTP text (`frameCanon`, plain frames); the library's
            -- reading (the table: `http.ReadRequest`, run by the harness on the frame alone) for the others.  Where both
            -- exist they must agree; if they ever do not, the library stands and the case is counted as a skip.
            let differs := fr.any fun ft =>
              match frameCanon ft.frame, lookup tbl (hex ft.frame) with
              | some c, some l => c != l
              | _, _ => false
            let strs := fr.mapM fun ft =>
              -- plain frames: the option is applied on the structured request (`enrichF`, the function the theorems
              -- `C07_raw_option_*` speak about); the model side below applies `enrichCanon` on the text - both must
              -- agree with the real provider
              match (if differs then none else frameCanonCfg cfg ft.frame), lookup tbl (hex ft.frame) with
              | some c, _ => some (c ++ ",t=" ++ hex ft.tag)
              | none, some "!" => none
              | none, some c => some (enrichCanon cfg c ++ ",t=" ++ hex ft.tag)
              | none, none => none
            match strs with
            | none => (m, "skip:frame-not-a-request")
            | some pass =>
              let v := judge (canonOrder conc (expected pass k)) (expectedErr pass) ireqs ierr
              (m, if differs && v == "ok" then "skip:lean-http-differs-from-library" else v)
          | _ =>
            let pass := (expReqs f cfg [] items).map reqStr
            (m, judge (canonOrder conc (expected pass k)) (expectedErr pass) ireqs ierr)
      | _, _, none => (m, s!"fail:crash:unparsable observation {impl.take 80}")
      | _, _, _ => (m, "fail:driver:unparsable items/layout")

def handleFile (f : Fmt) (kv : List (String × String)) (impl : String) : String × String :=
  match cfgOf kv with
  | none => ("*", "skip:headers-option-outside-model")
  | some (.error obs) => (obs, "skip:bad-headers-option")
  | some (.ok cfg) => handleFileCfg f cfg kv impl

def handleJsonCfg (cfg : Hdrs) (kv : List (String × String)) (impl : String) : String × String :=
  let k := (getN? kv "k").getD 1
  let pre := getS kv "pre" == "1"
  let conc := isConc kv
  match (splitList (getS kv "ents") ";").mapM parseEntity, parseObs impl with
  | some ents, some (ierr, ireqs) =>
    let m := (ammoObs conc (withCfgRes cfg (jsonDeliver (getS kv "mode" == "array") ents k pre))).getD "*"
    if !ents.all entityKnown then (m, "skip:outside-model")
    else
      let pass := ents.map fun e => reqStr (entityReq cfg e.host e.method e.uri e.tag e.body e.headers)
      let v := judge (canonOrder conc (expected pass k)) (expectedErr pass) ireqs ierr
      -- round 4: the Lean side reads the JSON TEXT of the file itself (`jsonDoc`); what it reads must be the entities the
      -- generator rendered (and the array / stream mode).  A disagreement or a file outside the reader's class is counted
      -- as a skip, never as a failure of the provider.
      match (lookup kv "jfile").bind hexB with
      | none => (m, v)
      | some file =>
        match jsonDoc file with
        | none => (m, if v == "ok" then "skip:json-text-outside-reader" else v)
        | some (arr, es) =>
          if es == ents && arr == (getS kv "mode" == "array") then (m, v)
          else (m, if v == "ok" then "skip:lean-json-differs-from-generator" else v)
  | none, _ => ("-", "fail:driver:unparsable entities")
  | _, none => ("-", s!"fail:crash:unparsable observation {impl.take 80}")

def handleJson (kv : List (String × String)) (impl : String) : String × String :=
  match cfgOf kv with
  | none => ("*", "skip:headers-option-outside-model")
  | some (.error obs) => (obs, "skip:bad-headers-option")
  | some (.ok cfg) => handleJsonCfg cfg kv impl

def handleCase (input impl : String) : String × String :=
  let kv := parseKV input
  match getS kv "fmt" with
  | "json" => handleJson kv impl
  | fs =>
    match parseFmt fs with
    | some f => handleFile f kv impl
    | none => ("-", "fail:driver:unknown format")

/-- A provider that ends the process (`FATAL …`: the Go runtime's unrecoverable faults, e.g. a header map written by the
decoder goroutine while `BuildRequest` reads it), panics or hangs delivers nothing of what the file holds, whatever the
kind of case: the Spec fails on that observation (the harness runs every case in a child process, so the fault is
attributed to the input that provoked it). -/
def handle : Handler := fun input impl =>
  let r := handleCase input impl
  if impl.startsWith "FATAL" || impl.startsWith "PANIC" then (r.1, s!"fail:crash:{impl.take 160}")
  else if impl.startsWith "HANG" then (r.1, "fail:hang:no answer from the provider within the case timeout")
  else r

end Pandora.Drv.C07
