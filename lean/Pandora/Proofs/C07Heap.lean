/-
C07 — helper lemmas about the reference-level model of the header accumulator (`Pandora.Model.C07Heap`):
with a clone per entry the map cell of a delivered ammo is never written again, so every later read (any interleaving
of decoder steps and `BuildRequest`s) returns the value-model header set.
-/
import Pandora.Model.C07Heap
import Pandora.Spec.C07

namespace Pandora.Proofs.C07
open Pandora.Model.C07 Pandora.Spec.C07

/-- invariant of the cloning decoder: the accumulator cell is allocated and holds the value accumulator `h`;
the cells of the ammo handed out are allocated and are not the accumulator -/
structure HeapInv (s : RefState) (h : Hdrs) : Prop where
  accLt : s.acc < s.next
  accVal : s.heap s.acc = h
  outOk : ∀ x ∈ s.out, x.2 < s.next ∧ x.2 ≠ s.acc

/-- what a run of the cloning decoder from a state satisfying the invariant guarantees -/
structure HeapRun (cfg : Hdrs) (s t : RefState) (h : Hdrs) (acts : List Act) : Prop where
  outs : ∃ new, t.out = s.out ++ new ∧
    new.map (fun x => ({ x.1 with hdrs := t.heap x.2 } : Ammo)) = valueOut cfg h (decEvs acts)
  frozen : ∀ x ∈ s.out, t.heap x.2 = s.heap x.2
  reads : ∃ nr, t.reads = s.reads ++ nr ∧ ∀ jh ∈ nr, ∃ x, t.out[jh.1]? = some x ∧ t.heap x.2 = jh.2

theorem upd_same (heap : Nat → Hdrs) (a : Nat) (v : Hdrs) : upd heap a v a = v := by simp [upd]

theorem upd_other (heap : Nat → Hdrs) (a b : Nat) (v : Hdrs) (hne : b ≠ a) : upd heap a v b = heap b := by
  simp [upd, hne]

theorem runRef_cons (c : Bool) (cfg : Hdrs) (s : RefState) (a : Act) (r : List Act) :
    runRef c cfg s (a :: r) = runRef c cfg (stepRef c cfg s a) r := rfl

/-- one step of the cloning system, from a state satisfying the invariant -/
structure HeapStep (cfg : Hdrs) (s s1 : RefState) (h h1 : Hdrs) (a : Act) : Prop where
  inv1 : HeapInv s1 h1
  outs : ∃ new, s1.out = s.out ++ new ∧ ∀ r : List Act,
    valueOut cfg h (decEvs (a :: r)) =
      new.map (fun x => ({ x.1 with hdrs := s1.heap x.2 } : Ammo)) ++ valueOut cfg h1 (decEvs r)
  frozen : ∀ x ∈ s.out, s1.heap x.2 = s.heap x.2
  reads : ∃ nr, s1.reads = s.reads ++ nr ∧ ∀ jh ∈ nr, ∃ x, s.out[jh.1]? = some x ∧ s.heap x.2 = jh.2

theorem step_clone (cfg : Hdrs) (s : RefState) (h : Hdrs) (inv : HeapInv s h) (a : Act) :
    ∃ h1, HeapStep cfg s (stepRef true cfg s a) h h1 a := by
  have hne : s.acc ≠ s.next := Nat.ne_of_lt inv.accLt
  cases a with
  | dec e =>
    cases e with
    | hdr k v =>
      refine ⟨hset h k v, ⟨inv.accLt, ?_, inv.outOk⟩, ⟨[], by simp [stepRef], by simp [decEvs, valueOut]⟩, ?_, ⟨[], by simp [stepRef], by simp⟩⟩
      · show upd s.heap s.acc (hset (s.heap s.acc) k v) s.acc = hset h k v
        rw [upd_same, inv.accVal]
      · intro x hx
        exact upd_other _ _ _ _ (inv.outOk x hx).2
    | req am =>
      refine ⟨h, ⟨?_, ?_, ?_⟩, ⟨[(am, s.next)], by simp [stepRef], ?_⟩, ?_, ⟨[], by simp [stepRef], by simp⟩⟩
      · simp only [stepRef, if_true]; exact Nat.lt_succ_of_lt inv.accLt
      · simp only [stepRef, if_true]
        rw [upd_other _ _ _ _ hne, inv.accVal]
      · intro x hx
        simp only [stepRef, if_true, List.mem_append, List.mem_singleton] at hx ⊢
        rcases hx with hx | hx
        · exact ⟨Nat.lt_succ_of_lt (inv.outOk x hx).1, (inv.outOk x hx).2⟩
        · subst hx; exact ⟨Nat.lt_succ_self _, fun e => hne e.symm⟩
      · intro r
        simp only [stepRef, if_true, decEvs, valueOut, List.map_cons, List.map_nil, upd_same, inv.accVal,
          List.cons_append, List.nil_append]
      · intro x hx
        simp only [stepRef, if_true]
        exact upd_other _ _ _ _ (Nat.ne_of_lt (inv.outOk x hx).1)
    | newPass =>
      refine ⟨[], ⟨Nat.lt_succ_self _, upd_same _ _ _, ?_⟩, ⟨[], by simp [stepRef], by simp [decEvs, valueOut]⟩, ?_, ⟨[], by simp [stepRef], by simp⟩⟩
      · intro x hx
        exact ⟨Nat.lt_succ_of_lt (inv.outOk x hx).1, Nat.ne_of_lt (inv.outOk x hx).1⟩
      · intro x hx
        exact upd_other _ _ _ _ (Nat.ne_of_lt (inv.outOk x hx).1)
  | read j =>
    cases hj : s.out[j]? with
    | none =>
      have hstep : stepRef true cfg s (.read j) = s := by simp [stepRef, hj]
      rw [hstep]
      exact ⟨h, inv, ⟨[], by simp, by simp [decEvs]⟩, fun _ _ => rfl, ⟨[], by simp, by simp⟩⟩
    | some x =>
      have hstep : stepRef true cfg s (.read j) = { s with reads := s.reads ++ [(j, s.heap x.2)] } := by
        simp [stepRef, hj]
      rw [hstep]
      refine ⟨h, ⟨inv.accLt, inv.accVal, inv.outOk⟩, ⟨[], by simp, by simp [decEvs]⟩, fun _ _ => rfl,
        ⟨[(j, s.heap x.2)], rfl, ?_⟩⟩
      intro jh hjh
      simp only [List.mem_singleton] at hjh
      subst hjh
      exact ⟨x, hj, rfl⟩

theorem heapRun_trans (cfg : Hdrs) (s s1 t : RefState) (h h1 : Hdrs) (a : Act) (r : List Act)
    (S : HeapStep cfg s s1 h h1 a) (R : HeapRun cfg s1 t h1 r) : HeapRun cfg s t h (a :: r) := by
  obtain ⟨new1, ho1, hv1⟩ := S.outs
  obtain ⟨new2, ho2, hv2⟩ := R.outs
  obtain ⟨nr1, hr1, hn1⟩ := S.reads
  obtain ⟨nr2, hr2, hn2⟩ := R.reads
  have hfro : ∀ x ∈ s.out, t.heap x.2 = s.heap x.2 := by
    intro x hx
    rw [R.frozen x (by rw [ho1]; exact List.mem_append_left _ hx), S.frozen x hx]
  refine ⟨⟨new1 ++ new2, by rw [ho2, ho1, List.append_assoc], ?_⟩, hfro, ⟨nr1 ++ nr2, by rw [hr2, hr1, List.append_assoc], ?_⟩⟩
  · rw [hv1 r, List.map_append, hv2]
    congr 1
    apply List.map_congr_left
    intro x hx
    rw [R.frozen x (by rw [ho1]; exact List.mem_append_right _ hx)]
  · intro jh hjh
    rcases List.mem_append.mp hjh with hjh | hjh
    · obtain ⟨x, hx, hh⟩ := hn1 jh hjh
      have hlt : jh.1 < s.out.length := by
        rcases List.getElem?_eq_some_iff.mp hx with ⟨hl, _⟩; exact hl
      refine ⟨x, ?_, ?_⟩
      · rw [ho2, ho1, List.append_assoc, List.getElem?_append_left hlt]; exact hx
      · rw [hfro x (List.mem_of_getElem? hx)]; exact hh
    · exact hn2 jh hjh

theorem run_clone (cfg : Hdrs) : ∀ (acts : List Act) (s : RefState) (h : Hdrs), HeapInv s h →
    HeapRun cfg s (runRef true cfg s acts) h acts := by
  intro acts
  induction acts with
  | nil =>
    intro s h _
    exact ⟨⟨[], by simp [runRef], by simp [decEvs, valueOut]⟩, fun _ _ => rfl, ⟨[], by simp [runRef], by simp⟩⟩
  | cons a r ih =>
    intro s h inv
    obtain ⟨h1, S⟩ := step_clone cfg s h inv a
    rw [runRef_cons]
    exact heapRun_trans cfg s _ _ h h1 a r S (ih _ _ S.inv1)

/-- the initial state satisfies the invariant -/
theorem heapInv_init : HeapInv RefState.init [] :=
  ⟨by decide, rfl, by intro x hx; simp [RefState.init] at hx⟩

/-- a cloning decoder: every `BuildRequest`, whenever it happens, sees the value-model header set -/
theorem clone_readsRight (cfg : Hdrs) (acts : List Act) : readsRight true cfg acts := by
  intro jh hjh
  have R := run_clone cfg acts RefState.init [] heapInv_init
  obtain ⟨new, ho, hv⟩ := R.outs
  obtain ⟨nr, hr, hn⟩ := R.reads
  have hjh' : jh ∈ nr := by
    rw [hr] at hjh; simpa [RefState.init] using hjh
  obtain ⟨x, hx, hh⟩ := hn jh hjh'
  have hnew : new[jh.1]? = some x := by
    rw [ho] at hx; simpa [RefState.init] using hx
  unfold valueHdrs
  rw [← hv, List.getElem?_map, hnew]
  simp [hh]

/-! ### end-of-pass reset: a fresh map or the old one emptied in place (round 3) -/

theorem stepRefR_fresh (cfg : Hdrs) (s : RefState) (a : Act) : stepRefR .fresh cfg s a = stepRef true cfg s a := by
  cases a with
  | dec e => cases e <;> rfl
  | read j => rfl

/-- emptying the accumulator in place is one more step that keeps the invariant: no delivered ammo holds that cell -/
theorem step_cleared (cfg : Hdrs) (s : RefState) (h : Hdrs) (inv : HeapInv s h) (a : Act) :
    ∃ h1, HeapStep cfg s (stepRefR .cleared cfg s a) h h1 a := by
  cases a with
  | dec e =>
    cases e with
    | hdr k v => exact step_clone cfg s h inv (.dec (.hdr k v))
    | req am => exact step_clone cfg s h inv (.dec (.req am))
    | newPass =>
      refine ⟨[], ⟨inv.accLt, upd_same _ _ _, inv.outOk⟩, ⟨[], by simp [stepRefR], by simp [decEvs, valueOut]⟩, ?_,
        ⟨[], by simp [stepRefR], by simp⟩⟩
      intro x hx
      exact upd_other _ _ _ _ (inv.outOk x hx).2
  | read j => exact step_clone cfg s h inv (.read j)

theorem runRefR_cons (r : PassReset) (cfg : Hdrs) (s : RefState) (a : Act) (l : List Act) :
    runRefR r cfg s (a :: l) = runRefR r cfg (stepRefR r cfg s a) l := rfl

theorem run_cleared (cfg : Hdrs) : ∀ (acts : List Act) (s : RefState) (h : Hdrs), HeapInv s h →
    HeapRun cfg s (runRefR .cleared cfg s acts) h acts := by
  intro acts
  induction acts with
  | nil =>
    intro s h _
    exact ⟨⟨[], by simp [runRefR], by simp [decEvs, valueOut]⟩, fun _ _ => rfl, ⟨[], by simp [runRefR], by simp⟩⟩
  | cons a r ih =>
    intro s h inv
    obtain ⟨h1, S⟩ := step_cleared cfg s h inv a
    rw [runRefR_cons]
    exact heapRun_trans cfg s _ _ h h1 a r S (ih _ _ S.inv1)

theorem runRefR_fresh (cfg : Hdrs) : ∀ (acts : List Act) (s : RefState),
    runRefR .fresh cfg s acts = runRef true cfg s acts
  | [], _ => rfl
  | a :: r, s => by rw [runRefR_cons, runRef_cons, stepRefR_fresh, runRefR_fresh cfg r]

/-- with either way of forgetting, every `BuildRequest` sees the value-model header set -/
theorem reset_readsRight (reset : PassReset) (hf : reset.forgets = true) (cfg : Hdrs) (acts : List Act) :
    readsRightR reset cfg acts := by
  cases reset with
  | fresh =>
    intro jh hjh
    rw [runRefR_fresh] at hjh
    exact clone_readsRight cfg acts jh hjh
  | cleared =>
    intro jh hjh
    have R := run_cleared cfg acts RefState.init [] heapInv_init
    obtain ⟨new, ho, hv⟩ := R.outs
    obtain ⟨nr, hr, hn⟩ := R.reads
    have hjh' : jh ∈ nr := by
      rw [hr] at hjh; simpa [RefState.init] using hjh
    obtain ⟨x, hx, hh⟩ := hn jh hjh'
    have hnew : new[jh.1]? = some x := by
      rw [ho] at hx; simpa [RefState.init] using hx
    unfold valueHdrs
    rw [← hv, List.getElem?_map, hnew]
    simp [hh]
  | kept => cases hf
  | other w => cases hf

/-! ### the decoder's events for a list of entries, pass after pass -/

/-- the events of one pass over a file rendered from `items` (raw frames have no header set) -/
def itemEvs (f : Fmt) : List Item → List LineEv
  | [] => []
  | .hdr k v :: r => .hdr k v :: itemEvs f r
  | .req u t b :: r =>
    .req { method := if f = .uripost then postBytes else getBytes, url := u
           body := if f = .uripost then b else [], tag := t, hdrs := [] } :: itemEvs f r
  | .frame _ _ :: r => itemEvs f r

/-- `n` complete passes -/
def passEvs (f : Fmt) (items : List Item) : Nat → List LineEv
  | 0 => []
  | n + 1 => itemEvs f items ++ .newPass :: passEvs f items n

theorem valueOut_itemEvs (f : Fmt) (cfg : Hdrs) (items : List Item) (h : Hdrs) (rest : List LineEv) :
    valueOut cfg h (itemEvs f items ++ .newPass :: rest) =
      (expAmmo f h items).map (Ammo.withCfg cfg) ++ valueOut cfg [] rest := by
  induction items generalizing h with
  | nil => simp [itemEvs, valueOut, expAmmo]
  | cons it r ih =>
    cases it with
    | hdr k v => simp [itemEvs, valueOut, expAmmo, ih]
    | req u t b => simp [itemEvs, valueOut, expAmmo, ih, Ammo.withCfg]
    | frame t fr => simp [itemEvs, expAmmo, ih]

theorem valueOut_passEvs (f : Fmt) (cfg : Hdrs) (items : List Item) (n : Nat) :
    valueOut cfg [] (passEvs f items n) =
      (List.replicate n ((expAmmo f [] items).map (Ammo.withCfg cfg))).flatten := by
  induction n with
  | zero => simp [passEvs, valueOut]
  | succ n ih => simp [passEvs, valueOut_itemEvs, ih, List.replicate_succ]

end Pandora.Proofs.C07
