/-
C18 — core/plugin/pluginconfig: what the hook makes of the config data (Model/C18Hook).
-/
import Pandora.Model.C18Hook

namespace Pandora.Proofs.C18Hook
open Pandora.Model.C18Hook

/-- the one well-formed case -/
def WellFormed (fixed : Bool) (dk : DataKind) (nonStrKey : Bool) (data : List KV) (name : String) : Prop :=
  dk ≠ .other ∧ ¬ (dk = .anyMap ∧ nonStrKey = true) ∧
    ∃ t, data.filter (fun kv => isTypeKey kv.key) = [t] ∧ t.isStr = true ∧ t.val = name ∧ (fixed = true → name ≠ "")

theorem parseConf_ok {fixed : Bool} {dk : DataKind} {nsk : Bool} {data : List KV} {name : String} {rest : List KV}
    (h : parseConf fixed dk nsk data = .ok name rest) :
    WellFormed fixed dk nsk data name ∧ rest = data.filter (fun kv => !isTypeKey kv.key) := by
  unfold parseConf at h
  by_cases h1 : dk = .other
  · simp [h1] at h
  · by_cases h2 : (dk = .anyMap && nsk) = true
    · simp [h1, h2] at h
    · simp only [h1, h2, if_false, Bool.false_eq_true] at h
      split at h
      · rename_i t ht
        by_cases h3 : t.isStr = true
        · by_cases h4 : (fixed && decide (t.val = "")) = true
          · simp [h3, h4] at h
          · simp only [h3, Bool.not_true, Bool.false_eq_true, if_false, h4, Parse.ok.injEq] at h
            refine ⟨⟨h1, fun hh => h2 (by simp [hh.1, hh.2]), t, ht, h3, h.1, fun hf hn => h4 ?_⟩, h.2.symm⟩
            rw [h.1]; simp [hf, hn]
        · simp [h3] at h
      · simp at h

theorem parseConf_of_wf {fixed : Bool} {dk : DataKind} {nsk : Bool} {data : List KV} {name : String}
    (h : WellFormed fixed dk nsk data name) :
    parseConf fixed dk nsk data = .ok name (data.filter fun kv => !isTypeKey kv.key) := by
  obtain ⟨h1, h2, t, ht, h3, h4, h5⟩ := h
  unfold parseConf
  have h2' : (dk = .anyMap && nsk) = false := by
    cases hd : decide (dk = .anyMap) <;> cases nsk <;> simp_all
  simp only [h1, if_false, h2', Bool.false_eq_true, ht, h3, Bool.not_true]
  have : (fixed && decide (t.val = "")) = false := by
    cases fixed
    · rfl
    · simp only [Bool.true_and, decide_eq_false_iff_not]
      rw [h4]; exact h5 rfl
  simp [h4]
  exact h5

/-- anything that is not the well-formed case is the error result -/
theorem parseConf_err {fixed : Bool} {dk : DataKind} {nsk : Bool} {data : List KV}
    (h : ¬ ∃ name, WellFormed fixed dk nsk data name) : parseConf fixed dk nsk data = .err := by
  cases hp : parseConf fixed dk nsk data with
  | err => rfl
  | ok name rest => exact absurd ⟨name, (parseConf_ok hp).1⟩ h

/-- a Go map has no order: the model's list may be any enumeration of it -/
theorem wf_perm {fixed : Bool} {dk : DataKind} {nsk : Bool} {data data' : List KV} {name : String}
    (hp : data.Perm data') (h : WellFormed fixed dk nsk data name) : WellFormed fixed dk nsk data' name := by
  obtain ⟨h1, h2, t, ht, h3⟩ := h
  refine ⟨h1, h2, t, ?_, h3⟩
  have := hp.filter (fun kv => isTypeKey kv.key)
  rw [ht] at this
  exact (List.singleton_perm.mp this).symm

end Pandora.Proofs.C18Hook
