/-
C07 — the HTTP text of a raw frame: `frameReq` (Pandora.Model.C07Frame) reads back exactly what an author wrote with
`renderFrame` (request line, header lines in order with their values, body), for every request description `srcOK`.
-/
import Pandora.Proofs.C07Raw
import Pandora.Model.C07Frame

namespace Pandora.Proofs.C07
open Pandora.Model.C07 Pandora.Spec.C07

/-! ### byte classes -/

theorem tok_ne {b c : UInt8} (h : isTokByte b = true) (hc : isTokByte c = false) : b ≠ c := by
  intro e; subst e; rw [h] at hc; exact Bool.noConfusion hc

theorem tok_notBlank {b : UInt8} (h : isTokByte b = true) : isBlank b = false := by
  cases hb : isBlank b with
  | false => rfl
  | true =>
    simp only [isBlank, Bool.or_eq_true, beq_iff_eq] at hb
    rcases hb with e | e <;> subst e <;> exact absurd h (by decide)

theorem val_ne {b c : UInt8} (h : isValueByte b = true) (hc : isValueByte c = false) : b ≠ c := by
  intro e; subst e; rw [h] at hc; exact Bool.noConfusion hc

theorem blank_val {b : UInt8} (h : isBlank b = true) : isValueByte b = true := by
  simp only [isBlank, Bool.or_eq_true, beq_iff_eq] at h
  rcases h with e | e <;> subst e <;> decide

theorem all_notMem {p : UInt8 → Bool} {s : Bytes} {c : UInt8} (hs : s.all p = true) (hc : p c = false) : c ∉ s := by
  intro hm
  have := List.all_eq_true.mp hs c hm
  rw [this] at hc; exact Bool.noConfusion hc

/-! ### trimBlank -/

theorem dropWhile_blank_append (g v : Bytes) (hg : g.all isBlank = true) (hv : ∀ b ∈ v.head?, isBlank b = false) :
    (g ++ v).dropWhile isBlank = v := by
  induction g with
  | nil =>
    cases v with
    | nil => rfl
    | cons b r => simp [hv b (by simp)]
  | cons a r ih =>
    simp only [List.all_cons, Bool.and_eq_true] at hg
    simp [hg.1, ih hg.2]

theorem dropWhile_of_head (v : Bytes) (hv : ∀ b ∈ v.head?, isBlank b = false) : v.dropWhile isBlank = v := by
  cases v with
  | nil => rfl
  | cons b r => simp [List.dropWhile, hv b (by simp)]

theorem trimBlank_gap (g v : Bytes) (hg : g.all isBlank = true) (hh : ∀ b ∈ v.head?, isBlank b = false)
    (hl : ∀ b ∈ v.getLast?, isBlank b = false) : trimBlank (g ++ v) = v := by
  unfold trimBlank
  rw [dropWhile_blank_append g v hg hh, dropWhile_of_head v.reverse (by simpa using hl), List.reverse_reverse]

theorem valOK_parts {v : Bytes} (h : valOK v = true) :
    v.all isValueByte = true ∧ (∀ b ∈ v.head?, isBlank b = false) ∧ (∀ b ∈ v.getLast?, isBlank b = false) := by
  simp only [valOK, Bool.and_eq_true] at h
  refine ⟨h.1.1, ?_, ?_⟩
  · intro b hb
    have := h.1.2
    cases hv : v.head? with
    | none => rw [hv] at hb; cases hb
    | some x => rw [hv] at hb this; simp at hb; subst hb; simpa using this
  · intro b hb
    have := h.2
    cases hv : v.getLast? with
    | none => rw [hv] at hb; cases hb
    | some x => rw [hv] at hb this; simp at hb; subst hb; simpa using this

/-! ### one line of the header block -/

/-- what `frameHdrs` does with a line (its LF removed), the rest of the frame being `R` -/
def hdrStep (line R : Bytes) : Option (List (Bytes × Bytes) × Bytes) :=
  match dropCR line with
  | [] => some ([], R)
  | c :: l =>
    if isBlank c then none
    else
      let kv := cut COLON (c :: l)
      if !kv.2.2 || kv.1.isEmpty || !kv.1.all isTokByte || !kv.2.1.all isValueByte then none
      else
        match frameHdrs R with
        | none => none
        | some (hs, body) => some ((canonAux true kv.1, trimBlank kv.2.1) :: hs, body)

theorem frameHdrs_line (line R : Bytes) (hline : LF ∉ line) : frameHdrs (line ++ LF :: R) = hdrStep line R := by
  have hc := cut_append_sep LF line R hline
  cases hb : line ++ LF :: R with
  | nil => simp at hb
  | cons b r =>
    rw [frameHdrs]
    rw [hb] at hc
    simp only [hc]
    simp only [Bool.not_true, Bool.false_eq_true, if_false]
    unfold hdrStep
    rfl

/-- the line without its line end -/
def hdrText (gap : Bytes) (kv : Bytes × Bytes) : Bytes := kv.1 ++ COLON :: (gap ++ kv.2)

theorem hdrLine_eq (crlf : Bool) (gap : Bytes) (kv : Bytes × Bytes) (X : Bytes) :
    hdrLine crlf gap kv ++ X = (hdrText gap kv ++ (if crlf then [CR] else [])) ++ LF :: X := by
  cases crlf <;> simp [hdrLine, hdrText, eol]

theorem eol_eq (crlf : Bool) (X : Bytes) : eol crlf ++ X = (if crlf then [CR] else []) ++ LF :: X := by
  cases crlf <;> simp [eol]

theorem dropCR_opt (crlf : Bool) (s : Bytes) (h : s.getLast? ≠ some 13) :
    dropCR (s ++ (if crlf then [CR] else [])) = s := by
  cases crlf with
  | true => exact dropCR_concat_cr s
  | false => simpa using dropCR_of_last_ne s h

theorem hdrText_props (gap : Bytes) (kv : Bytes × Bytes) (hk : keyOK kv.1 = true) (hv : valOK kv.2 = true)
    (hg : gap.all isBlank = true) :
    LF ∉ hdrText gap kv ∧ CR ∉ hdrText gap kv ∧ (gap ++ kv.2).all isValueByte = true := by
  obtain ⟨hva, _, _⟩ := valOK_parts hv
  simp only [keyOK, Bool.and_eq_true, Bool.not_eq_true', List.isEmpty_eq_false_iff] at hk
  have hgv : gap.all isValueByte = true := by
    apply List.all_eq_true.mpr
    intro b hb
    exact blank_val (List.all_eq_true.mp hg b hb)
  have hall : (gap ++ kv.2).all isValueByte = true := by simp [List.all_append, hgv, hva]
  refine ⟨?_, ?_, hall⟩
  · simp only [hdrText, List.mem_append, List.mem_cons, not_or]
    exact ⟨all_notMem hk.2 (by decide), by decide, all_notMem hgv (by decide), all_notMem hva (by decide)⟩
  · simp only [hdrText, List.mem_append, List.mem_cons, not_or]
    exact ⟨all_notMem hk.2 (by decide), by decide, all_notMem hgv (by decide), all_notMem hva (by decide)⟩

theorem hdrStep_hdr (crlf : Bool) (gap : Bytes) (kv : Bytes × Bytes) (R : Bytes)
    (hk : keyOK kv.1 = true) (hv : valOK kv.2 = true) (hg : gap.all isBlank = true) :
    hdrStep (hdrText gap kv ++ (if crlf then [CR] else [])) R =
      (match frameHdrs R with
       | none => none
       | some (hs, body) => some ((canonAux true kv.1, kv.2) :: hs, body)) := by
  obtain ⟨_, hCR, hall⟩ := hdrText_props gap kv hk hv hg
  obtain ⟨_, hvh, hvl⟩ := valOK_parts hv
  have hlast : (hdrText gap kv).getLast? ≠ some 13 := by
    intro e
    exact hCR (List.mem_of_getLast? e)
  have hk' := hk
  simp only [keyOK, Bool.and_eq_true, Bool.not_eq_true', List.isEmpty_eq_false_iff] at hk'
  obtain ⟨c, l, hcl⟩ := List.exists_cons_of_ne_nil hk'.1
  have hcTok : isTokByte c = true := List.all_eq_true.mp hk'.2 c (by rw [hcl]; simp)
  have hcut : cut COLON (hdrText gap kv) = (kv.1, gap ++ kv.2, true) :=
    cut_append_sep COLON kv.1 (gap ++ kv.2) (all_notMem hk'.2 (by decide))
  have hshape : hdrText gap kv = c :: (l ++ COLON :: (gap ++ kv.2)) := by simp [hdrText, hcl]
  unfold hdrStep
  rw [dropCR_opt crlf _ hlast]
  rw [hshape] at hcut ⊢
  simp only [tok_notBlank hcTok, Bool.false_eq_true, if_false, hcut, Bool.not_true, Bool.false_or,
    hall, hk'.2, Bool.or_false]
  have hne : kv.1.isEmpty = false := by simp [hcl]
  simp only [hne, Bool.false_eq_true, if_false, trimBlank_gap gap kv.2 hg hvh hvl]

theorem hdrStep_blank (crlf : Bool) (R : Bytes) : hdrStep (if crlf then [CR] else []) R = some ([], R) := by
  cases crlf
  · simp [hdrStep, dropCR]
  · show hdrStep [CR] R = some ([], R)
    unfold hdrStep
    rw [show ([CR] : Bytes) = [] ++ [13] from rfl, dropCR_concat_cr]

/-- the header block is read back line by line, then the blank line; the rest is handed on untouched -/
theorem frameHdrs_block (crlf : Bool) (gap : Bytes) (hg : gap.all isBlank = true) :
    ∀ (hs : List (Bytes × Bytes)) (body : Bytes), hs.all (fun kv => keyOK kv.1 && valOK kv.2) = true →
      frameHdrs (hdrBlock crlf gap hs ++ (eol crlf ++ body)) = some (canonLines hs, body)
  | [], body, _ => by
    simp only [hdrBlock, List.nil_append]
    rw [eol_eq, frameHdrs_line _ _ (by cases crlf <;> simp [CR, LF]), hdrStep_blank]
    rfl
  | kv :: r, body, h => by
    simp only [List.all_cons, Bool.and_eq_true] at h
    obtain ⟨⟨hk, hv⟩, hr⟩ := h
    obtain ⟨hLF, _, _⟩ := hdrText_props gap kv hk hv hg
    have hline : LF ∉ hdrText gap kv ++ (if crlf then [CR] else []) := by
      cases crlf
      · simpa using hLF
      · simp only [if_true, List.mem_append, List.mem_singleton, not_or]
        exact ⟨hLF, by decide⟩
    simp only [hdrBlock, List.append_assoc]
    rw [hdrLine_eq, frameHdrs_line _ _ hline, hdrStep_hdr crlf gap kv _ hk hv hg,
      frameHdrs_block crlf gap hg r body (by simpa using hr)]
    rfl

/-! ### the whole frame -/

theorem valOK_natToDec (n : Nat) : valOK (natToDec n) = true := by
  have ⟨h1, h2, _⟩ := natToDec_spec n
  have hdig : ∀ b, isDigit b = true → isValueByte b = true ∧ isBlank b = false := by
    intro b hb
    have hp := isDigit_props hb
    simp [isDigit, UInt8.le_iff_toNat_le] at hb
    have hne : ∀ x : UInt8, x.toNat < 48 ∨ 57 < x.toNat → b ≠ x := by
      intro x hx e; subst e; omega
    refine ⟨?_, ?_⟩
    · simp only [isValueByte, Bool.or_eq_true, beq_iff_eq, Bool.and_eq_true, decide_eq_true_eq, bne_iff_ne, ne_eq,
        UInt8.le_iff_toNat_le]
      exact Or.inr ⟨by have : (32 : UInt8).toNat = 32 := rfl; omega, hne 127 (by decide)⟩
    · simp only [isBlank, Bool.or_eq_false_iff, beq_eq_false_iff_ne, ne_eq]
      exact ⟨hne SP (by decide), hne TAB (by decide)⟩
  simp only [valOK, Bool.and_eq_true]
  refine ⟨⟨?_, ?_⟩, ?_⟩
  · exact List.all_eq_true.mpr fun b hb => (hdig b (h2 b hb)).1
  · cases hh : (natToDec n).head? with
    | none => rfl
    | some x => simp [(hdig x (h2 x (List.mem_of_mem_head? hh))).2]
  · cases hh : (natToDec n).getLast? with
    | none => rfl
    | some x => simp [(hdig x (h2 x (List.mem_of_getLast? hh))).2]

theorem lines_ok (q : FrameSrc) (h : q.hdrs.all (fun kv => keyOK kv.1 && valOK kv.2) = true) :
    q.lines.all (fun kv => keyOK kv.1 && valOK kv.2) = true := by
  unfold FrameSrc.lines
  cases q.body with
  | none => simpa using h
  | some b =>
    simp only [List.all_append, h, Bool.true_and, List.all_cons, List.all_nil, Bool.and_true, Bool.and_eq_true]
    exact ⟨by decide, valOK_natToDec _⟩

theorem version_props (v11 : Bool) :
    LF ∉ (if v11 then http11 else http10) ∧ SP ∉ (if v11 then http11 else http10)
      ∧ ∀ s : Bytes, (s ++ (if v11 then http11 else http10)).getLast? ≠ some 13 := by
  cases v11 <;> refine ⟨by decide, by decide, fun s => ?_⟩ <;> simp [http11, http10]

/-- the lines of a rendered frame are the lines the author wrote -/
theorem frameLines_render (q : FrameSrc) (h : srcOK q = true) :
    frameLines (renderFrame q) = some (q.method, q.target, canonLines q.lines, q.body.getD []) := by
  simp only [srcOK, Bool.and_eq_true, bne_iff_ne, ne_eq, Bool.not_eq_true', List.contains_eq_mem,
    decide_eq_false_iff_not] at h
  obtain ⟨⟨⟨⟨⟨⟨⟨hm, hmc⟩, hmp⟩, htSP⟩, htLF⟩, hh⟩, hg⟩, _⟩ := h
  have hm' := hm
  simp only [keyOK, Bool.and_eq_true, Bool.not_eq_true', List.isEmpty_eq_false_iff] at hm'
  obtain ⟨hvLF, hvSP, hvlast⟩ := version_props q.v11
  have hmLF : LF ∉ q.method := all_notMem hm'.2 (by decide)
  have hmSP : SP ∉ q.method := all_notMem hm'.2 (by decide)
  -- the request line
  let ver := if q.v11 then http11 else http10
  let line1 := q.method ++ SP :: (q.target ++ SP :: ver)
  have hline1 : LF ∉ line1 ++ (if q.crlf then [CR] else []) := by
    have : LF ∉ line1 := by
      simp only [line1, List.mem_append, List.mem_cons, not_or]
      exact ⟨hmLF, by decide, htLF, by decide, hvLF⟩
    cases q.crlf
    · simpa using this
    · simp only [if_true, List.mem_append, List.mem_singleton, not_or]; exact ⟨this, by decide⟩
  have hshape : renderFrame q = (line1 ++ (if q.crlf then [CR] else [])) ++ LF ::
      (hdrBlock q.crlf q.gap q.lines ++ (eol q.crlf ++ q.body.getD [])) := by
    simp only [renderFrame, line1, ver]
    cases q.crlf <;> simp [eol]
  have hcut1 := cut_append_sep LF _ (hdrBlock q.crlf q.gap q.lines ++ (eol q.crlf ++ q.body.getD [])) hline1
  have hlast : line1.getLast? ≠ some 13 := by
    have := hvlast (q.method ++ SP :: (q.target ++ [SP]))
    simpa [line1, ver, List.append_assoc] using this
  have hm1 : cut SP line1 = (q.method, q.target ++ SP :: ver, true) := cut_append_sep SP _ _ hmSP
  have ht1 : cut SP (q.target ++ SP :: ver) = (q.target, ver, true) := cut_append_sep SP _ _ htSP
  have hver : (ver == http11 || ver == http10) = true := by
    simp only [ver]; cases q.v11 <;> decide
  have hblock := frameHdrs_block q.crlf q.gap hg q.lines (q.body.getD []) (lines_ok q hh)
  unfold frameLines
  rw [hshape, hcut1]
  simp only [Bool.not_true, Bool.false_eq_true, if_false, dropCR_opt q.crlf line1 hlast, hm1, ht1, hver,
    Bool.not_true, hblock, canonLines]
  have hne : q.method.isEmpty = false := by
    cases hq : q.method with
    | nil => exact absurd hq hm'.1
    | cons a r => rfl
  simp [hne, hm'.2, hmc, hmp]

/-! ### from lines to the request -/

theorem hdrVals_append (a b : List (Bytes × Bytes)) (k : Bytes) : hdrVals (a ++ b) k = hdrVals a k ++ hdrVals b k := by
  simp [hdrVals, List.filter_append]

theorem canonLines_append (a b : List (Bytes × Bytes)) : canonLines (a ++ b) = canonLines a ++ canonLines b := by
  simp [canonLines]

theorem contentLen_natToDec (n : Nat) (hn : n < 9223372036854775808) : contentLen (natToDec n) = some n := by
  have ⟨h1, h2, h3⟩ := natToDec_spec n
  have hall : (natToDec n).all isDigit = true := List.all_eq_true.mpr h2
  have hne : (natToDec n).isEmpty = false := by
    cases hd : natToDec n with
    | nil => exact absurd hd h1
    | cons a r => rfl
  simp [contentLen, hall, hne, h3, hn]

theorem hdrVals_nil_of_all (hs : List (Bytes × Bytes)) (k : Bytes) (h : hs.all (fun kv => kv.1 != k) = true) :
    hdrVals hs k = [] := by
  induction hs with
  | nil => rfl
  | cons a r ih =>
    simp only [List.all_cons, Bool.and_eq_true, bne_iff_ne, ne_eq] at h
    have : (a.1 == k) = false := by simpa using h.1
    simp only [hdrVals, List.filter_cons, this, Bool.false_eq_true, if_false]
    exact ih (by simpa using h.2)

/-- a plain description denotes `srcReq` -/
theorem frameInterp_src (q : FrameSrc) (hb : q.body.all (fun b => b.length < 9223372036854775808) = true)
    (h : srcPlain q = true) :
    frameInterp q.method q.target (canonLines q.lines) (q.body.getD []) = some (srcReq q) := by
  simp only [srcPlain, Bool.and_eq_true, decide_eq_true_eq] at h
  obtain ⟨⟨hu, hk⟩, hhost⟩ := h
  obtain ⟨tp, htp⟩ := Option.isSome_iff_exists.mp hu
  have hkey : ∀ k : Bytes, (k = clKey ∨ k = teKey ∨ k = trailerKey ∨ k = pragmaKey) →
      (canonLines q.hdrs).all (fun kv => kv.1 != k) = true := by
    intro k hk'
    simp only [canonLines, List.all_map, List.all_eq_true] at hk ⊢
    intro kv hkv
    have := hk kv hkv
    simp only [Bool.and_eq_true, bne_iff_ne, ne_eq] at this
    simp only [Function.comp, bne_iff_ne, ne_eq]
    rcases hk' with e | e | e | e <;> subst e
    · exact this.1.1.1
    · exact this.1.1.2
    · exact this.1.2
    · exact this.2
  have hany : ∀ (cl : List (Bytes × Bytes)), cl.all (fun kv => kv.1 == clKey) = true →
      (canonLines q.hdrs ++ cl).any (fun kv => kv.1 == teKey || kv.1 == trailerKey || kv.1 == pragmaKey) = false := by
    intro cl hcl
    apply Bool.eq_false_iff.mpr
    intro hex
    simp only [List.any_eq_true, List.mem_append, Bool.or_eq_true, beq_iff_eq] at hex
    obtain ⟨kv, hmem, hkv⟩ := hex
    rcases hmem with hmem | hmem
    · have h1 := List.all_eq_true.mp (hkey teKey (by simp)) kv hmem
      have h2 := List.all_eq_true.mp (hkey trailerKey (by simp)) kv hmem
      have h3 := List.all_eq_true.mp (hkey pragmaKey (by simp)) kv hmem
      simp only [bne_iff_ne, ne_eq] at h1 h2 h3
      rcases hkv with (e | e) | e
      · exact h1 e
      · exact h2 e
      · exact h3 e
    · have := List.all_eq_true.mp hcl kv hmem
      simp only [beq_iff_eq] at this
      rw [this] at hkv
      revert hkv; decide
  unfold frameInterp srcReq FrameSrc.lines
  rw [htp]
  cases hbody : q.body with
  | none =>
    simp only [List.append_nil, Option.getD_none, Option.getD_some]
    have hcl : hdrVals (canonLines q.hdrs) clKey = [] := hdrVals_nil_of_all _ _ (hkey clKey (by simp))
    have hany' := hany [] (by simp)
    simp only [List.append_nil] at hany'
    have hh : ¬ (1 < (hdrVals (canonLines q.hdrs) hostKey).length) := by omega
    simp [hcl, hany', hh]
  | some b =>
    rw [hbody] at hb
    simp only [Option.all_some, decide_eq_true_eq] at hb
    simp only [Option.getD_some, canonLines_append, hdrVals_append]
    have hcl : hdrVals (canonLines q.hdrs) clKey = [] := hdrVals_nil_of_all _ _ (hkey clKey (by simp))
    have hclv : hdrVals (canonLines [(clKey, natToDec b.length)]) clKey = [natToDec b.length] := by
      simp [hdrVals, canonLines, show (canonAux true clKey == clKey) = true by decide]
    have hhv : hdrVals (canonLines [(clKey, natToDec b.length)]) hostKey = [] := by
      simp [hdrVals, canonLines, show (canonAux true clKey == hostKey) = false by decide]
    have hany' := hany (canonLines [(clKey, natToDec b.length)])
      (by simp [canonLines, show (canonAux true clKey == clKey) = true by decide])
    have hh : ¬ (1 < (hdrVals (canonLines q.hdrs) hostKey).length) := by omega
    simp [hcl, hclv, hhv, hany', hh, contentLen_natToDec _ hb]

/-- **round trip of the HTTP text**: the request read from a rendered frame is the request its author described -/
theorem frameReq_render (q : FrameSrc) (h : srcOK q = true) (hp : srcPlain q = true) :
    frameReq (renderFrame q) = some (srcReq q) := by
  unfold frameReq
  rw [frameLines_render q h]
  simp only [srcOK, Bool.and_eq_true] at h
  exact frameInterp_src q h.2 hp

end Pandora.Proofs.C07
