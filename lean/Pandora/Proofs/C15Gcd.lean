/-
C15 helper lemmas: the Go GCD loop computes Nat.gcd (and terminates within the fuel a+b+1);
GCDM over a list of positive weights is the gcd of the list.
-/
import Pandora.Model.C15
import Pandora.Spec.C15

namespace Pandora.Proofs.C15
open Pandora.Model.C15 Pandora.Spec.C15

theorem gcdLoop_nat : ∀ (fuel a b : Nat), a + b < fuel →
    ∃ x y : Nat, gcdLoop fuel (a : Int) (b : Int) = some ((x : Int), (y : Int)) ∧
      (x = 0 ∨ y = 0) ∧ Nat.gcd x y = Nat.gcd a b
  | 0, a, b, h => by omega
  | f + 1, a, b, h => by
    unfold gcdLoop
    by_cases hpos : (a : Int) > 0 ∧ (b : Int) > 0
    · have ha : 0 < a := by omega
      have hb : 0 < b := by omega
      rw [if_pos hpos]
      by_cases hge : (a : Int) ≥ (b : Int)
      · rw [if_pos hge]
        have hmod : Int.tmod (a : Int) (b : Int) = ((a % b : Nat) : Int) := (Int.ofNat_tmod a b).symm
        rw [hmod]
        have hlt : a % b < b := Nat.mod_lt _ hb
        have hle : b ≤ a := by omega
        obtain ⟨x, y, h1, h2, h3⟩ := gcdLoop_nat f (a % b) b (by omega)
        refine ⟨x, y, h1, h2, ?_⟩
        rw [h3, Nat.gcd_comm a b]
        exact (Nat.gcd_rec b a).symm
      · rw [if_neg hge]
        have hmod : Int.tmod (b : Int) (a : Int) = ((b % a : Nat) : Int) := (Int.ofNat_tmod b a).symm
        rw [hmod]
        have hlt : b % a < a := Nat.mod_lt _ ha
        have hle : a < b := by omega
        obtain ⟨x, y, h1, h2, h3⟩ := gcdLoop_nat f a (b % a) (by omega)
        refine ⟨x, y, h1, h2, ?_⟩
        rw [h3, Nat.gcd_comm a (b % a)]
        exact (Nat.gcd_rec a b).symm
    · rw [if_neg hpos]
      refine ⟨a, b, rfl, ?_, rfl⟩
      omega

theorem GCD_nat (a b : Nat) (ha : 0 < a) (_hb : 0 < b) : GCD (a : Int) (b : Int) = some ((Nat.gcd a b : Nat) : Int) := by
  unfold GCD
  obtain ⟨x, y, h1, h2, h3⟩ := gcdLoop_nat ((a : Int).toNat + (b : Int).toNat + 1) a b (by simp)
  rw [h1]
  simp only [Option.map_some]
  congr 1
  have hg : 0 < Nat.gcd a b := Nat.gcd_pos_of_pos_left b ha
  rcases h2 with h0 | h0
  · subst h0
    simp at h3
    subst h3
    split <;> omega
  · subst h0
    simp at h3
    subst h3
    split <;> omega


theorem gcdList_pos : ∀ (l : List Nat), (∀ w ∈ l, 0 < w) → l ≠ [] → 0 < gcdList l
  | [], _, h => absurd rfl h
  | w :: ws, hp, _ => by
    simp only [gcdList]
    exact Nat.gcd_pos_of_pos_left _ (hp w (by simp))

theorem gcdList_append_single (l : List Nat) (a : Nat) : gcdList (l ++ [a]) = Nat.gcd a (gcdList l) := by
  induction l with
  | nil => simp [gcdList]
  | cons w ws ih =>
    simp only [List.cons_append, gcdList, ih]
    rw [← Nat.gcd_assoc, Nat.gcd_comm w a, Nat.gcd_assoc]

theorem gcdList_reverse (l : List Nat) : gcdList l.reverse = gcdList l := by
  induction l with
  | nil => rfl
  | cons w ws ih => rw [List.reverse_cons, gcdList_append_single, ih]; rfl

theorem gcdList_dvd_head (w : Nat) (ws : List Nat) : gcdList (w :: ws) ∣ w := Nat.gcd_dvd_left _ _

theorem gcdList_dvd : ∀ (l : List Nat) (w : Nat), w ∈ l → gcdList l ∣ w
  | [], _, h => by simp at h
  | x :: xs, w, h => by
    simp only [gcdList]
    rcases List.mem_cons.mp h with h | h
    · subst h; exact Nat.gcd_dvd_left _ _
    · exact Nat.dvd_trans (Nat.gcd_dvd_right _ _) (gcdList_dvd xs w h)

theorem gcdmRev_cons2 (x y : Int) (rest : List Int) :
    gcdmRev (x :: y :: rest) =
      match GCD y x with
      | none => none
      | some res =>
        if rest.isEmpty then some res
        else match gcdmRev (y :: rest) with
          | none => none
          | some g => GCD g res := by
  conv => lhs; unfold gcdmRev
  rfl

/-- `GCDM` on the reversed list: the Go recursion on prefixes -/
theorem gcdmRev_nat : ∀ (l : List Nat), (∀ w ∈ l, 0 < w) → 2 ≤ l.length →
    gcdmRev (l.map fun (w : Nat) => (w : Int)) = some ((gcdList l : Nat) : Int)
  | [], _, h => by simp at h
  | [_], _, h => by simp at h
  | x :: y :: rest, hp, _ => by
    have hx : 0 < x := hp x (by simp)
    have hy : 0 < y := hp y (by simp)
    simp only [List.map_cons]
    rw [gcdmRev_cons2, GCD_nat y x hy hx]
    cases rest with
    | nil =>
      simp [gcdList, Nat.gcd_comm]
    | cons z zs =>
      have ih := gcdmRev_nat (y :: z :: zs) (fun w hw => hp w (List.mem_cons_of_mem _ hw)) (by simp)
      simp only [List.map_cons] at ih
      simp only [List.map_cons, List.isEmpty_cons, Bool.false_eq_true, if_false]
      rw [ih]
      have hg : 0 < gcdList (y :: z :: zs) :=
        gcdList_pos _ (fun w hw => hp w (List.mem_cons_of_mem _ hw)) (by simp)
      have hr : 0 < Nat.gcd y x := Nat.gcd_pos_of_pos_left _ hy
      show GCD _ _ = _
      rw [GCD_nat _ _ hg hr]
      congr 2
      -- gcd (G) (gcd y x) = gcd x G   with G ∣ y
      have hd : gcdList (y :: z :: zs) ∣ y := gcdList_dvd_head y (z :: zs)
      show Nat.gcd (gcdList (y :: z :: zs)) (Nat.gcd y x) = Nat.gcd x (gcdList (y :: z :: zs))
      rw [← Nat.gcd_assoc, Nat.gcd_eq_left hd, Nat.gcd_comm]

theorem GCDM_nat (ws : List Nat) (hp : ∀ w ∈ ws, 0 < w) (h2 : 2 ≤ ws.length) :
    GCDM (ws.map fun (w : Nat) => (w : Int)) = some ((gcdList ws : Nat) : Int) := by
  unfold GCDM
  rw [← List.map_reverse, gcdmRev_nat ws.reverse (by simpa using hp) (by simpa using h2), gcdList_reverse]

end Pandora.Proofs.C15
