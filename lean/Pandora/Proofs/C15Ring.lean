/-
C15 helper lemmas: `SpreadNames` + `decodeAmmo` build the ammo ring in which scenario i (in the listed order) stands
`w_i / gcd(w)` times; counting by name.
-/
import Pandora.Model.C15
import Pandora.Spec.C15
import Pandora.Proofs.C15Gcd

namespace Pandora.Proofs.C15
open Pandora.Model.C15 Pandora.Spec.C15

/-- the decoded form of one scenario description (steps = its expanded request list) -/
def scenarioOf {ρ} (reqs : List Char → Option ρ) (sc : ScenarioCfg) : Scenario ρ :=
  { name := sc.name, minWaitingTime := sc.minWaitingTime,
    steps := match expand reqs sc.requests [] with
      | .ok s => s
      | _ => [] }

def cntOf (names : List (List Char × Int)) (sc : ScenarioCfg) : Nat := ((lookupLast sc.name names).getD 0).toNat

theorem decodeLoop_ok {ρ} (reqs : List Char → Option ρ) (names : List (List Char × Int)) :
    ∀ (scs : List ScenarioCfg) (acc ring : List (Scenario ρ)), decodeLoop reqs names scs acc = .ok ring →
      (∀ sc ∈ scs, ∃ s, expand reqs sc.requests [] = .ok s) ∧
      ring = acc ++ scs.flatMap (fun sc => List.replicate (cntOf names sc) (scenarioOf reqs sc))
  | [], acc, ring, h => by
    simp only [decodeLoop] at h
    cases h
    simp
  | sc :: rest, acc, ring, h => by
    simp only [decodeLoop] at h
    split at h
    · cases h
    · cases h
    · rename_i steps hexp
      split at h
      · cases h
      · rename_i ns hl
        obtain ⟨hall, hring⟩ := decodeLoop_ok reqs names rest _ ring h
        constructor
        · intro x hx
          rcases List.mem_cons.mp hx with e | e
          · subst e; exact ⟨steps, hexp⟩
          · exact hall x e
        · rw [hring, List.flatMap_cons, List.append_assoc]
          congr 2
          have h1 : cntOf names sc = ns.toNat := by simp [cntOf, hl]
          have h2 : scenarioOf reqs sc = { name := sc.name, minWaitingTime := sc.minWaitingTime, steps := steps } := by
            simp [scenarioOf, hexp]
          rw [h1, h2]

theorem flatMap_congr' {α β} {f g : α → List β} : ∀ (l : List α), (∀ x ∈ l, f x = g x) → l.flatMap f = l.flatMap g
  | [], _ => rfl
  | x :: xs, h => by
    rw [List.flatMap_cons, List.flatMap_cons, h x (by simp), flatMap_congr' xs (fun y hy => h y (by simp [hy]))]

/-! ### `names[sc.Name]` for pairwise different names -/

theorem lookupLast_zip_none {β} (k : List Char) : ∀ (ns : List (List Char)) (vs : List β), k ∉ ns →
    lookupLast k (ns.zip vs) = none
  | [], _, _ => by simp [lookupLast]
  | _ :: _, [], _ => by simp [lookupLast]
  | n :: ns, v :: vs, h => by
    have hne : ¬ n = k := fun e => h (by simp [e])
    have hb : (n == k) = false := by simpa using hne
    have ih := lookupLast_zip_none k ns vs (fun hm => h (List.mem_cons_of_mem _ hm))
    simp [lookupLast, ih, hb]

theorem lookupLast_zip {β} : ∀ (ns : List (List Char)) (vs : List β) (i : Nat) (hi : i < ns.length) (hv : i < vs.length),
    ns.Nodup → lookupLast ns[i] (ns.zip vs) = some vs[i]
  | [], _, _, hi, _, _ => by simp at hi
  | _ :: _, [], _, _, hv, _ => by simp at hv
  | n :: ns, v :: vs, 0, _, _, hnd => by
    have hn : n ∉ ns := (List.nodup_cons.mp hnd).1
    simp [lookupLast, lookupLast_zip_none n ns vs hn]
  | n :: ns, v :: vs, i + 1, hi, hv, hnd => by
    have ih := lookupLast_zip ns vs i (by simpa using hi) (by simpa using hv) (List.nodup_cons.mp hnd).2
    simp only [List.zip_cons_cons, List.getElem_cons_succ, lookupLast, ih]

/-! ### effective weights -/

/-- effective weight of a scenario in a description of `n` scenarios: a single scenario counts once, an absent
(zero) weight is 1 -/
def effW (n : Nat) (sc : ScenarioCfg) : Nat :=
  if n = 1 then 1 else if sc.weight == 0 then 1 else sc.weight.toNat

theorem effWeights_eq (scs : List ScenarioCfg) :
    effWeights (scs.map (·.weight)) = scs.map (effW scs.length) := by
  match scs with
  | [] => rfl
  | [s] => simp [effWeights, effW]
  | a :: b :: rest =>
    have hl : ∀ sc : ScenarioCfg, effW (rest.length + 1 + 1) sc = if sc.weight == 0 then 1 else sc.weight.toNat := by
      intro sc
      simp [effW]
    simp only [effWeights, List.map_cons, List.length_cons, hl, List.map_map]
    rfl

theorem effW_pos (n : Nat) (sc : ScenarioCfg) (h : 0 ≤ sc.weight) : 0 < effW n sc := by
  unfold effW
  split
  · omega
  · split
    · omega
    · rename_i hz
      have : sc.weight ≠ 0 := by simpa using hz
      omega

theorem spreadNames_two (a b : ScenarioCfg) (rest : List ScenarioCfg)
    (hw : ∀ sc ∈ a :: b :: rest, 0 ≤ sc.weight) :
    let scs := a :: b :: rest
    let ew := scs.map (effW scs.length)
    spreadNames scs = .ok ((scs.map (·.name)).zip (ew.map fun w => ((w / gcdList ew : Nat) : Int)),
      (ew.map fun w => ((w / gcdList ew : Nat) : Int)).foldl (· + ·) 0) := by
  intro scs ew
  have hlen : ¬ (scs.length = 1) := by simp [scs]
  have hws : (scs.map fun s => if s.weight == 0 then 1 else s.weight) = ew.map fun (w : Nat) => (w : Int) := by
    simp only [ew, List.map_map]
    apply List.map_congr_left
    intro sc hsc
    have h0 := hw sc hsc
    simp only [Function.comp, effW, hlen, if_false]
    split
    · rfl
    · omega
  have hpos : ∀ w ∈ ew, 0 < w := by
    intro w hwm
    obtain ⟨sc, hsc, rfl⟩ := List.mem_map.mp hwm
    exact effW_pos _ sc (hw sc hsc)
  have h2 : 2 ≤ ew.length := by simp [ew, scs]
  have hg := GCDM_nat ew hpos h2
  have hgpos : 0 < gcdList ew := gcdList_pos ew hpos (by intro e; simp [e] at h2)
  show spreadNames (a :: b :: rest) = _
  unfold spreadNames
  simp only
  rw [show (List.map (fun s => if s.weight == 0 then 1 else s.weight) (a :: b :: rest)) = ew.map fun (w : Nat) => (w : Int) from hws]
  rw [hg]
  simp only
  have hne : ¬ (((gcdList ew : Nat) : Int) == 0) = true := by
    simp; omega
  rw [if_neg hne]
  have hdiv : (ew.map fun (w : Nat) => (w : Int)).map (fun w => Int.tdiv w ((gcdList ew : Nat) : Int)) =
      ew.map fun w => ((w / gcdList ew : Nat) : Int) := by
    rw [List.map_map]
    apply List.map_congr_left
    intro w _
    simp only [Function.comp]
    exact (Int.ofNat_tdiv w (gcdList ew)).symm
  rw [hdiv]

/-- the sum of non-negative counts is non-negative: `make([]…, 0, size)` does not panic -/
theorem foldl_add_nonneg : ∀ (l : List Nat) (acc : Int), 0 ≤ acc →
    0 ≤ (l.map fun w => ((w : Nat) : Int)).foldl (· + ·) acc
  | [], acc, h => by simpa using h
  | w :: ws, acc, h => by
    simp only [List.map_cons, List.foldl_cons]
    exact foldl_add_nonneg ws (acc + (w : Int)) (by omega)

/-- the ammo ring: scenarios in the listed order, scenario i standing `w_i / gcd(w)` times -/
theorem decodeAmmo_ring {ρ} (reqs : List Char → Option ρ) (scs : List ScenarioCfg) (ring : List (Scenario ρ))
    (hnd : (scs.map (·.name)).Nodup) (hw : ∀ sc ∈ scs, 0 ≤ sc.weight)
    (h : decodeAmmo reqs scs = .ok ring) :
    (∀ sc ∈ scs, ∃ s, expand reqs sc.requests [] = .ok s) ∧
    ring = scs.flatMap (fun sc =>
      List.replicate (effW scs.length sc / gcdList (scs.map (effW scs.length))) (scenarioOf reqs sc)) := by
  have hneg : (scs.any fun sc => decide (sc.weight < 0)) = false := by
    rw [List.any_eq_false]
    intro sc hsc
    have := hw sc hsc
    simp; omega
  unfold decodeAmmo at h
  rw [hneg] at h
  simp only [Bool.false_eq_true, if_false] at h
  match scs, hnd, hw, h with
  | [], _, _, h =>
    simp [spreadNames, decodeLoop, spreadRefused, maxSpreadSize] at h
    cases h
    simp
  | [s], _, _, h =>
    simp only [spreadNames] at h
    have h' : decodeLoop reqs [(s.name, 1)] [s] [] = .ok ring := by
      simpa [spreadRefused, maxSpreadSize] using h
    obtain ⟨hall, hring⟩ := decodeLoop_ok reqs _ _ _ _ h'
    refine ⟨hall, ?_⟩
    rw [hring]
    have hb : (s.name == s.name) = true := by simp
    simp [cntOf, lookupLast, effW, gcdList]
  | a :: b :: rest, hnd, hw, h =>
    have hsp := spreadNames_two a b rest hw
    simp only at hsp
    rw [hsp] at h
    simp only at h
    split at h
    · cases h
    split at h
    · cases h
    · obtain ⟨hall, hring⟩ := decodeLoop_ok reqs _ _ _ _ h
      refine ⟨hall, ?_⟩
      rw [hring, List.nil_append]
      apply flatMap_congr'
      intro sc hsc
      congr 1
      -- `names[sc.Name]` is the count computed for sc's own position
      obtain ⟨i, hi, rfl⟩ := List.getElem_of_mem hsc
      have hi1 : i < ((a :: b :: rest).map (·.name)).length := by simpa using hi
      have hl := lookupLast_zip ((a :: b :: rest).map (·.name))
        (((a :: b :: rest).map (effW (a :: b :: rest).length)).map fun w =>
          ((w / gcdList ((a :: b :: rest).map (effW (a :: b :: rest).length)) : Nat) : Int)) i hi1 (by simpa using hi) hnd
      simp only [List.getElem_map] at hl
      simp only [cntOf, hl, Option.getD_some, Int.toNat_natCast]

/-! ### counting by name -/

theorem countP_name_zero {ρ} (F : ScenarioCfg → Scenario ρ) (c : ScenarioCfg → Nat) (hF : ∀ x, (F x).name = x.name)
    (n : List Char) : ∀ (scs : List ScenarioCfg), n ∉ scs.map (·.name) →
      (scs.flatMap fun x => List.replicate (c x) (F x)).countP (·.name == n) = 0
  | [], _ => by simp
  | x :: xs, h => by
    have hx : ¬ x.name = n := fun e => h (by simp [e])
    have ih := countP_name_zero F c hF n xs (fun hm => h (by simp at hm ⊢; exact Or.inr hm))
    rw [List.flatMap_cons, List.countP_append, ih]
    simp [List.countP_replicate, hF, hx]

theorem countP_name {ρ} (F : ScenarioCfg → Scenario ρ) (c : ScenarioCfg → Nat) (hF : ∀ x, (F x).name = x.name) :
    ∀ (scs : List ScenarioCfg), (scs.map (·.name)).Nodup → ∀ sc ∈ scs,
      (scs.flatMap fun x => List.replicate (c x) (F x)).countP (·.name == sc.name) = c sc
  | [], _, sc, hm => by simp at hm
  | x :: xs, hnd, sc, hm => by
    rw [List.map_cons, List.nodup_cons] at hnd
    rw [List.flatMap_cons, List.countP_append]
    rcases List.mem_cons.mp hm with e | e
    · subst e
      rw [countP_name_zero F c hF sc.name xs hnd.1]
      simp [List.countP_replicate, hF]
    · have hne : ¬ x.name = sc.name := by
        intro heq
        exact hnd.1 (heq ▸ List.mem_map.mpr ⟨sc, e, rfl⟩)
      rw [countP_name F c hF xs hnd.2 sc e]
      simp [List.countP_replicate, hF, hne]

/-- cross-multiplied proportionality of two quotients by a common divisor -/
theorem cross_mul (g a b : Nat) (ha : g ∣ a) (hb : g ∣ b) : a / g * b = b / g * a := by
  obtain ⟨x, rfl⟩ := ha
  obtain ⟨y, rfl⟩ := hb
  by_cases hg : g = 0
  · subst hg; simp
  · have hp : 0 < g := Nat.pos_of_ne_zero hg
    rw [Nat.mul_div_cancel_left _ hp, Nat.mul_div_cancel_left _ hp]
    rw [Nat.mul_comm g y, Nat.mul_comm g x, ← Nat.mul_assoc, ← Nat.mul_assoc, Nat.mul_comm x y]

end Pandora.Proofs.C15
