/-
C17 — `ResolveCustomTags` substitutes tag by tag (`renderSeq`: resolve, then `strings.ReplaceAll` on the string built
so far).  When no resolved value contains a `$` this is the substitution of every placeholder at once (`render`,
`piecesValue`); a value that contains the text of a later placeholder of the same string is substituted again.
-/
import Pandora.Proofs.C17Subst

namespace Pandora.Proofs.C17
open Pandora.Model.C17 Pandora.Spec.C17

/-- tag types and names without `$` -/
def PiecesClean (ps : List (Str × Str × Str)) : Prop := ∀ p ∈ ps, NoDollar p.2.1 ∧ NoDollar p.2.2

/-- no resolver returns a text with a `$` for a placeholder of the string -/
def CleanValues (env : Env) (ps : List (Str × Str × Str)) : Prop :=
  ∀ p ∈ ps, ∀ v, resolveTag env (placeholder p.2.1 p.2.2) p.2.1 p.2.2 = some v → NoDollar v

/-! ## chunks: text without `$`, or a placeholder -/

inductive Chunk
  | clean (s : Str)
  | tag (ty name : Str)

def Chunk.text : Chunk → Str
  | .clean s => s
  | .tag ty name => placeholder ty name

def flat : List Chunk → Str
  | [] => []
  | c :: r => c.text ++ flat r

def ChunkOk : Chunk → Prop
  | .clean s => NoDollar s
  | .tag ty name => PlainType ty ∧ PlainName name ∧ NoDollar ty ∧ NoDollar name

def substChunk (ty name v : Str) : Chunk → Chunk
  | .tag ty' name' => if ty' = ty ∧ name' = name then .clean v else .tag ty' name'
  | c => c

/-- the body of a placeholder has no `}` -/
theorem body_no_close (ty name : Str) (ht : PlainType ty) (hn : PlainName name) : ∀ c ∈ ty ++ ':' :: name, c ≠ '}' := by
  intro c hc
  rcases List.mem_append.mp hc with h | h
  · exact (ht.1.2 c h).2.1
  · rcases List.mem_cons.mp h with h | h
    · subst h; decide
    · exact (hn.2 c h).2.1

/-- two placeholders with plain type and name: one is a prefix of the other followed by anything only if they are the same -/
theorem placeholder_prefix (ty name ty' name' rest : Str) (ht : PlainType ty) (hn : PlainName name)
    (ht' : PlainType ty') (hn' : PlainName name')
    (h : isPrefix (placeholder ty name) (placeholder ty' name' ++ rest) = true) : ty' = ty ∧ name' = name := by
  rcases (isPrefix_iff _ _).mp h with ⟨rest', he⟩
  unfold placeholder at he
  simp only [List.cons_append, List.cons.injEq, true_and, List.append_assoc, List.nil_append] at he
  -- ty' ++ ':' :: (name' ++ '}' :: rest) = ty ++ ':' :: (name ++ '}' :: rest')
  have e1 : (ty' ++ ':' :: name') ++ '}' :: rest = (ty ++ ':' :: name) ++ '}' :: rest' := by
    simpa [List.append_assoc] using he
  have hb := append_cons_unique '}' _ _ _ _ (body_no_close ty' name' ht' hn') (body_no_close ty name ht hn) e1
  have hc := append_cons_unique ':' ty' ty name' name (fun c hc => ht'.2 c hc) (fun c hc => ht.2 c hc) hb.1
  exact hc

theorem placeholder_tail_clean (ty name : Str) (h1 : NoDollar ty) (h2 : NoDollar name) :
    ∀ c ∈ '{' :: (ty ++ ':' :: name ++ ['}']), c ≠ '$' := by
  intro c hc
  simp only [List.mem_cons, List.mem_append, List.mem_nil_iff, or_false] at hc
  rcases hc with rfl | (hc | rfl | hc) | rfl
  · decide
  · exact h1 c hc
  · decide
  · exact h2 c hc
  · decide

/-- one `ReplaceAll` on a chunked text replaces exactly the chunks that ARE the placeholder -/
theorem replace_flat (ty name v : Str) (ht : PlainType ty) (hn : PlainName name) :
    ∀ (L : List Chunk), (∀ c ∈ L, ChunkOk c) →
      replaceAux (placeholder ty name) v (flat L) 0 = flat (L.map (substChunk ty name v))
  | [], _ => rfl
  | .clean s :: r, h => by
    have hs : NoDollar s := h (.clean s) (by simp)
    have ih := replace_flat ty name v ht hn r (fun c hc => h c (by simp [hc]))
    simp only [flat, Chunk.text, List.map_cons, substChunk]
    have := replaceAux_copy '$' ('{' :: (ty ++ ':' :: name ++ ['}'])) v s (flat r) hs
    unfold placeholder
    rw [this]
    unfold placeholder at ih
    rw [ih]
  | .tag ty' name' :: r, h => by
    have hok : PlainType ty' ∧ PlainName name' ∧ NoDollar ty' ∧ NoDollar name' := h (.tag ty' name') (by simp)
    have ih := replace_flat ty name v ht hn r (fun c hc => h c (by simp [hc]))
    by_cases hsame : ty' = ty ∧ name' = name
    · obtain ⟨rfl, rfl⟩ := hsame
      simp only [flat, Chunk.text, List.map_cons, substChunk, and_self, if_true]
      rw [replaceAux_match _ _ _ (by simp [placeholder]), ih]
    · simp only [flat, Chunk.text, List.map_cons, substChunk, hsame, if_false]
      have hnp : isPrefix (placeholder ty name) (placeholder ty' name' ++ flat r) = false := by
        cases hp : isPrefix (placeholder ty name) (placeholder ty' name' ++ flat r) with
        | false => rfl
        | true => exact absurd (placeholder_prefix ty name ty' name' _ ht hn hok.1 hok.2.1 hp) hsame
      have e : placeholder ty' name' ++ flat r = '$' :: (('{' :: (ty' ++ ':' :: name' ++ ['}'])) ++ flat r) := by
        simp [placeholder]
      rw [e] at hnp ⊢
      rw [replaceAux_step _ _ _ _ hnp]
      have := replaceAux_copy '$' ('{' :: (ty ++ ':' :: name ++ ['}'])) v ('{' :: (ty' ++ ':' :: name' ++ ['}'])) (flat r)
        (placeholder_tail_clean ty' name' hok.2.2.1 hok.2.2.2)
      unfold placeholder
      rw [this]
      unfold placeholder at ih
      rw [ih]
      simp

theorem replaceAll_flat (ty name v : Str) (ht : PlainType ty) (hn : PlainName name) (L : List Chunk)
    (h : ∀ c ∈ L, ChunkOk c) :
    replaceAll (flat L) (placeholder ty name) v = flat (L.map (substChunk ty name v)) := by
  have : (placeholder ty name).isEmpty = false := by simp [placeholder]
  simp only [replaceAll, this, Bool.false_eq_true, if_false]
  exact replace_flat ty name v ht hn L h

theorem substChunk_ok (ty name v : Str) (hv : NoDollar v) (L : List Chunk) (h : ∀ c ∈ L, ChunkOk c) :
    ∀ c ∈ L.map (substChunk ty name v), ChunkOk c := by
  intro c hc
  rcases List.mem_map.mp hc with ⟨c0, hc0, rfl⟩
  cases c0 with
  | clean s => exact h _ hc0
  | tag ty' name' =>
    simp only [substChunk]
    split
    · exact hv
    · exact h _ hc0

/-! ## tag by tag -/

def seqTags (env : Env) : Str → List (Str × Str) → Option Str
  | res, [] => some res
  | res, (ty, name) :: r =>
    match resolveTag env (placeholder ty name) ty name with
    | none => none
    | some v => seqTags env (replaceAll res (placeholder ty name) v) r

def substAll (env : Env) : List (Str × Str) → List Chunk → Option (List Chunk)
  | [], L => some L
  | (ty, name) :: r, L =>
    match resolveTag env (placeholder ty name) ty name with
    | none => none
    | some v => substAll env r (L.map (substChunk ty name v))

def TagsOk (env : Env) (tags : List (Str × Str)) : Prop :=
  ∀ t ∈ tags, PlainType t.1 ∧ PlainName t.2 ∧ ∀ v, resolveTag env (placeholder t.1 t.2) t.1 t.2 = some v → NoDollar v

theorem seqTags_flat (env : Env) : ∀ (tags : List (Str × Str)) (L : List Chunk), TagsOk env tags → (∀ c ∈ L, ChunkOk c) →
    seqTags env (flat L) tags = (substAll env tags L).map flat
  | [], L, _, _ => rfl
  | (ty, name) :: r, L, ht, hL => by
    have h0 := ht (ty, name) (by simp)
    simp only [seqTags, substAll]
    cases hr : resolveTag env (placeholder ty name) ty name with
    | none => rfl
    | some v =>
      simp only
      rw [replaceAll_flat ty name v h0.1 h0.2.1 L hL]
      exact seqTags_flat env r _ (fun t ht' => ht t (by simp [ht'])) (substChunk_ok ty name v (h0.2.2 v hr) L hL)

theorem renderSeq_litSeg (env : Env) (res l : Str) (rest : List Seg) :
    renderSeq env res (litSeg l ++ rest) = renderSeq env res rest := by
  unfold litSeg
  cases l <;> simp [renderSeq]

theorem renderSeq_pieces_tags (env : Env) : ∀ (ps : List (Str × Str × Str)) (post res : Str),
    renderSeq env res (piecesSegs ps post) = seqTags env res (ps.map fun p => (p.2.1, p.2.2))
  | [], post, res => by
    have := renderSeq_litSeg env res post []
    simp only [List.append_nil] at this
    simp [piecesSegs, this, renderSeq, seqTags]
  | (pre, ty, name) :: r, post, res => by
    simp only [piecesSegs, renderSeq_litSeg, renderSeq, List.map_cons, seqTags]
    cases resolveTag env (placeholder ty name) ty name with
    | none => rfl
    | some v => exact renderSeq_pieces_tags env r post _

/-! ## all at once -/

def valueChunks (env : Env) : List Chunk → Option Str
  | [] => some []
  | .clean s :: r => (valueChunks env r).map (s ++ ·)
  | .tag ty name :: r =>
    match resolveTag env (placeholder ty name) ty name with
    | none => none
    | some v => (valueChunks env r).map (v ++ ·)

def chunksOf : List (Str × Str × Str) → Str → List Chunk
  | [], post => [.clean post]
  | (pre, ty, name) :: r, post => .clean pre :: .tag ty name :: chunksOf r post

theorem flat_chunksOf : ∀ (ps : List (Str × Str × Str)) (post : Str), flat (chunksOf ps post) = piecesText ps post
  | [], post => by simp [chunksOf, flat, Chunk.text, piecesText]
  | (pre, ty, name) :: r, post => by
    simp [chunksOf, flat, Chunk.text, piecesText, flat_chunksOf r post]

theorem valueChunks_chunksOf (env : Env) : ∀ (ps : List (Str × Str × Str)) (post : Str),
    valueChunks env (chunksOf ps post) = piecesValue env ps post
  | [], post => by simp [chunksOf, valueChunks, piecesValue]
  | (pre, ty, name) :: r, post => by
    simp only [chunksOf, valueChunks, piecesValue, valueChunks_chunksOf env r post]
    cases resolveTag env (placeholder ty name) ty name with
    | none => rfl
    | some v => cases piecesValue env r post <;> simp

theorem chunksOf_ok : ∀ (ps : List (Str × Str × Str)) (post : Str), PiecesOk ps post → PiecesClean ps →
    ∀ c ∈ chunksOf ps post, ChunkOk c
  | [], post, h, _ => by
    intro c hc
    simp only [chunksOf, List.mem_cons, List.mem_nil_iff, or_false] at hc
    subst hc
    exact h.2
  | (pre, ty, name) :: r, post, h, hc' => by
    intro c hc
    have hp := h.1 (pre, ty, name) (by simp)
    have hq := hc' (pre, ty, name) (by simp)
    simp only [chunksOf, List.mem_cons] at hc
    rcases hc with rfl | rfl | hc
    · exact hp.1
    · exact ⟨hp.2.1, hp.2.2, hq.1, hq.2⟩
    · exact chunksOf_ok r post ⟨fun p hp' => h.1 p (by simp [hp']), h.2⟩ (fun p hp' => hc' p (by simp [hp'])) c hc

/-- a step of the tag-by-tag substitution does not change the all-at-once value -/
theorem valueChunks_subst (env : Env) (ty name v : Str) (hr : resolveTag env (placeholder ty name) ty name = some v) :
    ∀ (L : List Chunk), valueChunks env (L.map (substChunk ty name v)) = valueChunks env L
  | [] => rfl
  | .clean s :: r => by simp [valueChunks, substChunk, valueChunks_subst env ty name v hr r]
  | .tag ty' name' :: r => by
    by_cases hsame : ty' = ty ∧ name' = name
    · obtain ⟨rfl, rfl⟩ := hsame
      simp [valueChunks, substChunk, hr, valueChunks_subst env ty' name' v hr r]
    · simp [valueChunks, substChunk, hsame, valueChunks_subst env ty name v hr r]

theorem substAll_value (env : Env) : ∀ (tags : List (Str × Str)) (L L' : List Chunk),
    substAll env tags L = some L' → valueChunks env L' = valueChunks env L
  | [], L, L', h => by simp only [substAll, Option.some.injEq] at h; rw [h]
  | (ty, name) :: r, L, L', h => by
    simp only [substAll] at h
    cases hr : resolveTag env (placeholder ty name) ty name with
    | none => rw [hr] at h; simp at h
    | some v =>
      rw [hr] at h
      simp only at h
      rw [substAll_value env r _ L' h, valueChunks_subst env ty name v hr L]

theorem valueChunks_failing (env : Env) (ty name : Str) (hr : resolveTag env (placeholder ty name) ty name = none) :
    ∀ (L : List Chunk), Chunk.tag ty name ∈ L → valueChunks env L = none
  | [], h => by simp at h
  | .clean s :: r, h => by
    simp only [List.mem_cons, reduceCtorEq, false_or] at h
    simp [valueChunks, valueChunks_failing env ty name hr r h]
  | .tag ty' name' :: r, h => by
    simp only [List.mem_cons, Chunk.tag.injEq] at h
    rcases h with ⟨rfl, rfl⟩ | h
    · simp [valueChunks, hr]
    · simp only [valueChunks]
      cases resolveTag env (placeholder ty' name') ty' name' with
      | none => rfl
      | some v => simp [valueChunks_failing env ty name hr r h]

theorem mem_subst_other (ty name v ty' name' : Str) (L : List Chunk) (h : Chunk.tag ty' name' ∈ L)
    (hne : ¬ (ty' = ty ∧ name' = name)) : Chunk.tag ty' name' ∈ L.map (substChunk ty name v) := by
  apply List.mem_map.mpr
  exact ⟨.tag ty' name', h, by simp [substChunk, hne]⟩

theorem substAll_none (env : Env) : ∀ (tags : List (Str × Str)) (L : List Chunk),
    (∀ t ∈ tags, resolveTag env (placeholder t.1 t.2) t.1 t.2 = none → Chunk.tag t.1 t.2 ∈ L) →
    substAll env tags L = none → valueChunks env L = none
  | [], L, _, h => by simp [substAll] at h
  | (ty, name) :: r, L, hm, h => by
    simp only [substAll] at h
    cases hr : resolveTag env (placeholder ty name) ty name with
    | none => exact valueChunks_failing env ty name hr L (hm (ty, name) (by simp) hr)
    | some v =>
      rw [hr] at h
      simp only at h
      rw [← valueChunks_subst env ty name v hr L]
      apply substAll_none env r _ _ h
      intro t ht hfail
      apply mem_subst_other ty name v t.1 t.2 L (hm t (by simp [ht]) hfail)
      rintro ⟨h1, h2⟩
      rw [h1, h2, hr] at hfail
      cases hfail

def AllClean (L : List Chunk) : Prop := ∀ c ∈ L, ∀ ty name, c ≠ Chunk.tag ty name

theorem substAll_clean (env : Env) : ∀ (tags : List (Str × Str)) (L L' : List Chunk),
    (∀ ty name, Chunk.tag ty name ∈ L → (ty, name) ∈ tags) → substAll env tags L = some L' → AllClean L'
  | [], L, L', hm, h => by
    simp only [substAll, Option.some.injEq] at h
    subst h
    intro c hc ty name he
    subst he
    have := hm ty name hc
    simp at this
  | (ty, name) :: r, L, L', hm, h => by
    simp only [substAll] at h
    cases hr : resolveTag env (placeholder ty name) ty name with
    | none => rw [hr] at h; simp at h
    | some v =>
      rw [hr] at h
      simp only at h
      apply substAll_clean env r _ L' _ h
      intro ty' name' hmem
      rcases List.mem_map.mp hmem with ⟨c0, hc0, he⟩
      cases c0 with
      | clean s => simp [substChunk] at he
      | tag a b =>
        simp only [substChunk] at he
        split at he
        · cases he
        · next hne =>
          simp only [Chunk.tag.injEq] at he
          obtain ⟨rfl, rfl⟩ := he
          have := hm a b hc0
          simp only [List.mem_cons, Prod.mk.injEq] at this
          rcases this with h' | h'
          · exact absurd h' hne
          · exact h'

theorem valueChunks_clean (env : Env) : ∀ (L : List Chunk), AllClean L → valueChunks env L = some (flat L)
  | [], _ => rfl
  | .clean s :: r, h => by
    simp [valueChunks, flat, Chunk.text, valueChunks_clean env r (fun c hc => h c (by simp [hc]))]
  | .tag ty name :: r, h => absurd rfl (h (.tag ty name) (by simp) ty name)

theorem tags_of_chunksOf : ∀ (ps : List (Str × Str × Str)) (post : Str) (ty name : Str),
    Chunk.tag ty name ∈ chunksOf ps post ↔ (ty, name) ∈ ps.map fun p => (p.2.1, p.2.2)
  | [], post, ty, name => by simp [chunksOf]
  | (pre, a, b) :: r, post, ty, name => by
    simp only [chunksOf, List.mem_cons, reduceCtorEq, false_or, Chunk.tag.injEq, List.map_cons, Prod.mk.injEq,
      tags_of_chunksOf r post ty name]

/-- **Tag by tag = all at once when no resolved value brings a `$`.** -/
theorem renderSeq_pieces (env : Env) (ps : List (Str × Str × Str)) (post : Str) (hok : PiecesOk ps post)
    (hcl : PiecesClean ps) (hv : CleanValues env ps) :
    renderSeq env (piecesText ps post) (piecesSegs ps post) = piecesValue env ps post := by
  let tags := ps.map fun p => (p.2.1, p.2.2)
  have htags : TagsOk env tags := by
    intro t ht
    rcases List.mem_map.mp ht with ⟨p, hp, rfl⟩
    exact ⟨(hok.1 p hp).2.1, (hok.1 p hp).2.2, hv p hp⟩
  have hL := chunksOf_ok ps post hok hcl
  rw [renderSeq_pieces_tags, ← flat_chunksOf ps post, seqTags_flat env tags _ htags hL, ← valueChunks_chunksOf]
  cases hs : substAll env tags (chunksOf ps post) with
  | none =>
    simp only [Option.map_none]
    symm
    apply substAll_none env tags _ _ hs
    intro t ht _
    exact (tags_of_chunksOf ps post t.1 t.2).mpr ht
  | some L' =>
    simp only [Option.map_some]
    have hc := substAll_clean env tags _ L' (fun ty name h => (tags_of_chunksOf ps post ty name).mp h) hs
    rw [← substAll_value env tags _ L' hs, valueChunks_clean env L' hc]

/-- a string built from literal text and placeholders resolves to the text with every placeholder substituted, when no
resolved value contains a `$` -/
theorem resolve_pieces (env : Env) (ps : List (Str × Str × Str)) (post : Str) (hok : PiecesOk ps post) (hne : ps ≠ [])
    (hcl : PiecesClean ps) (hv : CleanValues env ps) :
    resolve env (piecesText ps post) =
      match piecesValue env ps post with
      | none => .failed
      | some t => .text t (loneTag (piecesSegs ps post)) := by
  unfold resolve scan
  have := scan_pieces ps post hok []
  simp only [List.nil_append] at this
  rw [this]
  simp only [hasTag_pieces ps post hne, Bool.not_true, Bool.false_eq_true, if_false,
    renderSeq_pieces env ps post hok hcl hv]
  cases piecesValue env ps post <;> rfl

end Pandora.Proofs.C17
