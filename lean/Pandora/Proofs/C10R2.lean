/-
C10 — helper lemmas, second part (core Lean only): the setter-level view of the http gun, the recycling sample pool,
a gRPC target that goes away, and "the executable Spec accepts what the model reports".
-/
import Pandora.Proofs.C10

namespace Pandora.Proofs.C10
open Pandora.Model.C10 Pandora.Spec.C10

/-! ### setter level -/

theorem applyOps_append (s : Sample) (a b : List SampleOp) : applyOps s (a ++ b) = applyOps (applyOps s a) b := by
  simp [applyOps, List.foldl_append]

/-- the tag block leaves `httpTag` on the sample and touches nothing else -/
theorem applyOps_tagOps (cfg : AutoTagCfg) (t path : String) (i p n : Nat) :
    applyOps { tags := t, id := i, proto := p, net := n } (tagOps cfg t path) =
      { tags := httpTag cfg t path, id := i, proto := p, net := n } := by
  unfold tagOps httpTag
  split
  · simp only [List.cons_append, List.nil_append, applyOps, List.foldl_cons, List.foldl_nil, applyOp]
    split <;> rfl
  · simp only [List.nil_append, applyOps, List.foldl_cons, List.foldl_nil, applyOp]
    split <;> rfl

/-- `BaseGun.Shoot` as a sequence of setter calls on a freshly acquired sample -/
theorem shootHttp_as_ops (cfg : AutoTagCfg) (s : HttpShot) (hc : s.connectHook = none) :
    (shootHttp cfg s).reports = [applyOps (fresh s.ammoTag) (httpOps cfg s)] := by
  unfold shootHttp httpOps
  rw [hc]
  by_cases hi : s.invalid = true
  · simp [hi, applyOps, applyOp, fresh]
  · have hi' : s.invalid = false := by simpa using hi
    simp only [hi', Bool.false_eq_true, if_false]
    have h0 : applyOps (fresh s.ammoTag) (SampleOp.setID s.id :: (tagOps cfg s.ammoTag s.path ++ outcomeOps s.outcome))
        = applyOps { tags := httpTag cfg s.ammoTag s.path, id := s.id, proto := 0, net := 0 } (outcomeOps s.outcome) := by
      have : applyOps (fresh s.ammoTag) (SampleOp.setID s.id :: (tagOps cfg s.ammoTag s.path ++ outcomeOps s.outcome))
          = applyOps { tags := s.ammoTag, id := s.id, proto := 0, net := 0 } (tagOps cfg s.ammoTag s.path ++ outcomeOps s.outcome) := by
        simp [applyOps, applyOp, fresh]
      rw [this, applyOps_append, applyOps_tagOps]
    rw [h0]
    cases s.outcome with
    | doErr e => simp [outcomeOps, applyOps, applyOp]
    | response st b => cases b <;> simp [outcomeOps, applyOps, applyOp]
    | doPanic => simp [outcomeOps, applyOps]

/-! ### the recycling pool -/

theorem runRecycling_acquire (choose : List Sample → Option Nat) (pool : List Sample)
    (reqs : List (String × List SampleOp)) :
    runRecycling acquire choose pool reqs = reqs.map fun r => applyOps (fresh r.1) r.2 := by
  induction reqs generalizing pool with
  | nil => simp [runRecycling]
  | cons r rest ih =>
    obtain ⟨tag, ops⟩ := r
    simp [runRecycling, acquire, ih]

/-! ### a target that goes away -/

theorem runGrpcGone_eq (gone : Bool) (reqs : List (String × GrpcOutcome × Bool)) :
    runGrpcGone gone reqs = (effectiveOutcomes gone reqs).flatMap fun r => (shootGrpc r.1 r.2).reports := by
  induction reqs generalizing gone with
  | nil => simp [runGrpcGone, effectiveOutcomes]
  | cons r rest ih =>
    obtain ⟨tag, o, kill⟩ := r
    simp [runGrpcGone, effectiveOutcomes, ih]

theorem effectiveOutcomes_length (gone : Bool) (reqs : List (String × GrpcOutcome × Bool)) :
    (effectiveOutcomes gone reqs).length = reqs.length := by
  induction reqs generalizing gone with
  | nil => simp [effectiveOutcomes]
  | cons r rest ih => obtain ⟨tag, o, kill⟩ := r; simp [effectiveOutcomes, ih]

theorem effectiveOutcomes_gone (reqs : List (String × GrpcOutcome × Bool)) :
    effectiveOutcomes true reqs = reqs.map fun r => (r.1, afterGone r.2.1) := by
  induction reqs with
  | nil => simp [effectiveOutcomes]
  | cons r rest ih => obtain ⟨tag, o, kill⟩ := r; simp [effectiveOutcomes, ih]

/-! ### the Spec accepts the model's samples -/

/-- a model sample as the Spec sees it -/
def toObs (s : Sample) : Obs := { tags := s.tags, id := s.id, proto := s.proto, net := s.net }

/-- gRPC, any list of requests (`htab`: the model's table is the documented one — `Bridge` + `C10_grpc_table`) -/
theorem judgeGrpc_accepts (htab : ∀ c, grpcToHttp c = docTable c) (reqs : List (String × GrpcOutcome)) :
    judgeGrpc (reqs.map fun r => (r.1, grpcTruth r.2))
      ((reqs.flatMap fun r => (shootGrpc r.1 r.2).reports).map toObs) = "ok" := by
  induction reqs with
  | nil => simp [judgeGrpc]
  | cons r rest ih =>
    obtain ⟨tag, o⟩ := r
    cases o with
    | invoked c => simpa [judgeGrpc, shootGrpc, toObs, grpcTruth, grpcProto, htab] using ih
    | unknownMethod => simpa [judgeGrpc, shootGrpc, toObs, grpcTruth, grpcProto, docTable] using ih
    | invalidAmmo => simpa [judgeGrpc, shootGrpc, toObs, grpcTruth, grpcProto, docTable] using ih
    | marshalErr => simpa [judgeGrpc, shootGrpc, toObs, grpcTruth, grpcProto, docTable] using ih
    | badPayload => simpa [judgeGrpc, shootGrpc, toObs, grpcTruth, grpcProto, docTable] using ih

/-- gRPC scenario steps, any list -/
theorem judgeGrpc_accepts_steps (htab : ∀ c, grpcToHttp c = docTable c) (scn : String) (l : List GrpcStep) :
    judgeGrpc (l.map (grpcStepTruth scn)) ((l.map (grpcStepSample scn)).map toObs) = "ok" := by
  induction l with
  | nil => simp [judgeGrpc]
  | cons s rest ih =>
    cases ho : s.outcome with
    | invoked c p => simpa [judgeGrpc, grpcStepTruth, grpcStepSample, toObs, stepTag, grpcStepProto, ho, htab] using ih
    | unknownMethod => simpa [judgeGrpc, grpcStepTruth, grpcStepSample, toObs, stepTag, grpcStepProto, ho, docTable] using ih
    | badPayload => simpa [judgeGrpc, grpcStepTruth, grpcStepSample, toObs, stepTag, grpcStepProto, ho, docTable] using ih
    | prepErr => simpa [judgeGrpc, grpcStepTruth, grpcStepSample, toObs, stepTag, grpcStepProto, ho, docTable] using ih

/-- http scenario: what the harness knows about a step -/
def stepTruthOf (s : Step) : String × StepTruth :=
  (s.name, match s.outcome with
    | .received st .ok => .passed st
    | _ => .failedStep)

theorem executed_map (steps : List Step) :
    executed (steps.map stepTruthOf) = (steps.take (executedSteps steps)).map stepTruthOf := by
  induction steps with
  | nil => simp [executed, executedSteps]
  | cons s rest ih =>
    unfold executedSteps
    cases ho : s.outcome with
    | prepErr => simp [executed, stepTruthOf, ho]
    | doErr e => simp [executed, stepTruthOf, ho]
    | bodyErr st e => simp [executed, stepTruthOf, ho]
    | received st post =>
      cases post with
      | ok =>
        have : 1 + executedSteps rest = executedSteps rest + 1 := by omega
        simp [executed, stepTruthOf, ho, this]
        simpa [stepTruthOf] using ih
      | err => simp [executed, stepTruthOf, ho]
      | panic => simp [executed, stepTruthOf, ho]

theorem errSample_net_ne : (errSample scn name).net ≠ 0 := by
  simp [errSample]; decide

/-- one shot, any list of steps: the per-step samples pass the positional judge -/
theorem judgeShot_accepts (scn : String) (l : List Step) :
    judgeShot scn (l.map stepTruthOf) ((l.map (stepSample scn)).map toObs) = "ok" := by
  induction l with
  | nil => simp [judgeShot]
  | cons s rest ih =>
    have herr : judgeShot scn ((s.name, StepTruth.failedStep) :: rest.map stepTruthOf)
        (toObs (errSample scn s.name) :: (rest.map (stepSample scn)).map toObs) = "ok" := by
      have hn : (errSample scn s.name).net ≠ 0 := errSample_net_ne
      have ht : (errSample scn s.name).tags = scn ++ "." ++ s.name ++ "|" ++ Spec.C10.emptyTag := by
        simp [errSample, addTag, stepTag, Model.C10.emptyTag, Spec.C10.emptyTag]
      simp [judgeShot, toObs, hn, ht]
      simpa using ih
    cases ho : s.outcome with
    | prepErr => simpa [stepTruthOf, stepSample, ho] using herr
    | doErr e => simpa [stepTruthOf, stepSample, ho] using herr
    | bodyErr st e => simpa [stepTruthOf, stepSample, ho] using herr
    | received st post =>
      cases post with
      | ok =>
        simp [stepTruthOf, stepSample, ho, judgeShot, toObs, okSample, stepTag]
        simpa [stepTruthOf] using ih
      | err => simpa [stepTruthOf, stepSample, ho] using herr
      | panic => simpa [stepTruthOf, stepSample, ho] using herr

/-- `n` identical shots, each passing the positional judge, pass `judgeShotsSeq` -/
theorem judgeShotsSeq_accepts (scn : String) (truths : List (String × StepTruth)) (one : List Obs)
    (hlen : one.length = (executed truths).length) (hone : judgeShot scn (executed truths) one = "ok") (n : Nat) :
    judgeShotsSeq scn truths n (List.replicate n one).flatten = "ok" := by
  induction n with
  | zero => simp [judgeShotsSeq]
  | succ k ih =>
    rw [List.replicate_succ, List.flatten_cons]
    unfold judgeShotsSeq
    have h1 : ¬ ((one ++ (List.replicate k one).flatten).length < (executed truths).length) := by
      simp [hlen]
    simp only [h1, if_false]
    rw [← hlen, List.take_left, List.drop_left, hone]
    exact ih

theorem judgeShots_of_seq (scn : String) (truths : List (String × StepTruth)) (n : Nat) (obs : List Obs)
    (h : judgeShotsSeq scn truths n obs = "ok") : judgeShots scn truths n obs = "ok" := by
  unfold judgeShots
  rw [h]
  rfl

end Pandora.Proofs.C10
