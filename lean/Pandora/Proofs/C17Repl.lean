/-
C17 — `strings.ReplaceAll` as the model has it (`replaceAux`): list lemmas.
-/
import Pandora.Model.C17

namespace Pandora.Proofs.C17
open Pandora.Model.C17

theorem isPrefix_append (pat rest : Str) : isPrefix pat (pat ++ rest) = true := by
  induction pat with
  | nil => rfl
  | cons p ps ih => simp [isPrefix, ih]

theorem isPrefix_iff (pat s : Str) : isPrefix pat s = true ↔ ∃ rest, s = pat ++ rest := by
  induction pat generalizing s with
  | nil => simp [isPrefix]
  | cons p ps ih =>
    cases s with
    | nil => simp [isPrefix]
    | cons c cs =>
      simp only [isPrefix, Bool.and_eq_true, beq_iff_eq, ih, List.cons_append, List.cons.injEq]
      constructor
      · rintro ⟨rfl, rest, rfl⟩; exact ⟨rest, rfl, rfl⟩
      · rintro ⟨rest, rfl, rfl⟩; exact ⟨rfl, rest, rfl⟩

/-- dropping the rest of a matched occurrence -/
theorem replaceAux_skip (pat rep : Str) : ∀ (xs rest : Str), replaceAux pat rep (xs ++ rest) xs.length = replaceAux pat rep rest 0
  | [], rest => rfl
  | x :: xs, rest => by
    simp only [List.cons_append, List.length_cons, replaceAux]
    exact replaceAux_skip pat rep xs rest

/-- an occurrence at the front is replaced -/
theorem replaceAux_match (pat rep rest : Str) (hne : pat ≠ []) :
    replaceAux pat rep (pat ++ rest) 0 = rep ++ replaceAux pat rep rest 0 := by
  cases pat with
  | nil => exact absurd rfl hne
  | cons p ps =>
    have hp : isPrefix (p :: ps) (p :: (ps ++ rest)) = true := isPrefix_append (p :: ps) rest
    simp only [List.cons_append, replaceAux, hp, if_true, List.length_cons, Nat.add_sub_cancel]
    rw [replaceAux_skip]

/-- text that does not contain the first character of the pattern is copied -/
theorem replaceAux_copy (p : Char) (ps rep : Str) : ∀ (xs rest : Str), (∀ c ∈ xs, c ≠ p) →
    replaceAux (p :: ps) rep (xs ++ rest) 0 = xs ++ replaceAux (p :: ps) rep rest 0
  | [], rest, _ => rfl
  | x :: xs, rest, h => by
    have hx : (p == x) = false := by
      have := h x (by simp)
      simp only [beq_eq_false_iff_ne, ne_eq]
      exact fun e => this e.symm
    simp only [List.cons_append, replaceAux, isPrefix, hx, Bool.false_and, Bool.false_eq_true, if_false, List.cons.injEq, true_and]
    exact replaceAux_copy p ps rep xs rest (fun c hc => h c (by simp [hc]))

/-- one character that does not start an occurrence is copied -/
theorem replaceAux_step (pat rep : Str) (c : Char) (cs : Str) (h : isPrefix pat (c :: cs) = false) :
    replaceAux pat rep (c :: cs) 0 = c :: replaceAux pat rep cs 0 := by
  simp [replaceAux, h]

theorem replaceAux_nil (pat rep : Str) (n : Nat) : replaceAux pat rep [] n = [] := by
  cases n <;> rfl

/-- replacing a text by itself, as a whole -/
theorem replaceAll_self (pat rep : Str) (hne : pat ≠ []) : replaceAll pat pat rep = rep := by
  have : pat.isEmpty = false := by cases pat <;> simp_all
  simp only [replaceAll, this, Bool.false_eq_true, if_false]
  have := replaceAux_match pat rep [] hne
  simp only [List.append_nil, replaceAux_nil] at this
  exact this

/-- the decomposition at the first occurrence of a character is unique -/
theorem append_cons_unique (c : Char) : ∀ (xs ys r r' : Str), (∀ x ∈ xs, x ≠ c) → (∀ y ∈ ys, y ≠ c) →
    xs ++ c :: r = ys ++ c :: r' → xs = ys ∧ r = r'
  | [], [], r, r', _, _, h => by simpa using h
  | [], y :: ys, r, r', _, hy, h => by
    simp only [List.nil_append, List.cons_append, List.cons.injEq] at h
    exact absurd h.1.symm (hy y (by simp))
  | x :: xs, [], r, r', hx, _, h => by
    simp only [List.nil_append, List.cons_append, List.cons.injEq] at h
    exact absurd h.1 (hx x (by simp))
  | x :: xs, y :: ys, r, r', hx, hy, h => by
    simp only [List.cons_append, List.cons.injEq] at h
    have := append_cons_unique c xs ys r r' (fun a ha => hx a (by simp [ha])) (fun a ha => hy a (by simp [ha])) h.2
    exact ⟨by rw [h.1, this.1], this.2⟩

end Pandora.Proofs.C17
