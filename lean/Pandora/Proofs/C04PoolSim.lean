/-
C04 (round 4) — the closed world of a pool (`Model/C04PoolSim.lean`): the history of every instance is the single-instance closed
world `simHist` over the tokens that instance was handed, so everything proved of `simHist` holds per instance of a pool, under every
interleaving.  Core Lean only.
-/
import Pandora.Model.C04PoolSim
import Pandora.Proofs.C04Sim

namespace Pandora.Proofs.C04
open Pandora.Go.C04 Pandora.Model.C04

theorem upd_same {α : Type} (f : Nat → α) (i : Nat) (a : α) : upd f i a i = a := by simp [upd]

theorem upd_other {α : Type} (f : Nat → α) (i j : Nat) (a : α) (h : j ≠ i) : upd f i a j = f j := by simp [upd, h]

/-- the key invariant: what instance `i` has done after the steps `cs` is what it had done before, followed by the single-instance
closed world over the tokens it gets, started from its waiter state and its clock -/
theorem psim_hist (d : Bool) (i : Nat) (cs : List (Nat × Delays)) :
    ∀ st : PSim, (psim d st cs).hist i ++ [simLast ((psim d st cs).t i)] =
      st.hist i ++ simHist .fresh d (st.w i) (st.t i) (psimOwn i st.sched cs) (psimDelays i st.sched cs) := by
  induction cs with
  | nil =>
    intro st
    cases hs : st.sched with
    | nil => simp [psim, psimOwn, simHist]
    | cons tok rest => simp [psim, psimOwn, simHist]
  | cons c cs ih =>
    intro st
    cases hs : st.sched with
    | nil =>
      have hstep : psimStep d st c = st := by simp [psimStep, hs]
      have := ih st
      rw [hs] at this
      simp only [psim, hstep, psimOwn, psimDelays]
      cases cs with
      | nil => simpa [psim, psimOwn, psimDelays] using this
      | cons c' cs' => simpa [psimOwn, psimDelays] using this
    | cons tok rest =>
      have hstep : psimStep d st c =
          { sched := rest, w := upd st.w c.1 (waitV .fresh (st.w c.1) (simIter (st.t c.1) tok c.2).env).w,
            t := upd st.t c.1 (simNext d (waitV .fresh (st.w c.1) (simIter (st.t c.1) tok c.2).env).w (simIter (st.t c.1) tok c.2)),
            hist := upd st.hist c.1 (st.hist c.1 ++ [simIter (st.t c.1) tok c.2]) } := by
        simp [psimStep, hs]
      have := ih (psimStep d st c)
      simp only [psim]
      rw [this, hstep]
      by_cases hci : c.1 = i
      · subst hci
        simp only [upd_same, psimOwn, psimDelays, ↓reduceIte, simHist, List.append_assoc, List.singleton_append]
      · have hne : i ≠ c.1 := fun h => hci h.symm
        simp only [upd_other _ _ _ _ hne, psimOwn, psimDelays, hci, ↓reduceIte]

/-- nothing is cancelled in the closed world -/
theorem simHist_ctxDoneSlow (v : Variant) (d : Bool) (w : Waiter) (t : Int) (toks : List Int) (ps : List Delays) :
    ∀ it ∈ simHist v d w t toks ps, it.ctxDoneSlow = false := by
  induction toks generalizing w t ps with
  | nil => intro it h; simp [simHist, simLast] at h; subst h; rfl
  | cons tok toks ih =>
    cases ps with
    | nil => intro it h; simp [simHist] at h
    | cons p ps =>
      intro it h
      simp only [simHist, List.mem_cons] at h
      rcases h with h | h
      · subst h; rfl
      · exact ih _ _ _ it h

/-- an instance gets only tokens of the schedule -/
theorem psimOwn_subset (i : Nat) : ∀ (sched : List Int) (cs : List (Nat × Delays)), ∀ t ∈ psimOwn i sched cs, t ∈ sched := by
  intro sched
  induction sched with
  | nil => intro cs t h; simp [psimOwn] at h
  | cons tok rest ih =>
    intro cs t h
    cases cs with
    | nil => simp [psimOwn] at h
    | cons c cs =>
      simp only [psimOwn] at h
      by_cases hc : c.1 = i
      · simp only [hc, ↓reduceIte, List.mem_cons] at h
        rcases h with h | h
        · simp [h]
        · exact List.mem_cons_of_mem _ (ih cs t h)
      · simp only [hc, ↓reduceIte] at h
        exact List.mem_cons_of_mem _ (ih cs t h)

/-- the delays of an instance's passes are delays of the steps -/
theorem psimDelays_subset (i : Nat) : ∀ (sched : List Int) (cs : List (Nat × Delays)), ∀ p ∈ psimDelays i sched cs,
    ∃ c ∈ cs, c.1 = i ∧ c.2 = p := by
  intro sched
  induction sched with
  | nil => intro cs p h; simp [psimDelays] at h
  | cons tok rest ih =>
    intro cs p h
    cases cs with
    | nil => simp [psimDelays] at h
    | cons c cs =>
      simp only [psimDelays] at h
      by_cases hc : c.1 = i
      · simp only [hc, ↓reduceIte, List.mem_cons] at h
        rcases h with h | h
        · exact ⟨c, by simp, hc, h.symm⟩
        · obtain ⟨c', hc', h1, h2⟩ := ih cs p h
          exact ⟨c', List.mem_cons_of_mem _ hc', h1, h2⟩
      · simp only [hc, ↓reduceIte] at h
        obtain ⟨c', hc', h1, h2⟩ := ih cs p h
        exact ⟨c', List.mem_cons_of_mem _ hc', h1, h2⟩

/-- one delay record per token -/
theorem psimOwn_length (i : Nat) : ∀ (sched : List Int) (cs : List (Nat × Delays)),
    (psimOwn i sched cs).length = (psimDelays i sched cs).length := by
  intro sched
  induction sched with
  | nil => intro cs; simp [psimOwn, psimDelays]
  | cons tok rest ih =>
    intro cs
    cases cs with
    | nil => simp [psimOwn, psimDelays]
    | cons c cs =>
      simp only [psimOwn, psimDelays]
      by_cases hc : c.1 = i
      · simp [hc, ih cs]
      · simp [hc, ih cs]

/-- every token is handed to exactly one instance, in schedule order: the tokens handed out by the steps, grouped by nothing — the
schedule the world is left with is the schedule minus one token per step -/
theorem psim_sched (d : Bool) (cs : List (Nat × Delays)) : ∀ st : PSim, (psim d st cs).sched = st.sched.drop cs.length := by
  induction cs with
  | nil => intro st; simp [psim]
  | cons c cs ih =>
    intro st
    simp only [psim]
    rw [ih]
    cases hs : st.sched with
    | nil => simp [psimStep, hs]
    | cons tok rest => simp [psimStep, hs]

/-- the numbers of tokens the instances of a finite set get add up to the number of steps made on a non-empty schedule -/
theorem psimOwn_total (sched : List Int) (cs : List (Nat × Delays)) (i : Nat) :
    (psimOwn i sched cs).length = ((cs.take sched.length).filter (fun c => c.1 = i)).length := by
  induction sched generalizing cs with
  | nil => simp [psimOwn]
  | cons tok rest ih =>
    cases cs with
    | nil => simp [psimOwn]
    | cons c cs =>
      simp only [psimOwn, List.length_cons, List.take_succ_cons]
      by_cases hc : c.1 = i
      · simp [hc, ih cs]
      · simp [hc, ih cs]

end Pandora.Proofs.C04
