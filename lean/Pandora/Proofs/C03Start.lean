/-
C03 — proofs about `startInstances` (`Pandora.Model.C03Start`) and its connection with the pool's bookkeeping
(`Pandora.Model.C03Await`): for every sequence of answers of the startup schedule the goroutines launched are exactly one
per id `0 … started-1`; the bookkeeping counts one awaited instance per run result received and learns `started` from the
start result only.
-/
import Pandora.Model.C03Start
import Pandora.Proofs.C03Await

namespace Pandora.Proofs.C03Start
open Pandora.Model.C03Start

/-- what the loop of `startInstances` keeps: nothing has gone wrong and the goroutines launched are `0 … started-1` -/
structure Good (s : SSt) : Prop where
  notReturned : s.returned = false
  waiter : s.waiter = true
  ok : s.bad = false
  launched : s.launched = List.range s.started

theorem allowed_nil : allowed [] = 0 := rfl
theorem allowed_false (as : List Bool) : allowed (false :: as) = 0 := by simp [allowed]
theorem allowed_true (as : List Bool) : allowed (true :: as) = allowed as + 1 := by simp [allowed]

/-- one round of the loop body -/
theorem round_good (firstOk : Bool) (s : SSt) (h : Good s) :
    let s' := (execL firstOk startLoop [] s).1
    Good s' ∧ s'.started = s.started + 1 ∧ s'.err = s.err ∧ s'.first = s.first := by
  obtain ⟨hr, hw, hb, hl⟩ := h
  simp only [startLoop, execL, execI, hr, Bool.false_eq_true, if_false]
  refine ⟨⟨?_, ?_, ?_, ?_⟩, ?_, ?_, ?_⟩ <;> simp [hw, hb, hl, List.range_succ]

theorem loop_good (firstOk : Bool) : ∀ (as : List Bool) (s : SSt), Good s →
    let r := (execLoop firstOk startLoop as s).1
    Good r ∧ r.started = s.started + allowed as ∧ r.err = s.err ∧ r.first = s.first
  | [], s, h => by
    obtain ⟨hr, hw, hb, hl⟩ := h
    simp only [execLoop, allowed_nil, Nat.add_zero]
    refine ⟨⟨?_, ?_, ?_, ?_⟩, ?_, ?_, ?_⟩ <;> simp [hr, hw, hb, hl]
  | false :: as, s, h => by
    obtain ⟨hr, hw, hb, hl⟩ := h
    simp only [execLoop, allowed_false, Nat.add_zero]
    refine ⟨⟨?_, ?_, ?_, ?_⟩, ?_, ?_, ?_⟩ <;> simp [hr, hw, hb, hl]
  | true :: as, s, h => by
    have hround := round_good firstOk s h
    simp only at hround
    obtain ⟨hg, hs, he, hf⟩ := hround
    have hnc : startLoop.contains SInstr.waitOrReturnCtxErr = false := by decide
    simp only [execLoop, hnc, Bool.or_false]
    have hg' : Good { (execL firstOk startLoop [] s).1 with bad := (execL firstOk startLoop [] s).1.bad } := hg
    have ih := loop_good firstOk as _ hg'
    simp only at ih
    obtain ⟨ig, is, ie, iff⟩ := ih
    refine ⟨ig, ?_, ?_, ?_⟩
    · rw [is, hs, allowed_true]; omega
    · rw [ie, he]
    · rw [iff, hf]

/-- **`startInstances`, for every sequence of answers of `waiter.Wait(startCtx)` and both outcomes of the creation of
the first instance**: it returns; no statement is outside the model; the goroutines it has launched — each sends exactly
one run result — are one per id `0 … started-1`; `started` is the number of leading `true` answers (0 when the first
instance cannot be created) and the error is the start context's unless that creation failed -/
theorem starter_spec (answers : List Bool) (firstOk : Bool) :
    let o := starter answers firstOk
    o.bad = false ∧ o.returned = true ∧ o.launched = List.range o.started ∧
    o.started = (if firstOk then allowed answers else 0) ∧
    o.err = (if 0 < allowed answers ∧ firstOk = false then SErr.newInstance else SErr.ctx) := by
  match answers with
  | [] => simp [starter, execStart, startPre, execL, execI, nextAnswer, allowed]
  | false :: as => simp [starter, execStart, startPre, execL, execI, nextAnswer, allowed]
  | true :: as =>
    cases firstOk with
    | false => simp [starter, execStart, startPre, execL, execI, nextAnswer, allowed]
    | true =>
      have hg : Good { started := 1, waiter := true, first := true, launched := [0] } :=
        ⟨rfl, rfl, rfl, by decide⟩
      have hl := loop_good true as _ hg
      simp only at hl
      obtain ⟨⟨hr, hw, hb, hla⟩, hs, he, _⟩ := hl
      simp only [starter, execStart, startPre, execL, execI, nextAnswer, Bool.false_eq_true, if_false, if_true,
        List.nil_append, Bool.or_false, Bool.not_true, Nat.zero_add, startPost, hr, allowed_true]
      refine ⟨hb, trivial, hla, ?_, ?_⟩
      · rw [hs]; omega
      · simp

/-! ### the bookkeeping counts run results and learns `started` from the start result -/

open Pandora.Model.C03Await Pandora.Proofs.C03Await

theorem checkAll_awaited (s : ASt) : (checkAll s).awaited = s.awaited := by
  unfold checkAll; split <;> rfl

theorem checkAll_started (s : ASt) : (checkAll s).started = s.started := by
  unfold checkAll; split <;> rfl

theorem checkAll_startOpen (s : ASt) : (checkAll s).startOpen = s.startOpen := by
  unfold checkAll; split <;> rfl

/-- one awaited instance per run result received -/
theorem awaited_count : ∀ (rs : List Res) (s s' : ASt), arun s rs = some s' → s'.awaited = s.awaited + cnt .run rs
  | [], s, s', h => by simp only [arun, Option.some.injEq] at h; subst h; simp [cnt]
  | r :: rs, s, s', h => by
    simp only [arun] at h
    split at h
    · rename_i s1 hs1
      have ih := awaited_count rs s1 s' h
      rw [ih, cnt_cons]
      unfold astep at hs1
      split at hs1 <;> split at hs1 <;> (try cases hs1) <;> rename_i hc ho
      · simp [hc]
      · simp [hc]
      · simp [hc, checkAll_awaited]
      · simp only [hc, checkAll_awaited, if_true]
        split <;> simp <;> omega
    · cases h

/-- the number of started instances the bookkeeping works with is the one of the start result -/
theorem started_from_start_result (n : Nat) : ∀ (rs : List Res) (s s' : ASt), arun s rs = some s' →
    (∀ r ∈ rs, r.chan = .start → r.started = n) → (s.startOpen = false → s.started = (n : Int)) →
    s'.startOpen = false → s'.started = (n : Int)
  | [], s, s', h, _, hk, ho => by simp only [arun, Option.some.injEq] at h; subst h; exact hk ho
  | r :: rs, s, s', h, hn, hk, ho => by
    simp only [arun] at h
    split at h
    · rename_i s1 hs1
      refine started_from_start_result n rs s1 s' h (fun r' hr' => hn r' (List.mem_cons_of_mem _ hr')) ?_ ho
      unfold astep at hs1
      split at hs1 <;> split at hs1 <;> (try cases hs1) <;> rename_i hc hop
      · exact hk
      · exact hk
      · intro _
        rw [checkAll_started]
        have := hn r (List.mem_cons_self) hc
        simp [this]
      · rw [checkAll_startOpen, checkAll_started]
        split <;> exact hk
    · cases h

end Pandora.Proofs.C03Start

namespace Pandora.Proofs.C03Start
open Pandora.Model.C03Start

/-! ### `started++` and launching a goroutine commute -/

theorem execL_append (firstOk : Bool) : ∀ (l1 l2 : List SInstr) (as : List Bool) (s : SSt),
    execL firstOk (l1 ++ l2) as s = execL firstOk l2 (execL firstOk l1 as s).2 (execL firstOk l1 as s).1
  | [], _, _, _ => rfl
  | i :: l1, l2, as, s => by
    simp only [List.cons_append, execL]
    exact execL_append firstOk l1 l2 _ _

theorem inc_go_comm (firstOk : Bool) (g : SInstr) (hg : g = .goRunNew ∨ g = .goRunFirst) (as : List Bool) (s : SSt) :
    execL firstOk [.incStarted, g] as s = execL firstOk [g, .incStarted] as s := by
  rcases hg with rfl | rfl
  · cases hr : s.returned <;> cases hi : s.idVar <;> simp [execL, execI, hr, hi]
  · cases hr : s.returned <;> simp [execL, execI, hr]

/-- `n` pending `started++` may be done before or after a launch -/
theorem incs_go_comm (firstOk : Bool) (g : SInstr) (hg : g = .goRunNew ∨ g = .goRunFirst) :
    ∀ (n : Nat) (rest : List SInstr) (as : List Bool) (s : SSt),
    execL firstOk (List.replicate n .incStarted ++ g :: rest) as s =
      execL firstOk (g :: (List.replicate n .incStarted ++ rest)) as s
  | 0, _, _, _ => rfl
  | n + 1, rest, as, s => by
    calc execL firstOk (List.replicate (n + 1) SInstr.incStarted ++ g :: rest) as s
        = execL firstOk ([SInstr.incStarted] ++ (List.replicate n SInstr.incStarted ++ g :: rest)) as s := by
          simp [List.replicate_succ]
      _ = execL firstOk ([SInstr.incStarted] ++ (g :: (List.replicate n SInstr.incStarted ++ rest))) as s := by
          rw [execL_append firstOk [SInstr.incStarted] (List.replicate n SInstr.incStarted ++ g :: rest),
            execL_append firstOk [SInstr.incStarted] (g :: (List.replicate n SInstr.incStarted ++ rest)),
            incs_go_comm firstOk g hg n rest]
      _ = execL firstOk ([SInstr.incStarted, g] ++ (List.replicate n SInstr.incStarted ++ rest)) as s := by simp
      _ = execL firstOk ([g, SInstr.incStarted] ++ (List.replicate n SInstr.incStarted ++ rest)) as s := by
          rw [execL_append firstOk [SInstr.incStarted, g], execL_append firstOk [g, SInstr.incStarted], inc_go_comm firstOk g hg]
      _ = execL firstOk (g :: (List.replicate (n + 1) SInstr.incStarted ++ rest)) as s := by
          simp [List.replicate_succ]

theorem normAux_exec (firstOk : Bool) : ∀ (l : List SInstr) (n : Nat) (as : List Bool) (s : SSt),
    execL firstOk (normAux n l) as s = execL firstOk (List.replicate n .incStarted ++ l) as s
  | [], n, as, s => by simp [normAux]
  | i :: rest, n, as, s => by
    cases i with
    | incStarted =>
      simp only [normAux]
      rw [normAux_exec firstOk rest (n + 1)]
      congr 1
      simp [List.replicate_succ']
    | goRunNew =>
      simp only [normAux]
      rw [incs_go_comm firstOk .goRunNew (Or.inl rfl)]
      simp only [execL]
      exact normAux_exec firstOk rest n _ _
    | goRunFirst =>
      simp only [normAux]
      rw [incs_go_comm firstOk .goRunFirst (Or.inr rfl)]
      simp only [execL]
      exact normAux_exec firstOk rest n _ _
    | mkWaiter | waitOrReturnCtxErr | newFirstOrReturn | bindId | setErrCtx | ret | other _ =>
      simp only [normAux]
      rw [execL_append, execL_append]
      simp only [execL]
      rw [normAux_exec firstOk rest 0]
      simp

/-- executing the normalised list is executing the list -/
theorem norm_exec (firstOk : Bool) (l : List SInstr) (as : List Bool) (s : SSt) :
    execL firstOk (norm l) as s = execL firstOk l as s := by
  unfold norm
  rw [normAux_exec]
  simp

theorem norm_contains_wait : ∀ (l : List SInstr) (n : Nat),
    (normAux n l).contains .waitOrReturnCtxErr = l.contains .waitOrReturnCtxErr
  | [], n => by
    simp only [normAux, List.contains_nil]
    induction n with
    | zero => rfl
    | succ k ih => simp [List.replicate_succ]
  | i :: rest, n => by
    have hrep : ∀ k : Nat, ∀ t : List SInstr,
        (List.replicate k SInstr.incStarted ++ t).contains .waitOrReturnCtxErr = t.contains .waitOrReturnCtxErr := by
      intro k t
      induction k with
      | zero => rfl
      | succ k ih => simp only [List.replicate_succ, List.cons_append, List.contains_cons, ih]; simp
    cases i <;> simp only [normAux, List.contains_cons, hrep, norm_contains_wait rest] <;> simp

/-- … also as the body of the loop -/
theorem norm_loop (firstOk : Bool) (body : List SInstr) : ∀ (as : List Bool) (s : SSt),
    execLoop firstOk (norm body) as s = execLoop firstOk body as s
  | [], _ => rfl
  | false :: _, _ => rfl
  | true :: as, s => by
    simp only [execLoop]
    rw [norm_exec, show (norm body).contains SInstr.waitOrReturnCtxErr = body.contains .waitOrReturnCtxErr from
      norm_contains_wait body 0]
    exact norm_loop firstOk body as _

/-- the three lists may be normalised -/
theorem norm_start (pre loop post : List SInstr) (answers : List Bool) (firstOk : Bool) :
    execStart (norm pre) (norm loop) (norm post) answers firstOk = execStart pre loop post answers firstOk := by
  simp only [execStart, norm_exec, norm_loop]

end Pandora.Proofs.C03Start
