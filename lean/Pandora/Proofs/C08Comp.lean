/-
C08 (round 6) — helpers for the composition with C15's regenerated `config.SpreadNames` (gen area `c15scen`, imported
read-only): C08's `gcdList` is C15's, and the regenerated effective weight over a natural number.
-/
import Pandora.Model.C08Pick
import Pandora.Bridge.C15Scen

namespace Pandora.Proofs.C08
open Pandora.Model.C08

theorem gcdList_eq_c15 (l : List Nat) : gcdList l = Spec.C15.gcdList l := by
  induction l with
  | nil => rfl
  | cons a l ih => simp only [gcdList, List.foldr, Spec.C15.gcdList] at ih ⊢; rw [ih]

theorem effWeight_cast (w : Nat) : Gen.C15Scen.spreadEffWeight (w : Int) = (((if w = 0 then 1 else w : Nat)) : Int) := by
  unfold Gen.C15Scen.spreadEffWeight
  by_cases h : w = 0
  · subst h; rfl
  · have : ¬ ((w : Int) = 0) := by omega
    rw [if_neg this]
    simp [h]

end Pandora.Proofs.C08
