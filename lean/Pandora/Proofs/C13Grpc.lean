/-
C13, round 3 — lemmas about the pooled grpc/json provider (`Model/C13Grpc.lean`).
-/
import Pandora.Model.C13Grpc
import Pandora.Proofs.C13Ammo

namespace Pandora.Proofs.C13
open Pandora.Model.C13

/-! ### the pool is invisible: with `Reset` on both paths of `decodeAmmo` the object handed back does not depend on the
object taken from the pool -/

theorem gDecodeAmmo_fixed (parsed : Option GFields) (am : GObj) :
    gDecodeAmmo true parsed am =
      match parsed with
      | some f => (⟨f, 0, false⟩, false)
      | none => (⟨GFields.zero, 0, false⟩, true) := by
  cases parsed <;> simp [gDecodeAmmo, gReset]

/-- `gScan` is `gBody` iterated over the scanner's tokens -/
theorem gScan_step (fixed coe : Bool) (json : Bytes → Option GFields) (chosen : Bytes → Bool) (limit : Nat) (pool : Nat → GObj)
    (l : Bytes) (rest : List Bytes) (gets ammoNum : Nat) :
    gScan fixed coe json chosen limit pool (l :: rest) gets ammoNum =
      if l.length ≥ maxToken then ⟨[], .tooLong, gets, ammoNum⟩
      else if limit ≠ 0 ∧ ammoNum ≥ limit then ⟨[], .limit, gets, ammoNum⟩
      else match gBody fixed coe chosen (json (dropCR l)) (pool gets) ammoNum with
        | none => ⟨[], .decodeErr, gets + 1, ammoNum⟩
        | some (none, n') => gScan fixed coe json chosen limit pool rest (gets + 1) n'
        | some (some a, n') => (gScan fixed coe json chosen limit pool rest (gets + 1) n').cons a := by
  rw [gScan]
  split
  · rfl
  · split
    · rfl
    · unfold gBody
      cases hd : gDecodeAmmo fixed (json (dropCR l)) (pool gets) with
      | mk a err =>
        simp only
        cases err <;> cases coe <;> simp <;> split <;> simp_all

theorem gScan_pure (coe : Bool) (json : Bytes → Option GFields) (chosen : Bytes → Bool) (limit : Nat) (pool : Nat → GObj)
    (lines : List Bytes) : ∀ gets ammoNum,
    gScan true coe json chosen limit pool lines gets ammoNum = gScanPure coe json chosen limit lines gets ammoNum := by
  induction lines with
  | nil => intro g n; simp [gScan, gScanPure]
  | cons l rest ih =>
    intro g n
    rw [gScan, gScanPure]
    split
    · rfl
    · split
      · rfl
      · rw [gDecodeAmmo_fixed]
        cases hj : json (dropCR l) with
        | some f =>
          simp only [gLineObj, hj, Bool.false_and, Bool.false_eq_true, if_false]
          split
          · exact ih _ _
          · rw [ih]
        | none =>
          cases coe with
          | false => simp [gLineObj, hj]
          | true =>
            simp only [gLineObj, hj, Bool.not_true, Bool.and_false, Bool.false_eq_true, if_false, if_true, gInvalidate]
            split
            · exact ih _ _
            · rw [ih]

theorem gStart_pure (coe : Bool) (json : Bytes → Option GFields) (chosen : Bytes → Bool) (limit passes : Nat)
    (pool : Nat → GObj) (lines : List Bytes) : ∀ fuel passNum gets ammoNum,
    gStart true coe json chosen limit passes pool lines fuel passNum gets ammoNum =
      gStartPure coe json chosen limit passes lines fuel passNum gets ammoNum := by
  intro fuel
  induction fuel with
  | zero => intro pn g n; simp [gStart, gStartPure]
  | succ fuel ih =>
    intro pn g n
    rw [gStart, gStartPure]
    simp only [gScan_pure]
    split
    · rfl
    · split
      · rfl
      · rw [ih]

/-! ### what is delivered: every object sent to the sink is what its own line says -/

theorem gScanPure_mem (coe : Bool) (json : Bytes → Option GFields) (chosen : Bytes → Bool) (limit : Nat)
    (lines : List Bytes) : ∀ gets ammoNum o, o ∈ (gScanPure coe json chosen limit lines gets ammoNum).out →
      ∃ l ∈ lines, gLineObj coe json l = some o ∧ chosen o.f.tag = true := by
  induction lines with
  | nil => intro g n o h; simp [gScanPure] at h
  | cons l rest ih =>
    intro g n o h
    rw [gScanPure] at h
    split at h
    · simp at h
    · split at h
      · simp at h
      · split at h
        · simp at h
        · rename_i a ha
          split at h
          · obtain ⟨l', hl', h'⟩ := ih _ _ o h
            exact ⟨l', List.mem_cons_of_mem _ hl', h'⟩
          · rename_i hc
            simp only [GScan.cons, List.mem_cons] at h
            rcases h with h | h
            · subst h
              exact ⟨l, List.mem_cons_self, ha, by simpa using hc⟩
            · obtain ⟨l', hl', h'⟩ := ih _ _ o h
              exact ⟨l', List.mem_cons_of_mem _ hl', h'⟩

theorem GRunP.prepend_out (es : List GObj) (r : GRunP) : (r.prepend es).out = es ++ r.out := rfl
theorem GRunP.prepend_end (es : List GObj) (r : GRunP) : (r.prepend es).end_ = r.end_ := rfl

theorem gStartPure_mem (coe : Bool) (json : Bytes → Option GFields) (chosen : Bytes → Bool) (limit passes : Nat)
    (lines : List Bytes) : ∀ fuel passNum gets ammoNum o,
      o ∈ (gStartPure coe json chosen limit passes lines fuel passNum gets ammoNum).out →
      ∃ l ∈ lines, gLineObj coe json l = some o ∧ chosen o.f.tag = true := by
  intro fuel
  induction fuel with
  | zero => intro pn g n o h; simp [gStartPure] at h
  | succ fuel ih =>
    intro pn g n o h
    rw [gStartPure] at h
    split at h
    · exact gScanPure_mem coe json chosen limit lines _ _ o h
    · split at h
      · exact gScanPure_mem coe json chosen limit lines _ _ o h
      · rw [GRunP.prepend_out, List.mem_append] at h
        rcases h with h | h
        · exact gScanPure_mem coe json chosen limit lines _ _ o h
        · exact ih _ _ _ o h

/-! ### one pass without limit and without chosen cases is the line model of the earlier rounds (`grpcLines`) -/

def gView (o : GObj) : GEntry := if o.isInvalid then .invalid else .valid o.f.tag

def gEndOf : GScanEnd → End
  | .eof => .ok
  | .limit => .ok
  | .tooLong => .err "toolong"
  | .decodeErr => .err "other"

theorem gScanPure_grpcLines (coe : Bool) (json : Bytes → Option GFields) (lines : List Bytes) : ∀ gets ammoNum,
    let s := gScanPure coe json (fun _ => true) 0 lines gets ammoNum
    grpcLines coe (fun l => (json l).map (·.tag)) lines = ⟨s.out.map gView, gEndOf s.end_⟩ := by
  induction lines with
  | nil => intro g n; simp [gScanPure, grpcLines, gEndOf]
  | cons l rest ih =>
    intro g n
    simp only
    rw [gScanPure, grpcLines]
    split
    · simp [gEndOf]
    · simp only [ne_eq, not_true_eq_false, false_and, if_false]
      cases hj : json (dropCR l) with
      | some f =>
        have := ih (g + 1) (n + 1)
        simp only at this
        simp [gLineObj, hj, GScan.cons, GRun.cons, this, gView]
      | none =>
        cases coe with
        | false => simp [gLineObj, hj, gEndOf]
        | true =>
          have := ih (g + 1) (n + 1)
          simp only at this
          simp [gLineObj, hj, GScan.cons, GRun.cons, this, gView]

/-! ### termination of `Provider.start` -/

theorem gScanPure_mono (coe : Bool) (json : Bytes → Option GFields) (chosen : Bytes → Bool) (limit : Nat)
    (lines : List Bytes) : ∀ gets ammoNum, ammoNum ≤ (gScanPure coe json chosen limit lines gets ammoNum).ammoNum := by
  induction lines with
  | nil => intro g n; simp [gScanPure]
  | cons l rest ih =>
    intro g n
    rw [gScanPure]
    split
    · simp
    · split
      · simp
      · split
        · simp
        · split
          · exact ih _ _
          · have := ih (g + 1) (n + 1)
            simp only [GScan.cons]
            omega

/-- a pass that delivers something reaches a line it delivers -/
theorem gScanPure_delivers_reaches (coe : Bool) (json : Bytes → Option GFields) (chosen : Bytes → Bool) (limit : Nat)
    (lines : List Bytes) : ∀ gets ammoNum, ammoNum < (gScanPure coe json chosen limit lines gets ammoNum).ammoNum →
      gReaches coe json chosen lines = true := by
  induction lines with
  | nil => intro g n h; simp [gScanPure] at h
  | cons l rest ih =>
    intro g n h
    rw [gScanPure] at h
    rw [gReaches]
    split at h
    · simp at h
    · rename_i hl
      simp only [hl, if_false]
      split at h
      · simp at h
      · split at h
        · simp at h
        · rename_i a ha
          try simp only [ha]
          split at h
          · rename_i hc
            simp only [hc, if_true]
            exact ih _ _ h
          · rename_i hc
            simp [hc]

/-- a pass that reaches a line it delivers, started below the limit, delivers it -/
theorem gScanPure_reaches_delivers (coe : Bool) (json : Bytes → Option GFields) (chosen : Bytes → Bool) (limit : Nat)
    (lines : List Bytes) (hr : gReaches coe json chosen lines = true) : ∀ gets ammoNum, (limit = 0 ∨ ammoNum < limit) →
      ammoNum < (gScanPure coe json chosen limit lines gets ammoNum).ammoNum := by
  induction lines with
  | nil => simp [gReaches] at hr
  | cons l rest ih =>
    intro g n hn
    rw [gReaches] at hr
    rw [gScanPure]
    split at hr
    · simp at hr
    · rename_i hl
      simp only [hl, if_false]
      have hlim : ¬ (limit ≠ 0 ∧ n ≥ limit) := by omega
      simp only [hlim, if_false]
      split at hr
      · simp at hr
      · rename_i a ha
        try simp only [ha]
        split at hr
        · rename_i hc
          simp only [hc, if_true]
          exact ih hr _ _ hn
        · rename_i hc
          have := gScanPure_mono coe json chosen limit rest (g + 1) (n + 1)
          simp only [hc, GScan.cons, Bool.false_eq_true, if_false]
          omega

/-- with a pass limit: `passes - passNum` more passes are enough -/
theorem gStartPure_passes (coe : Bool) (json : Bytes → Option GFields) (chosen : Bytes → Bool) (limit passes : Nat)
    (lines : List Bytes) : ∀ fuel passNum gets ammoNum, passNum < passes → passes - passNum ≤ fuel →
      (gStartPure coe json chosen limit passes lines fuel passNum gets ammoNum).end_ ≠ .fuel := by
  intro fuel
  induction fuel with
  | zero => intro pn g n h1 h2; omega
  | succ fuel ih =>
    intro pn g n h1 h2
    rw [gStartPure]
    split
    · simp
    · split
      · rename_i en hpe
        unfold grpcPassEnd at hpe
        split at hpe
        · injection hpe with hpe; subst hpe; simp
        · split at hpe
          · injection hpe with hpe; subst hpe; simp
          · split at hpe
            · injection hpe with hpe; subst hpe; simp
            · split at hpe
              · injection hpe with hpe; subst hpe; simp
              · simp at hpe
      · rename_i hpe
        rw [GRunP.prepend_end]
        unfold grpcPassEnd at hpe
        split at hpe
        · simp at hpe
        · split at hpe
          · simp at hpe
          · rename_i hp
            split at hpe
            · simp at hpe
            · apply ih
              · omega
              · omega

/-- with an ammo limit, once a pass reaches a line it delivers: `limit - ammoNum` more passes are enough -/
theorem gStartPure_limit (coe : Bool) (json : Bytes → Option GFields) (chosen : Bytes → Bool) (limit passes : Nat)
    (lines : List Bytes) (hr : gReaches coe json chosen lines = true) : ∀ fuel passNum gets ammoNum,
      ammoNum < limit → limit - ammoNum ≤ fuel →
      (gStartPure coe json chosen limit passes lines fuel passNum gets ammoNum).end_ ≠ .fuel := by
  intro fuel
  induction fuel with
  | zero => intro pn g n h1 h2; omega
  | succ fuel ih =>
    intro pn g n h1 h2
    have hd := gScanPure_reaches_delivers coe json chosen limit lines hr g n (Or.inr h1)
    rw [gStartPure]
    split
    · simp
    · split
      · rename_i en hpe
        unfold grpcPassEnd at hpe
        split at hpe
        · injection hpe with hpe; subst hpe; simp
        · split at hpe
          · injection hpe with hpe; subst hpe; simp
          · split at hpe
            · injection hpe with hpe; subst hpe; simp
            · split at hpe
              · injection hpe with hpe; subst hpe; simp
              · simp at hpe
      · rename_i hpe
        rw [GRunP.prepend_end]
        unfold grpcPassEnd at hpe
        split at hpe
        · simp at hpe
        · rename_i hlim
          split at hpe
          · simp at hpe
          · apply ih
            · omega
            · omega

/-- `Provider.start` ends: with a pass limit after `passes` passes, with an ammo limit after at most `limit + 1` -/
theorem gStartPure_terminates (coe : Bool) (json : Bytes → Option GFields) (chosen : Bytes → Bool) (limit passes : Nat)
    (lines : List Bytes) (gets : Nat) (h : limit ≠ 0 ∨ passes ≠ 0) :
    (gStartPure coe json chosen limit passes lines (gFuel limit passes) 0 gets 0).end_ ≠ .fuel := by
  unfold gFuel
  by_cases hp : passes ≠ 0
  · rw [if_pos hp]
    exact gStartPure_passes coe json chosen limit passes lines passes 0 gets 0 (by omega) (by omega)
  · have hl : limit ≠ 0 := by omega
    have hp0 : passes = 0 := by omega
    rw [if_neg hp]
    by_cases hr : gReaches coe json chosen lines = true
    · exact gStartPure_limit coe json chosen limit passes lines hr (limit + 1) 0 gets 0 (by omega) (by omega)
    · -- the first pass delivers nothing: "no ammo in file"
      have h0 : (gScanPure coe json chosen limit lines gets 0).ammoNum = 0 := by
        by_cases hz : 0 < (gScanPure coe json chosen limit lines gets 0).ammoNum
        · exact absurd (gScanPure_delivers_reaches coe json chosen limit lines gets 0 hz) hr
        · omega
      rw [gStartPure]
      split
      · simp
      · split
        · rename_i en hpe
          unfold grpcPassEnd at hpe
          split at hpe
          · injection hpe with hpe; subst hpe; simp
          · split at hpe
            · injection hpe with hpe; subst hpe; simp
            · split at hpe
              · injection hpe with hpe; subst hpe; simp
              · split at hpe
                · injection hpe with hpe; subst hpe; simp
                · simp at hpe
        · rename_i hpe
          unfold grpcPassEnd at hpe
          simp [h0, hp0, hl] at hpe
          split at hpe <;> simp at hpe

/-- `Provider.start` returns: end of data, an error value, or (only if the bound on the passes was too small) `fuel` -/
theorem gStartPure_end (coe : Bool) (json : Bytes → Option GFields) (chosen : Bytes → Bool) (limit passes : Nat)
    (lines : List Bytes) : ∀ fuel passNum gets ammoNum,
    let e := (gStartPure coe json chosen limit passes lines fuel passNum gets ammoNum).end_
    e = .fuel ∨ e = .ok ∨ ∃ c, e = .err c := by
  intro fuel
  induction fuel with
  | zero => intro pn g n; simp [gStartPure]
  | succ fuel ih =>
    intro pn g n
    simp only
    rw [gStartPure]
    split
    · simp
    · split
      · rename_i en hpe
        unfold grpcPassEnd at hpe
        split at hpe
        · injection hpe with hpe; subst hpe; simp
        · split at hpe
          · injection hpe with hpe; subst hpe; simp
          · split at hpe
            · injection hpe with hpe; subst hpe; simp
            · split at hpe
              · injection hpe with hpe; subst hpe; simp
              · simp at hpe
      · rw [GRunP.prepend_end]
        exact ih _ _ _

end Pandora.Proofs.C13
