/-
C13 — lemmas about the byte-string primitives and the checked operations (core Lean only).
-/
import Pandora.Model.C13Base

namespace Pandora.Proofs.C13
open Pandora.Model.C13

/-! ### `cut` -/

theorem cut_length {s : Bytes} {c : UInt8} {l r : Bytes} (h : cut s c = some (l, r)) :
    s.length = l.length + 1 + r.length := by
  induction s generalizing l with
  | nil => simp [cut] at h
  | cons b rest ih =>
    unfold cut at h
    by_cases hb : (b == c) = true
    · simp [hb] at h; obtain ⟨rfl, rfl⟩ := h; simp; omega
    · simp [hb] at h
      cases hc : cut rest c with
      | none => simp [hc] at h
      | some p =>
        obtain ⟨l', r'⟩ := p
        simp [hc] at h
        obtain ⟨rfl, rfl⟩ := h
        have := ih hc
        simp; omega

theorem cut_rest_lt {s : Bytes} {c : UInt8} {l r : Bytes} (h : cut s c = some (l, r)) :
    r.length < s.length := by
  have := cut_length h; omega

/-- appending after the separator does not change where the first separator is -/
theorem cut_append {s : Bytes} {c : UInt8} {l r : Bytes} (h : cut s c = some (l, r)) (t : Bytes) :
    cut (s ++ t) c = some (l, r ++ t) := by
  induction s generalizing l with
  | nil => simp [cut] at h
  | cons b rest ih =>
    unfold cut at h
    simp only [List.cons_append]
    unfold cut
    by_cases hb : (b == c) = true
    · simp [hb] at h ⊢; obtain ⟨rfl, rfl⟩ := h; simp
    · simp [hb] at h ⊢
      cases hc : cut rest c with
      | none => simp [hc] at h
      | some p =>
        obtain ⟨l', r'⟩ := p
        simp [hc] at h
        obtain ⟨rfl, rfl⟩ := h
        simp [ih hc]

theorem cut_none_nil (c : UInt8) : cut [] c = none := by simp [cut]

/-! ### `indexByte` -/

theorem findIdx?_lt {α} (p : α → Bool) (s : List α) (i : Nat) (h : s.findIdx? p = some i) : i < s.length := by
  have := List.findIdx?_eq_some_iff_getElem.mp h
  exact this.1

theorem indexByte_bounds (s : Bytes) (c : UInt8) :
    indexByte s c = -1 ∨ (0 ≤ indexByte s c ∧ indexByte s c < (s.length : Int)) := by
  unfold indexByte
  cases h : s.findIdx? (· == c) with
  | none => left; rfl
  | some i =>
    right
    have := findIdx?_lt _ s i h
    simp; omega

theorem indexByte_get (s : Bytes) (c : UInt8) (h : indexByte s c ≠ -1) :
    ∃ i : Nat, indexByte s c = (i : Int) ∧ ∃ hi : i < s.length, s[i] = c := by
  unfold indexByte at h ⊢
  cases hf : s.findIdx? (· == c) with
  | none => simp [hf] at h
  | some i =>
    have := List.findIdx?_eq_some_iff_getElem.mp hf
    obtain ⟨hi, hp, _⟩ := this
    refine ⟨i, rfl, hi, ?_⟩
    simpa using hp

/-! ### checked operations -/

theorem sliceC_ok (s : Bytes) (lo hi : Int) (h : 0 ≤ lo ∧ lo ≤ hi ∧ hi ≤ s.length) :
    sliceC s lo hi = .ok ((s.take hi.toNat).drop lo.toNat) := by
  unfold sliceC; simp [h]

theorem sliceC_returns (s : Bytes) (lo hi : Int) (h : 0 ≤ lo ∧ lo ≤ hi ∧ hi ≤ s.length) :
    ∃ v, sliceC s lo hi = .ok v := ⟨_, sliceC_ok s lo hi h⟩

theorem indexC_ok {α} (s : List α) (i : Int) (h0 : 0 ≤ i) (h1 : i < s.length) :
    ∃ a, indexC s i = .ok a := by
  unfold indexC
  have : i.toNat < s.length := by omega
  simp [h0, List.getElem?_eq_getElem this]

theorem indexC_zero {α} (a : α) (s : List α) : indexC (a :: s) 0 = .ok a := by
  simp [indexC]

theorem indexC_one {α} (a b : α) (s : List α) : indexC (a :: b :: s) 1 = .ok b := by
  simp [indexC]

theorem indexC_not_fatal {α} (s : List α) (i : Int) : ∀ w, indexC s i ≠ .fatal w := by
  intro w; unfold indexC
  split
  · split <;> simp
  · simp

theorem tmodC_ok (a b : Int) (h : b ≠ 0) : tmodC a b = .ok (Int.tmod a b) := by
  simp [tmodC, h]

theorem intnC_ok (n : Int) (rnd : Nat) (h : 0 < n) : intnC n rnd = .ok (Int.ofNat rnd % n) := by
  unfold intnC; simp; omega

theorem split_ne_nil (s : Bytes) (c : UInt8) : split s c ≠ [] := by
  induction s with
  | nil => simp [split]
  | cons b rest ih =>
    unfold split
    by_cases hb : (b == c) = true
    · simp [hb]
    · simp [hb]
      cases h : split rest c with
      | nil => simp
      | cons hd tl => simp

theorem split_length_pos (s : Bytes) (c : UInt8) : 0 < (split s c).length := by
  have := split_ne_nil s c
  cases h : split s c with
  | nil => exact absurd h this
  | cons _ _ => simp

/-- splitting `a ++ c :: b`: the pieces of `a`, then the pieces of `b` -/
theorem split_append_sep (a b : Bytes) (c : UInt8) (init : List Bytes) (last : Bytes)
    (h : split a c = init ++ [last]) :
    split (a ++ c :: b) c = init ++ last :: split b c := by
  induction a generalizing init last with
  | nil =>
    simp [split] at h
    cases init with
    | nil => simp at h; subst h; simp [split]
    | cons i1 it => simp at h
  | cons x rest ih =>
    simp only [List.cons_append]
    by_cases hx : (x == c) = true
    · have e1 : split (x :: (rest ++ c :: b)) c = [] :: split (rest ++ c :: b) c := by
        rw [split]; simp [hx]
      have e2 : split (x :: rest) c = [] :: split rest c := by
        rw [split]; simp [hx]
      rw [e2] at h
      have hne := split_ne_nil rest c
      cases init with
      | nil =>
        simp at h
        exact absurd h.2 hne
      | cons i1 it =>
        simp at h
        obtain ⟨rfl, h2⟩ := h
        rw [e1, ih it last h2]
        simp
    · have hne := split_ne_nil rest c
      cases h1 : split rest c with
      | nil => exact absurd h1 hne
      | cons hd tl =>
        have e2 : split (x :: rest) c = (x :: hd) :: tl := by
          rw [split]; simp [hx, h1]
        rw [e2] at h
        cases init with
        | nil =>
          simp at h
          obtain ⟨rfl, rfl⟩ := h
          have := ih [] hd (by simpa using h1)
          have e1 : split (x :: (rest ++ c :: b)) c = (x :: hd) :: split b c := by
            rw [split]; simp [hx, this]
          simpa using e1
        | cons i1 it =>
          simp at h
          obtain ⟨rfl, h2⟩ := h
          have := ih (hd :: it) last (by simp [h1, h2])
          have e1 : split (x :: (rest ++ c :: b)) c = (x :: hd) :: (it ++ last :: split b c) := by
            rw [split]; simp [hx, this]
          simpa using e1

/-! ### terminated byte strings (every line ends with `\n`) -/

/-- the byte string is empty or ends with `\n`: every line in it is terminated -/
def Terminated (s : Bytes) : Prop := s = [] ∨ s.getLast? = some 10

theorem cut_eq_append {s : Bytes} {c : UInt8} {l r : Bytes} (h : cut s c = some (l, r)) : s = l ++ c :: r := by
  induction s generalizing l with
  | nil => simp [cut] at h
  | cons b rest ih =>
    unfold cut at h
    by_cases hb : (b == c) = true
    · simp [hb] at h; obtain ⟨rfl, rfl⟩ := h
      have : b = c := by simpa using hb
      simp [this]
    · simp [hb] at h
      cases hc : cut rest c with
      | none => simp [hc] at h
      | some p =>
        obtain ⟨l', r'⟩ := p
        simp [hc] at h
        obtain ⟨rfl, rfl⟩ := h
        simp [← ih hc]

theorem cut_some_of_mem {s : Bytes} {c : UInt8} (h : c ∈ s) : ∃ l r, cut s c = some (l, r) := by
  induction s with
  | nil => simp at h
  | cons b rest ih =>
    unfold cut
    by_cases hb : (b == c) = true
    · simp [hb]
    · simp only [hb]
      have hne : c ≠ b := by intro e; apply hb; simp [e]
      have : c ∈ rest := by
        rcases List.mem_cons.mp h with e | e
        · exact absurd e hne
        · exact e
      obtain ⟨l, r, hlr⟩ := ih this
      simp [hlr]

theorem getLast?_append_ne {α} (t r : List α) (hr : r ≠ []) : (t ++ r).getLast? = r.getLast? := by
  rw [List.getLast?_append]
  cases h : r.getLast? with
  | none => exact absurd (List.getLast?_eq_none_iff.mp h) hr
  | some a => rfl

theorem Terminated.of_suffix {s r : Bytes} (h : Terminated s) (hs : r <:+ s) : Terminated r := by
  by_cases hr : r = []
  · left; exact hr
  · right
    obtain ⟨t, rfl⟩ := hs
    rcases h with h | h
    · simp at h; exact absurd h.2 hr
    · rw [getLast?_append_ne _ _ hr] at h; exact h

theorem Terminated.cut {s : Bytes} (h : Terminated s) (hne : s ≠ []) :
    ∃ line rest, cut s 10 = some (line, rest) ∧ Terminated rest := by
  rcases h with h | h
  · exact absurd h hne
  · have hm : (10 : UInt8) ∈ s := List.mem_of_getLast? h
    obtain ⟨l, r, hlr⟩ := cut_some_of_mem hm
    refine ⟨l, r, hlr, Terminated.of_suffix (.inr h) ?_⟩
    have := cut_eq_append hlr
    exact ⟨l ++ [10], by simp [this]⟩

theorem Terminated.drop {s : Bytes} (h : Terminated s) (n : Nat) : Terminated (s.drop n) :=
  h.of_suffix (List.drop_suffix n s)

end Pandora.Proofs.C13
