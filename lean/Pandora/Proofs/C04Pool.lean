/-
C04 — helper lemmas for several instances on one shared schedule (`pstep`/`prun` of `Pandora.Model.C04`):
conservation of tokens, every handed-out token is acted on exactly once by the instance that drew it, and the
schedule is empty once an instance has left its loop in a run without cancellation.  Core Lean only.
-/
import Pandora.Proofs.C04

namespace Pandora.Proofs.C04
open Pandora.Go.C04 Pandora.Model.C04

/-! ### appending a pass to a history -/

/-- waiter state after the passes of `h` (meaningful when no pass of `h` ends the loop) -/
def finalW (v : Variant) (w : Waiter) (h : List Iter) : Waiter := h.foldl (fun w it => (waitV v w it.env).w) w

def Body (h : List Iter) : Prop := ∀ it ∈ h, it.finished = false ∧ it.ammoOk = true

theorem drawn_append (v : Variant) (w : Waiter) (h : List Iter) (x : Iter) (hb : Body h) :
    drawn v w (h ++ [x]) = drawn v w h ++ drawn v (finalW v w h) [x] := by
  induction h generalizing w with
  | nil => simp [finalW, drawn]
  | cons it rest ih =>
    have hit := hb it (by simp)
    have hrest : Body rest := fun y hy => hb y (by simp [hy])
    simp only [List.cons_append, finalW, List.foldl_cons]
    rw [drawn, drawn]
    simp only [hit.1, hit.2]
    by_cases hk : (waitV v w it.env).ok = true
    · simp [hk]; exact ih _ hrest
    · simp [hk]; exact ih _ hrest

theorem runLoop_append_events (v : Variant) (d : Bool) (w : Waiter) (h : List Iter) (x : Iter) (hb : Body h) :
    (runLoop v d w (h ++ [x])).1 = (runLoop v d w h).1 ++ (runLoop v d (finalW v w h) [x]).1 := by
  induction h generalizing w with
  | nil => show (runLoop v d w [x]).1 = [] ++ (runLoop v d w [x]).1; rfl
  | cons it rest ih =>
    have hit := hb it (by simp)
    have hrest : Body rest := fun y hy => hb y (by simp [hy])
    simp only [List.cons_append, finalW, List.foldl_cons]
    rw [runLoop, runLoop]
    simp only [hit.1, hit.2]
    by_cases hk : (waitV v w it.env).ok = true
    · simp [hk]; exact ih _ hrest
    · simp [hk]; exact ih _ hrest

/-- a pass with the context alive at entry, a token and a timer that is not interrupted: `Wait` returns true -/
theorem waitV_ok_of_token (v : Variant) (w : Waiter) (e : Env) (t : Int) (hc : e.ctxDone = false) (ht : e.tok = some t)
    (hw : e.timerWins = true) : (waitV v w e).ok = true := by
  unfold waitV
  simp only [hc, ht, hw]
  cases v <;> simp <;> (repeat' split) <;> rfl

theorem waitV_not_ok_of_no_token (v : Variant) (w : Waiter) (e : Env) (ht : e.tok = none) : (waitV v w e).ok = false := by
  unfold waitV
  by_cases hc : e.ctxDone = true <;> simp [hc, ht]

/-! ### a single appended pass -/

theorem drawn_single_exit (v : Variant) (w : Waiter) (x : Iter) (h : x.finished = true ∨ x.ammoOk = false) :
    drawn v w [x] = [] := by
  rcases h with h | h <;> simp [drawn, h]

theorem drawn_single_none (v : Variant) (w : Waiter) (x : Iter) (ht : x.env.tok = none) : drawn v w [x] = [] := by
  by_cases hf : x.finished = true
  · simp [drawn, hf]
  · by_cases ha : x.ammoOk = true <;> simp [drawn, hf, ha, waitV_not_ok_of_no_token v w x.env ht]

theorem drawn_single_token (v : Variant) (w : Waiter) (x : Iter) (t : Int) (hf : x.finished = false) (ha : x.ammoOk = true)
    (hc : x.env.ctxDone = false) (hw : x.env.timerWins = true) (ht : x.env.tok = some t) : drawn v w [x] = [x] := by
  simp [drawn, hf, ha, waitV_ok_of_token v w x.env t hc ht hw]

/-! ### invariants of the pool -/

@[simp] theorem record_sched (st : PState) (i : Nat) (ph : Phase) (x : Iter) : (st.record i ph x).sched = st.sched := rfl
@[simp] theorem record_out (st : PState) (i : Nat) (ph : Phase) (x : Iter) : (st.record i ph x).out = st.out := rfl
theorem record_phase_same (st : PState) (i : Nat) (ph : Phase) (x : Iter) : (st.record i ph x).phase i = ph := by
  simp [PState.record, upd]
theorem record_phase_other (st : PState) (i j : Nat) (ph : Phase) (x : Iter) (h : j ≠ i) :
    (st.record i ph x).phase j = st.phase j := by simp [PState.record, upd, h]
theorem record_hist_same (st : PState) (i : Nat) (ph : Phase) (x : Iter) : (st.record i ph x).hist i = st.hist i ++ [x] := by
  simp [PState.record, upd]
theorem record_hist_other (st : PState) (i j : Nat) (ph : Phase) (x : Iter) (h : j ≠ i) :
    (st.record i ph x).hist j = st.hist j := by simp [PState.record, upd, h]

/-- no token is invented, lost or handed out twice: handed-out tokens followed by the remaining ones are the schedule
(every interleaving, cancellation included) -/
theorem pstep_cons (st : PState) (s : PStep) :
    (pstep st s).out.map Prod.snd ++ (pstep st s).sched = st.out.map Prod.snd ++ st.sched := by
  unfold pstep
  cases st.phase s.inst with
  | exited => rfl
  | head => simp only []; (repeat' split) <;> rfl
  | waiting =>
    simp only []
    split
    · rfl
    · cases hs : st.sched with
      | nil => simp [hs]
      | cons t rest => simp

theorem prun_cons (st : PState) (steps : List PStep) :
    (prun st steps).out.map Prod.snd ++ (prun st steps).sched = st.out.map Prod.snd ++ st.sched := by
  induction steps generalizing st with
  | nil => rfl
  | cons s rest ih => simp only [prun, List.foldl_cons] at ih ⊢; rw [ih, pstep_cons]

/-- the schedule only shrinks -/
theorem pstep_sched_nil (st : PState) (s : PStep) (h : st.sched = []) : (pstep st s).sched = [] := by
  unfold pstep
  cases st.phase s.inst with
  | exited => exact h
  | head => simp only []; (repeat' split) <;> simpa using h
  | waiting => simp only [h]; split <;> simpa using h

/-- a step of a run without cancellation and with ammo available -/
def Calm (s : PStep) : Prop :=
  s.ctxDoneHead = false ∧ s.it.ammoOk = true ∧ s.it.env.ctxDone = false ∧ s.it.env.timerWins = true

instance (s : PStep) : Decidable (Calm s) := by unfold Calm; exact inferInstance

/-- the tokens handed to instance `i`, in order -/
def ownToks (st : PState) (i : Nat) : List Int := (st.out.filter (fun p => p.1 == i)).map Prod.snd

structure PInv (v : Variant) (st : PState) : Prop where
  body : ∀ i, st.phase i ≠ .exited → Body (st.hist i)
  drawnEq : ∀ i, (drawn v Waiter.init (st.hist i)).map Iter.tok = ownToks st i
  drained : ∀ i, st.phase i = .exited → st.sched = []

theorem PInv.init (v : Variant) (toks : List Int) : PInv v (PState.init toks) :=
  ⟨fun _ _ it hit => by simp [PState.init] at hit, fun _ => by simp [PState.init, drawn, ownToks],
   fun _ h => by simp [PState.init] at h⟩

theorem Body.snoc {h : List Iter} {x : Iter} (hb : Body h) (hx : x.finished = false ∧ x.ammoOk = true) : Body (h ++ [x]) := by
  intro it hit
  simp at hit
  rcases hit with hit | rfl
  · exact hb it hit
  · exact hx

/-- recording a pass for instance `k` that draws no token keeps the invariant's first two parts -/
theorem record_inv_no_token (v : Variant) (st : PState) (k : Nat) (ph : Phase) (x : Iter) (hi : PInv v st)
    (hk : st.phase k ≠ .exited) (hx : drawn v (finalW v Waiter.init (st.hist k)) [x] = [])
    (hbx : ph ≠ .exited → x.finished = false ∧ x.ammoOk = true) :
    (∀ i, (st.record k ph x).phase i ≠ .exited → Body ((st.record k ph x).hist i)) ∧
    (∀ i, (drawn v Waiter.init ((st.record k ph x).hist i)).map Iter.tok = ownToks (st.record k ph x) i) := by
  have hbody := hi.body k hk
  refine ⟨fun i hne => ?_, fun i => ?_⟩
  · by_cases hie : i = k
    · subst hie
      rw [record_phase_same] at hne
      rw [record_hist_same]
      exact hbody.snoc (hbx hne)
    · rw [record_phase_other _ _ _ _ _ hie] at hne
      rw [record_hist_other _ _ _ _ _ hie]
      exact hi.body i hne
  · by_cases hie : i = k
    · subst hie
      rw [record_hist_same, drawn_append v _ _ _ hbody, hx]
      simpa [ownToks] using hi.drawnEq i
    · rw [record_hist_other _ _ _ _ _ hie]
      simpa [ownToks] using hi.drawnEq i

theorem pstep_inv (v : Variant) (st : PState) (s : PStep) (hi : PInv v st) (hs : Calm s) : PInv v (pstep st s) := by
  obtain ⟨hch, hammo, hctx, htw⟩ := hs
  unfold pstep
  cases hph : st.phase s.inst with
  | exited => simpa using hi
  | head =>
    have hk : st.phase s.inst ≠ .exited := by simp [hph]
    simp only []
    by_cases hfin : isFinished s.ctxDoneHead st.sched.length = true
    · -- the loop of this instance ends: Left() == 0
      have hnil : st.sched = [] := by
        simp only [isFinished, hch] at hfin
        simpa using hfin
      simp only [hfin, if_true]
      obtain ⟨h1, h2⟩ := record_inv_no_token v st s.inst .exited (exitPass s.it true) hi hk
        (drawn_single_exit v _ _ (Or.inl rfl)) (fun h => absurd rfl h)
      exact ⟨h1, h2, fun _ _ => by simpa using hnil⟩
    · simp only [hfin, hammo, Bool.false_eq_true, ↓reduceIte, Bool.not_true]
      refine ⟨fun i hne => ?_, fun i => hi.drawnEq i, fun i he => ?_⟩ <;> dsimp only at *
      · by_cases hie : i = s.inst
        · subst hie; exact hi.body _ hk
        · simp only [upd, hie, ↓reduceIte] at hne; exact hi.body i hne
      · by_cases hie : i = s.inst
        · subst hie; simp [upd] at he
        · simp only [upd, hie, ↓reduceIte] at he; exact hi.drained i he
  | waiting =>
    have hk : st.phase s.inst ≠ .exited := by simp [hph]
    simp only [hctx, Bool.false_eq_true, ↓reduceIte]
    cases hsched : st.sched with
    | nil =>
      simp only []
      obtain ⟨h1, h2⟩ := record_inv_no_token v st s.inst .head (passOf s.it none) hi hk
        (drawn_single_none v _ _ rfl) (fun _ => ⟨rfl, rfl⟩)
      exact ⟨h1, h2, fun _ _ => by simpa using hsched⟩
    | cons t rest =>
      simp only []
      have hbody := hi.body s.inst hk
      refine ⟨fun i hne => ?_, fun i => ?_, fun i he => ?_⟩
      · by_cases hie : i = s.inst
        · subst hie; rw [record_hist_same]; exact hbody.snoc ⟨rfl, rfl⟩
        · rw [record_phase_other _ _ _ _ _ hie] at hne
          rw [record_hist_other _ _ _ _ _ hie]
          exact hi.body i hne
      · by_cases hie : i = s.inst
        · subst hie
          rw [record_hist_same]
          dsimp only
          rw [drawn_append v _ _ _ hbody,
            drawn_single_token v _ (passOf s.it (some t)) t rfl rfl hctx htw rfl]
          have := hi.drawnEq s.inst
          simp only [ownToks, record_out, List.map_append, List.filter_append] at this ⊢
          rw [this]
          simp [Iter.tok, passOf]
        · rw [record_hist_other _ _ _ _ _ hie]
          have := hi.drawnEq i
          simp only [ownToks, record_out, List.filter_append, List.map_append] at this ⊢
          rw [this]
          have hne : (s.inst == i) = false := by simp; exact fun h => hie h.symm
          simp [hne]
      · -- an instance that has left its loop saw an empty schedule; this step found a token: impossible
        by_cases hie : i = s.inst
        · subst hie; rw [record_phase_same] at he; cases he
        · rw [record_phase_other _ _ _ _ _ hie] at he
          have := hi.drained i he
          simp [hsched] at this

theorem prun_inv (v : Variant) (st : PState) (steps : List PStep) (hi : PInv v st) (hs : ∀ s ∈ steps, Calm s) :
    PInv v (prun st steps) := by
  induction steps generalizing st with
  | nil => exact hi
  | cons s rest ih =>
    simp only [prun, List.foldl_cons]
    exact ih _ (pstep_inv v st s hi (hs s (by simp))) (fun x hx => hs x (by simp [hx]))

end Pandora.Proofs.C04
