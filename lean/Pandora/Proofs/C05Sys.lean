/-
C05 — invariants of the goroutine system of `Engine.Run` (`Pandora.Model.C05.Sys`) and the case analyses of
`cli.awaitPandoraTermination` (`Pandora.Model.C05.Cli`).
-/
import Pandora.Model.C05Cli

namespace Pandora.Proofs.C05.Sys
open Pandora.Model.C05 Pandora.Model.C05.Sys

/-! ### list facts -/

theorem countP_set_gain {α : Type} (p : α → Bool) (y : α) (hy : p y = true) :
    ∀ (l : List α) (i : Nat) (x : α), l[i]? = some x → p x = false → (l.set i y).countP p = l.countP p + 1 := by
  intro l
  induction l with
  | nil => intro i x h; simp at h
  | cons a l ih =>
    intro i x h hx
    cases i with
    | zero =>
      simp only [List.getElem?_cons_zero, Option.some.injEq] at h
      subst h
      simp [List.set, hy, hx]
    | succ i =>
      simp only [List.getElem?_cons_succ] at h
      simp only [List.set, List.countP_cons, ih i x h hx]
      omega

theorem countP_set_same {α : Type} (p : α → Bool) (y : α) :
    ∀ (l : List α) (i : Nat) (x : α), l[i]? = some x → p x = p y → (l.set i y).countP p = l.countP p := by
  intro l
  induction l with
  | nil => intro i x h; simp at h
  | cons a l ih =>
    intro i x h hx
    cases i with
    | zero =>
      simp only [List.getElem?_cons_zero, Option.some.injEq] at h
      subst h
      simp [List.set, List.countP_cons, hx]
    | succ i =>
      simp only [List.getElem?_cons_succ] at h
      simp only [List.set, List.countP_cons, ih i x h hx]

theorem all_of_countP_eq_length {α : Type} (p : α → Bool) :
    ∀ l : List α, l.countP p = l.length → ∀ x ∈ l, p x = true := by
  intro l
  induction l with
  | nil => intro _ x hx; cases hx
  | cons a l ih =>
    intro h x hx
    have hle : l.countP p ≤ l.length := List.countP_le_length
    by_cases ha : p a = true
    · simp only [List.countP_cons, ha, if_true, List.length_cons] at h
      rcases List.mem_cons.1 hx with rfl | hx
      · exact ha
      · exact ih (by omega) x hx
    · simp only [List.countP_cons, ha, List.length_cons] at h
      simp at h
      omega

theorem mem_set_cases {α : Type} (l : List α) (i : Nat) (y x : α) (h : x ∈ l.set i y) : x = y ∨ x ∈ l := by
  rcases List.mem_or_eq_of_mem_set h with h | h
  · exact Or.inr h
  · exact Or.inl h

/-! ### the invariant -/

structure Inv (n : Nat) (s : EState) : Prop where
  len : s.pools.length = n
  awaited : s.awaited = s.pools.countP PoolG.isTaken
  chanSome : ∀ (i : Nat) (r : PRes), s.chan = some (i, r) → s.pools[i]? = some (PoolG.sent r)
  chanUniq : ∀ (i : Nat) (r : PRes) (j : Nat) (r' : PRes), s.chan = some (i, r) → s.pools[j]? = some (PoolG.sent r') → j = i
  chanNone : s.chan = none → ∀ (j : Nat) (r' : PRes), s.pools[j]? ≠ some (PoolG.sent r')
  okTaken : (s.result = none ∨ s.result = some ERes.ok) → ∀ (j : Nat) (r : PRes), s.pools[j]? = some (PoolG.taken r) → r = PRes.ok
  running : s.result = none → s.awaited < n
  resOk : s.result = some ERes.ok → s.awaited = n
  ctxNone : s.result = none → s.ctxDone = s.extC
  ctxSome : s.result.isSome = true → s.ctxDone = true
  retCtx : s.result = some ERes.ctx → s.extAtReturn = true
  retFail : ∀ (i : Nat) (r : PRes), s.result = some (ERes.fail i r) → s.pools[i]? = some (PoolG.taken r) ∧ r ≠ PRes.ok ∧ s.extAtReturn = false
  extMono : s.extAtReturn = true → s.extC = true

theorem getElem?_replicate_running (n j : Nat) (x : PoolG) (h : (List.replicate n PoolG.running)[j]? = some x) :
    x = PoolG.running := by
  rw [List.getElem?_replicate] at h
  split at h
  · simp only [Option.some.injEq] at h; exact h.symm
  · cases h

theorem inv_init (n : Nat) : Inv n (einit n) := by
  unfold einit
  by_cases hn : n = 0
  · subst hn
    constructor <;> simp [ret]
  · simp only [hn, if_false]
    have hc : (List.replicate n PoolG.running).countP PoolG.isTaken = 0 := by
      rw [List.countP_eq_zero]
      intro x hx
      rw [List.eq_of_mem_replicate hx]
      simp [PoolG.isTaken]
    refine ⟨by simp, by simp [hc], ?_, ?_, ?_, ?_, ?_, ?_, ?_, ?_, ?_, ?_, ?_⟩
    · intro i r h; cases h
    · intro i r j r' h; cases h
    · intro _ j r' h
      have := getElem?_replicate_running n j _ h
      cases this
    · intro _ j r h
      have := getElem?_replicate_running n j _ h
      cases this
    · intro _; show 0 < n; omega
    · intro h; cases h
    · intro _; first | rfl | trivial
    · intro h; cases h
    · intro h; cases h
    · intro i r h; cases h
    · intro h; cases h

theorem getElem?_set_cases {α : Type} (l : List α) (i j : Nat) (y x : α) (h : (l.set i y)[j]? = some x) :
    (j = i ∧ x = y) ∨ (j ≠ i ∧ l[j]? = some x) := by
  rw [List.getElem?_set] at h
  by_cases hji : i = j
  · subst hji
    left
    simp only [if_true] at h
    split at h
    · simp only [Option.some.injEq] at h; exact ⟨rfl, h.symm⟩
    · cases h
  · right
    simp only [hji, if_false] at h
    exact ⟨fun e => hji e.symm, h⟩

theorem getElem?_set_self_lt {α : Type} (l : List α) (i : Nat) (y : α) (h : i < l.length) : (l.set i y)[i]? = some y := by
  rw [List.getElem?_set]; simp [h]

theorem inv_step (cfg : EngCfg) (n : Nat) (s : EState) (c : EChoice) (h : Inv n s) : Inv n (estep cfg s c) := by
  cases c with
  | extCancel =>
    simp only [estep]
    constructor
    · exact h.len
    · exact h.awaited
    · exact h.chanSome
    · exact h.chanUniq
    · exact h.chanNone
    · exact h.okTaken
    · exact h.running
    · exact h.resOk
    · intro _; first | rfl | trivial
    · intro _; first | rfl | trivial
    · exact h.retCtx
    · exact h.retFail
    · intro _; first | rfl | trivial
  | poolRet i r =>
    simp only [estep]
    split
    · rename_i hp
      constructor
      · simp [h.len]
      · simp only []
        rw [countP_set_same PoolG.isTaken (.done r) s.pools i .running hp (by simp [PoolG.isTaken])]
        exact h.awaited
      · intro i' r' hc
        have := h.chanSome i' r' hc
        have hne : i' ≠ i := by intro he; subst he; rw [hp] at this; cases this
        simp only []
        rw [List.getElem?_set_ne (Ne.symm hne)]
        exact this
      · intro i' r' j r'' hc hj
        rcases getElem?_set_cases _ _ _ _ _ hj with ⟨_, he⟩ | ⟨_, hj'⟩
        · cases he
        · exact h.chanUniq i' r' j r'' hc hj'
      · intro hc j r' hj
        rcases getElem?_set_cases _ _ _ _ _ hj with ⟨_, he⟩ | ⟨_, hj'⟩
        · cases he
        · exact h.chanNone hc j r' hj'
      · intro hr j r' hj
        rcases getElem?_set_cases _ _ _ _ _ hj with ⟨_, he⟩ | ⟨_, hj'⟩
        · cases he
        · exact h.okTaken hr j r' hj'
      · exact h.running
      · exact h.resOk
      · exact h.ctxNone
      · exact h.ctxSome
      · exact h.retCtx
      · intro i' r' hr
        obtain ⟨h1, h2, h3⟩ := h.retFail i' r' hr
        have hne : i' ≠ i := by intro he; subst he; rw [hp] at h1; cases h1
        refine ⟨?_, h2, h3⟩
        simp only []
        rw [List.getElem?_set_ne (Ne.symm hne)]
        exact h1
      · exact h.extMono
    · exact h
  | send i =>
    simp only [estep]
    split
    · rename_i r hp hc
      constructor
      · simp [h.len]
      · simp only []
        rw [countP_set_same PoolG.isTaken (.sent r) s.pools i (.done r) hp (by simp [PoolG.isTaken])]
        exact h.awaited
      · intro i' r' hc'
        simp only [Option.some.injEq, Prod.mk.injEq] at hc'
        obtain ⟨rfl, rfl⟩ := hc'
        simp only []
        have : i < s.pools.length := by
          rcases Nat.lt_or_ge i s.pools.length with hl | hl
          · exact hl
          · rw [List.getElem?_eq_none hl] at hp; cases hp
        exact getElem?_set_self_lt _ _ _ this
      · intro i' r' j r'' hc' hj
        simp only [Option.some.injEq, Prod.mk.injEq] at hc'
        obtain ⟨rfl, rfl⟩ := hc'
        rcases getElem?_set_cases _ _ _ _ _ hj with ⟨hji, _⟩ | ⟨_, hj'⟩
        · exact hji
        · exact absurd hj' (h.chanNone hc j r'')
      · intro hc'; cases hc'
      · intro hr j r' hj
        rcases getElem?_set_cases _ _ _ _ _ hj with ⟨_, he⟩ | ⟨_, hj'⟩
        · cases he
        · exact h.okTaken hr j r' hj'
      · exact h.running
      · exact h.resOk
      · exact h.ctxNone
      · exact h.ctxSome
      · exact h.retCtx
      · intro i' r' hr
        obtain ⟨h1, h2, h3⟩ := h.retFail i' r' hr
        have hne : i' ≠ i := by intro he; subst he; rw [hp] at h1; cases h1
        refine ⟨?_, h2, h3⟩
        simp only []
        rw [List.getElem?_set_ne (Ne.symm hne)]
        exact h1
      · exact h.extMono
    · exact h
  | suppress i =>
    simp only [estep]
    split
    · rename_i r hp
      split
      · constructor
        · simp [h.len]
        · simp only []
          rw [countP_set_same PoolG.isTaken (.suppressed r) s.pools i (.done r) hp (by simp [PoolG.isTaken])]
          exact h.awaited
        · intro i' r' hc
          have := h.chanSome i' r' hc
          have hne : i' ≠ i := by intro he; subst he; rw [hp] at this; cases this
          simp only []
          rw [List.getElem?_set_ne (Ne.symm hne)]
          exact this
        · intro i' r' j r'' hc hj
          rcases getElem?_set_cases _ _ _ _ _ hj with ⟨_, he⟩ | ⟨_, hj'⟩
          · cases he
          · exact h.chanUniq i' r' j r'' hc hj'
        · intro hc j r' hj
          rcases getElem?_set_cases _ _ _ _ _ hj with ⟨_, he⟩ | ⟨_, hj'⟩
          · cases he
          · exact h.chanNone hc j r' hj'
        · intro hr j r' hj
          rcases getElem?_set_cases _ _ _ _ _ hj with ⟨_, he⟩ | ⟨_, hj'⟩
          · cases he
          · exact h.okTaken hr j r' hj'
        · exact h.running
        · exact h.resOk
        · exact h.ctxNone
        · exact h.ctxSome
        · exact h.retCtx
        · intro i' r' hr
          obtain ⟨h1, h2, h3⟩ := h.retFail i' r' hr
          have hne : i' ≠ i := by intro he; subst he; rw [hp] at h1; cases h1
          refine ⟨?_, h2, h3⟩
          simp only []
          rw [List.getElem?_set_ne (Ne.symm hne)]
          exact h1
        · exact h.extMono
      · exact h
    · exact h
  | recv =>
    simp only [estep]
    split
    · rename_i i r hres hc
      have hsent := h.chanSome i r hc
      have hcnt : (s.pools.set i (.taken r)).countP PoolG.isTaken = s.pools.countP PoolG.isTaken + 1 :=
        countP_set_gain PoolG.isTaken (PoolG.taken r) (by simp [PoolG.isTaken]) s.pools i (PoolG.sent r) hsent (by simp [PoolG.isTaken])
      have hi : i < s.pools.length := by
        rcases Nat.lt_or_ge i s.pools.length with hl | hl
        · exact hl
        · rw [List.getElem?_eq_none hl] at hsent; cases hsent
      -- facts about the pools after the read, shared by the three continuations
      have hNoSent : ∀ (j : Nat) (r' : PRes), (s.pools.set i (PoolG.taken r))[j]? ≠ some (PoolG.sent r') := by
        intro j r' hj
        rcases getElem?_set_cases _ _ _ _ _ hj with ⟨_, he⟩ | ⟨hne, hj'⟩
        · cases he
        · exact hne (h.chanUniq i r j r' hc hj')
      have hSelf : (s.pools.set i (PoolG.taken r))[i]? = some (PoolG.taken r) := getElem?_set_self_lt _ _ _ hi
      by_cases hr : r = .ok
      · subst hr
        simp only [if_true]
        have hTaken : ∀ (j : Nat) (r' : PRes), (s.pools.set i (PoolG.taken PRes.ok))[j]? = some (PoolG.taken r') → r' = PRes.ok := by
          intro j r' hj
          rcases getElem?_set_cases _ _ _ _ _ hj with ⟨_, he⟩ | ⟨_, hj'⟩
          · cases he; rfl
          · exact h.okTaken (Or.inl hres) j r' hj'
        split
        · rename_i hfull
          simp only [List.length_set] at hfull
          constructor <;> simp only [ret]
          · simp [h.len]
          · rw [hcnt, h.awaited]
          · intro i' r' hc'; cases hc'
          · intro i' r' j r'' hc'; cases hc'
          · intro _ j r'; exact hNoSent j r'
          · intro _ j r' hj; exact hTaken j r' hj
          · intro hc'; cases hc'
          · intro _; rw [← h.len]; exact hfull
          · intro hc'; cases hc'
          · intro _; first | rfl | trivial
          · intro hc'; cases hc'
          · intro i' r' hc'; cases hc'
          · intro hx; exact h.ctxNone hres ▸ (by
              have := h.ctxNone hres
              simp_all)
        · rename_i hfull
          simp only [List.length_set] at hfull
          have hlt := h.running hres
          constructor <;> simp only []
          · simp [h.len]
          · rw [hcnt, h.awaited]
          · intro i' r' hc'; cases hc'
          · intro i' r' j r'' hc'; cases hc'
          · intro _ j r'; exact hNoSent j r'
          · intro _ j r' hj; exact hTaken j r' hj
          · intro _
            have := h.len
            omega
          · intro hc'; rw [hres] at hc'; cases hc'
          · exact h.ctxNone
          · intro hc'; rw [hres] at hc'; cases hc'
          · intro hc'; rw [hres] at hc'; cases hc'
          · intro i' r' hc'; rw [hres] at hc'; cases hc'
          · exact h.extMono
      · simp only [hr, if_false]
        split
        · rename_i hctx
          have hext : s.extC = true := by rw [← h.ctxNone hres]; exact hctx
          constructor <;> simp only [ret]
          · simp [h.len]
          · rw [hcnt, h.awaited]
          · intro i' r' hc'; cases hc'
          · intro i' r' j r'' hc'; cases hc'
          · intro _ j r'; exact hNoSent j r'
          · intro hc'; rcases hc' with hc' | hc' <;> cases hc'
          · intro hc'; cases hc'
          · intro hc'; cases hc'
          · intro hc'; cases hc'
          · intro _; first | rfl | trivial
          · intro _; exact hext
          · intro i' r' hc'; cases hc'
          · intro _; exact hext
        · rename_i hctx
          have hext : s.extC = false := by
            rw [← h.ctxNone hres]
            simpa using hctx
          constructor <;> simp only [ret]
          · simp [h.len]
          · rw [hcnt, h.awaited]
          · intro i' r' hc'; cases hc'
          · intro i' r' j r'' hc'; cases hc'
          · intro _ j r'; exact hNoSent j r'
          · intro hc'; rcases hc' with hc' | hc' <;> cases hc'
          · intro hc'; cases hc'
          · intro hc'; cases hc'
          · intro hc'; cases hc'
          · intro _; first | rfl | trivial
          · intro hc'; cases hc'
          · intro i' r' hc'
            simp only [Option.some.injEq, ERes.fail.injEq] at hc'
            obtain ⟨rfl, rfl⟩ := hc'
            exact ⟨hSelf, hr, hext⟩
          · intro hx; rw [hext] at hx; cases hx
    · exact h
  | mainCtx =>
    simp only [estep]
    split
    · rename_i hres
      split
      · rename_i hctx
        have hext : s.extC = true := by rw [← h.ctxNone hres]; exact hctx.2
        constructor <;> simp only [ret]
        · exact h.len
        · exact h.awaited
        · exact h.chanSome
        · exact h.chanUniq
        · exact h.chanNone
        · intro hc'; rcases hc' with hc' | hc' <;> cases hc'
        · intro hc'; cases hc'
        · intro hc'; cases hc'
        · intro hc'; cases hc'
        · intro _; first | rfl | trivial
        · intro _; exact hext
        · intro i' r' hc'; cases hc'
        · intro _; exact hext
      · exact h
    · exact h

theorem run_inv (cfg : EngCfg) (n : Nat) (cs : List EChoice) : Inv n (erun cfg n cs) := by
  unfold erun
  have : ∀ (cs : List EChoice) (s : EState), Inv n s → Inv n (cs.foldl (estep cfg) s) := by
    intro cs
    induction cs with
    | nil => intro s h; exact h
    | cons c cs ih => intro s h; exact ih _ (inv_step cfg n s c h)
  exact this cs _ (inv_init n)

/-! ### consequences -/

/-- a nil result of `Engine.Run`: every pool goroutine has delivered a nil result and has ended -/
theorem ok_all (cfg : EngCfg) (n : Nat) (cs : List EChoice) (h : (erun cfg n cs).result = some ERes.ok) :
    ∀ p ∈ (erun cfg n cs).pools, p = PoolG.taken PRes.ok := by
  have hi := run_inv cfg n cs
  have hall := all_of_countP_eq_length PoolG.isTaken (erun cfg n cs).pools (by
    rw [← hi.awaited, hi.resOk h, hi.len])
  intro p hp
  have ht := hall p hp
  obtain ⟨j, hj⟩ := List.getElem?_of_mem hp
  cases p with
  | taken r => rw [hi.okTaken (Or.inr h) j r hj]
  | running => simp [PoolG.isTaken] at ht
  | done r => simp [PoolG.isTaken] at ht
  | sent r => simp [PoolG.isTaken] at ht
  | suppressed r => simp [PoolG.isTaken] at ht

/-- once `Engine.Run` has returned, a pool goroutine that holds a result can always leave through the engine context -/
theorem suppress_enabled (cfg : EngCfg) (hcfg : cfg.sendSelects = true) (n : Nat) (cs : List EChoice) (i : Nat) (r : PRes)
    (hres : (erun cfg n cs).result.isSome = true) (hp : (erun cfg n cs).pools[i]? = some (PoolG.done r)) :
    (estep cfg (erun cfg n cs) (.suppress i)).pools[i]? = some (PoolG.suppressed r) := by
  have hi := run_inv cfg n cs
  have hc := hi.ctxSome hres
  have hlt : i < (erun cfg n cs).pools.length := by
    rcases Nat.lt_or_ge i (erun cfg n cs).pools.length with hl | hl
    · exact hl
    · rw [List.getElem?_eq_none hl] at hp; cases hp
  simp only [estep, hp, hcfg, hc, and_self, if_true]
  exact getElem?_set_self_lt _ _ _ hlt

/-- after the caller's cancel the `ctx.Done()` case of the main loop's select is ready, whatever the pools do -/
theorem mainCtx_enabled (cfg : EngCfg) (hcfg : cfg.mainSelects = true) (n : Nat) (cs : List EChoice)
    (hext : (erun cfg n cs).extC = true) (hres : (erun cfg n cs).result = none) :
    (estep cfg (erun cfg n cs) .mainCtx).result = some ERes.ctx := by
  have hi := run_inv cfg n cs
  have hc : (erun cfg n cs).ctxDone = true := by rw [hi.ctxNone hres]; exact hext
  simp [estep, hres, hcfg, hc, ret]

/-- a main loop that reads the results with a plain receive has NO enabled step while every pool goroutine is still
inside `pool.Run`, cancelled or not: `Engine.Run` then returns only when some `pool.Run` does -/
theorem plain_receive_stuck (cfg : EngCfg) (hcfg : cfg.mainSelects = false) (n : Nat) (cs : List EChoice)
    (hall : ∀ p ∈ (erun cfg n cs).pools, p = PoolG.running) (c : EChoice) (hc : c.isMain = true) :
    estep cfg (erun cfg n cs) c = erun cfg n cs := by
  have hi := run_inv cfg n cs
  cases c with
  | recv =>
    simp only [estep]
    split
    · rename_i i r _ hch
      have hs := hi.chanSome i r hch
      have := hall _ (List.mem_of_getElem? hs)
      cases this
    · rfl
  | mainCtx =>
    simp only [estep]
    split
    · simp [hcfg]
    · rfl
  | extCancel => cases hc
  | poolRet _ _ => cases hc
  | send _ => cases hc
  | suppress _ => cases hc

end Pandora.Proofs.C05.Sys

namespace Pandora.Proofs.C05.Cli
open Pandora.Model.C05.Cli

/-- exit status 0 exactly when the first thing the process meets is a nil result of `Engine.Run` -/
theorem exit_zero_iff (evs : List Ev) : Act.exit 0 ∈ run evs ↔ ∃ rest, evs = .err true :: rest := by
  constructor
  · intro h
    match evs, h with
    | .err true :: rest, _ => exact ⟨rest, rfl⟩
    | .err false :: rest, h =>
      simp only [run, List.mem_cons] at h
      rcases h with h | h | h
      · cases h
      · cases h
      · match rest, h with
        | .waitDone :: _, h => simp [awaitTasks] at h
        | .timeout :: _, h => simp [awaitTasks] at h
        | [], h => simp [awaitTasks] at h
        | .sig _ :: _, h => simp [awaitTasks] at h
        | .err _ :: _, h => simp [awaitTasks] at h
    | .sig .other :: _, h => simp [run] at h
    | .sig .int :: rest, h =>
      simp only [run, List.mem_cons] at h
      rcases h with h | h | h
      · cases h
      · cases h
      · match rest, h with
        | [], h => simp [afterSignal] at h
        | .timeout :: _, h => simp [afterSignal] at h
        | .sig _ :: _, h => simp [afterSignal] at h
        | .waitDone :: _, h => simp [afterSignal] at h
        | .err _ :: rest2, h =>
          simp only [afterSignal, List.mem_cons] at h
          rcases h with h | h
          · cases h
          · match rest2, h with
            | [], h => simp [awaitTasksSig] at h
            | .waitDone :: _, h => simp [awaitTasksSig] at h
            | .timeout :: _, h => simp [awaitTasksSig] at h
            | .sig _ :: _, h => simp [awaitTasksSig] at h
            | .err _ :: _, h => simp [awaitTasksSig] at h
    | .sig .term :: rest, h =>
      simp only [run, List.mem_cons] at h
      rcases h with h | h | h
      · cases h
      · cases h
      · match rest, h with
        | [], h => simp [afterSignal] at h
        | .timeout :: _, h => simp [afterSignal] at h
        | .sig _ :: _, h => simp [afterSignal] at h
        | .waitDone :: _, h => simp [afterSignal] at h
        | .err _ :: rest2, h =>
          simp only [afterSignal, List.mem_cons] at h
          rcases h with h | h
          · cases h
          · match rest2, h with
            | [], h => simp [awaitTasksSig] at h
            | .waitDone :: _, h => simp [awaitTasksSig] at h
            | .timeout :: _, h => simp [awaitTasksSig] at h
            | .sig _ :: _, h => simp [awaitTasksSig] at h
            | .err _ :: _, h => simp [awaitTasksSig] at h
    | .timeout :: _, h => simp [run] at h
    | .waitDone :: _, h => simp [run] at h
    | [], h => simp [run] at h
  · rintro ⟨rest, rfl⟩
    simp [run]

/-- every exit with status 1 comes after `Engine.Wait` has returned, unless a timeout fired, a second signal arrived
or the signal was not SIGINT / SIGTERM -/
theorem exit_waits (evs : List Ev) (h : Act.exit 1 ∈ run evs) :
    Act.waited ∈ run evs ∨ Ev.timeout ∈ evs ∨ 2 ≤ evs.countP isSig ∨ Ev.sig .other ∈ evs := by
  rcases evs with _ | ⟨e1, _ | ⟨e2, _ | ⟨e3, rest⟩⟩⟩
  · simp [run] at h
  · rcases e1 with ⟨_ | _ | _⟩ | ⟨_ | _⟩ | _ | _ <;> simp_all [run, afterSignal, awaitTasks, isSig]
  · rcases e1 with ⟨_ | _ | _⟩ | ⟨_ | _⟩ | _ | _ <;> rcases e2 with ⟨_ | _ | _⟩ | ⟨_ | _⟩ | _ | _ <;>
      simp_all [run, afterSignal, awaitTasks, awaitTasksSig, isSig, List.countP_cons]
  · rcases e1 with ⟨_ | _ | _⟩ | ⟨_ | _⟩ | _ | _ <;> rcases e2 with ⟨_ | _ | _⟩ | ⟨_ | _⟩ | _ | _ <;>
      rcases e3 with ⟨_ | _ | _⟩ | ⟨_ | _⟩ | _ | _ <;>
      simp_all [run, afterSignal, awaitTasks, awaitTasksSig, isSig, List.countP_cons] <;>
      (right; left; omega)

/-- … and after the run context has been cancelled (`gracefulShutdown`), unless the signal was not SIGINT / SIGTERM -/
theorem exit_after_shutdown (evs : List Ev) (h : Act.exit 1 ∈ run evs) :
    Act.shutdown ∈ run evs ∨ evs.head? = some (Ev.sig .other) := by
  rcases evs with _ | ⟨e1, rest⟩
  · simp [run] at h
  · rcases e1 with ⟨_ | _ | _⟩ | ⟨_ | _⟩ | _ | _ <;> simp_all [run]

end Pandora.Proofs.C05.Cli
