/-
C20 — round 6 helper lemmas: the reading loop over pooled objects handed out by an arbitrary `sync.Pool` oracle
(`Model/C20Pool.lean`) simulates the loop of `Model/C20Feed.lean`, whatever the oracle returns.
-/
import Pandora.Model.C20Pool
import Pandora.Proofs.C20Feed

namespace Pandora.Proofs.C20R6
open Pandora.Model.C20

def isBad : Raw → Bool
  | .bad => true
  | _ => false

def liftAction (inv : Bool) : Action → ActionO
  | .stop s => .stop s
  | .skip => .skip
  | .deliver e => .deliver { e := e, invalid := inv }

/-- the loop body on the object `Get` returned does what the loop body of `C20Feed` does, for EVERY content of that object
(and every `pooled` of the older model); the delivered object carries the invalid flag exactly for an undecodable line -/
theorem actionO_eq (cfg : ProvCfg) (got : Obj) (pooled : Entry) (r : Raw) :
    actionO cfg got r = liftAction (isBad r) (action cfg pooled r) := by
  cases r with
  | long => rfl
  | bad =>
    by_cases hc : cfg.coe = true
    · by_cases hch : isChosen "" cfg.chosen = true <;>
        simp [actionO, action, liftAction, isBad, Obj.reset, Obj.invalidate, invalidEntry, zeroEntry, hc, hch]
    · simp [actionO, action, liftAction, hc]
  | line l =>
    by_cases hch : isChosen (unmarshalInto zeroEntry l).tag cfg.chosen = true <;>
      simp [actionO, action, liftAction, isBad, Obj.reset, decodeAmmo, resetAmmo, hch]

theorem scanPassO_sim (cfg : ProvCfg) (pool : Nat → Obj) : ∀ (raws : List Raw) (g n : Nat) (pooled : Entry),
    (scanPassO cfg pool raws g n).1.map (·.e) = (scanPass cfg raws pooled n).1 ∧
    (scanPassO cfg pool raws g n).2.2.1 = (scanPass cfg raws pooled n).2.1 ∧
    (scanPassO cfg pool raws g n).2.2.2 = (scanPass cfg raws pooled n).2.2
  | [], g, n, pooled => by simp [scanPassO, scanPass]
  | r :: rs, g, n, pooled => by
    unfold scanPassO scanPass
    by_cases hl : isLong r = true
    · simp [hl]
    · simp only [hl, Bool.false_eq_true, if_false]
      by_cases hlim : (cfg.limit != 0 && decide (n ≥ cfg.limit)) = true
      · simp [hlim]
      · simp only [hlim, Bool.false_eq_true, if_false]
        rw [actionO_eq cfg (pool g) pooled r]
        cases h : action cfg pooled r with
        | stop s => simp [liftAction]
        | skip =>
          simp only [liftAction]
          exact scanPassO_sim cfg pool rs (g + 1) n pooled
        | deliver e =>
          simp only [liftAction]
          obtain ⟨h1, h2, h3⟩ := scanPassO_sim cfg pool rs (g + 1) (n + 1) e
          exact ⟨by simp [h1], h2, h3⟩

/-- an object the loop delivers with the invalid flag set holds nothing -/
theorem actionO_deliver_inv (cfg : ProvCfg) (got : Obj) (r : Raw) (a : Obj) (h : actionO cfg got r = .deliver a)
    (hi : a.invalid = true) : a.e = zeroEntry := by
  cases r with
  | long => simp [actionO] at h
  | bad =>
    simp only [actionO] at h
    split at h
    · split at h
      · injection h with h; subst h; rfl
      · cases h
    · cases h
  | line l =>
    simp only [actionO] at h
    split at h
    · injection h with h; subst h; simp [Obj.reset] at hi
    · cases h

theorem scanPassO_inv (cfg : ProvCfg) (pool : Nat → Obj) : ∀ (raws : List Raw) (g n : Nat),
    ∀ o ∈ (scanPassO cfg pool raws g n).1, o.invalid = true → o.e = zeroEntry
  | [], g, n => by simp [scanPassO]
  | r :: rs, g, n => by
    unfold scanPassO
    by_cases hl : isLong r = true
    · simp [hl]
    · simp only [hl, Bool.false_eq_true, if_false]
      by_cases hlim : (cfg.limit != 0 && decide (n ≥ cfg.limit)) = true
      · simp [hlim]
      · simp only [hlim, Bool.false_eq_true, if_false]
        cases h : actionO cfg (pool g) r with
        | stop s => simp
        | skip => exact scanPassO_inv cfg pool rs (g + 1) n
        | deliver a =>
          intro o ho hi
          simp only [List.mem_cons] at ho
          rcases ho with rfl | ho
          · exact actionO_deliver_inv cfg (pool g) r _ h hi
          · exact scanPassO_inv cfg pool rs (g + 1) (n + 1) o ho hi

theorem runPassesO_sim (cfg : ProvCfg) (pool : Nat → Obj) (raws : List Raw) : ∀ (fuel passNum g n : Nat) (pooled : Entry),
    (runPassesO cfg pool raws fuel passNum g n).1.map (·.e) = (runPasses cfg raws fuel passNum pooled n).1 ∧
    (runPassesO cfg pool raws fuel passNum g n).2 = (runPasses cfg raws fuel passNum pooled n).2
  | 0, _, _, _, _ => by simp [runPassesO, runPasses]
  | fuel + 1, passNum, g, n, pooled => by
    obtain ⟨h1, h2, h3⟩ := scanPassO_sim cfg pool raws g n pooled
    unfold runPassesO runPasses
    simp only [h2, h3]
    by_cases hst : ((scanPass cfg raws pooled n).2.2 != Stop.none) = true
    · simp only [hst, if_true]; exact ⟨h1, trivial⟩
    · simp only [hst, Bool.false_eq_true, if_false]
      by_cases hlim : (cfg.limit != 0 && decide ((scanPass cfg raws pooled n).2.1 ≥ cfg.limit)) = true
      · simp only [hlim, if_true]; exact ⟨h1, trivial⟩
      · simp only [hlim, Bool.false_eq_true, if_false]
        by_cases hp : (cfg.passes != 0 && decide (passNum + 1 ≥ cfg.passes)) = true
        · simp only [hp, if_true]; exact ⟨h1, trivial⟩
        · simp only [hp, Bool.false_eq_true, if_false]
          by_cases hz : ((scanPass cfg raws pooled n).2.1 == 0) = true
          · simp only [hz, if_true]; exact ⟨h1, trivial⟩
          · simp only [hz, Bool.false_eq_true, if_false]
            obtain ⟨r1, r2⟩ := runPassesO_sim cfg pool raws fuel (passNum + 1) (scanPassO cfg pool raws g n).2.1
              (scanPass cfg raws pooled n).2.1 ((scanPass cfg raws pooled n).1.getLast?.getD pooled)
            exact ⟨by simp [h1, r1], r2⟩

theorem runPassesO_inv (cfg : ProvCfg) (pool : Nat → Obj) (raws : List Raw) : ∀ (fuel passNum g n : Nat),
    ∀ o ∈ (runPassesO cfg pool raws fuel passNum g n).1, o.invalid = true → o.e = zeroEntry
  | 0, _, _, _ => by simp [runPassesO]
  | fuel + 1, passNum, g, n => by
    have hs := scanPassO_inv cfg pool raws g n
    unfold runPassesO
    simp only
    split
    · exact hs
    · split
      · exact hs
      · split
        · exact hs
        · split
          · exact hs
          · intro o ho hi
            simp only [List.mem_append] at ho
            rcases ho with ho | ho
            · exact hs o ho hi
            · exact runPassesO_inv cfg pool raws fuel (passNum + 1) _ _ o ho hi

theorem shootEntry_zero (tmo : Nat) : shootEntry tmo zeroEntry = { calls := [], samples := [sampleText "" 0] } := by
  simp [shootEntry, zeroEntry, lookupMethod, methodTable, svc]

/-- on an object that holds nothing when flagged, the gun's early return for an invalid ammo and its ordinary path
(method lookup of the empty call fails) report the same -/
theorem shootObj_eq (tmo : Nat) (o : Obj) (h : o.invalid = true → o.e = zeroEntry) : shootObj tmo o = shootEntry tmo o.e := by
  unfold shootObj
  by_cases hi : o.invalid = true
  · rw [if_pos hi, h hi, shootEntry_zero]; rfl
  · rw [if_neg hi]

end Pandora.Proofs.C20R6
