/-
Proofs C16, round 6 (not yet imported by Props — see notes/C16.md): the limits of the current providers only REFUSE more.

* `convertStepsLim_refines`, `buildAmmoLim_refines`, `decodeAmmoLim_refines`: whatever the model with the limits accepts,
  the model without them accepts with the same ammo — the prediction of `decodeAmmo` is right wherever the limits do
  not bite (which is where the driver compares it with the real providers);
* `convertStepsLim_bounded`: an accepted scenario has at most `maxScenarioRequests` steps.
-/
import Pandora.Model.C16AmmoLim

namespace Pandora.Proofs.C16
open Pandora.Model.C16

theorem convertStepsLim_refines (known : List String) (reqs : List String) (acc r : List (String × Int))
    (h : convertStepsLim known reqs acc = some r) : convertSteps known reqs acc = some r := by
  induction reqs generalizing acc with
  | nil => simpa [convertStepsLim, convertSteps] using h
  | cons sh rest ih =>
    unfold convertStepsLim at h
    unfold convertSteps
    cases hp : parseShootName sh with
    | none => simp [hp] at h
    | some t =>
      obtain ⟨name, cnt, slp⟩ := t
      simp only [hp] at h ⊢
      by_cases hs : (name == "sleep") = true
      · simp only [hs, if_true] at h ⊢
        cases acc with
        | nil => simp at h
        | cons a acc' =>
          obtain ⟨n, s⟩ := a
          exact ih _ h
      · simp only [hs, Bool.false_eq_true, if_false] at h ⊢
        by_cases hk : (!known.contains name) = true
        · rw [if_pos hk] at h
          exact absurd h (by simp)
        · simp only [hk, Bool.false_eq_true, if_false] at h ⊢
          by_cases hc : cnt > (maxScenarioRequests : Int) - (acc.length : Int)
          · simp [hc] at h
          · simp only [hc, if_false] at h
            exact ih _ h

theorem buildAmmoLim_refines (known : List String) (counts : List (String × Nat)) (scs : List ScenarioRow)
    (rows : List AmmoRow) (h : buildAmmoLim known counts scs = some rows) : buildAmmo known counts scs = some rows := by
  induction scs generalizing rows with
  | nil => simpa [buildAmmoLim, buildAmmo] using h
  | cons s rest ih =>
    unfold buildAmmoLim at h
    unfold buildAmmo
    cases hs : convertStepsLim known s.requests [] with
    | none => simp [hs] at h
    | some steps =>
      cases hm : buildAmmoLim known counts rest with
      | none => simp [hs, hm] at h
      | some more =>
        simp only [hs, hm] at h
        rw [convertStepsLim_refines known s.requests [] steps hs, ih more hm]
        exact h

/-- the limits only refuse: what `decodeAmmoLim` accepts, `decodeAmmo` accepts with the same ammo -/
theorem decodeAmmoLim_refines (names : List String) (scs : List ScenarioRow) (rows : List AmmoRow)
    (h : decodeAmmoLim names scs = some rows) : decodeAmmo names scs = some rows := by
  unfold decodeAmmoLim at h
  unfold decodeAmmo
  by_cases hn : (scs.any fun s => s.weight < 0) = true
  · simp [hn] at h
  · simp only [hn, Bool.false_eq_true, if_false] at h ⊢
    by_cases hc : (!checkSpread (spreadCounts scs)) = true
    · simp [hc] at h
    · simp only [hc, Bool.false_eq_true, if_false] at h
      exact buildAmmoLim_refines names _ scs rows h

/-- an accepted scenario never holds more than `maxScenarioRequests` steps -/
theorem convertStepsLim_bounded (known : List String) (reqs : List String) (acc r : List (String × Int))
    (h : convertStepsLim known reqs acc = some r) (ha : acc.length ≤ maxScenarioRequests) :
    r.length ≤ maxScenarioRequests := by
  induction reqs generalizing acc with
  | nil =>
    simp only [convertStepsLim, Option.some.injEq] at h
    rw [← h]; exact ha
  | cons sh rest ih =>
    unfold convertStepsLim at h
    cases hp : parseShootName sh with
    | none => simp [hp] at h
    | some t =>
      obtain ⟨name, cnt, slp⟩ := t
      simp only [hp] at h
      by_cases hs : (name == "sleep") = true
      · simp only [hs, if_true] at h
        cases acc with
        | nil => simp at h
        | cons a acc' =>
          obtain ⟨n, s⟩ := a
          exact ih _ h (by simpa using ha)
      · simp only [hs, Bool.false_eq_true, if_false] at h
        by_cases hk : (!known.contains name) = true
        · rw [if_pos hk] at h
          exact absurd h (by simp)
        · simp only [hk, Bool.false_eq_true, if_false] at h
          by_cases hc : cnt > (maxScenarioRequests : Int) - (acc.length : Int)
          · simp [hc] at h
          · simp only [hc, if_false] at h
            refine ih _ h ?_
            simp only [List.length_append, List.length_replicate]
            have : (cnt.toNat : Int) ≤ (maxScenarioRequests : Int) - (acc.length : Int) := by
              rcases Int.le_total 0 cnt with h0 | h0
              · rw [Int.toNat_of_nonneg h0]; omega
              · have : cnt.toNat = 0 := Int.toNat_of_nonpos h0
                rw [this]; simp only [Int.natCast_zero]; omega
            omega

/-- non-vacuity: 2^20 + 1 copies are refused, weights that spread into more than 2^24 ammo are refused, a small
description is accepted with the ammo of the model without limits -/
example : decodeAmmoLim ["r"] [⟨"a", 1, 0, ["r(1048577)"]⟩] = none := by decide
example : decodeAmmoLim ["r"] [⟨"a", 16777217, 0, ["r"]⟩, ⟨"b", 1, 0, ["r"]⟩] = none := by decide
example : decodeAmmoLim ["r"] [⟨"a", 2, 0, ["r"]⟩, ⟨"b", 4, 0, ["r(2)"]⟩] = decodeAmmo ["r"] [⟨"a", 2, 0, ["r"]⟩, ⟨"b", 4, 0, ["r(2)"]⟩] := by
  decide

end Pandora.Proofs.C16
