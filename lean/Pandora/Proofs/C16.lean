/-
Proofs C16: helper lemmas for `Props/C16.lean`.

Main result `render_decode_eq`: under `compatS` (the decidable compatibility of the struct/tag tables) decoding the
document that yaml.v2 marshals from the HCL structs and decoding the document a user writes in YAML give the same
record, for every description tree.
-/
import Pandora.Model.C16

namespace Pandora.Proofs.C16
open Pandora.Go Pandora.Model.C16

/-! ### induction over description trees -/

theorem V.ind' (P : V → Prop) (hnull : P .null) (hstr : ∀ s, P (.str s)) (hint : ∀ i, P (.int i))
    (hbool : ∀ b, P (.bool b)) (hseq : ∀ xs, (∀ x ∈ xs, P x) → P (.seq xs))
    (hmap : ∀ fs, (∀ e ∈ fs, P e.2) → P (.map fs)) : ∀ v, P v := by
  intro v
  refine V.rec (motive_1 := P) (motive_2 := fun xs => ∀ x ∈ xs, P x) (motive_3 := fun fs => ∀ e ∈ fs, P e.2)
    (motive_4 := fun e => P e.2) hnull hstr hint hbool hseq hmap ?_ ?_ ?_ ?_ ?_ v
  · intro x hx; cases hx
  · intro h t ih1 ih2 x hx
    cases hx with
    | head => exact ih1
    | tail _ h' => exact ih2 x h'
  · intro e he; cases he
  · intro h t ih1 ih2 e he
    cases he with
    | head => exact ih1
    | tail _ h' => exact ih2 e h'
  · intro k v ih; exact ih

/-! ### keys -/

theorem fold_eq_of_eqFold {a b : String} (h : eqFold a b = true) : fold a = fold b := by
  unfold eqFold at h
  exact eq_of_beq h

theorem eqFold_congr {a b : String} (h : fold a = fold b) (k : String) : eqFold a k = eqFold b k := by
  unfold eqFold; rw [h]

theorem findC_congr {a b : String} (h : fold a = fold b) (T : Tables) (s : String) : findC T s a = findC T s b := by
  unfold findC
  have : (fun g : C16CField => eqFold g.key a) = (fun g => eqFold g.key b) := by
    funext g; unfold eqFold; rw [h]
  rw [this]

theorem findH_mem {T : Tables} {s k : String} {f : C16HField} (h : findH T s k = some f) : f ∈ hFields T s := by
  unfold findH at h
  exact List.mem_of_find?_eq_some h

theorem findPlugin_mem {T : Tables} {i n : String} {p : C16Plugin} (h : findPlugin T i n = some p) :
    p ∈ pluginsOf T i := by
  unfold findPlugin at h
  have h1 := List.mem_of_find?_eq_some h
  have h2 := List.find?_some h
  unfold pluginsOf
  rw [List.mem_filter]
  refine ⟨h1, ?_⟩
  simp only [Bool.and_eq_true] at h2
  exact h2.1

/-! ### rendering -/

@[simp] theorem renderV_null (p : Policy) (T : Tables) (ty : C16HTy) : renderV p T ty .null = .null := by
  simp [renderV]

theorem renderV_leaf (p : Policy) (T : Tables) (l : C16Leaf) (v : V) : renderV p T (.leaf l) v = v := by
  cases v <;> simp [renderV]

theorem renderV_struct_of_not_map (p : Policy) (T : Tables) (s : String) (v : V) (h : ∀ fs, v ≠ .map fs) :
    renderV p T (.struct s) v = v := by
  cases v <;> simp [renderV]
  exact absurd rfl (h _)

theorem renderV_structList_of_not_seq (p : Policy) (T : Tables) (s : String) (v : V) (h : ∀ xs, v ≠ .seq xs) :
    renderV p T (.structList s) v = v := by
  cases v <;> simp [renderV]
  exact absurd rfl (h _)

/-- both renderings of a value that is not a container are the value itself -/
theorem renderV_same_of_leafTy (T : Tables) (ty : C16HTy) (v : V) (h : isLeafTy ty = true) :
    renderV polM T ty v = renderV polY T ty v := by
  cases ty with
  | leaf l => rw [renderV_leaf, renderV_leaf]
  | struct s => simp [isLeafTy] at h
  | structList s => simp [isLeafTy] at h

/-! ### decoding -/

@[simp] theorem decodeV_null (T : Tables) (ty : C16CTy) : decodeV T ty .null = none := by
  simp [decodeV]

theorem decodeV_leaf (T : Tables) (l : C16Leaf) (x : V) :
    decodeV T (.leaf l) x = if zeroLeaf x then none else some x := by
  cases x <;> simp [decodeV, decodeLeafLike, zeroLeaf]

theorem decodeV_optLeaf (T : Tables) (l : C16Leaf) (x : V) :
    decodeV T (.optLeaf l) x = if isNull x then none else some x := by
  cases x <;> simp [decodeV, decodeLeafLike, isNull]

/-- one entry of a map against config struct `s` -/
def decEntry (T : Tables) (s : String) (isP : Bool) (k : String) (x : V) : Option (String × V) :=
  if isP && eqFold k T.nameKey then
    match x with
    | .null => none
    | _ => some (T.nameKey, x)
  else
    match findC T s k with
    | none => some (unusedKey, .null)
    | some g => (decodeV T g.ty x).map fun y => (g.go, y)

theorem decodeFs_cons (T : Tables) (s : String) (isP : Bool) (k : String) (x : V) (rest : List (String × V)) :
    decodeFs T s isP ((k, x) :: rest) =
      match decEntry T s isP k x with
      | none => decodeFs T s isP rest
      | some e => e :: decodeFs T s isP rest := by
  unfold decEntry
  cases x <;> simp only [decodeFs] <;> split <;> try rfl
  all_goals
    cases hC : findC T s k with
    | none => rfl
    | some g =>
      simp only []
      split <;> simp_all

theorem decEntry_congr {a b : String} (h : fold a = fold b) (T : Tables) (s : String) (isP : Bool) (x : V) :
    decEntry T s isP a x = decEntry T s isP b x := by
  unfold decEntry
  rw [eqFold_congr h, findC_congr h]

/-- the result of decoding a map under a rendered entry that may have been left out -/
def decOpt (T : Tables) (s : String) (isP : Bool) (skip : Bool) (k : String) (x : V) : Option (String × V) :=
  if skip then none else decEntry T s isP k x

theorem decodeFs_render_step (T : Tables) (s : String) (isP : Bool) (skip : Bool) (k : String) (x : V)
    (rest : List (String × V)) :
    decodeFs T s isP (if skip then rest else (k, x) :: rest) =
      match decOpt T s isP skip k x with
      | none => decodeFs T s isP rest
      | some e => e :: decodeFs T s isP rest := by
  unfold decOpt
  cases skip
  · simp only [Bool.false_eq_true, if_false]
    exact decodeFs_cons T s isP k x rest
  · simp

/-! ### one field -/

theorem decodeV_list_nil (T : Tables) (cty : C16CTy) (hty : C16HTy) (rec : String → Target → Bool)
    (hl : isList hty = true) (h : tyRel rec hty cty = true) : decodeV T cty (.seq []) = none := by
  cases hty <;> cases cty <;> simp_all [isList, tyRel, decodeV]

/-- the entry yaml.v2 writes for field `f` and the entry the user writes decode to the same thing -/
theorem field_eq (rec : String → Target → Bool) (T : Tables) (sc : String) (isP : Bool) (f : C16HField) (x : V)
    (hOK : fieldOK rec T sc isP f = true)
    (ih : ∀ hty cty, tyRel rec hty cty = true →
      decodeV T cty (renderV polM T hty x) = decodeV T cty (renderV polY T hty x)) :
    decOpt T sc isP (omitM f x) f.yaml (renderV polM T f.ty x) =
      decOpt T sc isP (omitY f x) (docKey f) (renderV polY T f.ty x) := by
  unfold fieldOK keyOK at hOK
  simp only [Bool.and_eq_true, Bool.or_eq_true, Bool.not_eq_true', bne_iff_ne, ne_eq] at hOK
  obtain ⟨⟨⟨⟨hdash, hfold⟩, hkind⟩, htype⟩, hrest⟩ := hOK
  have hfold' := fold_eq_of_eqFold hfold
  have hdash' : (f.yaml == "-") = false := by simpa using hdash
  unfold decOpt
  rw [← decEntry_congr hfold']
  by_cases hT : (isP && eqFold f.yaml T.nameKey) = true
  · -- the plugin name: a string label, never omitted by yaml.v2
    have hT2 : eqFold f.yaml T.nameKey = true := by
      simp only [Bool.and_eq_true] at hT; exact hT.2
    rcases htype with h | h
    · rw [hT2] at h; cases h
    · obtain ⟨hty, hom⟩ := h
      have hty' : f.ty = .leaf .str := by simpa using hty
      have hM : omitM f x = false := by simp [omitM, hdash', hom]
      have hY : omitY f x = isNull x := by simp [omitY, hty', isList]
      rw [hM, hY, hty', renderV_leaf, renderV_leaf]
      cases x <;> simp [isNull, decEntry, hT]
  · have hT' : (isP && eqFold f.yaml T.nameKey) = false := by
      rw [← Bool.not_eq_true]; exact hT
    have hT'' : ¬(isP = true ∧ eqFold f.yaml T.nameKey = true) := by
      rw [← Bool.and_eq_true]; exact hT
    rw [if_neg hT''] at hrest
    cases hC : findC T sc f.yaml with
    | none =>
      simp only [hC, Bool.and_eq_true, Bool.not_eq_true'] at hrest
      obtain ⟨⟨⟨_, hptr⟩, hom⟩, hnl⟩ := hrest
      have hM : omitM f x = isNull x := by simp [omitM, hdash', hom, hptr]
      have hY : omitY f x = isNull x := by simp [omitY, hnl]
      rw [hM, hY]
      cases hN : isNull x
      · simp [decEntry, hT', hC]
      · simp
    | some g =>
      simp only [hC, Bool.and_eq_true] at hrest
      obtain ⟨hrel, hopt⟩ := hrest
      have hE : ∀ y, decEntry T sc isP f.yaml y = (decodeV T g.ty y).map fun z => (g.go, z) := by
        intro y; simp [decEntry, hT', hC]
      rw [hE, hE]
      by_cases hN : isNull x = true
      · -- left out in the description
        have hx : x = .null := by cases x <;> simp_all [isNull]
        subst hx
        simp [omitY, isNull]
      · have hN' : isNull x = false := by simpa using hN
        cases hty : f.ty with
        | leaf l =>
          have hY : omitY f x = false := by simp [omitY, hN', hty, isList]
          rw [hY, renderV_leaf, renderV_leaf]
          cases hM : omitM f x
          · rfl
          · -- omitted by omitempty although present: the value is a zero, which decodes to "absent"
            simp only [omitM, hdash', Bool.false_or, Bool.and_eq_true, hty, zeroTy] at hM
            obtain ⟨hom, hz⟩ := hM
            cases hp : f.ptr
            · simp only [hp, Bool.false_eq_true, if_false] at hz
              cases hg : g.ty <;> simp_all [tyRel, decodeV_leaf]
            · simp [hp, hN'] at hz
        | struct s =>
          have hY : omitY f x = false := by simp [omitY, hN', hty, isList]
          have hM : omitM f x = false := by simp [omitM, hdash', hty, zeroTy, hN']
          rw [hY, hM]
          simp only [Bool.false_eq_true, if_false]
          rw [ih _ _ (hty ▸ hrel)]
        | structList s =>
          by_cases hS : isEmptySeq x = true
          · have hx : x = .seq [] := by
              cases x with
              | seq xs => cases xs <;> simp_all [isEmptySeq]
              | _ => simp_all [isEmptySeq]
            subst hx
            have hY : omitY f (.seq []) = true := by simp [omitY, hty, isList, isEmptySeq]
            rw [hY]
            have hnil : decodeV T g.ty (.seq []) = none :=
              decodeV_list_nil T g.ty (.structList s) rec rfl (hty ▸ hrel)
            cases hM : omitM f (.seq [])
            · simp [renderV, renderXs, hnil]
            · rfl
          · have hS' : isEmptySeq x = false := by simpa using hS
            have hY : omitY f x = false := by simp [omitY, hN', hS']
            have hM : omitM f x = false := by simp [omitM, hdash', hty, zeroTy, hN', hS']
            rw [hY, hM]
            simp only [Bool.false_eq_true, if_false]
            rw [ih _ _ (hty ▸ hrel)]

/-! ### all fields of a struct -/

theorem renderFs_cons_M (T : Tables) (sh k : String) (x : V) (rest : List (String × V)) :
    renderFs polM T sh ((k, x) :: rest) =
      match findH T sh k with
      | none => renderFs polM T sh rest
      | some f =>
        if omitM f x then renderFs polM T sh rest
        else (f.yaml, renderV polM T f.ty x) :: renderFs polM T sh rest := by
  rw [renderFs]; rfl

theorem renderFs_cons_Y (T : Tables) (sh k : String) (x : V) (rest : List (String × V)) :
    renderFs polY T sh ((k, x) :: rest) =
      match findH T sh k with
      | none => renderFs polY T sh rest
      | some f =>
        if omitY f x then renderFs polY T sh rest
        else (docKey f, renderV polY T f.ty x) :: renderFs polY T sh rest := by
  rw [renderFs]; rfl

theorem fields_eq (rec : String → Target → Bool) (T : Tables) (sh sc : String) (isP : Bool)
    (hall : ∀ f ∈ hFields T sh, fieldOK rec T sc isP f = true) :
    ∀ fs : List (String × V),
      (∀ e ∈ fs, ∀ hty cty, tyRel rec hty cty = true →
        decodeV T cty (renderV polM T hty e.2) = decodeV T cty (renderV polY T hty e.2)) →
      decodeFs T sc isP (renderFs polM T sh fs) = decodeFs T sc isP (renderFs polY T sh fs) := by
  intro fs
  induction fs with
  | nil => intro _; rfl
  | cons e rest ihr =>
    intro ih
    obtain ⟨k, x⟩ := e
    have ihrest := ihr (fun e he => ih e (List.mem_cons_of_mem _ he))
    rw [renderFs_cons_M, renderFs_cons_Y]
    cases hH : findH T sh k with
    | none => exact ihrest
    | some f =>
      simp only []
      rw [decodeFs_render_step, decodeFs_render_step,
        field_eq rec T sc isP f x (hall f (findH_mem hH)) (ih (k, x) (List.mem_cons_self ..)), ihrest]

theorem typeOf_step (nk : String) (skip : Bool) (k : String) (x : V) (rest : List (String × V)) :
    typeOf nk (if skip then rest else (k, x) :: rest) =
      if skip then typeOf nk rest
      else if eqFold k nk then (match x with | .str t => some t | _ => typeOf nk rest) else typeOf nk rest := by
  cases skip
  · simp only [Bool.false_eq_true, if_false]
    cases x <;> simp [typeOf]
  · simp

theorem typeOf_eq (T : Tables) (sh : String) (hall : ∀ f ∈ hFields T sh, keyOK T f = true) :
    ∀ fs : List (String × V),
      typeOf T.nameKey (renderFs polM T sh fs) = typeOf T.nameKey (renderFs polY T sh fs) := by
  intro fs
  induction fs with
  | nil => rfl
  | cons e rest ihr =>
    obtain ⟨k, x⟩ := e
    rw [renderFs_cons_M, renderFs_cons_Y]
    cases hH : findH T sh k with
    | none => exact ihr
    | some f =>
      simp only []
      rw [typeOf_step, typeOf_step, ihr]
      have hOK := hall f (findH_mem hH)
      unfold keyOK at hOK
      simp only [Bool.and_eq_true, Bool.or_eq_true, Bool.not_eq_true', bne_iff_ne, ne_eq] at hOK
      obtain ⟨⟨⟨hdash, hfold⟩, _⟩, htype⟩ := hOK
      have hfold' := fold_eq_of_eqFold hfold
      have hdash' : (f.yaml == "-") = false := by simpa using hdash
      rw [← eqFold_congr hfold']
      cases hT : eqFold f.yaml T.nameKey
      · simp
      · rcases htype with h | h
        · rw [hT] at h; cases h
        · obtain ⟨hty, hom⟩ := h
          have hty' : f.ty = .leaf .str := by simpa using hty
          have hM : omitM f x = false := by simp [omitM, hdash', hom]
          have hY : omitY f x = isNull x := by simp [omitY, hty', isList]
          rw [hM, hY, hty', renderV_leaf, renderV_leaf]
          cases x <;> simp [isNull]

/-! ### lists of blocks -/

theorem renderXs_isEmpty (p : Policy) (T : Tables) (s : String) (xs : List V) :
    (renderXs p T s xs).isEmpty = xs.isEmpty := by
  cases xs <;> simp [renderXs]

theorem xs_eq (T : Tables) (s : String) (ty : C16CTy) :
    ∀ xs : List V,
      (∀ x ∈ xs, decodeV T ty (renderV polM T (.struct s) x) = decodeV T ty (renderV polY T (.struct s) x)) →
      decodeXs T ty (renderXs polM T s xs) = decodeXs T ty (renderXs polY T s xs) := by
  intro xs
  induction xs with
  | nil => intro _; rfl
  | cons x rest ihr =>
    intro ih
    simp only [renderXs, decodeXs]
    rw [ih x (List.mem_cons_self ..), ihr (fun y hy => ih y (List.mem_cons_of_mem _ hy))]

/-! ### unfolding `compatS` -/

theorem compatS_struct {T : Tables} {u : List String} {n : Nat} {sh sc : String}
    (h : compatS T u n sh (.struct sc) = true) :
    ∃ m, n = m + 1 ∧ ∀ f ∈ hFields T sh, fieldOK (compatS T u m) T sc false f = true := by
  cases n with
  | zero => simp [compatS] at h
  | succ m =>
    refine ⟨m, rfl, ?_⟩
    simp only [compatS, Bool.and_eq_true, List.all_eq_true] at h
    exact h.1.2

theorem compatS_plugin {T : Tables} {u : List String} {n : Nat} {sh i : String}
    (h : compatS T u n sh (.plugin i) = true) :
    ∃ m, n = m + 1 ∧ (∀ f ∈ hFields T sh, keyOK T f = true) ∧
      ∀ p ∈ pluginsOf T i, ∀ f ∈ hFields T sh, fieldOK (compatS T u m) T p.conf true f = true := by
  cases n with
  | zero => simp [compatS] at h
  | succ m =>
    refine ⟨m, rfl, ?_, ?_⟩
    · simp only [compatS, Bool.and_eq_true, List.all_eq_true] at h
      exact h.1.1.1.1.2
    · simp only [compatS, Bool.and_eq_true, List.all_eq_true] at h
      intro p hp f hf
      exact (h.1.2 p hp).1 f hf

/-! ### the main lemma -/

/-- for every description tree, and every pair of an HCL type and a config type accepted by `compatS`: decoding what
yaml.v2 marshals equals decoding what the user writes in YAML -/
theorem render_decode_eq (T : Tables) (u : List String) :
    ∀ v : V, ∀ n hty cty, tyRel (compatS T u n) hty cty = true →
      decodeV T cty (renderV polM T hty v) = decodeV T cty (renderV polY T hty v) := by
  intro v
  induction v using V.ind' with
  | hnull => intros; simp
  | hstr s => intros; simp [renderV]
  | hint i => intros; simp [renderV]
  | hbool b => intros; simp [renderV]
  | hseq xs ih =>
    intro n hty cty hrel
    cases hty with
    | leaf l => simp [renderV]
    | struct s => simp [renderV]
    | structList s =>
      cases cty with
      | structList t =>
        simp only [renderV, decodeV, renderXs_isEmpty]
        rw [xs_eq T s (.struct t) xs (fun x hx => ih x hx n (.struct s) (.struct t) hrel)]
      | pluginList i =>
        simp only [renderV, decodeV, renderXs_isEmpty]
        rw [xs_eq T s (.plugin i) xs (fun x hx => ih x hx n (.struct s) (.plugin i) hrel)]
      | _ => simp [tyRel] at hrel
  | hmap fs ih =>
    intro n hty cty hrel
    cases hty with
    | leaf l => simp [renderV]
    | structList s => simp [renderV]
    | struct s =>
      cases cty with
      | struct t =>
        obtain ⟨m, _, hall⟩ := compatS_struct (show compatS T u n s (.struct t) = true from hrel)
        simp only [renderV, decodeV]
        rw [fields_eq (compatS T u m) T s t false hall fs (fun e he => ih e he m)]
      | optStruct t =>
        obtain ⟨m, _, hall⟩ := compatS_struct (show compatS T u n s (.struct t) = true from hrel)
        simp only [renderV, decodeV]
        rw [fields_eq (compatS T u m) T s t false hall fs (fun e he => ih e he m)]
      | plugin i =>
        obtain ⟨m, _, hkey, hall⟩ := compatS_plugin (show compatS T u n s (.plugin i) = true from hrel)
        simp only [renderV, decodeV]
        rw [typeOf_eq T s hkey fs]
        cases hP : (typeOf T.nameKey (renderFs polY T s fs)).bind (findPlugin T i) with
        | none => rfl
        | some p =>
          have hp : p ∈ pluginsOf T i := by
            cases hT : typeOf T.nameKey (renderFs polY T s fs) with
            | none => rw [hT] at hP; cases hP
            | some name => rw [hT] at hP; exact findPlugin_mem hP
          simp only []
          rw [fields_eq (compatS T u m) T s p.conf true (hall p hp) fs (fun e he => ih e he m)]
      | _ => simp [tyRel] at hrel

/-! ### completing a description with nil fields does not change what the user writes in YAML -/

theorem renderFs_append (p : Policy) (T : Tables) (s : String) (a b : List (String × V)) :
    renderFs p T s (a ++ b) = renderFs p T s a ++ renderFs p T s b := by
  induction a with
  | nil => rfl
  | cons e rest ih =>
    obtain ⟨k, x⟩ := e
    simp only [List.cons_append, renderFs]
    cases findH T s k with
    | none => exact ih
    | some f =>
      simp only []
      split
      · exact ih
      · rw [ih]; rfl

theorem renderFs_Y_nulls (T : Tables) (s : String) (fs : List C16HField) :
    renderFs polY T s (fs.map fun f => (f.hcl, V.null)) = [] := by
  induction fs with
  | nil => rfl
  | cons f rest ih =>
    simp only [List.map_cons]
    rw [renderFs_cons_Y]
    cases findH T s f.hcl with
    | none => exact ih
    | some f' => simp [omitY, isNull, ih]

theorem isNull_completeV (T : Tables) (ty : C16HTy) (v : V) : isNull (completeV T ty v) = isNull v := by
  cases v <;> cases ty <;> simp [completeV, isNull]

theorem isEmptySeq_completeV (T : Tables) (ty : C16HTy) (v : V) : isEmptySeq (completeV T ty v) = isEmptySeq v := by
  cases v with
  | seq xs =>
    cases ty with
    | structList s => cases xs <;> simp [completeV, completeXs, isEmptySeq]
    | _ => simp [completeV]
  | map fs => cases ty <;> simp [completeV, isEmptySeq]
  | _ => simp [completeV, isEmptySeq]

theorem omitY_completeV (T : Tables) (f : C16HField) (ty : C16HTy) (v : V) :
    omitY f (completeV T ty v) = omitY f v := by
  simp [omitY, isNull_completeV, isEmptySeq_completeV]

theorem renderV_Y_complete (T : Tables) :
    ∀ v : V, ∀ ty, renderV polY T ty (completeV T ty v) = renderV polY T ty v := by
  intro v
  induction v using V.ind' with
  | hnull => intros; simp [completeV]
  | hstr s => intros; simp [completeV]
  | hint i => intros; simp [completeV]
  | hbool b => intros; simp [completeV]
  | hseq xs ih =>
    intro ty
    cases ty with
    | leaf l => simp [completeV]
    | struct s => simp [completeV]
    | structList s =>
      simp only [completeV, renderV]
      congr 1
      induction xs with
      | nil => rfl
      | cons x rest ihr =>
        simp only [completeXs, renderXs]
        rw [ih x (List.mem_cons_self ..), ihr (fun y hy => ih y (List.mem_cons_of_mem _ hy))]
  | hmap fs ih =>
    intro ty
    cases ty with
    | leaf l => simp [completeV]
    | structList s => simp [completeV]
    | struct s =>
      simp only [completeV, renderV]
      congr 1
      rw [renderFs_append, renderFs_Y_nulls, List.append_nil]
      induction fs with
      | nil => rfl
      | cons e rest ihr =>
        obtain ⟨k, x⟩ := e
        have ihrest := ihr (fun e he => ih e (List.mem_cons_of_mem _ he))
        simp only [completeFs]
        cases hH : findH T s k with
        | none =>
          simp only []
          rw [renderFs_cons_Y, renderFs_cons_Y, hH]
          exact ihrest
        | some f =>
          simp only []
          rw [renderFs_cons_Y, renderFs_cons_Y, hH]
          simp only []
          rw [omitY_completeV, ih (k, x) (List.mem_cons_self ..) f.ty, ihrest]

/-! ### survival of a field through the HCL hop -/

theorem decodeFs_mem (T : Tables) (s : String) (isP : Bool) (k : String) (y : V) (e : String × V) :
    ∀ L : List (String × V), (k, y) ∈ L → decEntry T s isP k y = some e → e ∈ decodeFs T s isP L := by
  intro L
  induction L with
  | nil => intro h; cases h
  | cons hd tl ih =>
    intro hmem hdec
    obtain ⟨k', y'⟩ := hd
    rw [decodeFs_cons]
    cases hmem with
    | head => rw [hdec]; exact List.mem_cons_self ..
    | tail _ h' =>
      have := ih h' hdec
      cases decEntry T s isP k' y' with
      | none => exact this
      | some e' => exact List.mem_cons_of_mem _ this

theorem renderFs_mem (T : Tables) (sh k : String) (x : V) (f : C16HField) (hf : findH T sh k = some f)
    (hskip : omitM f x = false) :
    ∀ fs : List (String × V), (k, x) ∈ fs → (f.yaml, renderV polM T f.ty x) ∈ renderFs polM T sh fs := by
  intro fs
  induction fs with
  | nil => intro h; cases h
  | cons hd tl ih =>
    intro hmem
    obtain ⟨k', x'⟩ := hd
    rw [renderFs_cons_M]
    cases hmem with
    | head => rw [hf]; simp [hskip]
    | tail _ h' =>
      have := ih h'
      cases findH T sh k' with
      | none => exact this
      | some f' =>
        simp only []
        cases omitM f' x'
        · simp only [Bool.false_eq_true, if_false]; exact List.mem_cons_of_mem _ this
        · simpa using this

/-- yaml.v2 leaves a field out only when it carries no information: nil, or an `omitempty` zero value -/
theorem omitM_zero (f : C16HField) (x : V) (hdash : (f.yaml == "-") = false) (h : omitM f x = true) :
    isNull x = true ∨ zeroTy f.ty x = true := by
  simp only [omitM, hdash, Bool.false_or, Bool.and_eq_true] at h
  obtain ⟨_, hz⟩ := h
  cases hp : f.ptr
  · simp only [hp, Bool.false_eq_true, if_false] at hz; exact Or.inr hz
  · simp only [hp, if_true] at hz; exact Or.inl hz

/-- a non-zero leaf value written in HCL field `f` of a struct is found, unchanged, in the config field that `f`'s
yaml key selects -/
theorem leaf_survives (rec : String → Target → Bool) (T : Tables) (sh sc : String)
    (hall : ∀ f ∈ hFields T sh, fieldOK rec T sc false f = true)
    (fs : List (String × V)) (k : String) (x : V) (f : C16HField)
    (hmem : (k, x) ∈ fs) (hf : findH T sh k = some f) (hleaf : isLeafTy f.ty = true) (hnz : zeroLeaf x = false) :
    ∃ g, findC T sc f.yaml = some g ∧ fold g.key = fold (docKey f) ∧
      (g.go, x) ∈ decodeFs T sc false (renderFs polM T sh fs) := by
  have hOK := hall f (findH_mem hf)
  unfold fieldOK keyOK at hOK
  simp only [Bool.and_eq_true, Bool.or_eq_true, Bool.not_eq_true', bne_iff_ne, ne_eq, Bool.false_and,
    Bool.false_eq_true, if_false] at hOK
  obtain ⟨⟨⟨⟨hdash, hfold⟩, _⟩, _⟩, hrest⟩ := hOK
  have hdash' : (f.yaml == "-") = false := by simpa using hdash
  cases hty : f.ty with
  | struct s => simp [hty, isLeafTy] at hleaf
  | structList s => simp [hty, isLeafTy] at hleaf
  | leaf l =>
    have hnn : isNull x = false := by cases x <;> simp_all [isNull, zeroLeaf]
    have hskip : omitM f x = false := by
      cases hM : omitM f x with
      | false => rfl
      | true =>
        rcases omitM_zero f x hdash' hM with h | h
        · rw [hnn] at h; cases h
        · rw [hty] at h; simp only [zeroTy] at h; rw [hnz] at h; cases h
    cases hC : findC T sc f.yaml with
    | none => simp [hC] at hrest
    | some g =>
      refine ⟨g, rfl, ?_, ?_⟩
      · have h1 := List.find?_some (show (cFields T sc).find? (fun g => eqFold g.key f.yaml) = some g from hC)
        rw [fold_eq_of_eqFold h1, fold_eq_of_eqFold hfold]
      · have hin := renderFs_mem T sh k x f hf hskip fs hmem
        rw [hty, renderV_leaf] at hin
        refine decodeFs_mem T sc false f.yaml x (g.go, x) _ hin ?_
        simp only [hC, Bool.and_eq_true] at hrest
        obtain ⟨hrel, _⟩ := hrest
        have hdec : decodeV T g.ty x = some x := by
          cases hg : g.ty <;> simp_all [tyRel, decodeV_leaf, decodeV_optLeaf]
        simp [decEntry, hC, hdec]

/-- the same for the config struct of a plugin (`sc` = config struct of the registered constructor that the block's
`type` label selects), for a field that this plugin knows -/
theorem leaf_survives_plugin (rec : String → Target → Bool) (T : Tables) (sh sc : String)
    (hall : ∀ f ∈ hFields T sh, fieldOK rec T sc true f = true)
    (fs : List (String × V)) (k : String) (x : V) (f : C16HField) (g : C16CField)
    (hmem : (k, x) ∈ fs) (hf : findH T sh k = some f) (hleaf : isLeafTy f.ty = true) (hnz : zeroLeaf x = false)
    (hnt : eqFold f.yaml T.nameKey = false) (hC : findC T sc f.yaml = some g) :
    (g.go, x) ∈ decodeFs T sc true (renderFs polM T sh fs) := by
  have hOK := hall f (findH_mem hf)
  unfold fieldOK keyOK at hOK
  simp only [Bool.and_eq_true, Bool.or_eq_true, Bool.not_eq_true', bne_iff_ne, ne_eq, hnt, Bool.and_false,
    Bool.false_eq_true, if_false, hC] at hOK
  obtain ⟨⟨⟨⟨hdash, _⟩, _⟩, _⟩, hrel, _⟩ := hOK
  have hdash' : (f.yaml == "-") = false := by simpa using hdash
  cases hty : f.ty with
  | struct s => simp [hty, isLeafTy] at hleaf
  | structList s => simp [hty, isLeafTy] at hleaf
  | leaf l =>
    have hnn : isNull x = false := by cases x <;> simp_all [isNull, zeroLeaf]
    have hskip : omitM f x = false := by
      cases hM : omitM f x with
      | false => rfl
      | true =>
        rcases omitM_zero f x hdash' hM with h | h
        · rw [hnn] at h; cases h
        · rw [hty] at h; simp only [zeroTy] at h; rw [hnz] at h; cases h
    have hin := renderFs_mem T sh k x f hf hskip fs hmem
    rw [hty, renderV_leaf] at hin
    refine decodeFs_mem T sc true f.yaml x (g.go, x) _ hin ?_
    have hdec : decodeV T g.ty x = some x := by
      cases hg : g.ty <;> simp_all [tyRel, decodeV_leaf, decodeV_optLeaf]
    simp [decEntry, hnt, hC, hdec]

/-- a block written in HCL field `f` reaches the config field that `f`'s yaml key selects -/
theorem block_survives (rec : String → Target → Bool) (T : Tables) (sh sc : String)
    (hall : ∀ f ∈ hFields T sh, fieldOK rec T sc false f = true)
    (fs : List (String × V)) (k : String) (x : V) (f : C16HField)
    (hmem : (k, x) ∈ fs) (hf : findH T sh k = some f) (hskip : omitM f x = false) :
    ∃ g, findC T sc f.yaml = some g ∧ tyRel rec f.ty g.ty = true ∧
      ∀ y, decodeV T g.ty (renderV polM T f.ty x) = some y →
        (g.go, y) ∈ decodeFs T sc false (renderFs polM T sh fs) := by
  have hOK := hall f (findH_mem hf)
  unfold fieldOK at hOK
  simp only [Bool.and_eq_true, Bool.false_and, Bool.false_eq_true, if_false] at hOK
  obtain ⟨_, hrest⟩ := hOK
  cases hC : findC T sc f.yaml with
  | none => simp [hC] at hrest
  | some g =>
    simp only [hC, Bool.and_eq_true] at hrest
    refine ⟨g, rfl, hrest.1, ?_⟩
    intro y hy
    have hin := renderFs_mem T sh k x f hf hskip fs hmem
    refine decodeFs_mem T sc false f.yaml _ (g.go, y) _ hin ?_
    simp [decEntry, hC, hy]

end Pandora.Proofs.C16
