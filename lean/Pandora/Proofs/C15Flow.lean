/-
C15 — the code-level reading of `shootStep` / `shoot` (`Model/C15Flow.lean`) executed on the instruction lists of the
repository IS the hand-written `shootStep` / `shootLoop` the property theorems are proved for.
-/
import Pandora.Model.C15Flow
import Pandora.Proofs.C15Shoot

namespace Pandora.Proofs.C15
open Pandora.Model.C15

variable {Req Resp : Type}

/-- `vars` after the loop: the result of the postprocessor called last -/
def lastVars (w : World Req Resp) (resp : Resp) : List Nat → Option (List (String × Val)) → Option (List (String × Val))
  | [], v => v
  | p :: ps, _ => lastVars w resp ps (w.post p resp)

abbrev postBody : List POp := [.call, .chk, .merge, .rewind, .chk]

theorem runPostLoop_ok (w : World Req Resp) (resp : Resp) :
    ∀ (ps : List Nat) (s : SState Req Resp) (pv : List (String × Val)), s.resp = some resp → s.fresh = true →
      s.bodyRead = true → runPosts w resp ps s.postv = some pv →
      runPostLoop w postBody ps s =
        .go { s with postv := pv, err := (if ps.isEmpty then s.err else false), vars := lastVars w resp ps s.vars }
  | [], s, pv, _, _, _, h => by
    simp only [runPosts] at h
    cases h
    simp [runPostLoop, lastVars]
  | p :: ps, s, pv, hr, hf, hb, h => by
    simp only [runPosts] at h
    cases hp : w.post p resp with
    | none => rw [hp] at h; cases h
    | some vs =>
      rw [hp] at h
      simp only [runPostLoop, runPOps, hr, hf, hb, hp, Bool.not_true, Bool.or_self, Bool.false_eq_true, if_false,
        Option.getD_some]
      have ih := runPostLoop_ok w resp ps
        { s with err := false, vars := some vs, fresh := true,
                 postv := vs.foldl (fun a kv => setKey kv.1 kv.2 a) s.postv } pv hr rfl hb h
      simp only [hr, hb] at ih
      rw [ih]
      cases ps <;> simp [lastVars, hp]

theorem runPostLoop_fail (w : World Req Resp) (resp : Resp) :
    ∀ (ps : List Nat) (s : SState Req Resp), s.resp = some resp → s.fresh = true →
      s.bodyRead = true → runPosts w resp ps s.postv = none →
      ∃ s', runPostLoop w postBody ps s = .ret true s' ∧ s'.rv = s.rv ∧ s'.g = s.g
  | [], s, _, _, _, h => by simp [runPosts] at h
  | p :: ps, s, hr, hf, hb, h => by
    simp only [runPosts] at h
    cases hp : w.post p resp with
    | none =>
      simp only [runPostLoop, runPOps, hr, hf, hb, hp, Bool.not_true, Bool.or_self, Bool.false_eq_true, if_false, if_true]
      exact ⟨_, rfl, rfl, rfl⟩
    | some vs =>
      rw [hp] at h
      simp only [runPostLoop, runPOps, hr, hf, hb, hp, Bool.not_true, Bool.or_self, Bool.false_eq_true, if_false,
        Option.getD_some]
      obtain ⟨s', h1, h2, h3⟩ := runPostLoop_fail w resp ps
        { s with err := false, vars := some vs, fresh := true,
                 postv := vs.foldl (fun a kv => setKey kv.1 kv.2 a) s.postv } hr rfl hb h
      simp only [hr, hb] at h1
      exact ⟨s', h1, h2, h3⟩

/-- what the caller of the step's code sees -/
def out (f : Flow (SState Req Resp)) : Option (Bool × List (String × Val) × GState Req) :=
  match f with
  | .ret b s => some (b, s.rv, s.g)
  | _ => none

abbrev tailCode : List SOp := [.storePost, .setCode, .report, .pause]

/-- the state of the gun after a successful step: records, log -/
def okG (w : World Req Resp) (tag : String) (st : Step ReqDef) (resp : Resp) (pv postv : List (String × Val))
    (g : GState Req) : GState Req :=
  { g with recs := g.recs.dropLast ++ [{ name := st.req.name, pre := pv, post := some postv }],
           log := g.log ++ [.sample tag (w.code resp) false] ++ (if st.sleep > 0 then [.pause st.sleep] else []) }

theorem run_tail (w : World Req Resp) (source : Val) (tag : String) (st : Step ReqDef) (resp : Resp)
    (s : SState Req Resp) (hr : s.resp = some resp) :
    out (runSOps w source tag st tailCode s) =
      some (false, setKey st.req.name (.map (setKey "postprocessor" (.map s.postv) s.sv)) s.rv,
        okG w tag st resp (s.pv.getD []) s.postv s.g) := by
  simp only [runSOps, hr]
  by_cases hs : st.sleep > 0 <;> simp [hs, out, okG]

theorem run_posts (w : World Req Resp) (source : Val) (tag : String) (st : Step ReqDef) (resp : Resp)
    (s : SState Req Resp) (hr : s.resp = some resp) (hf : s.fresh = true) (hb : s.bodyRead = true) :
    out (runSOps w source tag st (.posts postBody :: tailCode) s) =
      match runPosts w resp st.req.posts [] with
      | none => some (true, s.rv, s.g)
      | some postv => some (false, setKey st.req.name (.map (setKey "postprocessor" (.map postv) s.sv)) s.rv,
          okG w tag st resp (s.pv.getD []) postv s.g) := by
  rw [runSOps]
  cases hp : runPosts w resp st.req.posts [] with
  | none =>
    obtain ⟨s', h1, h2, h3⟩ := runPostLoop_fail w resp st.req.posts { s with postv := [] } hr hf hb hp
    rw [h1]
    simp [out, h2, h3]
  | some postv =>
    rw [runPostLoop_ok w resp st.req.posts { s with postv := [] } postv hr hf hb hp]
    refine (run_tail w source tag st resp _ ?_).trans ?_
    · exact hr
    · rfl

theorem run_read (w : World Req Resp) (source : Val) (tag : String) (st : Step ReqDef) (resp : Resp)
    (s : SState Req Resp) (hr : s.resp = some resp) (hf : s.fresh = true) :
    out (runSOps w source tag st (.readBody :: .chk :: .posts postBody :: tailCode) s) =
      match runPosts w resp st.req.posts [] with
      | none => some (true, s.rv, s.g)
      | some postv => some (false, setKey st.req.name (.map (setKey "postprocessor" (.map postv) s.sv)) s.rv,
          okG w tag st resp (s.pv.getD []) postv s.g) := by
  rw [runSOps]
  simp only [hr]
  rw [runSOps]
  simp only [Bool.false_eq_true, if_false]
  refine (run_posts w source tag st resp _ ?_ ?_ ?_).trans ?_
  · rfl
  · exact hf
  · rfl
  · rfl

abbrev midCode : List SOp :=
  .template :: .chk :: .prepare :: .chk :: .send :: .chk :: .readBody :: .chk :: .posts postBody :: tailCode

/-- what the code from the templater on does, spelled out -/
def midOut (w : World Req Resp) (source : Val) (tag : String) (st : Step ReqDef) (rv sv : List (String × Val))
    (pv : List (String × Val)) (g : GState Req) : Option (Bool × List (String × Val) × GState Req) :=
  let t := tree source rv
  let g1 : GState Req := { g with seen := g.seen ++ [t], recs := g.recs ++ [{ name := st.req.name, pre := pv, post := none }] }
  match w.render st.req t with
  | none => some (true, rv, g1)
  | some q =>
    let g2 : GState Req := { g1 with hist := g1.hist ++ [q], log := g1.log ++ [.request q] }
    match w.target g2.hist with
    | none => some (true, rv, g2)
    | some resp =>
      match runPosts w resp st.req.posts [] with
      | none => some (true, rv, g2)
      | some postv => some (false, setKey st.req.name (.map (setKey "postprocessor" (.map postv) sv)) rv,
          okG w tag st resp pv postv g2)

theorem run_mid (w : World Req Resp) (source : Val) (tag : String) (st : Step ReqDef)
    (s : SState Req Resp) (hf : s.fresh = true) :
    out (runSOps w source tag st midCode s) = midOut w source tag st s.rv s.sv (s.pv.getD []) s.g := by
  unfold midOut
  rw [runSOps]
  cases hq : w.render st.req (tree source s.rv) with
  | none =>
    simp only []
    rw [runSOps]
    simp [out, hq]
  | some q =>
    simp only []
    rw [runSOps]
    simp only [Bool.false_eq_true, if_false]
    rw [runSOps]
    simp only []
    rw [runSOps]
    simp only [Bool.false_eq_true, if_false]
    rw [runSOps]
    simp only [Bool.not_true, Bool.false_eq_true, if_false]
    cases ht : w.target (s.g.hist ++ [q]) with
    | none =>
      simp only []
      rw [runSOps]
      simp [out, hq, ht]
    | some resp =>
      simp only []
      rw [runSOps]
      simp only [Bool.false_eq_true, if_false]
      refine (run_read w source tag st resp _ ?_ ?_).trans ?_
      · rfl
      · exact hf
      · simp only [hq, ht]


theorem stepCode_split : stepCode = .initVars :: .pre :: .chk :: .storePre :: midCode := rfl

/-- the preprocessor stage as `shootStep` writes it -/
def preRes (w : World Req Resp) (source : Val) (st : Step ReqDef) (rv : List (String × Val)) (it : Iter) :
    Outcome (List (String × Val) × Iter) :=
  match st.req.pre with
  | none => .ok ([], it)
  | some m => runPre w.fn (tree source (setKey st.req.name (.map []) rv)) st.req.iter m [] it

theorem run_head (w : World Req Resp) (source : Val) (tag : String) (st : Step ReqDef)
    (rv : List (String × Val)) (g : GState Req) :
    out (runSOps w source tag st stepCode { rv, g }) =
      match preRes w source st rv g.iter with
      | .panic _ => none
      | .err _ => some (true, setKey st.req.name (.map []) rv, g)
      | .ok (pv, it') =>
        midOut w source tag st (setKey st.req.name (.map [("preprocessor", .map pv)]) (setKey st.req.name (.map []) rv))
          [("preprocessor", .map pv)] pv { g with iter := it' } := by
  rw [stepCode_split, runSOps, runSOps]
  show out (match preRes w source st rv g.iter with
    | .panic _ => .undef
    | .err _ => _
    | .ok (pv, it') => _) = _
  cases preRes w source st rv g.iter with
  | panic p => rfl
  | err e =>
    simp only []
    rw [runSOps]
    simp [out]
  | ok r =>
    obtain ⟨pv, it'⟩ := r
    simp only []
    rw [runSOps]
    simp only [Bool.false_eq_true, if_false]
    rw [runSOps]
    refine (run_mid w source tag st _ ?_).trans ?_
    · rfl
    · simp [setKey]

theorem runStepCode_out (w : World Req Resp) (source : Val) (scName : String) (code : List SOp) (st : Step ReqDef)
    (rv : List (String × Val)) (g : GState Req) :
    runStepCode w source scName code onStepErr st rv g =
      (out (runSOps w source (scName ++ "." ++ st.req.name) st code { rv, g })).map fun r =>
        if r.1 then (false, true, r.2.1,
          { r.2.2 with log := r.2.2.log ++ [.sample (failTag (scName ++ "." ++ st.req.name)) 0 true] })
        else (true, false, r.2.1, r.2.2) := by
  unfold runStepCode
  simp only []
  cases runSOps w source (scName ++ "." ++ st.req.name) st code { rv, g } with
  | go s => rfl
  | undef => rfl
  | ret f s => cases f <;> simp [out, onStepErr]

/-- after the preprocessor stage: templating, transport, extractors — the same case distinction on both sides -/
macro "c15_after_pre" w:ident st:ident g:ident pv:term : tactic => `(tactic| (
  try simp only []
  cases ($w).render ($st).req (tree _ (setKey ($st).req.name (Val.map [("preprocessor", Val.map $pv)])
      (setKey ($st).req.name (Val.map []) _))) with
  | none => rfl
  | some q =>
    simp only []
    cases ($w).target (($g).hist ++ [q]) with
    | none => rfl
    | some resp =>
      simp only []
      cases runPosts $w resp ($st).req.posts [] with
      | none => rfl
      | some postv => simp [okG, setKey]))

theorem runStepCode_eq (w : World Req Resp) (source : Val) (scName : String) (st : Step ReqDef)
    (rv : List (String × Val)) (g : GState Req) :
    runStepCode w source scName stepCode onStepErr st rv g =
      (shootStep w source scName st rv g).map fun r => (r.1, !r.1, r.2.1, r.2.2) := by
  rw [runStepCode_out, run_head]
  unfold shootStep preRes midOut
  simp only []
  cases hp : st.req.pre with
  | none =>
    c15_after_pre w st g ([] : List (String × Val))
  | some m =>
    simp only []
    generalize runPre w.fn (tree source (setKey st.req.name (Val.map []) rv)) st.req.iter m [] g.iter = pre
    cases pre with
    | panic p => rfl
    | err e => rfl
    | ok r =>
      obtain ⟨pv, it'⟩ := r
      c15_after_pre w st g pv


/-- **the loop of `shoot`, interpreted on the code of the repository, is the model's `shootLoop`** -/
theorem runShootCode_eq (w : World Req Resp) (source : Val) (scName : String) :
    ∀ (steps : List (Step ReqDef)) (rv : List (String × Val)) (g : GState Req),
      runShootCode w source scName stepCode onStepErr steps rv g true = shootLoop w source scName steps rv g
  | [], rv, g => rfl
  | st :: rest, rv, g => by
    rw [runShootCode, shootLoop, runStepCode_eq]
    cases hs : shootStep w source scName st rv g with
    | none => rfl
    | some r =>
      obtain ⟨b, rv', g'⟩ := r
      cases b
      · rfl
      · simp only [Option.map_some, Bool.not_true]
        exact runShootCode_eq w source scName rest rv' g'

end Pandora.Proofs.C15
