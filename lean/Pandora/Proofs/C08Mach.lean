/-
C08: the small-step provider machines of `Model.C08Mach` stay on the cyclic stream of the file's entries.

`Good inp n k s` — `s` is a loop state of `Provider.Run` of `inp.kind` over the file 0..n-1 in which exactly `k`
ammo have been sent.  `good_step`: from such a state one iteration either
  * offers entry `k % n` (only while every bound still allows a further ammo) and goes on in a state that is Good for `k+1`,
  * returns nil — only when `k` IS the bound `min⁺(limit, passes·n)` — or context.Canceled — only when it read a
    cancelled context,
  * or makes one of at most `tauBudget` sendless steps (LoadAmmo; the end-of-file wrap of grpc/json).
-/
import Pandora.Model.C08Mach
import Pandora.Proofs.C08Run

namespace Pandora.Proofs.C08
open Pandora.Model.C08

/-- the first `m` entries of the file 0,1,…,n-1 read over and over -/
def cycl (n m : Nat) : List Nat := (List.range m).map (· % n)

theorem cycl_succ (n m : Nat) : cycl n (m + 1) = cycl n m ++ [m % n] := by
  simp [cycl, List.range_succ]

@[simp] theorem length_cycl (n m : Nat) : (cycl n m).length = m := by simp [cycl]

@[simp] theorem cycl_zero (n : Nat) : cycl n 0 = [] := by simp [cycl]

/-- `k` sent ammo are within every bound that is present -/
def Below (b : Bounds) (n k : Nat) : Prop := (b.limit = 0 ∨ k ≤ b.limit) ∧ (b.passes = 0 ∨ k ≤ b.passes * n)

/-- … and every bound that is present allows one more -/
def Strict (b : Bounds) (n k : Nat) : Prop := (b.limit = 0 ∨ k < b.limit) ∧ (b.passes = 0 ∨ k < b.passes * n)

/-- `k = min⁺(limit, passes·n)` -/
def AtBound (b : Bounds) (n k : Nat) : Prop :=
  Below b n k ∧ ((b.limit ≠ 0 ∧ k = b.limit) ∨ (b.passes ≠ 0 ∧ k = b.passes * n))

theorem Strict.below_succ {b : Bounds} {n k : Nat} (h : Strict b n k) : Below b n (k + 1) :=
  ⟨h.1.imp id (by omega), h.2.imp id (by omega)⟩

theorem Strict.not_atBound {b : Bounds} {n k : Nat} (h : Strict b n k) : ¬ AtBound b n k := by
  intro ⟨_, h2⟩
  rcases h2 with ⟨h0, h1⟩ | ⟨h0, h1⟩
  · rcases h.1 with h | h <;> omega
  · rcases h.2 with h | h <;> omega

theorem atBound_unique {b : Bounds} {n k k' : Nat} (h : AtBound b n k) (h' : AtBound b n k') : k = k' := by
  obtain ⟨⟨b1, b2⟩, h2⟩ := h
  obtain ⟨⟨b1', b2'⟩, h2'⟩ := h'
  rcases h2 with ⟨h0, h1⟩ | ⟨h0, h1⟩ <;> rcases h2' with ⟨h0', h1'⟩ | ⟨h0', h1'⟩ <;> omega

theorem below_of_atBound_le {b : Bounds} {n k m : Nat} (hm : AtBound b n m) (h : k ≤ m) : Below b n k :=
  ⟨hm.1.1.imp id (by omega), hm.1.2.imp id (by omega)⟩

/-- `Model.C08.target … none` is the bound -/
theorem atBound_of_target (b : Bounds) (n m : Nat) (hn : 0 < n) (h : target b.limit b.passes n none = some m) :
    AtBound b n m := by
  have tg := tgt_of_target b.limit b.passes n none m hn h
  refine ⟨⟨?_, ?_⟩, ?_⟩
  · by_cases h0 : b.limit = 0
    · exact Or.inl h0
    · exact Or.inr (tg.le_limit h0)
  · by_cases h0 : b.passes = 0
    · exact Or.inl h0
    · exact Or.inr (tg.le_pass h0)
  · rcases tg.attained with h1 | h1 | h1
    · exact Or.inl h1
    · exact Or.inr h1
    · simp at h1

theorem target_none_iff (b : Bounds) (n : Nat) : target b.limit b.passes n none = none ↔ b.limit = 0 ∧ b.passes = 0 := by
  unfold target
  by_cases h : b.limit = 0 ∧ b.passes = 0 <;> simp [h]

theorem no_atBound_of_unbounded {b : Bounds} {n k : Nat} (h : b.limit = 0 ∧ b.passes = 0) : ¬ AtBound b n k := by
  intro ⟨_, h2⟩
  rcases h2 with ⟨h0, _⟩ | ⟨h0, _⟩ <;> omega

/-! ## runFullScan over any decoder that is a `Src` -/

theorem mod_of_qr (q n r : Nat) (hr : r < n) : (q * n + r) % n = r := by
  rw [Nat.mul_comm, Nat.mul_add_mod]; exact Nat.mod_eq_of_lt hr

theorem mod_of_qn (q n : Nat) : (q * n + n) % n = 0 := by
  rw [Nat.mul_comm, Nat.mul_add_mod]; exact Nat.mod_self n

theorem mul_succ_le {q p n : Nat} (h : q + 1 ≤ p) : q * n + n ≤ p * n := by
  have := Nat.mul_le_mul_right n h
  rw [Nat.add_mul, Nat.one_mul] at this
  exact this

section stream
variable {σ : Type} (scan : σ → ScanRes × σ) (passNum : σ → Nat) (R : Nat → Nat → σ → Prop)
  (n : Nat) (b : Bounds) (hn : 0 < n) (src : Src scan n b.passes R) (hpn : ∀ s, R 0 0 s → passNum s = 0)

include hn src hpn in
theorem streamStep_ret (c : Bool) (d : σ) (k q r : Nat) (hR : R q r d) (hr : r ≤ n) (hk : k = q * n + r)
    (hq : b.passes = 0 ∨ q < b.passes) (hl : b.limit = 0 ∨ k ≤ b.limit) (res : RunRes)
    (h : streamStep scan passNum b.limit c d k = .ret res) :
    (res = .nil ∧ AtBound b n k) ∨ (c = true ∧ res = .canceled) := by
  have hkp : b.passes = 0 ∨ k ≤ b.passes * n := by
    rcases hq with h0 | h0
    · exact Or.inl h0
    · right; have := mul_succ_le (n := n) (show q + 1 ≤ b.passes by omega); omega
  unfold streamStep at h
  by_cases hc : c = true
  · simp [hc] at h; exact Or.inr ⟨hc, h.symm⟩
  · simp only [hc, Bool.false_eq_true, if_false] at h
    by_cases hlim : b.limit ≠ 0 ∧ b.limit ≤ k
    · rw [if_pos hlim] at h
      cases h
      left
      exact ⟨rfl, ⟨hl, hkp⟩, Or.inl ⟨hlim.1, by omega⟩⟩
    · rw [if_neg hlim] at h
      have hk0 : ¬ (k = 0 ∧ 0 < passNum d) := by
        intro ⟨h0, h1⟩
        have hq0 : q = 0 := by
          cases q with
          | zero => rfl
          | succ q => rw [Nat.succ_mul] at hk; omega
        have hr0 : r = 0 := by rw [hq0] at hk; omega
        rw [hq0, hr0] at hR
        have := hpn d hR; omega
      rw [if_neg hk0] at h
      by_cases hrn : r < n
      · obtain ⟨s', hs, _⟩ := src.next q r d hR hrn hq
        rw [hs] at h; cases h
      · have hrn' : r = n := by omega
        rw [hrn'] at hR hk
        by_cases hw : b.passes = 0 ∨ q + 1 < b.passes
        · obtain ⟨s', hs, _⟩ := src.wrap q d hR hw
          rw [hs] at h; cases h
        · have hp0 : b.passes ≠ 0 := by omega
          have hp1 : b.passes ≤ q + 1 := by omega
          obtain ⟨s', hs⟩ := src.stop q d hR hp0 hp1
          rw [hs] at h
          simp only at h
          have hkpos : k ≠ 0 := by omega
          rw [if_neg hkpos] at h
          cases h
          left
          have hpq : b.passes = q + 1 := by omega
          refine ⟨rfl, ⟨hl, hkp⟩, Or.inr ⟨hp0, ?_⟩⟩
          rw [hk, hpq, Nat.succ_mul]

include hn src in
theorem streamStep_offer (c : Bool) (d : σ) (k q r : Nat) (hR : R q r d) (hr : r ≤ n) (hk : k = q * n + r)
    (hq : b.passes = 0 ∨ q < b.passes) (i : Nat) (p : σ × Nat)
    (h : streamStep scan passNum b.limit c d k = .offer i p) :
    i = k % n ∧ Strict b n k ∧ p.2 = k + 1 ∧
      ∃ q' r', R q' r' p.1 ∧ r' ≤ n ∧ k + 1 = q' * n + r' ∧ (b.passes = 0 ∨ q' < b.passes) := by
  unfold streamStep at h
  by_cases hc : c = true
  · simp [hc] at h
  · simp only [hc, Bool.false_eq_true, if_false] at h
    by_cases hlim : b.limit ≠ 0 ∧ b.limit ≤ k
    · rw [if_pos hlim] at h; cases h
    · rw [if_neg hlim] at h
      have hls : b.limit = 0 ∨ k < b.limit := by omega
      by_cases hk0 : k = 0 ∧ 0 < passNum d
      · rw [if_pos hk0] at h; cases h
      · rw [if_neg hk0] at h
        by_cases hrn : r < n
        · obtain ⟨s', hs, hR'⟩ := src.next q r d hR hrn hq
          rw [hs] at h
          simp only [Act.offer.injEq] at h
          obtain ⟨hi, hp⟩ := h
          subst hp
          refine ⟨?_, ⟨hls, ?_⟩, rfl, q, r + 1, hR', by omega, by omega, hq⟩
          · rw [← hi, hk, mod_of_qr q n r hrn]
          · rcases hq with h0 | h0
            · exact Or.inl h0
            · right; have := mul_succ_le (n := n) (show q + 1 ≤ b.passes by omega); omega
        · have hrn' : r = n := by omega
          rw [hrn'] at hR hk
          by_cases hw : b.passes = 0 ∨ q + 1 < b.passes
          · obtain ⟨s', hs, hR'⟩ := src.wrap q d hR hw
            rw [hs] at h
            simp only [Act.offer.injEq] at h
            obtain ⟨hi, hp⟩ := h
            subst hp
            refine ⟨?_, ⟨hls, ?_⟩, rfl, q + 1, 1, hR', by omega, ?_, by omega⟩
            · rw [← hi, hk, mod_of_qn q n]
            · rcases hw with h0 | h0
              · exact Or.inl h0
              · right; have := mul_succ_le (n := n) (show q + 1 + 1 ≤ b.passes by omega)
                rw [Nat.succ_mul] at this; omega
            · rw [hk, Nat.succ_mul]
          · have hp0 : b.passes ≠ 0 := by omega
            have hp1 : b.passes ≤ q + 1 := by omega
            obtain ⟨s', hs⟩ := src.stop q d hR hp0 hp1
            rw [hs] at h; cases h

theorem streamStep_no_tau (limit : Nat) (c : Bool) (d : σ) (k : Nat) (p : σ × Nat) :
    streamStep scan passNum limit c d k ≠ .tau p := by
  unfold streamStep
  intro h
  split at h
  · cases h
  · split at h
    · cases h
    · split at h
      · cases h
      · split at h <;> cases h

theorem streamStep_true (limit : Nat) (d : σ) (k : Nat) : streamStep scan passNum limit true d k = .ret .canceled := by
  simp [streamStep]

end stream

theorem RStream_pass0 (n : Nat) (d : Dec) (h : RStream n 0 0 d) : d.passNumOf = 0 := by
  simp [RStream] at h; simp [Dec.passNumOf, h.2.1]

theorem RArr_pass0 (n : Nat) (hn : 0 < n) (d : ArrDec) (h : RArr n 0 0 d) : d.passNumOf = 0 := by
  simp [RArr] at h
  have : ¬ 0 = n := by omega
  simp [ArrDec.passNumOf, h.2, this]

theorem RStream_le {n q r : Nat} {d : Dec} (h : RStream n q r d) : r ≤ n := h.2.2.2
theorem RArr_le {n q r : Nat} {d : ArrDec} (h : RArr n q r d) : r ≤ n := h.2.1

theorem src_style (k : Kind) (n passes : Nat) (hn : 0 < n) :
    Src (scanStream (styleOf k) ⟨0, passes⟩ n) n passes (RStream n) := by
  cases k <;> simp only [styleOf]
  all_goals first | exact src_eofCheck n passes hn | exact src_topCheck n passes hn

/-! ## LoadAmmo -/

theorem loadOf_ok (k : Kind) (n : Nat) (hn : 0 < n) : loadOf k n = some (.ok (List.range n)) := by
  have hlen : (List.range n).length = n := List.length_range
  have hs : ∀ st : Style, loadAmmo (fun b => scanStream st b n) (List.range n) (n + 2) Dec.init [] = some (.ok (List.range n)) := by
    intro st
    have src : Src (scanStream st ⟨0, 1⟩ n) (List.range n).length 1 (RStream n) := by
      rw [hlen]
      cases st
      · exact src_eofCheck n 1 hn
      · exact src_topCheck n 1 hn
    have h := loadAmmo_spec (fun b => scanStream st b n) (RStream n) (List.range n) src (n + 2) 0 Dec.init
      (RStream_init n) (by omega) (by rw [hlen]; omega)
    simpa using h
  have ha : loadAmmo (fun b => scanArr b n) (List.range n) (n + 2) ArrDec.init [] = some (.ok (List.range n)) := by
    have src : Src (scanArr ⟨0, 1⟩ n) (List.range n).length 1 (RArr n) := by rw [hlen]; exact src_arr n 1 hn
    have h := loadAmmo_spec (fun b => scanArr b n) (RArr n) (List.range n) src (n + 2) 0 ArrDec.init
      (RArr_init n hn) (by omega) (by rw [hlen]; omega)
    simpa using h
  cases k <;> simp only [loadOf] <;> first | exact hs _ | exact ha

/-! ## the invariant -/

def isStreamKind : Kind → Bool
  | .uri | .uripost | .raw | .jsonLines => true
  | _ => false

def isScenario : Kind → Bool
  | .httpScenario | .grpcScenario => true
  | _ => false

/-- loop state of `inp.kind` after exactly `k` sends -/
def Good (inp : Input) (n k : Nat) : PSt → Prop
  | .stream d a => a = k ∧ isStreamKind inp.kind = true ∧
      ∃ q r, RStream n q r d ∧ k = q * n + r ∧ (inp.b.passes = 0 ∨ q < inp.b.passes)
  | .arr d a => a = k ∧ inp.kind = .jsonArray ∧
      ∃ q r, RArr n q r d ∧ k = q * n + r ∧ (inp.b.passes = 0 ∨ q < inp.b.passes)
  | .unloaded => k = 0 ∧ inp.kind.isHttp = true
  | .replay ammos a => a = k ∧ ammos = List.range n ∧ (inp.kind.isHttp = true ∨ isScenario inp.kind = true)
  | .grpc s => inp.kind = .grpcJson ∧ s.ammoNum = k ∧ s.pos ≤ n ∧ 1 ≤ s.passNum ∧ k = (s.passNum - 1) * n + s.pos ∧
      (inp.b.passes = 0 ∨ s.passNum ≤ inp.b.passes)
  | .gen a r ps => inp.kind = .genericJson ∧ a = k ∧ r.pos ≤ n ∧ k = r.passesCount * n + r.pos ∧
      (inp.b.passes = 0 ∨ r.passesCount < inp.b.passes) ∧ ps = r.passesCount * n

/-- sendless iterations that may follow before the next offer / return -/
def tauBudget (n : Nat) : PSt → Nat
  | .unloaded => 1
  | .grpc s => if s.pos < n then 0 else 1
  | _ => 0

theorem good_init (inp : Input) (n : Nat) (hn : 0 < n) : Good inp n 0 (initSt inp n) := by
  unfold initSt
  cases hk : inp.kind <;> cases hp : inp.preload <;>
    simp [Good, hk, isStreamKind, isScenario, Kind.isHttp, GrpcSt.init, Mpr.init]
  all_goals first
    | exact ⟨0, 0, RStream_init n, by simp, by omega⟩
    | exact ⟨0, 0, RArr_init n hn, by simp, by omega⟩
    | omega

theorem below_zero (b : Bounds) (n : Nat) : Below b n 0 := ⟨by omega, by omega⟩

/-! ## one iteration from a Good state -/

section lift
variable {σ τ : Type} {f : σ → τ} {x : Act σ}

theorem liftAct_ret {r : RunRes} : liftAct f x = .ret r ↔ x = .ret r := by
  cases x <;> simp [liftAct]

theorem liftAct_offer {i : Nat} {t : τ} : liftAct f x = .offer i t ↔ ∃ p, x = .offer i p ∧ t = f p := by
  cases x with
  | ret r => simp [liftAct]
  | offer j p =>
    simp only [liftAct, Act.offer.injEq]
    constructor
    · rintro ⟨rfl, rfl⟩; exact ⟨p, ⟨rfl, rfl⟩, rfl⟩
    · rintro ⟨p', ⟨rfl, rfl⟩, rfl⟩; exact ⟨rfl, rfl⟩
  | tau p => simp [liftAct]

theorem liftAct_tau {t : τ} : liftAct f x = .tau t ↔ ∃ p, x = .tau p ∧ t = f p := by
  cases x with
  | ret r => simp [liftAct]
  | offer j p => simp [liftAct]
  | tau p =>
    simp only [liftAct, Act.tau.injEq]
    constructor
    · rintro rfl; exact ⟨p, rfl, rfl⟩
    · rintro ⟨p', rfl, rfl⟩; rfl
end lift

/-- what one iteration does from a state in which `k` ammo have been sent -/
structure StepOk (inp : Input) (n : Nat) (c : Bool) (k : Nat) (s : PSt) : Prop where
  ret : ∀ r, stepOf inp n c s = .ret r → (r = .nil ∧ AtBound inp.b n k) ∨ (c = true ∧ r = .canceled)
  offer : ∀ i s', stepOf inp n c s = .offer i s' → i = k % n ∧ Strict inp.b n k ∧ Good inp n (k + 1) s'
  tau : ∀ s', stepOf inp n c s = .tau s' → Good inp n k s' ∧ tauBudget n s' < tauBudget n s

theorem good_step_stream (inp : Input) (n : Nat) (hn : 0 < n) (c : Bool) (k : Nat) (d : Dec) (a : Nat)
    (hg : Good inp n k (.stream d a)) (hb : Below inp.b n k) : StepOk inp n c k (.stream d a) := by
  obtain ⟨rfl, hkind, q, r, hR, hk, hq⟩ := hg
  have src := src_style inp.kind n inp.b.passes hn
  have hpn : ∀ s, RStream n 0 0 s → Dec.passNumOf s = 0 := RStream_pass0 n
  refine ⟨?_, ?_, ?_⟩
  · intro res h
    simp only [stepOf, liftAct_ret] at h
    exact streamStep_ret _ _ (RStream n) n inp.b hn src hpn c d a q r hR (RStream_le hR) hk hq hb.1 res h
  · intro i s' h
    simp only [stepOf, liftAct_offer] at h
    obtain ⟨p, h, rfl⟩ := h
    obtain ⟨h1, h2, h3, q', r', hR', _, hk', hq'⟩ :=
      streamStep_offer _ _ (RStream n) n inp.b hn src c d a q r hR (RStream_le hR) hk hq i p h
    exact ⟨h1, h2, h3, hkind, q', r', hR', hk', hq'⟩
  · intro s' h
    simp only [stepOf, liftAct_tau] at h
    obtain ⟨p, h, _⟩ := h
    exact absurd h (streamStep_no_tau _ _ _ _ _ _ _)

theorem good_step_arr (inp : Input) (n : Nat) (hn : 0 < n) (c : Bool) (k : Nat) (d : ArrDec) (a : Nat)
    (hg : Good inp n k (.arr d a)) (hb : Below inp.b n k) : StepOk inp n c k (.arr d a) := by
  obtain ⟨rfl, hkind, q, r, hR, hk, hq⟩ := hg
  have src := src_arr n inp.b.passes hn
  have hpn : ∀ s, RArr n 0 0 s → ArrDec.passNumOf s = 0 := RArr_pass0 n hn
  refine ⟨?_, ?_, ?_⟩
  · intro res h
    simp only [stepOf, liftAct_ret] at h
    exact streamStep_ret _ _ (RArr n) n inp.b hn src hpn c d a q r hR (RArr_le hR) hk hq hb.1 res h
  · intro i s' h
    simp only [stepOf, liftAct_offer] at h
    obtain ⟨p, h, rfl⟩ := h
    obtain ⟨h1, h2, h3, q', r', hR', _, hk', hq'⟩ :=
      streamStep_offer _ _ (RArr n) n inp.b hn src c d a q r hR (RArr_le hR) hk hq i p h
    exact ⟨h1, h2, h3, hkind, q', r', hR', hk', hq'⟩
  · intro s' h
    simp only [stepOf, liftAct_tau] at h
    obtain ⟨p, h, _⟩ := h
    exact absurd h (streamStep_no_tau _ _ _ _ _ _ _)

theorem good_step_unloaded (inp : Input) (n : Nat) (hn : 0 < n) (c : Bool) (k : Nat)
    (hg : Good inp n k .unloaded) : StepOk inp n c k .unloaded := by
  obtain ⟨rfl, hkind⟩ := hg
  have hlen : (List.range n).length ≠ 0 := by rw [List.length_range]; omega
  refine ⟨?_, ?_, ?_⟩
  · intro res h
    simp only [stepOf, loadOf_ok inp.kind n hn] at h
    split at h
    · rename_i hc
      cases h
      exact Or.inr ⟨hc.1, rfl⟩
    · cases h
  · intro i s' h
    simp only [stepOf, loadOf_ok inp.kind n hn] at h
    split at h
    · cases h
    · cases h
  · intro s' h
    simp only [stepOf, loadOf_ok inp.kind n hn] at h
    split at h
    · cases h
    · cases h
      exact ⟨⟨rfl, rfl, Or.inl hkind⟩, by simp [tauBudget]⟩

theorem good_step_replay (inp : Input) (n : Nat) (hn : 0 < n) (c : Bool) (k : Nat) (ammos : List Nat) (a : Nat)
    (hg : Good inp n k (.replay ammos a)) (hb : Below inp.b n k) : StepOk inp n c k (.replay ammos a) := by
  obtain ⟨rfl, rfl, hkind⟩ := hg
  have hlen : (List.range n).length = n := List.length_range
  have hget : (List.range n)[a % n]? = some (a % n) := by
    simp [Nat.mod_lt _ hn]
  refine ⟨?_, ?_, ?_⟩
  · intro res h
    simp only [stepOf, liftAct_ret, replayStep, hlen, hget] at h
    split at h
    · rename_i hc; cases h; exact Or.inr ⟨hc, rfl⟩
    · split at h
      · rename_i hp
        cases h
        have : inp.b.passes * n ≤ a := (Nat.le_div_iff_mul_le hn).mp hp.2
        refine Or.inl ⟨rfl, hb, Or.inr ⟨hp.1, ?_⟩⟩
        rcases hb.2 with h0 | h0
        · exact absurd h0 hp.1
        · omega
      · split at h
        · rename_i hl
          cases h
          refine Or.inl ⟨rfl, hb, Or.inl ⟨hl.1, ?_⟩⟩
          rcases hb.1 with h0 | h0
          · exact absurd h0 hl.1
          · omega
        · cases h
  · intro i s' h
    simp only [stepOf, liftAct_offer, replayStep, hlen, hget] at h
    obtain ⟨p, h, rfl⟩ := h
    split at h
    · cases h
    · split at h
      · cases h
      · rename_i hp
        split at h
        · cases h
        · rename_i hl
          simp only [Act.offer.injEq] at h
          obtain ⟨rfl, rfl⟩ := h
          refine ⟨rfl, ⟨by omega, ?_⟩, rfl, rfl, hkind⟩
          by_cases h0 : inp.b.passes = 0
          · exact Or.inl h0
          · right
            have : a / n < inp.b.passes := by omega
            exact (Nat.div_lt_iff_lt_mul hn).mp this
  · intro s' h
    simp only [stepOf, liftAct_tau, replayStep, hlen, hget] at h
    obtain ⟨p, h, _⟩ := h
    split at h
    · cases h
    · split at h
      · cases h
      · split at h <;> cases h

theorem pred_mul_add (p n : Nat) (hp : 1 ≤ p) : (p - 1) * n + n = p * n := by
  obtain ⟨q, rfl⟩ : ∃ q, p = q + 1 := ⟨p - 1, by omega⟩
  simp [Nat.succ_mul]

theorem good_step_grpc (inp : Input) (n : Nat) (hn : 0 < n) (c : Bool) (k : Nat) (g : GrpcSt)
    (hg : Good inp n k (.grpc g)) (hb : Below inp.b n k) : StepOk inp n c k (.grpc g) := by
  obtain ⟨hkind, hk, hpos, hpn, hkq, hq⟩ := hg
  have hfull := pred_mul_add g.passNum n hpn
  refine ⟨?_, ?_, ?_⟩
  · intro res h
    simp only [stepOf, liftAct_ret, grpcStep] at h
    split at h
    · cases h
    · rename_i hcond
      split at h
      · rename_i hl
        cases h
        refine Or.inl ⟨rfl, hb, Or.inl ⟨hl.1, ?_⟩⟩
        rcases hb.1 with h0 | h0
        · exact absurd h0 hl.1
        · omega
      · rename_i hl
        have hposn : g.pos = n := by
          by_cases hlt : g.pos < n
          · exfalso; apply hcond; refine ⟨hlt, ?_⟩; omega
          · omega
        split at h
        · rename_i hp
          cases h
          refine Or.inl ⟨rfl, hb, Or.inr ⟨hp.1, ?_⟩⟩
          have hpe : g.passNum = inp.b.passes := by
            rcases hq with h0 | h0
            · exact absurd h0 hp.1
            · omega
          rw [hkq, hposn, hfull, hpe]
        · split at h
          · rename_i h0
            exfalso; rw [hposn] at hkq; omega
          · cases h
  · intro i s' h
    simp only [stepOf, liftAct_offer, grpcStep] at h
    obtain ⟨p, h, rfl⟩ := h
    split at h
    · rename_i hcond
      simp only [Act.offer.injEq] at h
      obtain ⟨rfl, rfl⟩ := h
      refine ⟨?_, ⟨by omega, ?_⟩, hkind, by simp [hk], by simp; omega, by simpa using hpn, by simp; omega, by simpa using hq⟩
      · rw [hkq, mod_of_qr _ n _ hcond.1]
      · rcases hq with h0 | h0
        · exact Or.inl h0
        · right
          have := Nat.mul_le_mul_right n h0
          omega
    · split at h
      · cases h
      · split at h
        · cases h
        · split at h <;> cases h
  · intro s' h
    simp only [stepOf, liftAct_tau, grpcStep] at h
    obtain ⟨p, h, rfl⟩ := h
    split at h
    · cases h
    · rename_i hcond
      split at h
      · cases h
      · rename_i hl
        have hposn : g.pos = n := by
          by_cases hlt : g.pos < n
          · exfalso; apply hcond; refine ⟨hlt, ?_⟩; omega
          · omega
        split at h
        · cases h
        · rename_i hp
          split at h
          · cases h
          · simp only [Act.tau.injEq] at h
            subst h
            refine ⟨⟨hkind, by simpa using hk, by simp, by simp, ?_, ?_⟩, ?_⟩
            · simp; rw [hkq, hposn, hfull]
            · simp; omega
            · simp [tauBudget, hn, hposn]

theorem good_step_gen (inp : Input) (n : Nat) (hn : 0 < n) (c : Bool) (k : Nat) (a : Nat) (r : Mpr) (ps : Nat)
    (hg : Good inp n k (.gen a r ps)) (hb : Below inp.b n k) : StepOk inp n c k (.gen a r ps) := by
  obtain ⟨hkind, rfl, hpos, hkq, hq, hps⟩ := hg
  have hn0 : n ≠ 0 := by omega
  -- the three possible results of decodeNextNow from this reader state
  have hdec : (r.pos < n ∧ decodeNextNow inp.b.passes n a 2 r ps = (.entry r.pos, { r with pos := r.pos + 1 }, ps)) ∨
      (r.pos = n ∧ (inp.b.passes = 0 ∨ r.passesCount + 1 < inp.b.passes) ∧
        decodeNextNow inp.b.passes n a 2 r ps = (.entry 0, { pos := 1, passesCount := r.passesCount + 1 }, a)) ∨
      (r.pos = n ∧ inp.b.passes ≠ 0 ∧ inp.b.passes = r.passesCount + 1 ∧
        ∃ r' ps', decodeNextNow inp.b.passes n a 2 r ps = (.eof, r', ps')) := by
    by_cases hlt : r.pos < n
    · left; exact ⟨hlt, by simp [decodeNextNow, hlt]⟩
    · have hpn : r.pos = n := by omega
      have hprog : a > ps := by rw [hkq, hps, hpn]; omega
      right
      by_cases hw : inp.b.passes = 0 ∨ r.passesCount + 1 < inp.b.passes
      · left
        refine ⟨hpn, hw, ?_⟩
        have h1 : inp.b.passes ≠ 1 := by omega
        simp [decodeNextNow, hlt, h1, hw, hn, hn0, hprog]
      · right
        have hp0 : inp.b.passes ≠ 0 := by omega
        have hpe : inp.b.passes = r.passesCount + 1 := by omega
        refine ⟨hpn, hp0, hpe, ?_⟩
        by_cases h1 : inp.b.passes = 1
        · exact ⟨r, ps, by simp [decodeNextNow, hlt, h1]⟩
        · exact ⟨{ r with passesCount := r.passesCount + 1 }, a, by simp [decodeNextNow, hlt, h1, hw, hn0, hprog]⟩
  refine ⟨?_, ?_, ?_⟩
  · intro res h
    simp only [stepOf, liftAct_ret, genStep] at h
    split at h
    · rename_i hl
      cases h
      refine Or.inl ⟨rfl, hb, Or.inl ⟨by omega, ?_⟩⟩
      rcases hb.1 with h0 | h0 <;> omega
    · rcases hdec with ⟨_, hd⟩ | ⟨_, _, hd⟩ | ⟨hpn, hp0, hpe, r', ps', hd⟩
      · rw [hd] at h; cases h
      · rw [hd] at h; cases h
      · rw [hd] at h
        cases h
        refine Or.inl ⟨rfl, hb, Or.inr ⟨hp0, ?_⟩⟩
        rw [hkq, hpn, hpe, Nat.succ_mul]
  · intro i s' h
    simp only [stepOf, liftAct_offer, genStep] at h
    obtain ⟨p, h, rfl⟩ := h
    split at h
    · cases h
    · rename_i hl
      have hls : inp.b.limit = 0 ∨ a < inp.b.limit := by omega
      rcases hdec with ⟨hlt, hd⟩ | ⟨hpn, hw, hd⟩ | ⟨_, _, _, r', ps', hd⟩
      · rw [hd] at h
        simp only [Act.offer.injEq] at h
        obtain ⟨rfl, rfl⟩ := h
        refine ⟨by rw [hkq, mod_of_qr _ n _ hlt], ⟨hls, ?_⟩, hkind, rfl, by simp; omega, by simp; omega, by simpa using hq, by simpa using hps⟩
        rcases hq with h0 | h0
        · exact Or.inl h0
        · right; have := mul_succ_le (n := n) (show r.passesCount + 1 ≤ inp.b.passes by omega); omega
      · rw [hd] at h
        simp only [Act.offer.injEq] at h
        obtain ⟨rfl, rfl⟩ := h
        refine ⟨by rw [hkq, hpn, mod_of_qn], ⟨hls, ?_⟩, hkind, rfl, by simp; omega, ?_, by simp; omega, ?_⟩
        · rcases hw with h0 | h0
          · exact Or.inl h0
          · right
            have := mul_succ_le (n := n) (show r.passesCount + 1 + 1 ≤ inp.b.passes by omega)
            rw [Nat.succ_mul] at this; omega
        · simp; rw [hkq, hpn, Nat.succ_mul]
        · simp; rw [hkq, hpn, Nat.succ_mul]
      · rw [hd] at h; cases h
  · intro s' h
    simp only [stepOf, liftAct_tau, genStep] at h
    obtain ⟨p, h, _⟩ := h
    split at h
    · cases h
    · rcases hdec with ⟨_, hd⟩ | ⟨_, _, hd⟩ | ⟨_, _, _, r', ps', hd⟩ <;> rw [hd] at h <;> cases h

theorem good_step (inp : Input) (n : Nat) (hn : 0 < n) (c : Bool) (k : Nat) (s : PSt)
    (hg : Good inp n k s) (hb : Below inp.b n k) : StepOk inp n c k s := by
  cases s with
  | stream d a => exact good_step_stream inp n hn c k d a hg hb
  | arr d a => exact good_step_arr inp n hn c k d a hg hb
  | unloaded => exact good_step_unloaded inp n hn c k hg
  | replay ammos a => exact good_step_replay inp n hn c k ammos a hg hb
  | grpc g => exact good_step_grpc inp n hn c k g hg hb
  | gen a r ps => exact good_step_gen inp n hn c k a r ps hg hb

theorem tauBudget_le_one (n : Nat) (s : PSt) : tauBudget n s ≤ 1 := by
  cases s <;> simp [tauBudget]
  split <;> omega

end Pandora.Proofs.C08
