/-
C02, concurrent part: a composite over children that REFINE the flat spec (`Sem`, any nesting depth, finite and
time-bounded unlimited parts) is LINEARIZABLE to the flat spec of the concatenated parts — for every number of
callers, every program of `Next`/`Left` calls, every interleaving of the atomic actions and every
non-decreasing sequence of clock readings.  Proof: an invariant of `Par.step` relating the shared state to an
abstract state `Abs` reached by replaying the log (`Reach`): every returned value is what the atomic flat spec
returns at that moment, which lies inside the call.
-/
import Pandora.Model.C02Par
import Pandora.Proofs.C02Sem

set_option linter.unusedVariables false

namespace Pandora.Proofs.C02Par
open Pandora.Model.C02 Pandora.Model.C02.Par Pandora.Spec.C02 Pandora.Proofs.C02Flat Pandora.Proofs.C02Sem

/-! ### the abstract run a log stands for -/

/-- one logged action seen abstractly.  A returned `Next` / `Left` is the atomic operation of the flat spec at
that clock reading.  An internal action (`goto`) changes nothing, except that it may start a schedule that is
not started yet at its clock reading (the implicit start of a `Next` call in progress). -/
def AbsStep (A : Abs) (now : Int) : Out → Abs → Prop
  | .ret (.tok tx ok), A' => absNext A now = (A', tx, ok)
  | .ret (.cnt n), A' => absLeft A now = n ∧ A' = A
  | .ret (.panic _), _ => False
  | .goto _, A' => A' = A ∨ ∃ parts, A = .unstarted parts ∧ A' = .running (inst parts now)

/-- the same without `Left` results (sections of `Next`, writer section of `Left`) -/
def AbsStepN (A : Abs) (now : Int) : Out → Abs → Prop
  | .ret (.tok tx ok), A' => absNext A now = (A', tx, ok)
  | .ret (.cnt _), _ => False
  | .ret (.panic _), _ => False
  | .goto _, A' => A' = A

/-- the abstract state reached by replaying a log (newest entry first) from `A0` -/
def Reach (A0 : Abs) : List (Nat × Int × Out) → Abs → Prop
  | [], A => A = A0
  | e :: older, A' => ∃ A, Reach A0 older A ∧ AbsStep A e.2.1 e.2.2 A'

theorem AbsStepN.toStep {A : Abs} {now : Int} {out : Out} {A' : Abs} (h : AbsStepN A now out A') : AbsStep A now out A' := by
  cases out with
  | ret r => cases r <;> simp_all [AbsStepN, AbsStep]
  | goto pc => exact Or.inl h

/-- a step from the virtually started schedule is a step from the unstarted one -/
theorem AbsStepN.lift {parts : List Part} {now : Int} {out : Out} {A' : Abs}
    (h : AbsStepN (.running (inst parts now)) now out A') : AbsStep (.unstarted parts) now out A' := by
  cases out with
  | ret r =>
    cases r with
    | tok tx ok => exact h
    | cnt n => exact absurd h (by simp [AbsStepN])
    | panic m => exact absurd h (by simp [AbsStepN])
  | goto pc => exact Or.inr ⟨parts, rfl, h⟩

section
variable {σ : Type} {ops : Ops σ} (sem : Sem ops)

/-! ### what the shared state stands for -/

def ShRelU (sh : Sh σ) (parts : List Part) : Prop :=
  ∃ c rest p ps, sh.cs = c :: rest ∧ sh.la = sufsP ps ∧ sem.U c p ∧ AllU sem rest ps ∧ parts = p ++ ps.flatten

def ShRelR (sh : Sh σ) (segs : List Seg) (clk : Int) : Prop :=
  ∃ c rest dead segsH ps, sh.cs = c :: rest ∧ sh.la = sufsP ps ∧ sh.started = true ∧ sem.R c segsH clk ∧
    AllU sem rest ps ∧ Dead dead clk ∧ segs = dead ++ segsH ++ inst ps.flatten (finOf segsH 0)

def ShRel (sh : Sh σ) (A : Abs) (clk : Int) : Prop :=
  match A with
  | .unstarted parts => ShRelU sem sh parts
  | .running segs => ShRelR sem sh segs clk

theorem ShRel.mono {sh : Sh σ} {A : Abs} {clk clk' : Int} (h : ShRel sem sh A clk) (hle : clk ≤ clk') :
    ShRel sem sh A clk' := by
  cases A with
  | unstarted parts => exact h
  | running segs =>
    obtain ⟨c, rest, dead, segsH, ps, h1, h2, h3, hR, hU, hD, h4⟩ := h
    exact ⟨c, rest, dead, segsH, ps, h1, h2, h3, sem.R_mono hR hle, hU, dead_mono hD hle, h4⟩

theorem U_R_absurd {c : σ} {p : List Part} {segs : List Seg} {clk : Int} (hU : sem.U c p) (hR : sem.R c segs clk) :
    False := by
  obtain ⟨s', hs, _⟩ := sem.start_U hU 0
  rw [sem.start_R hR 0] at hs
  cases hs

/-! ### what a caller waiting before `Lock` knows about the head it saw -/

/-- the head is running, exhausted, and reports the finish time `tx` -/
def HeadDoneR (c : σ) (tx clk : Int) : Prop := ∃ segsH, sem.R c segsH clk ∧ Dead segsH clk ∧ tx = finOf segsH 0
/-- the head is not started and has no tokens at all -/
def HeadDoneU (c : σ) : Prop := ∃ p, sem.U c p ∧ partsLeft p = 0
def HeadDone (c : σ) (clk : Int) : Prop := (∃ tx, HeadDoneR sem c tx clk) ∨ HeadDoneU sem c

def headOK (cs : List σ) (P : σ → Prop) : Prop := ∃ c rest, cs = c :: rest ∧ P c

def PcInv (sh : Sh σ) (clk : Int) : Pc → Prop
  | .idle => True
  | .nextB => sh.started = true
  | .nextW tx seen => sh.started = true ∧ 2 ≤ seen ∧ sh.cs.length ≤ seen ∧
      (sh.cs.length = seen → headOK sh.cs (fun c => HeadDoneR sem c tx clk))
  | .leftW seen => sh.started = true ∧ 2 ≤ seen ∧ sh.cs.length ≤ seen ∧
      (sh.cs.length = seen → headOK sh.cs (fun c => HeadDone sem c clk))

/-- what is preserved when the head `c` (at clock `clk`) becomes `c'` (at `clk'`) -/
def HeadTrans (c : σ) (clk : Int) (c' : σ) (clk' : Int) : Prop :=
  (∀ tx, HeadDoneR sem c tx clk → HeadDoneR sem c' tx clk') ∧ (HeadDoneU sem c → HeadDone sem c' clk')

/-- the shared state only ever advances: the list gets shorter, or keeps its length and an exhausted head stays so -/
def Adv (sh : Sh σ) (clk : Int) (sh' : Sh σ) (clk' : Int) : Prop :=
  (sh.started = true → sh'.started = true) ∧
  (sh'.cs.length < sh.cs.length ∨
    (sh'.cs.length = sh.cs.length ∧
      ∀ c rest, sh.cs = c :: rest → ∃ c', sh'.cs = c' :: rest ∧ HeadTrans sem c clk c' clk'))

theorem headTrans_refl (c : σ) {clk clk' : Int} (hle : clk ≤ clk') : HeadTrans sem c clk c clk' := by
  constructor
  · rintro tx ⟨segsH, hR, hD, rfl⟩
    exact ⟨segsH, sem.R_mono hR hle, dead_mono hD hle, rfl⟩
  · intro h; exact Or.inr h

theorem headTrans_next {c c' : σ} {clk now tx' : Int} {ok : Bool} (hle : clk ≤ now)
    (h : ops.next c now = .ok (c', tx', ok)) : HeadTrans sem c clk c' now := by
  constructor
  · rintro tx ⟨segsH, hR, hD, rfl⟩
    obtain ⟨s', hn, hR'⟩ := sem.next_R hR now hle
    rw [h] at hn
    have hx : segNext segsH now = (segsH, finOf segsH 0, false) := segNextAux_dead segsH 0 clk now hD hle
    rw [hx] at hn hR'
    simp only [Except.ok.injEq, Prod.mk.injEq] at hn
    obtain ⟨rfl, _, _⟩ := hn
    exact ⟨segsH, hR', dead_mono hD hle, rfl⟩
  · rintro ⟨p, hU, hz⟩
    obtain ⟨s1, hs1, hn1⟩ := sem.next_U hU now
    obtain ⟨s1', hs1', hR1⟩ := sem.start_U hU now
    rw [hs1] at hs1'
    cases hs1'
    have hD : Dead (inst p now) now := dead_inst_of_zero p now now hz
    obtain ⟨s', hn, hR'⟩ := sem.next_R (hR1 now) now (Int.le_refl _)
    have hx : segNext (inst p now) now = (inst p now, finOf (inst p now) 0, false) :=
      segNextAux_dead _ 0 now now hD (Int.le_refl _)
    rw [hx] at hn hR'
    rw [hn1, hn] at h
    simp only [Except.ok.injEq, Prod.mk.injEq] at h
    obtain ⟨rfl, _, _⟩ := h
    exact Or.inl ⟨_, inst p now, hR', hD, rfl⟩

theorem headTrans_left {c c' : σ} {clk now n : Int} (hle : clk ≤ now)
    (h : ops.left c now = .ok (c', n)) : HeadTrans sem c clk c' now := by
  constructor
  · rintro tx ⟨segsH, hR, hD, rfl⟩
    obtain ⟨s', hl, hR'⟩ := sem.left_R hR now hle
    rw [h] at hl
    simp only [Except.ok.injEq, Prod.mk.injEq] at hl
    obtain ⟨rfl, _⟩ := hl
    exact ⟨segsH, hR', dead_mono hD hle, rfl⟩
  · rintro ⟨p, hU, hz⟩
    rw [sem.left_U hU now] at h
    simp only [Except.ok.injEq, Prod.mk.injEq] at h
    obtain ⟨rfl, _⟩ := h
    exact Or.inr ⟨p, hU, hz⟩

theorem HeadTrans.trans {c c' c'' : σ} {k k' k'' : Int} (h1 : HeadTrans sem c k c' k') (h2 : HeadTrans sem c' k' c'' k'')
    (hle : k' ≤ k'') : HeadTrans sem c k c'' k'' := by
  constructor
  · intro tx h; exact h2.1 tx (h1.1 tx h)
  · intro h
    rcases h1.2 h with ⟨tx, h'⟩ | h'
    · exact Or.inl ⟨tx, h2.1 tx h'⟩
    · exact h2.2 h'

theorem Adv.refl (sh : Sh σ) {clk clk' : Int} (hle : clk ≤ clk') : Adv sem sh clk sh clk' :=
  ⟨id, Or.inr ⟨rfl, fun c rest h => ⟨c, h, headTrans_refl sem c hle⟩⟩⟩

theorem Adv.trans {s1 s2 s3 : Sh σ} {k1 k2 k3 : Int} (h12 : Adv sem s1 k1 s2 k2) (h23 : Adv sem s2 k2 s3 k3)
    (hle : k2 ≤ k3) : Adv sem s1 k1 s3 k3 := by
  refine ⟨fun h => h23.1 (h12.1 h), ?_⟩
  rcases h12.2 with h | ⟨he, hh⟩
  · rcases h23.2 with h' | ⟨he', _⟩
    · exact Or.inl (by omega)
    · exact Or.inl (by omega)
  · rcases h23.2 with h' | ⟨he', hh'⟩
    · exact Or.inl (by omega)
    · refine Or.inr ⟨by omega, fun c rest hc => ?_⟩
      obtain ⟨c', hc', ht⟩ := hh c rest hc
      obtain ⟨c'', hc'', ht'⟩ := hh' c' rest hc'
      exact ⟨c'', hc'', ht.trans sem ht' hle⟩

/-- only the head changed -/
theorem adv_head {sh : Sh σ} {c c' : σ} {rest : List σ} {clk clk' : Int} {la : List Int} {st : Bool}
    (hcs : sh.cs = c :: rest) (hst : sh.started = true → st = true) (ht : HeadTrans sem c clk c' clk') :
    Adv sem sh clk ⟨c' :: rest, la, st⟩ clk' := by
  refine ⟨hst, Or.inr ⟨by simp [hcs], fun c0 rest0 h0 => ?_⟩⟩
  rw [hcs] at h0
  cases h0
  exact ⟨c', rfl, ht⟩

theorem PcInv.adv {sh sh' : Sh σ} {clk clk' : Int} {pc : Pc} (h : PcInv sem sh clk pc) (a : Adv sem sh clk sh' clk') :
    PcInv sem sh' clk' pc := by
  cases pc with
  | idle => trivial
  | nextB => exact a.1 h
  | nextW tx seen =>
    obtain ⟨hs, h2, hle, hex⟩ := h
    refine ⟨a.1 hs, h2, ?_, ?_⟩
    · rcases a.2 with hl | ⟨he, _⟩ <;> omega
    · intro heq
      rcases a.2 with hl | ⟨he, hh⟩
      · omega
      · obtain ⟨c, rest, hcs, hd⟩ := hex (by omega)
        obtain ⟨c', hcs', ht⟩ := hh c rest hcs
        exact ⟨c', rest, hcs', ht.1 tx hd⟩
  | leftW seen =>
    obtain ⟨hs, h2, hle, hex⟩ := h
    refine ⟨a.1 hs, h2, ?_, ?_⟩
    · rcases a.2 with hl | ⟨he, _⟩ <;> omega
    · intro heq
      rcases a.2 with hl | ⟨he, hh⟩
      · omega
      · obtain ⟨c, rest, hcs, hd⟩ := hex (by omega)
        obtain ⟨c', hcs', ht⟩ := hh c rest hcs
        refine ⟨c', rest, hcs', ?_⟩
        rcases hd with ⟨tx, hd⟩ | hd
        · exact Or.inl ⟨tx, ht.1 tx hd⟩
        · exact ht.2 hd

/-- what must hold after an action that does not return -/
def GotoOK (sh' : Sh σ) (now : Int) : Out → Prop
  | .goto pc => PcInv sem sh' now pc
  | .ret _ => True

end

section
variable {σ : Type} {ops : Ops σ} (sem : Sem ops)

theorem absNext_running (segs : List Seg) (now : Int) (X : List Seg) (Y : Int × Bool) (b : Bool)
    (h : segNext segs now = (X, Y)) (hb : Y.2 = b) : absNext (.running segs) now = (.running X, Y.1, b) := by
  simp only [absNext, Abs.segsAt, h]
  subst hb
  rfl

/-- the head as the shared-state relation sees it and as a waiting caller saw it agree -/
theorem head_agree {c : σ} {segsH : List Seg} {clk now tx : Int} (hR : sem.R c segsH clk)
    (hd : HeadDoneR sem c tx clk) (hle : clk ≤ now) : Dead segsH now ∧ finOf segsH 0 = tx := by
  obtain ⟨segs2, hR2, hD2, rfl⟩ := hd
  obtain ⟨s1, hn1, _⟩ := sem.next_R hR now hle
  obtain ⟨s2, hn2, _⟩ := sem.next_R hR2 now hle
  have hx : segNext segs2 now = (segs2, finOf segs2 0, false) := segNextAux_dead segs2 0 clk now hD2 hle
  rw [hn1, hx] at hn2
  simp only [Except.ok.injEq, Prod.mk.injEq] at hn2
  obtain ⟨_, h1, h2⟩ := hn2
  obtain ⟨hd, _, hf⟩ := segNextAux_notok segsH 0 now h2
  exact ⟨hd, by rw [← hf]; exact h1⟩

/-! ### the sections, on a running schedule -/

theorem nextReader_run {sh : Sh σ} {segs : List Seg} {clk now : Int} (h : ShRelR sem sh segs clk) (hle : clk ≤ now) :
    ∃ segs', AbsStepN (.running segs) now (nextReader ops sh now).2 (.running segs') ∧
      ShRel sem (nextReader ops sh now).1 (.running segs') now ∧
      GotoOK sem (nextReader ops sh now).1 now (nextReader ops sh now).2 ∧
      Adv sem sh clk (nextReader ops sh now).1 now := by
  obtain ⟨cs, la, started⟩ := sh
  obtain ⟨c, rest, dead, segsH, ps, hcs, hla, hst, hR, hU, hD, rfl⟩ := h
  simp only at hcs hla hst
  subst hcs; subst hla; subst hst
  obtain ⟨c', hn, hR'⟩ := sem.next_R hR now hle
  have hne := sem.R_ne hR
  have hD' := dead_mono hD hle
  have hadv : Adv sem ⟨c :: rest, sufsP ps, true⟩ clk ⟨c' :: rest, sufsP ps, true⟩ now :=
    adv_head sem rfl id (headTrans_next sem hle hn)
  simp only [nextReader, hn]
  cases hok : (segNext segsH now).2.2 with
  | true =>
    simp only [if_true]
    refine ⟨(dead ++ (segNext segsH now).1 ++ inst ps.flatten (finOf segsH 0)), ?_, ?_, trivial, hadv⟩
    · exact absNext_running _ now _ _ _ (segNext_mid dead segsH _ clk now hD hle hne hok) hok
    · exact ⟨c', rest, dead, _, ps, rfl, rfl, rfl, hR', hU, hD', by unfold segNext; rw [finOf_segNextAux]⟩
  | false =>
    obtain ⟨hdeadH, hsame, htx⟩ := segNextAux_notok segsH 0 now hok
    have hsame' : (segNext segsH now).1 = segsH := hsame
    have htx' : (segNext segsH now).2.1 = finOf segsH 0 := htx
    rw [hsame'] at hR'
    simp only [Bool.false_eq_true, if_false]
    match rest, ps, hU with
    | [], [], _ =>
      simp only [List.isEmpty_nil, if_true]
      refine ⟨(dead ++ segsH ++ inst ([] : List (List Part)).flatten (finOf segsH 0)), ?_, ?_, trivial, hadv⟩
      · refine absNext_running _ now _ _ _ ?_ hok
        simp only [List.flatten_nil, inst, List.append_nil]
        rw [segNext_last dead segsH clk now hD hle hne, hsame']
      · exact ⟨c', [], dead, segsH, [], rfl, rfl, rfl, hR', trivial, hD', rfl⟩
    | h :: t, p :: ps', hU =>
      simp only [List.isEmpty_cons, Bool.false_eq_true, if_false]
      refine ⟨_, rfl, ⟨c', h :: t, dead, segsH, p :: ps', rfl, rfl, rfl, hR', hU, hD', rfl⟩, ?_, hadv⟩
      refine ⟨rfl, by simp, by simp, fun _ => ⟨c', h :: t, rfl, segsH, hR', hdeadH, htx'⟩⟩

theorem startNext_run {c h : σ} {t : List σ} {la : List Int} {st : Bool} {p : List Part} (hU : sem.U h p) (tx : Int) :
    ∃ h1, startNext ops ⟨c :: h :: t, la, st⟩ tx = .ok ⟨h1 :: t, la.tail, st⟩ ∧ ∀ clk, sem.R h1 (inst p tx) clk := by
  obtain ⟨h1, hs, hR1⟩ := sem.start_U hU tx
  exact ⟨h1, by simp [startNext, hs], hR1⟩

theorem nextWriter_run {sh : Sh σ} {segs : List Seg} {clk now tx : Int} {seen : Nat} (h : ShRelR sem sh segs clk)
    (hpc : PcInv sem sh clk (.nextW tx seen)) (hle : clk ≤ now) :
    ∃ segs', AbsStepN (.running segs) now (nextWriter ops sh tx seen now).2 (.running segs') ∧
      ShRel sem (nextWriter ops sh tx seen now).1 (.running segs') now ∧
      GotoOK sem (nextWriter ops sh tx seen now).1 now (nextWriter ops sh tx seen now).2 ∧
      Adv sem sh clk (nextWriter ops sh tx seen now).1 now := by
  obtain ⟨cs, la, started⟩ := sh
  obtain ⟨c, rest, dead, segsH, ps, hcs, hla, hst, hR, hU, hD, rfl⟩ := h
  simp only at hcs hla hst
  subst hcs; subst hla; subst hst
  obtain ⟨_, hge2, hlen, hex⟩ := hpc
  simp only at hlen hex
  have hne := sem.R_ne hR
  have hD' := dead_mono hD hle
  unfold nextWriter
  simp only
  by_cases hlt : (c :: rest).length < seen
  · -- somebody shifted before us
    simp only [hlt, if_true]
    obtain ⟨c', hn, hR'⟩ := sem.next_R hR now hle
    have hadv : Adv sem ⟨c :: rest, sufsP ps, true⟩ clk ⟨c' :: rest, sufsP ps, true⟩ now :=
      adv_head sem rfl id (headTrans_next sem hle hn)
    simp only [hn]
    cases hok : (segNext segsH now).2.2 with
    | true =>
      simp only [Bool.true_or, if_true]
      refine ⟨(dead ++ (segNext segsH now).1 ++ inst ps.flatten (finOf segsH 0)), ?_, ?_, trivial, hadv⟩
      · exact absNext_running _ now _ _ _ (segNext_mid dead segsH _ clk now hD hle hne hok) hok
      · exact ⟨c', rest, dead, _, ps, rfl, rfl, rfl, hR', hU, hD', by unfold segNext; rw [finOf_segNextAux]⟩
    | false =>
      obtain ⟨hdeadH, hsame, htx⟩ := segNextAux_notok segsH 0 now hok
      have hsame' : (segNext segsH now).1 = segsH := hsame
      rw [hsame'] at hR'
      simp only [Bool.false_or]
      match rest, ps, hU with
      | [], [], _ =>
        simp only [List.length_singleton, beq_self_eq_true, if_true]
        refine ⟨(dead ++ segsH ++ inst ([] : List (List Part)).flatten (finOf segsH 0)), ?_, ?_, trivial, hadv⟩
        · refine absNext_running _ now _ _ _ ?_ hok
          simp only [List.flatten_nil, inst, List.append_nil]
          rw [segNext_last dead segsH clk now hD hle hne, hsame']
        · exact ⟨c', [], dead, segsH, [], rfl, rfl, rfl, hR', trivial, hD', rfl⟩
      | h :: t, p :: ps', hU =>
        have : ((c :: h :: t).length == 1) = false := by simp
        simp only [this, Bool.false_eq_true, if_false]
        exact ⟨_, rfl, ⟨c', h :: t, dead, segsH, p :: ps', rfl, rfl, rfl, hR', hU, hD', rfl⟩, rfl, hadv⟩
  · -- nobody shifted: the head is the exhausted one we saw
    have heq : (c :: rest).length = seen := by omega
    obtain ⟨c0, rest0, hc0, hdone⟩ := hex heq
    cases hc0
    obtain ⟨hdeadH, hfin⟩ := head_agree sem hR hdone hle
    subst hfin
    simp only [hlt, if_false]
    match rest, ps, hU with
    | [], [], _ => simp at heq; omega
    | h :: t, p :: ps', hU =>
      have hp : p ≠ [] := sem.U_ne hU.1
      obtain ⟨h1, hsn, hR1⟩ := startNext_run sem (c := c) (t := t) (la := sufsP (p :: ps')) (st := true) hU.1 (finOf segsH 0)
      rw [hsn]
      simp only
      obtain ⟨h2, hn2, hR2⟩ := sem.next_R (hR1 now) now (Int.le_refl _)
      simp only [hn2, sufsP_tail]
      have hD2 : Dead (dead ++ segsH) now := (dead_append _ _ _).mpr ⟨hD', hdeadH⟩
      have hne1 : inst p (finOf segsH 0) ≠ [] := inst_ne _ hp
      have hadv : Adv sem ⟨c :: h :: t, sufsP (p :: ps'), true⟩ clk ⟨h2 :: t, sufsP ps', true⟩ now :=
        ⟨id, Or.inl (by simp)⟩
      have hgt : decide ((c :: h :: t).length > 1) = true := by simp
      cases hok2 : (segNext (inst p (finOf segsH 0)) now).2.2 with
      | true =>
        simp only [Bool.not_true, Bool.false_and, Bool.false_eq_true, if_false]
        refine ⟨((dead ++ segsH) ++ (segNext (inst p (finOf segsH 0)) now).1 ++
            inst ps'.flatten (finOf (inst p (finOf segsH 0)) 0)), ?_, ?_, trivial, hadv⟩
        · refine absNext_running _ now _ _ _ ?_ hok2
          rw [chain_shift dead segsH p ps' hp]
          exact segNext_mid (dead ++ segsH) _ _ now now hD2 (Int.le_refl _) hne1 hok2
        · exact ⟨h2, t, dead ++ segsH, _, ps', rfl, rfl, rfl, hR2, hU.2, hD2, by unfold segNext; rw [finOf_segNextAux]⟩
      | false =>
        obtain ⟨_, hsame2, _⟩ := segNextAux_notok (inst p (finOf segsH 0)) 0 now hok2
        have hsame2' : (segNext (inst p (finOf segsH 0)) now).1 = inst p (finOf segsH 0) := hsame2
        rw [hsame2'] at hR2
        simp only [Bool.not_false, hgt, Bool.and_self, if_true]
        refine ⟨_, rfl, ?_, rfl, hadv⟩
        refine ⟨h2, t, dead ++ segsH, inst p (finOf segsH 0), ps', rfl, rfl, rfl, hR2, hU.2, hD2, ?_⟩
        exact chain_shift dead segsH p ps' hp

theorem leftWriter_run {sh : Sh σ} {segs : List Seg} {clk now : Int} {seen : Nat} (h : ShRelR sem sh segs clk)
    (hpc : PcInv sem sh clk (.leftW seen)) (hle : clk ≤ now) :
    ∃ segs', AbsStepN (.running segs) now (leftWriter ops sh seen now).2 (.running segs') ∧
      ShRel sem (leftWriter ops sh seen now).1 (.running segs') now ∧
      GotoOK sem (leftWriter ops sh seen now).1 now (leftWriter ops sh seen now).2 ∧
      Adv sem sh clk (leftWriter ops sh seen now).1 now := by
  obtain ⟨cs, la, started⟩ := sh
  obtain ⟨c, rest, dead, segsH, ps, hcs, hla, hst, hR, hU, hD, rfl⟩ := h
  simp only at hcs hla hst
  subst hcs; subst hla; subst hst
  obtain ⟨_, hge2, hlen, hex⟩ := hpc
  simp only at hlen hex
  have hD' := dead_mono hD hle
  have hkeep : ShRel sem ⟨c :: rest, sufsP ps, true⟩ (.running (dead ++ segsH ++ inst ps.flatten (finOf segsH 0))) now :=
    ⟨c, rest, dead, segsH, ps, rfl, rfl, rfl, sem.R_mono hR hle, hU, hD', rfl⟩
  unfold leftWriter
  by_cases heq : (c :: rest).length = seen
  · have hb : ((c :: rest).length == seen) = true := by simpa using heq
    simp only [hb, if_true]
    obtain ⟨c0, rest0, hc0, hdone⟩ := hex heq
    cases hc0
    have hdoneR : ∃ tx, HeadDoneR sem c tx clk := by
      rcases hdone with h | ⟨p, hUc, _⟩
      · exact h
      · exact absurd hR (fun hR => U_R_absurd sem hUc hR)
    obtain ⟨tx, hdoneR⟩ := hdoneR
    obtain ⟨hdeadH, hfin⟩ := head_agree sem hR hdoneR hle
    obtain ⟨c', hn, hR'⟩ := sem.next_R hR now hle
    have hx : segNext segsH now = (segsH, finOf segsH 0, false) := segNextAux_dead segsH 0 now now hdeadH (Int.le_refl _)
    rw [hx] at hn hR'
    simp only [hn, Bool.false_eq_true, if_false]
    match rest, ps, hU with
    | [], [], _ => simp at heq; omega
    | h :: t, p :: ps', hU =>
      have hp : p ≠ [] := sem.U_ne hU.1
      obtain ⟨h1, hsn, hR1⟩ := startNext_run sem (c := c') (t := t) (la := sufsP (p :: ps')) (st := true) hU.1 (finOf segsH 0)
      rw [hsn]
      have hD2 : Dead (dead ++ segsH) now := (dead_append _ _ _).mpr ⟨hD', hdeadH⟩
      refine ⟨_, rfl, ?_, trivial, ⟨id, Or.inl (by simp)⟩⟩
      exact ⟨h1, t, dead ++ segsH, inst p (finOf segsH 0), ps', rfl, rfl, rfl, hR1 now, hU.2, hD2,
        chain_shift dead segsH p ps' hp⟩
  · have hb : ((c :: rest).length == seen) = false := by simpa using heq
    simp only [hb, Bool.false_eq_true, if_false]
    exact ⟨_, rfl, hkeep, trivial, Adv.refl sem _ hle⟩

/-! ### the reader section of `Left`, on any schedule -/

theorem leftReader_ok {sh : Sh σ} {A : Abs} {clk now : Int} (h : ShRel sem sh A clk) (hle : clk ≤ now) :
    ∃ A', AbsStep A now (leftReader ops sh now).2 A' ∧ ShRel sem (leftReader ops sh now).1 A' now ∧
      GotoOK sem (leftReader ops sh now).1 now (leftReader ops sh now).2 ∧
      Adv sem sh clk (leftReader ops sh now).1 now := by
  obtain ⟨cs, la, started⟩ := sh
  cases A with
  | unstarted parts =>
    obtain ⟨c, rest, p, ps, hcs, hla, hc, hU, rfl⟩ := h
    simp only at hcs hla
    subst hcs; subst hla
    have hl := sem.left_U hc now
    have hpg := partsLeft_ge p
    have hadv : Adv sem ⟨c :: rest, sufsP ps, started⟩ clk ⟨c :: rest, sufsP ps, started⟩ now := Adv.refl sem _ hle
    have hkeep : ShRel sem ⟨c :: rest, sufsP ps, started⟩ (.unstarted (p ++ ps.flatten)) now :=
      ⟨c, rest, p, ps, rfl, rfl, hc, hU, rfl⟩
    simp only [leftReader, hl]
    match rest, ps, hU with
    | [], [], _ =>
      simp only [List.isEmpty_nil, if_true]
      exact ⟨_, ⟨by simp [absLeft], rfl⟩, hkeep, trivial, hadv⟩
    | h :: t, q :: qs, hU =>
      have hqg := partsLeft_ge (q :: qs).flatten
      simp only [List.isEmpty_cons, Bool.false_eq_true, if_false, sufsP_head]
      have hpa := partsLeft_append p (q :: qs).flatten
      generalize partsLeft (q :: qs).flatten = L at *
      by_cases hz : partsLeft p = 0
      · simp only [hz, beq_self_eq_true, if_true]
        by_cases hk : L ≥ 0
        · simp only [hk, if_true]
          refine ⟨_, ⟨?_, rfl⟩, hkeep, trivial, hadv⟩
          simp only [absLeft, hpa, hz]
          have : ¬ ((0:Int) < 0 ∨ L < 0) := by omega
          simp [this]
          omega
        · simp only [hk, if_false]
          cases started with
          | false =>
            simp only [Bool.not_false, if_true]
            refine ⟨_, ⟨?_, rfl⟩, hkeep, trivial, hadv⟩
            simp only [absLeft, hpa, hz]
            have : ((0:Int) < 0 ∨ L < 0) := Or.inr (by omega)
            simp [this]
            omega
          | true =>
            simp only [Bool.not_true, Bool.false_eq_true, if_false]
            refine ⟨_, Or.inl rfl, hkeep, ?_, hadv⟩
            exact ⟨rfl, by simp, by simp, fun _ => ⟨c, h :: t, rfl, Or.inr ⟨p, hc, hz⟩⟩⟩
      · have hbz : (partsLeft p == 0) = false := by simpa using hz
        simp only [hbz, Bool.false_eq_true, if_false]
        by_cases hor : (decide (partsLeft p < 0) || decide (L < 0)) = true
        · simp only [hor, if_true]
          refine ⟨_, ⟨?_, rfl⟩, hkeep, trivial, hadv⟩
          simp only [absLeft, hpa]
          have : (partsLeft p < 0 ∨ L < 0) := by simpa using hor
          simp [this]
        · simp only [hor, Bool.false_eq_true, if_false]
          refine ⟨_, ⟨?_, rfl⟩, hkeep, trivial, hadv⟩
          simp only [absLeft, hpa]
          have : ¬ (partsLeft p < 0 ∨ L < 0) := by simpa using hor
          simp [this]
  | running segs =>
    obtain ⟨c, rest, dead, segsH, ps, hcs, hla, hst, hR, hU, hD, rfl⟩ := h
    simp only at hcs hla hst
    subst hcs; subst hla; subst hst
    obtain ⟨c', hl, hR'⟩ := sem.left_R hR now hle
    have hD' := dead_mono hD hle
    have hgeH := segLeft_ge segsH now
    have hadv : Adv sem ⟨c :: rest, sufsP ps, true⟩ clk ⟨c' :: rest, sufsP ps, true⟩ now :=
      adv_head sem rfl id (headTrans_left sem hle hl)
    have hkeep : ShRel sem ⟨c' :: rest, sufsP ps, true⟩ (.running (dead ++ segsH ++ inst ps.flatten (finOf segsH 0))) now :=
      ⟨c', rest, dead, segsH, ps, rfl, rfl, rfl, hR', hU, hD', rfl⟩
    simp only [leftReader, hl]
    match rest, ps, hU with
    | [], [], _ =>
      simp only [List.isEmpty_nil, if_true]
      refine ⟨_, ⟨?_, rfl⟩, hkeep, trivial, hadv⟩
      simp only [absLeft, List.flatten_nil, inst, List.append_nil]
      rw [segLeft_dead_append dead segsH clk now hD hle]
    | h :: t, p :: ps', hU =>
      simp only [List.isEmpty_cons, Bool.false_eq_true, if_false, sufsP_head]
      rw [← pendSegs_inst (p :: ps').flatten (finOf segsH 0)]
      have hpg := pendSegs_ge (inst (p :: ps').flatten (finOf segsH 0))
      have habs : absLeft (.running (dead ++ segsH ++ inst (p :: ps').flatten (finOf segsH 0))) now =
          segLeft (segsH ++ inst (p :: ps').flatten (finOf segsH 0)) now := by
        simp only [absLeft]
        rw [List.append_assoc, segLeft_dead_append dead _ clk now hD hle]
      generalize inst (p :: ps').flatten (finOf segsH 0) = tail at *
      by_cases hz : segLeft segsH now = 0
      · have hdeadH : Dead segsH now := (segLeft_zero_iff segsH now).mp hz
        simp only [hz, beq_self_eq_true, if_true]
        by_cases hk : pendSegs tail ≥ 0
        · simp only [hk, if_true]
          refine ⟨_, ⟨?_, rfl⟩, hkeep, trivial, hadv⟩
          rw [habs, segLeft_dead_append segsH tail now now hdeadH (Int.le_refl _), segLeft_of_pend tail now hk]
        · simp only [hk, if_false, Bool.not_true, Bool.false_eq_true]
          refine ⟨_, Or.inl rfl, hkeep, ?_, hadv⟩
          exact ⟨rfl, by simp, by simp, fun _ => ⟨c', h :: t, rfl, Or.inl ⟨finOf segsH 0, segsH, hR', hdeadH, rfl⟩⟩⟩
      · have hbz : (segLeft segsH now == 0) = false := by simpa using hz
        simp only [hbz, Bool.false_eq_true, if_false]
        by_cases hor : (decide (segLeft segsH now < 0) || decide (pendSegs tail < 0)) = true
        · simp only [hor, if_true]
          refine ⟨_, ⟨?_, rfl⟩, hkeep, trivial, hadv⟩
          rw [habs]
          by_cases hneg : segLeft segsH now < 0
          · exact segLeft_neg_append segsH tail now hneg
          · have hpn : pendSegs tail < 0 := by
              have : (segLeft segsH now < 0 ∨ pendSegs tail < 0) := by simpa using hor
              rcases this with h | h
              · exact absurd h hneg
              · exact h
            rw [segLeft_pos_append segsH tail now (by omega)]
            simp [hpn]
        · simp only [hor, Bool.false_eq_true, if_false]
          have hno : ¬ (segLeft segsH now < 0 ∨ pendSegs tail < 0) := by simpa using hor
          refine ⟨_, ⟨?_, rfl⟩, hkeep, trivial, hadv⟩
          rw [habs, segLeft_pos_append segsH tail now (by omega)]
          have : ¬ pendSegs tail < 0 := fun h => hno (Or.inr h)
          simp [this]

end

section
variable {σ : Type} {ops : Ops σ} (sem : Sem ops)

/-! ### a schedule that is not started yet: its first `Next` on the head starts it at that clock reading -/

theorem virt_start {sh : Sh σ} {parts : List Part} {clk now : Int} (h : ShRelU sem sh parts)
    (hs : sh.started = true) (hle : clk ≤ now) :
    ∃ c rest s1, sh.cs = c :: rest ∧ ops.next c now = ops.next s1 now ∧
      ShRelR sem ⟨s1 :: rest, sh.la, sh.started⟩ (inst parts now) now ∧
      Adv sem sh clk ⟨s1 :: rest, sh.la, sh.started⟩ now := by
  obtain ⟨c, rest, p, ps, hcs, hla, hc, hU, rfl⟩ := h
  obtain ⟨s1, hs1, hn1⟩ := sem.next_U hc now
  obtain ⟨s1', hs1', hR1⟩ := sem.start_U hc now
  rw [hs1] at hs1'
  cases hs1'
  have hp := sem.U_ne hc
  refine ⟨c, rest, s1, hcs, hn1, ?_, ?_⟩
  · refine ⟨s1, rest, [], inst p now, ps, rfl, hla, hs, hR1 now, hU, trivial, ?_⟩
    simp [inst_append, finOf_inst0 now hp]
  · refine adv_head sem hcs id ⟨?_, ?_⟩
    · rintro tx ⟨segsH, hR, _, _⟩
      exact absurd hR (fun hR => U_R_absurd sem hc hR)
    · rintro ⟨p', hU', hz'⟩
      have h1 := sem.left_U hc now
      rw [sem.left_U hU' now] at h1
      simp only [Except.ok.injEq, Prod.mk.injEq, true_and] at h1
      have hz : partsLeft p = 0 := by omega
      exact Or.inl ⟨_, inst p now, hR1 now, dead_inst_of_zero p now now hz, rfl⟩

/-- same outcome, and the same state unless the outcome is a panic -/
def SameRes (a b : Sh σ × Out) : Prop := a.2 = b.2 ∧ ((∀ m, b.2 ≠ .ret (.panic m)) → a.1 = b.1)

theorem AbsStepN.nopanic {A : Abs} {now : Int} {out : Out} {A' : Abs} (h : AbsStepN A now out A') :
    ∀ m, out ≠ .ret (.panic m) := by
  intro m hm; subst hm; exact h

theorem lift_unstarted {sh : Sh σ} {parts : List Part} {clk now : Int} (f : Sh σ → Sh σ × Out)
    (h : ShRelU sem sh parts) (hs : sh.started = true) (hle : clk ≤ now)
    (hcongr : ∀ c rest s1, sh.cs = c :: rest → ops.next c now = ops.next s1 now →
      SameRes (f sh) (f ⟨s1 :: rest, sh.la, sh.started⟩))
    (hrun : ∀ sh1, ShRelR sem sh1 (inst parts now) now → Adv sem sh clk sh1 now →
      ∃ segs', AbsStepN (.running (inst parts now)) now (f sh1).2 (.running segs') ∧ ShRel sem (f sh1).1 (.running segs') now ∧
        GotoOK sem (f sh1).1 now (f sh1).2 ∧ Adv sem sh1 now (f sh1).1 now) :
    ∃ segs', AbsStep (.unstarted parts) now (f sh).2 (.running segs') ∧ ShRel sem (f sh).1 (.running segs') now ∧
      GotoOK sem (f sh).1 now (f sh).2 ∧ Adv sem sh clk (f sh).1 now := by
  obtain ⟨c, rest, s1, hcs, hn, hR, hadv⟩ := virt_start sem h hs hle
  obtain ⟨A', h1, h2, h3, h4⟩ := hrun _ hR hadv
  obtain ⟨e2, e1⟩ := hcongr c rest s1 hcs hn
  rw [e2, e1 h1.nopanic]
  exact ⟨A', h1.lift, h2, h3, hadv.trans sem h4 (Int.le_refl _)⟩

theorem nextReader_congr {c s1 : σ} {rest : List σ} {la : List Int} {st : Bool} {now : Int}
    (hn : ops.next c now = ops.next s1 now) :
    SameRes (nextReader ops ⟨c :: rest, la, st⟩ now) (nextReader ops ⟨s1 :: rest, la, st⟩ now) := by
  simp only [nextReader, hn]
  cases ops.next s1 now with
  | error e => exact ⟨rfl, fun h => absurd rfl (h _)⟩
  | ok r => exact ⟨rfl, fun _ => rfl⟩

theorem startNext_congr {c s1 : σ} {rest : List σ} {la : List Int} {st : Bool} (tx : Int) :
    (∃ e, startNext ops ⟨c :: rest, la, st⟩ tx = .error e ∧ startNext ops ⟨s1 :: rest, la, st⟩ tx = .error e) ∨
    (∃ s', startNext ops ⟨c :: rest, la, st⟩ tx = .ok s' ∧ startNext ops ⟨s1 :: rest, la, st⟩ tx = .ok s') := by
  cases rest with
  | nil => exact Or.inl ⟨_, rfl, rfl⟩
  | cons h t =>
    simp only [startNext]
    cases ops.start h tx with
    | error e => exact Or.inl ⟨_, rfl, rfl⟩
    | ok h' => exact Or.inr ⟨_, rfl, rfl⟩

theorem nextWriter_congr {c s1 : σ} {rest : List σ} {la : List Int} {st : Bool} {now tx : Int} {seen : Nat}
    (hn : ops.next c now = ops.next s1 now) :
    SameRes (nextWriter ops ⟨c :: rest, la, st⟩ tx seen now) (nextWriter ops ⟨s1 :: rest, la, st⟩ tx seen now) := by
  unfold nextWriter
  simp only [List.length_cons, hn]
  split
  · cases ops.next s1 now with
    | error e => exact ⟨rfl, fun h => absurd rfl (h _)⟩
    | ok r => exact ⟨rfl, fun _ => rfl⟩
  · rcases startNext_congr (ops := ops) (c := c) (s1 := s1) (rest := rest) (la := la) (st := st) tx with
      ⟨e, h1, h2⟩ | ⟨s', h1, h2⟩
    · rw [h1, h2]; exact ⟨rfl, fun h => absurd rfl (h _)⟩
    · rw [h1, h2]; exact ⟨rfl, fun _ => rfl⟩

theorem leftWriter_congr {c s1 : σ} {rest : List σ} {la : List Int} {st : Bool} {now : Int} {seen : Nat}
    (hn : ops.next c now = ops.next s1 now) (heq : (c :: rest).length = seen) :
    SameRes (leftWriter ops ⟨c :: rest, la, st⟩ seen now) (leftWriter ops ⟨s1 :: rest, la, st⟩ seen now) := by
  unfold leftWriter
  have hb : (rest.length + 1 == seen) = true := by simpa using heq
  simp only [List.length_cons, hn, hb, if_true]
  cases ops.next s1 now with
  | error e => exact ⟨rfl, fun h => absurd rfl (h _)⟩
  | ok r => exact ⟨rfl, fun _ => rfl⟩

/-! ### every atomic action -/

theorem section_ok {sh : Sh σ} {A : Abs} {clk now : Int} (pc : Pc) (op : Op) (h : ShRel sem sh A clk)
    (hpc : PcInv sem sh clk pc) (hle : clk ≤ now) :
    ∃ A', AbsStep A now (runSection ops sh pc op now).2 A' ∧ ShRel sem (runSection ops sh pc op now).1 A' now ∧
      GotoOK sem (runSection ops sh pc op now).1 now (runSection ops sh pc op now).2 ∧
      Adv sem sh clk (runSection ops sh pc op now).1 now ∧
      (∀ parts, A' = .unstarted parts → A = .unstarted parts ∧
        (pc = .idle ∨ ((∃ seen, pc = .leftW seen) ∧ (runSection ops sh pc op now).1 = sh))) := by
  cases pc with
  | idle =>
    cases op with
    | next =>
      -- started.Store(true)
      refine ⟨A, Or.inl rfl, ?_, rfl, ⟨fun _ => rfl, Or.inr ⟨rfl, fun c rest hc => ⟨c, hc, headTrans_refl sem c hle⟩⟩⟩,
        fun _ h => ⟨h, Or.inl rfl⟩⟩
      cases A with
      | unstarted parts =>
        obtain ⟨c, rest, p, ps, h1, h2, h3, h4, h5⟩ := h
        exact ⟨c, rest, p, ps, h1, h2, h3, h4, h5⟩
      | running segs =>
        obtain ⟨c, rest, dead, segsH, ps, h1, h2, h3, hR, hU, hD, h4⟩ := h
        exact ⟨c, rest, dead, segsH, ps, h1, h2, rfl, sem.R_mono hR hle, hU, dead_mono hD hle, h4⟩
    | left =>
      obtain ⟨A', h1, h2, h3, h4⟩ := leftReader_ok sem (ops := ops) h hle
      refine ⟨A', h1, h2, h3, h4, fun parts hA' => ⟨?_, Or.inl rfl⟩⟩
      -- a reader section of Left never changes the abstract state
      subst hA'
      generalize (leftReader ops sh now).2 = out at h1
      cases out with
      | ret r =>
        cases r with
        | tok tx ok => simp [AbsStep, absNext] at h1
        | cnt n => exact h1.2.symm
        | panic m => exact absurd h1 (by simp [AbsStep])
      | goto pc' =>
        rcases h1 with h1 | ⟨p, _, h1⟩
        · exact h1.symm
        · cases h1
  | nextB =>
    show ∃ A', AbsStep A now (nextReader ops sh now).2 A' ∧ _
    cases A with
    | unstarted parts =>
      obtain ⟨segs', h1, h2, h3, h4⟩ := lift_unstarted sem (fun s => nextReader ops s now) h hpc hle
        (by
          intro c rest s1 hcs hn
          obtain ⟨cs, la, st⟩ := sh
          simp only at hcs; subst hcs
          exact nextReader_congr hn)
        (by
          intro sh1 hR _
          exact nextReader_run sem hR (Int.le_refl _))
      exact ⟨.running segs', h1, h2, h3, h4, fun _ h => by cases h⟩
    | running segs =>
      obtain ⟨segs', h1, h2, h3, h4⟩ := nextReader_run sem (ops := ops) h hle
      exact ⟨.running segs', h1.toStep, h2, h3, h4, fun _ h => by cases h⟩
  | nextW tx seen =>
    show ∃ A', AbsStep A now (nextWriter ops sh tx seen now).2 A' ∧ _
    cases A with
    | unstarted parts =>
      obtain ⟨segs', h1, h2, h3, h4⟩ := lift_unstarted sem (fun s => nextWriter ops s tx seen now) h hpc.1 hle
        (by
          intro c rest s1 hcs hn
          obtain ⟨cs, la, st⟩ := sh
          simp only at hcs; subst hcs
          exact nextWriter_congr hn)
        (by
          intro sh1 hR hadv
          exact nextWriter_run sem hR (hpc.adv sem hadv) (Int.le_refl _))
      exact ⟨.running segs', h1, h2, h3, h4, fun _ h => by cases h⟩
    | running segs =>
      obtain ⟨segs', h1, h2, h3, h4⟩ := nextWriter_run sem (ops := ops) h hpc hle
      exact ⟨.running segs', h1.toStep, h2, h3, h4, fun _ h => by cases h⟩
  | leftW seen =>
    show ∃ A', AbsStep A now (leftWriter ops sh seen now).2 A' ∧ _
    cases A with
    | unstarted parts =>
      by_cases heq : sh.cs.length = seen
      · obtain ⟨segs', h1, h2, h3, h4⟩ := lift_unstarted sem (fun s => leftWriter ops s seen now) h hpc.1 hle
          (by
            intro c rest s1 hcs hn
            obtain ⟨cs, la, st⟩ := sh
            simp only at hcs heq; subst hcs
            exact leftWriter_congr hn heq)
          (by
            intro sh1 hR hadv
            exact leftWriter_run sem hR (hpc.adv sem hadv) (Int.le_refl _))
        exact ⟨.running segs', h1, h2, h3, h4, fun _ h => by cases h⟩
      · have hb : (sh.cs.length == seen) = false := by simpa using heq
        have hlw : leftWriter ops sh seen now = (sh, .goto .idle) := by
          simp only [leftWriter, hb, Bool.false_eq_true, if_false]
        show ∃ A', AbsStep _ now (leftWriter ops sh seen now).2 A' ∧ ShRel sem (leftWriter ops sh seen now).1 A' now ∧
          GotoOK sem (leftWriter ops sh seen now).1 now (leftWriter ops sh seen now).2 ∧
          Adv sem sh clk (leftWriter ops sh seen now).1 now ∧
          (∀ parts', A' = .unstarted parts' → Abs.unstarted parts = .unstarted parts' ∧
            (Pc.leftW seen = .idle ∨ ((∃ seen', Pc.leftW seen = .leftW seen') ∧ (leftWriter ops sh seen now).1 = sh)))
        rw [hlw]
        exact ⟨_, Or.inl rfl, h.mono sem hle, trivial, Adv.refl sem _ hle, fun _ h => ⟨h, Or.inr ⟨⟨seen, rfl⟩, rfl⟩⟩⟩
    | running segs =>
      obtain ⟨segs', h1, h2, h3, h4⟩ := leftWriter_run sem (ops := ops) h hpc hle
      exact ⟨.running segs', h1.toStep, h2, h3, h4, fun _ h => by cases h⟩

/-! ### the global invariant -/

theorem leftReader_started (sh : Sh σ) (now : Int) : (leftReader ops sh now).1.started = sh.started := by
  unfold leftReader
  split
  · rfl
  · split
    · rfl
    · simp only
      repeat' split
      all_goals rfl

/-- `Reach` + what the shared state stands for + what the waiting callers know + an unstarted schedule whose
`started` flag is set has a caller inside `Next` (between `started.Store(true)` and its reader section) -/
def Inv (A0 : Abs) (st : St σ) (clk : Int) : Prop :=
  ∃ A, Reach A0 st.log A ∧ ShRel sem st.sh A clk ∧ (∀ th ∈ st.thr, PcInv sem st.sh clk th.pc) ∧
    (∀ parts, A = .unstarted parts → st.sh.started = true → ∃ (i : Nat) (th : Thread), st.thr[i]? = some th ∧ th.pc = Pc.nextB)

theorem Inv.mono {A0 : Abs} {st : St σ} {clk clk' : Int} (h : Inv sem A0 st clk) (hle : clk ≤ clk') :
    Inv sem A0 st clk' := by
  obtain ⟨A, h1, h2, h3, h4⟩ := h
  exact ⟨A, h1, h2.mono sem hle, fun th hth => (h3 th hth).adv sem (Adv.refl sem _ hle), h4⟩

theorem step_inv {A0 : Abs} {st : St σ} {clk : Int} (e : Nat × Int) (hinv : Inv sem A0 st clk) (hle : clk ≤ e.2) :
    Inv sem A0 (step ops st e) e.2 := by
  unfold step
  cases hth : st.thr[e.1]? with
  | none => exact hinv.mono sem hle
  | some th =>
    simp only
    cases htodo : th.todo with
    | nil => exact hinv.mono sem hle
    | cons op more =>
      simp only
      obtain ⟨A, hreach, hrel, hthr, hnb⟩ := hinv
      have hmem : th ∈ st.thr := List.mem_of_getElem? hth
      have hlt : e.1 < st.thr.length := by
        rcases Nat.lt_or_ge e.1 st.thr.length with h | h
        · exact h
        · rw [List.getElem?_eq_none h] at hth; cases hth
      obtain ⟨A', hstep, hrel', hgoto, hadv, hkeep⟩ := section_ok sem (ops := ops) th.pc op hrel (hthr th hmem) hle
      -- the callers inside `Next` of an unstarted schedule
      have hnb' : ∀ (newth : Thread), (∀ parts, A' = .unstarted parts →
            (runSection ops st.sh th.pc op e.2).1.started = true → th.pc = .idle → op = .next → newth.pc = .nextB) →
          ∀ parts, A' = .unstarted parts → (runSection ops st.sh th.pc op e.2).1.started = true →
          ∃ (i : Nat) (th' : Thread), (st.thr.set e.1 newth)[i]? = some th' ∧ th'.pc = Pc.nextB := by
        intro newth hnew parts hA' hst'
        obtain ⟨hA, hcase⟩ := hkeep parts hA'
        have hold : st.sh.started = true → ∃ (i : Nat) (th' : Thread), (st.thr.set e.1 newth)[i]? = some th' ∧ th'.pc = Pc.nextB := by
          intro hs
          obtain ⟨i, thi, hi, hpi⟩ := hnb parts hA hs
          by_cases hie : i = e.1
          · subst hie
            rw [hth] at hi; cases hi
            rcases hcase with hc | ⟨⟨seen, hc⟩, _⟩ <;> rw [hc] at hpi <;> cases hpi
          · exact ⟨i, thi, by rw [List.getElem?_set_ne (Ne.symm hie)]; exact hi, hpi⟩
        rcases hcase with hc | ⟨_, hsame⟩
        · cases op with
          | next => exact ⟨e.1, newth, by simp [hlt], hnew parts hA' hst' hc rfl⟩
          | left =>
            have : (runSection ops st.sh th.pc Op.left e.2).1.started = st.sh.started := by
              rw [hc]; exact leftReader_started st.sh e.2
            exact hold (by rw [← this]; exact hst')
        · exact hold (by rw [← hsame]; exact hst')
      generalize hr : runSection ops st.sh th.pc op e.2 = r at *
      obtain ⟨sh', out⟩ := r
      simp only at hstep hrel' hgoto hadv hnb'
      unfold applyOut
      cases out with
      | goto pc =>
        refine ⟨A', ⟨A, hreach, hstep⟩, hrel', ?_, ?_⟩
        · intro y hy
          rcases List.mem_or_eq_of_mem_set hy with hy | rfl
          · exact (hthr y hy).adv sem hadv
          · exact hgoto
        · refine hnb' { th with pc := pc } ?_
          intro parts _ _ hc hop
          subst hop
          rw [hc] at hr
          have : (nextBegin st.sh).2 = Out.goto pc := by
            have := congrArg Prod.snd hr
            simpa [runSection] using this
          simp only [nextBegin, Out.goto.injEq] at this
          exact this.symm
      | ret r =>
        refine ⟨A', ⟨A, hreach, hstep⟩, hrel', ?_, ?_⟩
        · intro y hy
          rcases List.mem_or_eq_of_mem_set hy with hy | rfl
          · exact (hthr y hy).adv sem hadv
          · trivial
        · refine hnb' { pc := .idle, todo := more } ?_
          intro parts _ _ hc hop
          subst hop
          rw [hc] at hr
          have : (nextBegin st.sh).2 = Out.ret r := by
            have := congrArg Prod.snd hr
            simpa [runSection] using this
          simp [nextBegin] at this

/-- clock readings never go back -/
def ClockOK : Int → List (Nat × Int) → Prop
  | _, [] => True
  | clk, e :: rest => clk ≤ e.2 ∧ ClockOK e.2 rest

def lastClk : Int → List (Nat × Int) → Int
  | clk, [] => clk
  | _, e :: rest => lastClk e.2 rest

theorem run_inv {A0 : Abs} : ∀ (sched : List (Nat × Int)) (st : St σ) (clk : Int), ClockOK clk sched →
    Inv sem A0 st clk → Inv sem A0 (run ops st sched) (lastClk clk sched)
  | [], _, _, _, h => h
  | e :: rest, st, clk, hc, h => by
      have := run_inv rest (step ops st e) e.2 hc.2 (step_inv sem e h hc.1)
      simpa [run, lastClk] using this

end

end Pandora.Proofs.C02Par
