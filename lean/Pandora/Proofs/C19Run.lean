/-
C19, round 4 — helper lemmas for Model/C19Run.lean (core Lean only).
-/
import Pandora.Model.C19Run
import Pandora.Proofs.C19

namespace Pandora.Proofs.C19
open Pandora.Model.C10 Pandora.Model.C19

/-! ## instance.Run against the clock -/

theorem instanceRunSched_nodiscard (ts : List Token) (hw : ∀ t ∈ ts, t.waitOk = true) :
    instanceRunSched false ts = instanceRun (ts.map (·.shot)) := by
  induction ts with
  | nil => simp [instanceRunSched, instanceRun]
  | cons t rest ih =>
    have h1 := hw t (List.mem_cons_self ..)
    have ih' := ih (fun u hu => hw u (List.mem_cons_of_mem _ hu))
    by_cases hp : t.shot.panicked = true
    · simp [instanceRunSched, instanceRun, shootCond, h1, hp]
    · simp [instanceRunSched, instanceRun, shootCond, h1, hp, ih']

theorem instanceRunSched_failed_iff (discard : Bool) (ts : List Token) (hw : ∀ t ∈ ts, t.waitOk = true) :
    (instanceRunSched discard ts).result = .poolFailed ↔
      ∃ t ∈ ts, shootCond discard t.slowDown = true ∧ t.shot.panicked = true := by
  induction ts with
  | nil => simp [instanceRunSched]
  | cons t rest ih =>
    have h1 := hw t (List.mem_cons_self ..)
    have ih' := ih (fun u hu => hw u (List.mem_cons_of_mem _ hu))
    by_cases hc : shootCond discard t.slowDown = true
    · by_cases hp : t.shot.panicked = true
      · simp [instanceRunSched, h1, hc, hp]
      · simp [instanceRunSched, h1, hc, hp, ih']
    · simp [instanceRunSched, h1, hc, ih']

theorem instanceRunSched_all (discard : Bool) (ts : List Token) (hw : ∀ t ∈ ts, t.waitOk = true)
    (hp : ∀ t ∈ ts, shootCond discard t.slowDown = true → t.shot.panicked = false) :
    (instanceRunSched discard ts).result = .finished ∧ (instanceRunSched discard ts).shotsTaken = ts.length ∧
      (instanceRunSched discard ts).samples = (ts.map (tokenSamples discard)).flatten := by
  induction ts with
  | nil => simp [instanceRunSched]
  | cons t rest ih =>
    have h1 := hw t (List.mem_cons_self ..)
    obtain ⟨i1, i2, i3⟩ := ih (fun u hu => hw u (List.mem_cons_of_mem _ hu))
      (fun u hu => hp u (List.mem_cons_of_mem _ hu))
    by_cases hc : shootCond discard t.slowDown = true
    · have h2 := hp t (List.mem_cons_self ..) hc
      simp [instanceRunSched, tokenSamples, h1, hc, h2, i1, i2, i3]
    · simp [instanceRunSched, tokenSamples, h1, hc, i1, i2, i3]

/-- with a clock that does not run backwards the stored overdue is exactly how late the instance asks -/
theorem waiterOverdue_eq (next lastNow now : Int) (h : lastNow ≤ now) :
    waiterOverdue next lastNow now = if now - next ≥ 0 then now - next else 0 := by
  unfold waiterOverdue
  split <;> split <;> (try split) <;> omega

theorem isSlowDown_iff (next lastNow now : Int) (h : lastNow ≤ now) :
    isSlowDown (waiterOverdue next lastNow now) = true ↔ now - next ≥ maxOverdue := by
  rw [waiterOverdue_eq next lastNow now h]
  unfold isSlowDown maxOverdue
  split <;> simp <;> omega

theorem instanceRunSched_on_time (discard : Bool) (ts : List Token) (h : ∀ t ∈ ts, t.slowDown = false) :
    instanceRunSched discard ts = instanceRunSched false ts := by
  induction ts with
  | nil => simp [instanceRunSched]
  | cons t rest ih =>
    have h1 := h t (List.mem_cons_self ..)
    have ih' := ih (fun u hu => h u (List.mem_cons_of_mem _ hu))
    simp [instanceRunSched, shootCond, h1, ih']

/-! ## the shared iterator -/

/-- nobody died, and whoever is inside a call holds the mutex -/
def IterInv (s : IterState) : Prop := s.fatal = false ∧ ∀ u, s.pc u ≠ 0 → s.lock = some u

theorem otherInside_true {pc : Nat → Nat} {t n : Nat} (h : otherInside pc t n = true) : ∃ m, m ≠ t ∧ pc m = 2 := by
  induction n with
  | zero => simp [otherInside] at h
  | succ n ih =>
    simp only [otherInside, Bool.or_eq_true, Bool.and_eq_true, bne_iff_ne, beq_iff_eq, ne_eq] at h
    rcases h with ⟨h1, h2⟩ | h
    · exact ⟨n, h1, h2⟩
    · exact ih h

theorem iterStep_inv (n : Nat) (s : IterState) (t : Nat) (h : IterInv s) : IterInv (iterStep true n s t) := by
  obtain ⟨hf, hl⟩ := h
  unfold iterStep
  simp only [hf, Bool.false_eq_true, if_false, if_true]
  split
  · rename_i hpc
    split
    · rename_i hlock
      refine ⟨rfl, ?_⟩
      intro u hu
      by_cases hut : u = t
      · subst hut; rfl
      · have hu' : s.pc u ≠ 0 := by simpa [setPc, hut] using hu
        have := hl u hu'
        rw [hlock] at this
        cases this
    · exact ⟨hf, hl⟩
  · rename_i hpc
    have hlt : s.lock = some t := hl t (by omega)
    have hno : otherInside s.pc t n = false := by
      cases ho : otherInside s.pc t n with
      | false => rfl
      | true =>
        obtain ⟨m, hm, hm2⟩ := otherInside_true ho
        have := hl m (by omega)
        rw [hlt] at this
        cases this
        exact absurd rfl hm
    simp only [hno, Bool.false_eq_true, if_false]
    refine ⟨rfl, ?_⟩
    intro u hu
    by_cases hut : u = t
    · subst hut; exact hlt
    · exact hl u (by simpa [setPc, hut] using hu)
  · rename_i hpc
    have hlt : s.lock = some t := hl t (by omega)
    refine ⟨rfl, ?_⟩
    intro u hu
    by_cases hut : u = t
    · subst hut; exact hlt
    · exact hl u (by simpa [setPc, hut] using hu)
  · rename_i h0 h1 h2
    refine ⟨rfl, ?_⟩
    intro u hu
    by_cases hut : u = t
    · subst hut; simp [setPc] at hu
    · have hu' : s.pc u ≠ 0 := by simpa [setPc, hut] using hu
      have ht' : s.pc t ≠ 0 := fun h => h0 h
      have a := hl u hu'
      have b := hl t ht'
      rw [a] at b
      cases b
      exact absurd rfl hut

theorem iterRun_inv (n : Nat) (sched : List Nat) (s : IterState) (h : IterInv s) : IterInv (iterRun true n s sched) := by
  induction sched generalizing s with
  | nil => exact h
  | cons t rest ih => exact ih _ (iterStep_inv n s t h)

theorem iterInv_init : IterInv {} := ⟨rfl, fun _ hu => absurd rfl hu⟩

/-! ## the DNS-caching dialer -/

theorem dnsDial_ok (f : DialFacts) (cached : Bool) (o : DialOutcome) (h : f.remoteIsTCP = true) :
    ∃ r, dnsDial f cached o = .ok r := by
  cases cached <;> cases o <;> by_cases hs : f.addrSplits = true <;> simp [dnsDial, h, hs]

theorem dnsDials_transparent (cached : Bool) (os : List DialOutcome) :
    dnsDials {} cached os = .ok (os, cached || os.any (· == .connected)) := by
  induction os generalizing cached with
  | nil => simp [dnsDials]
  | cons o rest ih =>
    cases cached <;> cases o <;> simp [dnsDials, dnsDial, ih]

/-! ## sample ownership -/

theorem stepOps_wellOwned (o : StepOutcome) (h : ∀ st, o ≠ .received st .panic) :
    wellOwned (stepOps false o) = true ∧ reportsIn (stepOps false o) = 1 := by
  cases o with
  | prepErr => decide
  | doErr e => exact ⟨by simp [stepOps, wellOwned, wellOwned.go], by simp [stepOps, reportsIn]⟩
  | bodyErr st e => exact ⟨by simp [stepOps, wellOwned, wellOwned.go], by simp [stepOps, reportsIn]⟩
  | received st p =>
    cases p with
    | ok => exact ⟨by simp [stepOps, wellOwned, wellOwned.go], by simp [stepOps, reportsIn]⟩
    | err => exact ⟨by simp [stepOps, wellOwned, wellOwned.go], by simp [stepOps, reportsIn]⟩
    | panic => exact absurd rfl (h st)

theorem stepOps_reports (scn : String) (s : Step) : reportsIn (stepOps false s.outcome) = (stepHttp scn s).1.length := by
  cases h : s.outcome with
  | prepErr => simp [stepOps, reportsIn, stepHttp, h]
  | doErr e => simp [stepOps, reportsIn, stepHttp, h]
  | bodyErr st e => simp [stepOps, reportsIn, stepHttp, h]
  | received st p => cases p <;> simp [stepOps, reportsIn, stepHttp, h]

theorem scenarioOps_wellOwned (scn : String) (steps : List Step) (hp : (shootScenario scn steps).panicked = false) :
    (∀ tr ∈ scenarioOps false steps, wellOwned tr = true) ∧
      ((scenarioOps false steps).map reportsIn).sum = (shootScenario scn steps).reports.length := by
  induction steps with
  | nil => simp [scenarioOps, shootScenario]
  | cons s rest ih =>
    cases h : s.outcome with
    | prepErr => simp [scenarioOps, shootScenario, stepHttp, h, stepOps, wellOwned, wellOwned.go, reportsIn]
    | doErr e => simp [scenarioOps, shootScenario, stepHttp, h, stepOps, wellOwned, wellOwned.go, reportsIn]
    | bodyErr st e => simp [scenarioOps, shootScenario, stepHttp, h, stepOps, wellOwned, wellOwned.go, reportsIn]
    | received st p =>
      cases p with
      | err => simp [scenarioOps, shootScenario, stepHttp, h, stepOps, wellOwned, wellOwned.go, reportsIn]
      | panic => simp [shootScenario, stepHttp, h] at hp
      | ok =>
        have hp' : (shootScenario scn rest).panicked = false := by
          simpa [shootScenario, stepHttp, h] using hp
        obtain ⟨i1, i2⟩ := ih hp'
        constructor
        · intro tr htr
          simp only [scenarioOps, h, List.mem_cons] at htr
          rcases htr with rfl | htr
          · simp [stepOps, wellOwned, wellOwned.go]
          · exact i1 tr htr
        · simp [scenarioOps, shootScenario, stepHttp, h, i2, stepOps, reportsIn]
          omega

end Pandora.Proofs.C19
