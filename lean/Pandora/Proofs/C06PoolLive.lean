/-
C06 helper lemmas: the pool's await loop cannot get stuck before the end-of-run cancel (Model/C06Pool.lean) —
once the start result was taken, either `runRes` is closed (the cancel was issued) or an instance result is
still outstanding.
-/
import Pandora.Proofs.C06Pool

namespace Pandora.Proofs.C06PoolLive
open Pandora.Model.C06Pool Pandora.Proofs.C06Pool

def KInv (st : PSt) : Prop :=
  st.startResOpen = false → st.runResOpen = false ∨ st.awaitedInstances < st.launched

theorem kinv_init (n : Nat) : KInv (init n) := by
  intro h; simp [init] at h

/-- `checkAllInstancesAreFinished` with the start result taken: closes, or a result is outstanding -/
theorem kinv_check (st : PSt) (hsi : st.startedInstances = (st.launched : Int)) : KInv st.check := by
  intro hs
  unfold PSt.check at hs ⊢
  by_cases hall : ((!st.startResOpen) && decide ((st.awaitedInstances : Int) ≥ st.startedInstances)) = true
  · simp [hall]
  · simp only [hall, Bool.not_false, if_true] at hs ⊢
    right
    simp only [Bool.and_eq_true, Bool.not_eq_true', decide_eq_true_eq, not_and] at hall
    have := hall hs
    rw [hsi] at this
    omega

theorem check_open (st : PSt) (h : st.startResOpen = true) : st.check = st := by
  unfold PSt.check
  simp [h]

theorem kinv_step {st : PSt} (p : PInv st) (k : KInv st) (e : PEv) : KInv (step st e) := by
  cases e with
  | launch =>
    simp only [step]; split
    · rename_i hs
      intro ho
      have := (p.startTaken ho).2
      rw [hs] at this; cases this
    · exact k
  | startDone => simp only [step]; split <;> exact k
  | report i => simp only [step]; split <;> exact k
  | finish => simp only [step]; split <;> exact k
  | provReturn => exact k
  | aggReturn => exact k
  | awaitProv => simp only [step]; split <;> exact k
  | awaitAgg => simp only [step]; split <;> exact k
  | awaitStart =>
    simp only [step]; split
    · exact kinv_check _ rfl
    · exact k
  | awaitInst =>
    simp only [step]; split
    · cases hs : st.startResOpen with
      | true =>
        rw [check_open _ (by simp)]
        intro ho; simp at ho
      | false => exact kinv_check _ (p.startTaken hs).1
    · exact k
  | extCancel => simp only [step]; split <;> exact k
  | waitDone => simp only [step]; split <;> exact k

theorem kinv_run (tr : List PEv) {st : PSt} (p : PInv st) (k : KInv st) : KInv (run st tr) := by
  induction tr generalizing st with
  | nil => exact k
  | cons e es ih => exact ih (pinv_step p e) (kinv_step p k e)

end Pandora.Proofs.C06PoolLive
