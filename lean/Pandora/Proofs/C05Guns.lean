/-
C05 — gun accounting (`Close` calls) and the early-failure paths of `Pool.Run` (`onWaitDone` without an await goroutine).
-/
import Pandora.Proofs.C05Swallow

namespace Pandora.Proofs.C05
open Pandora.Model.C05

/-- a gun that nobody owns any more: never closed twice, never "closed" if it is no `io.Closer`,
and (with the repair) closed exactly once if it is one -/
def GunDone (cfg : Cfg) (g : Gun) : Prop :=
  g.closes ≤ 1 ∧ (g.closable = false → g.closes = 0) ∧ (cfg.fixClose = true → g.closable = true → g.closes = 1)

structure InvG (cfg : Cfg) (s : State) : Prop where
  live0 : ∀ i ∈ s.live, ∀ g, i.gun = some g → g.closes = 0
  ret1 : ∀ g ∈ s.retired, GunDone cfg g
  warm1 : ∀ g, s.warmGun = some g → GunDone cfg g
  sel : s.main = .selecting → s.aw ≠ .off
  offRet : cfg.fixWaitDone = true → s.aw = .off → mainRunning s.main = false → s.waitDone = 1

theorem invG_init (cfg : Cfg) : InvG cfg init := by
  constructor <;> simp [init, mainRunning]

macro "g2_tac" : tactic => `(tactic|
  (constructor <;>
   simp only [cancelAll, mainReturn, finish, checkAll, afterErr, handleRes, addErr, sendRes, nextWait, closeGun, GunDone,
     mainRunning, List.mem_append, List.mem_cons, List.mem_singleton, List.not_mem_nil] at * <;>
   grind))

macro "g_destruct" h:ident : tactic => `(tactic| obtain ⟨g1, g2, g3, g4, g5⟩ := $h)

theorem g_finish (cfg : Cfg) (s : State) (h : InvG cfg s) (hl : s.aw ≠ .off) : InvG cfg (finish s) := by
  g_destruct h
  unfold finish
  split
  · g2_tac
  · g2_tac

theorem g_checkAll (cfg : Cfg) (s : State) (h : InvG cfg s) : InvG cfg (checkAll s) := by
  g_destruct h
  unfold checkAll
  repeat' split
  all_goals g2_tac

theorem checkAll_aw (s : State) : (checkAll s).aw = s.aw := by
  unfold checkAll
  repeat' split
  all_goals rfl

theorem g_afterErr (cfg : Cfg) (s : State) (chk : Bool) (h : InvG cfg { s with aw := .loop }) :
    InvG cfg (afterErr s chk) := by
  unfold afterErr
  apply g_finish
  · split
    · exact g_checkAll _ _ h
    · exact h
  · split
    · rw [checkAll_aw]; simp
    · simp

theorem g_handleRes (cfg : Cfg) (s : State) (w : Wrap) (r : Ret) (done chk : Bool) (h : InvG cfg s)
    (hl : s.aw = .loop) : InvG cfg (handleRes s w r done chk) := by
  unfold handleRes
  split
  · apply g_afterErr
    have e : { s with aw := AwPc.loop } = s := by cases s; simp_all
    rw [e]; exact h
  · g_destruct h; g2_tac

section
variable (cfg : Cfg) (s : State)

theorem g_ext (ha : InvA s) (h : InvG cfg s) : InvG cfg (step cfg s .extCancel) := by
  simp only [step]; g_destruct h; g2_tac

theorem g_warm (o) (ha : InvA s) (h : InvG cfg s) : InvG cfg (step cfg s (.warm o)) := by
  simp only [step]
  split
  · g_destruct h; a_destruct ha; cases o <;> g2_tac
  · exact h

theorem g_sched (o) (ha : InvA s) (h : InvG cfg s) : InvG cfg (step cfg s (.sched o)) := by
  simp only [step]
  split
  · g_destruct h; a_destruct ha; cases o <;> g2_tac
  · exact h

theorem g_provRet (r) (ha : InvA s) (h : InvG cfg s) : InvG cfg (step cfg s (.provRet r)) := by
  simp only [step]
  split
  · g_destruct h; cases r <;> g2_tac
  · exact h

theorem g_aggRet (r) (ha : InvA s) (h : InvG cfg s) : InvG cfg (step cfg s (.aggRet r)) := by
  simp only [step]
  split
  · g_destruct h; cases r <;> g2_tac
  · exact h

theorem g_rps (ha : InvA s) (h : InvG cfg s) : InvG cfg (step cfg s .rpsFinished) := by
  simp only [step]
  split
  · g_destruct h; g2_tac
  · exact h

theorem g_startFirst (o) (ha : InvA s) (h : InvG cfg s) : InvG cfg (step cfg s (.startFirst o)) := by
  simp only [step]
  split
  · g_destruct h; cases o <;> g2_tac
  · exact h

theorem g_startTick (ha : InvA s) (h : InvG cfg s) : InvG cfg (step cfg s .startTick) := by
  simp only [step]
  split
  · g_destruct h; g2_tac
  · exact h

theorem g_startEnd (ha : InvA s) (h : InvG cfg s) : InvG cfg (step cfg s .startEnd) := by
  simp only [step]
  split
  · g_destruct h; g2_tac
  · exact h

theorem g_instCreate (i o) (ha : InvA s) (h : InvG cfg s) : InvG cfg (step cfg s (.instCreate i o)) := by
  simp only [step]
  split
  · rename_i id hl
    have he : ∀ x, x ∈ s.live.eraseIdx i → x ∈ s.live := fun x hx => List.mem_of_mem_eraseIdx hx
    have hs : ∀ y x, x ∈ s.live.set i y → x ∈ s.live ∨ x = y := fun y x hx => List.mem_or_eq_of_mem_set hx
    g_destruct h; cases o <;> g2_tac
  · exact h

theorem g_instRet (i r) (ha : InvA s) (h : InvG cfg s) : InvG cfg (step cfg s (.instRet i r)) := by
  simp only [step]
  split
  · rename_i id g hl
    have he : ∀ x, x ∈ s.live.eraseIdx i → x ∈ s.live := fun x hx => List.mem_of_mem_eraseIdx hx
    have hm : (⟨id, some g⟩ : Inst) ∈ s.live := List.mem_of_getElem? hl
    split
    · exact h
    · have hg := h.live0 _ hm g rfl; g_destruct h; cases r <;> g2_tac
  · exact h

theorem g_awaitProv (ha : InvA s) (h : InvG cfg s) : InvG cfg (step cfg s .awaitProv) := by
  simp only [step]
  split
  · apply g_handleRes
    · g_destruct h; g2_tac
    · assumption
  · exact h

theorem g_awaitAgg (ha : InvA s) (h : InvG cfg s) : InvG cfg (step cfg s .awaitAgg) := by
  simp only [step]
  split
  · apply g_handleRes
    · g_destruct h; g2_tac
    · assumption
  · exact h

theorem g_awaitStart (ha : InvA s) (h : InvG cfg s) : InvG cfg (step cfg s .awaitStart) := by
  simp only [step]
  split
  · apply g_handleRes
    · g_destruct h; g2_tac
    · assumption
  · exact h

theorem g_awaitRun (ha : InvA s) (h : InvG cfg s) : InvG cfg (step cfg s .awaitRun) := by
  simp only [step]
  split
  · split
    · apply g_afterErr
      g_destruct h; split <;> g2_tac
    · apply g_handleRes
      · g_destruct h; g2_tac
      · assumption
  · exact h

theorem g_errDeliver (ha : InvA s) (h : InvG cfg s) : InvG cfg (step cfg s .errDeliver) := by
  simp only [step]
  split
  · apply g_afterErr
    g_destruct h; g2_tac
  · exact h

theorem g_errSuppress (ha : InvA s) (h : InvG cfg s) : InvG cfg (step cfg s .errSuppress) := by
  simp only [step]
  split
  · rename_i w r chk _
    have key : InvG cfg (afterErr s chk) := by
      apply g_afterErr
      g_destruct h; g2_tac
    repeat' split
    all_goals first | exact h | exact key
  · exact h

theorem g_mainCancel (ha : InvA s) (h : InvG cfg s) : InvG cfg (step cfg s .mainCancel) := by
  simp only [step]
  split
  · g_destruct h; g2_tac
  · exact h

theorem g_mainClosed (ha : InvA s) (h : InvG cfg s) : InvG cfg (step cfg s .mainClosed) := by
  simp only [step]
  split
  · g_destruct h; g2_tac
  · exact h

end

theorem step_invG (cfg : Cfg) (s : State) (c : Choice) (ha : InvA s) (h : InvG cfg s) : InvG cfg (step cfg s c) := by
  cases c
  · exact g_ext cfg s ha h
  · exact g_warm cfg s _ ha h
  · exact g_sched cfg s _ ha h
  · exact g_provRet cfg s _ ha h
  · exact g_aggRet cfg s _ ha h
  · exact g_rps cfg s ha h
  · exact g_startFirst cfg s _ ha h
  · exact g_startTick cfg s ha h
  · exact g_startEnd cfg s ha h
  · exact g_instCreate cfg s _ _ ha h
  · exact g_instRet cfg s _ _ ha h
  · exact g_awaitProv cfg s ha h
  · exact g_awaitAgg cfg s ha h
  · exact g_awaitStart cfg s ha h
  · exact g_awaitRun cfg s ha h
  · exact g_errDeliver cfg s ha h
  · exact g_errSuppress cfg s ha h
  · exact g_mainCancel cfg s ha h
  · exact g_mainClosed cfg s ha h

theorem foldl_invAG (cfg : Cfg) (cs : List Choice) (s : State) (ha : InvA s) (h : InvG cfg s) :
    InvA (cs.foldl (step cfg) s) ∧ InvG cfg (cs.foldl (step cfg) s) := by
  induction cs generalizing s with
  | nil => exact ⟨ha, h⟩
  | cons c cs ih => exact ih _ (step_invA cfg s c ha) (step_invG cfg s c ha h)

theorem run_invG (cfg : Cfg) (cs : List Choice) : InvG cfg (run cfg cs) :=
  (foldl_invAG cfg cs _ invA_init (invG_init cfg)).2

end Pandora.Proofs.C05
