/-
C11 — helper lemmas for the closure / modifier / hand-over-site theorems of `Props/C11.lean`.
-/
import Pandora.Proofs.C11Own
import Pandora.Model.C11Modifiers
import Pandora.Spec.C11

namespace Pandora.Proofs.C11
open Pandora.Model.C11 Pandora.Go Pandora.Spec.C11

/-! ### chains without `substr` keep no state -/

def Modifier.pure : Modifier → Bool
  | .substr _ _ => false
  | _ => true

theorem stepMod_pure (m : Modifier) (s : List Char) (h : Modifier.pure m = true) :
    ∃ r, stepMod m s = some (r, m) := by
  cases m with
  | lower => exact ⟨_, rfl⟩
  | upper => exact ⟨_, rfl⟩
  | replace o n => exact ⟨_, rfl⟩
  | substr a b => simp [Modifier.pure] at h

theorem stepChain_pure : ∀ (ms : List Modifier) (s : List Char), ms.all Modifier.pure = true →
    ∃ r, stepChain ms s = some (r, ms) := by
  intro ms
  induction ms with
  | nil => intro s _; exact ⟨s, rfl⟩
  | cons m ms ih =>
    intro s h
    simp only [List.all_cons, Bool.and_eq_true] at h
    obtain ⟨r, hr⟩ := stepMod_pure m s h.1
    obtain ⟨r', hr'⟩ := ih r h.2
    exact ⟨r', by simp [stepChain, hr, hr']⟩

theorem extractCached_pure (ms : List Modifier) (h : ms.all Modifier.pure = true) :
    ∀ vals : List (List Char), extractCached ms vals = extractFresh ms vals := by
  intro vals
  induction vals with
  | nil => rfl
  | cons v vs ih =>
    obtain ⟨r, hr⟩ := stepChain_pure ms v h
    simp only [extractCached, hr, extractFresh, List.map_cons, applyChain, Option.map_some]
    rw [ih]
    rfl

/-! ### hand-over words -/

/-- the programs built from hand-over words contain no ordinary access: the discipline check does not depend on the
thread that runs them -/
def OOp.noAcc : OOp → Bool
  | .acc _ => false
  | _ => true

theorem progOkB_thread (cls : Nat → Class) (t t' : Nat) : ∀ (ops : List OOp) (O : List Nat),
    ops.all OOp.noAcc = true → progOkB cls t O ops = progOkB cls t' O ops := by
  intro ops
  induction ops with
  | nil => intro O _; rfl
  | cons op rest ih =>
    intro O h
    simp only [List.all_cons, Bool.and_eq_true] at h
    cases op with
    | acc op0 => simp [OOp.noAcc] at h
    | own op0 => simp only [progOkB]; rw [ih O h.2]
    | take l => simp only [progOkB]; exact ih _ h.2
    | give l => simp only [progOkB]; rw [ih _ h.2]

theorem siteOps_noAcc (w : String) : (siteOps w).all OOp.noAcc = true := by
  simp only [siteOps, List.all_cons, OOp.noAcc, Bool.true_and, List.all_eq_true, List.mem_filterMap]
  intro op ⟨c, _, hc⟩
  split at hc
  · cases hc; rfl
  · split at hc
    · cases hc; rfl
    · cases hc

end Pandora.Proofs.C11
