/-
C08 / C14: analyses of the provider loops (runFullScan, LoadAmmo, runPreloaded / scenario Run, grpcjson start,
DecodeProvider.Run): each terminates within an explicit fuel and delivers exactly `cycTake F T`.
-/
import Pandora.Proofs.C08Src
namespace Pandora.Proofs.C08
open Pandora.Model.C08

variable {α : Type}

/-- the facts about the stopping count `T` that the loop analyses use -/
structure Tgt (limit passes f : Nat) (cancelAt : Option Nat) (T : Nat) : Prop where
  le_limit : limit ≠ 0 → T ≤ limit
  le_pass : passes ≠ 0 → T ≤ passes * f
  le_cancel : ∀ c, cancelAt = some c → T ≤ c
  attained : (limit ≠ 0 ∧ T = limit) ∨ (passes ≠ 0 ∧ T = passes * f) ∨ cancelAt = some T

/-- how a run that stopped after `T` deliveries ends: context.Canceled if the cancellation came first -/
def endRes (cancelAt : Option Nat) (T : Nat) : RunRes := if cancelled cancelAt T then .canceled else .nil

/-- chosen entries among `q` complete passes plus the first `r` entries of the next pass -/
def sel (file : List α) (chosen : α → Bool) (q r : Nat) : List α :=
  rep q (file.filter chosen) ++ (file.take r).filter chosen

theorem sel_prefix (file : List α) (chosen : α → Bool) (q r : Nat) :
    sel file chosen q r <+: rep (q + 1) (file.filter chosen) := by
  rw [rep_succ]
  exact (List.prefix_append_right_inj _).mpr ((List.take_prefix r file).filter chosen)

theorem sel_len_le (file : List α) (chosen : α → Bool) (q r : Nat) :
    (sel file chosen q r).length ≤ (q + 1) * (file.filter chosen).length := by
  simpa using (sel_prefix file chosen q r).length_le

theorem sel_len_ge (file : List α) (chosen : α → Bool) (q r : Nat) :
    q * (file.filter chosen).length ≤ (sel file chosen q r).length := by
  simp [sel]

theorem sel_full (file : List α) (chosen : α → Bool) (q : Nat) :
    sel file chosen q file.length = rep (q + 1) (file.filter chosen) := by
  simp [sel, rep_succ]

theorem sel_zero (file : List α) (chosen : α → Bool) (q : Nat) :
    sel file chosen q 0 = rep q (file.filter chosen) := by
  simp [sel]

theorem sel_next (file : List α) (chosen : α → Bool) (q r : Nat) (a : α) (h : file[r]? = some a) :
    sel file chosen q (r + 1) = if chosen a then sel file chosen q r ++ [a] else sel file chosen q r := by
  simp only [sel]
  rw [take_succ_getElem file r a h, List.filter_append]
  by_cases hc : chosen a <;> simp [hc]

theorem cancelled_false_iff (cancelAt : Option Nat) (k : Nat) :
    cancelled cancelAt k = false ↔ ∀ c, cancelAt = some c → k < c := by
  cases cancelAt with
  | none => simp [cancelled]
  | some c => simp [cancelled]

theorem cancelled_true_iff (cancelAt : Option Nat) (k : Nat) :
    cancelled cancelAt k = true ↔ ∃ c, cancelAt = some c ∧ c ≤ k := by
  cases cancelAt with
  | none => simp [cancelled]
  | some c => simp [cancelled]

theorem succ_mul' (D m : Nat) : (D + 1) * m = D * m + m := by rw [Nat.add_mul, Nat.one_mul]

theorem fullScan_spec {σ : Type} (scan : σ → ScanRes × σ) (R : Nat → Nat → σ → Prop) (file : List α)
    (chosen : α → Bool) (limit passes : Nat) (cancelAt : Option Nat) (T : Nat)
    (hn : 0 < file.length) (hf : 0 < (file.filter chosen).length)
    (src : Src scan file.length passes R) (tg : Tgt limit passes (file.filter chosen).length cancelAt T) :
    ∀ fuel D q r s out, R q r s → r ≤ file.length → (passes = 0 ∨ q < passes) → out = sel file chosen q r →
      out.length ≤ T → q + D = T / (file.filter chosen).length →
      (D + 1) * (file.length + 1) + 1 ≤ fuel + r →
      fullScan scan file chosen limit cancelAt fuel s out = some (cycTake (file.filter chosen) T, endRes cancelAt T) := by
  intro fuel
  induction fuel with
  | zero =>
    intro D q r s out _ hr _ _ _ _ hfuel
    have := succ_mul' D (file.length + 1)
    omega
  | succ fuel ih =>
    intro D q r s out hR hr hq hout hlen hD hfuel
    subst hout
    have hpre := sel_prefix file chosen q r
    have hcyc := eq_cycTake_of_prefix _ _ _ hf hpre
    unfold fullScan
    by_cases hc : cancelled cancelAt (sel file chosen q r).length = true
    · -- cancelled
      obtain ⟨c, hc1, hc2⟩ := (cancelled_true_iff _ _).mp hc
      have hT : (sel file chosen q r).length = T := by have := tg.le_cancel c hc1; omega
      rw [if_pos hc]
      have : endRes cancelAt T = .canceled := by simp [endRes, ← hT, hc]
      rw [this, ← hT, ← hcyc]
    · rw [if_neg hc]
      have hnc : ∀ c, cancelAt = some c → (sel file chosen q r).length < c :=
        (cancelled_false_iff _ _).mp (by simpa using hc)
      by_cases hl : limit ≠ 0 ∧ limit ≤ (sel file chosen q r).length
      · -- the limit is reached
        have hT : (sel file chosen q r).length = T := by have := tg.le_limit hl.1; omega
        rw [if_pos hl]
        have : endRes cancelAt T = .nil := by simp [endRes, ← hT, hc]
        rw [this, ← hT, ← hcyc]
      · rw [if_neg hl]
        by_cases hrn : r < file.length
        · -- next entry of the current pass
          obtain ⟨s', hs, hR'⟩ := src.next q r s hR hrn hq
          obtain ⟨a, ha⟩ : ∃ a, file[r]? = some a := ⟨file[r], List.getElem?_eq_getElem hrn⟩
          have hsel := sel_next file chosen q r a ha
          have hlen' : (sel file chosen q (r + 1)).length ≤ T := by
            rcases tg.attained with ⟨h0, hT⟩ | ⟨h0, hT⟩ | hT
            · rw [hsel]; split
              · rw [List.length_append, List.length_singleton]; omega
              · exact hlen
            · have := sel_len_le file chosen q (r + 1)
              have h2 : (q + 1) * (file.filter chosen).length ≤ passes * (file.filter chosen).length :=
                Nat.mul_le_mul_right _ (by omega)
              omega
            · have := hnc T hT
              rw [hsel]; split
              · rw [List.length_append, List.length_singleton]; omega
              · exact hlen
          simp only [hs, ha]
          by_cases hch : chosen a = true
          · rw [if_pos hch] at hsel ⊢
            rw [← hsel]
            exact ih D q (r + 1) s' _ hR' (by omega) hq rfl hlen' hD (by omega)
          · rw [if_neg hch] at hsel ⊢
            rw [← hsel]
            exact ih D q (r + 1) s' _ hR' (by omega) hq rfl hlen' hD (by omega)
        · -- end of file
          have hrn' : r = file.length := by omega
          subst hrn'
          rw [sel_full] at hlen hcyc hnc hl hc ⊢
          have hlenF : (rep (q + 1) (file.filter chosen)).length = (q + 1) * (file.filter chosen).length := length_rep _ _
          by_cases hp : passes ≠ 0 ∧ passes ≤ q + 1
          · -- last pass done
            obtain ⟨s', hs⟩ := src.stop q s hR hp.1 hp.2
            have hpq : passes = q + 1 := by omega
            have hT : (rep (q + 1) (file.filter chosen)).length = T := by
              have := tg.le_pass hp.1
              rw [hpq] at this
              omega
            simp only [hs]
            have hc' : cancelled cancelAt T = false := by rw [← hT]; simpa using hc
            have : endRes cancelAt T = .nil := by simp [endRes, hc']
            rw [this, ← hT, ← hcyc]
          · -- seek to start, first entry of the next pass
            have hp' : passes = 0 ∨ q + 1 < passes := by omega
            obtain ⟨s', hs, hR'⟩ := src.wrap q s hR hp'
            obtain ⟨a, ha⟩ : ∃ a, file[0]? = some a := ⟨file[0], List.getElem?_eq_getElem hn⟩
            have hsel := sel_next file chosen (q + 1) 0 a ha
            rw [sel_zero] at hsel
            have hq1 : q + 1 ≤ T / (file.filter chosen).length := by
              rw [Nat.le_div_iff_mul_le hf]; omega
            obtain ⟨D', hD'⟩ : ∃ D', D = D' + 1 := ⟨D - 1, by omega⟩
            subst hD'
            have hmul := succ_mul' (D' + 1) (file.length + 1)
            have hlen' : (sel file chosen (q + 1) (0 + 1)).length ≤ T := by
              rcases tg.attained with ⟨h0, hT⟩ | ⟨h0, hT⟩ | hT
              · rw [hsel]; split
                · rw [List.length_append, List.length_singleton]; omega
                · exact hlen
              · have := sel_len_le file chosen (q + 1) (0 + 1)
                have h2 : (q + 1 + 1) * (file.filter chosen).length ≤ passes * (file.filter chosen).length :=
                  Nat.mul_le_mul_right _ (by omega)
                omega
              · have := hnc T hT
                rw [hsel]; split
                · rw [List.length_append, List.length_singleton]; omega
                · exact hlen
            simp only [hs, ha]
            by_cases hch : chosen a = true
            · rw [if_pos hch] at hsel ⊢
              rw [← hsel]
              exact ih D' (q + 1) (0 + 1) s' _ hR' (by omega) hp' rfl hlen' (by omega) (by omega)
            · rw [if_neg hch] at hsel ⊢
              rw [← hsel]
              exact ih D' (q + 1) (0 + 1) s' _ hR' (by omega) hp' rfl hlen' (by omega) (by omega)

/-- `LoadAmmo` (Passes = 1, Limit = 0) returns the whole file -/
theorem loadAmmo_spec {σ : Type} (scan : Bounds → σ → ScanRes × σ) (R : Nat → Nat → σ → Prop) (file : List α)
    (src : Src (scan ⟨0, 1⟩) file.length 1 R) :
    ∀ fuel r s, R 0 r s → r ≤ file.length → file.length + 1 ≤ fuel + r →
      loadAmmo scan file fuel s (file.take r) = some (.ok file) := by
  intro fuel
  induction fuel with
  | zero => intro r s _ hr hfuel; omega
  | succ fuel ih =>
    intro r s hR hr hfuel
    unfold loadAmmo
    by_cases hrn : r < file.length
    · obtain ⟨s', hs, hR'⟩ := src.next 0 r s hR hrn (by omega)
      obtain ⟨a, ha⟩ : ∃ a, file[r]? = some a := ⟨file[r], List.getElem?_eq_getElem hrn⟩
      simp only [hs, ha]
      rw [← take_succ_getElem file r a ha]
      exact ih (r + 1) s' hR' (by omega) (by omega)
    · have hrn' : r = file.length := by omega
      subst hrn'
      obtain ⟨s', hs⟩ := src.stop 0 s hR (by omega) (by omega)
      simp only [hs, List.take_length]

/-- raw result of the cyclic replay loop -/
def preRes (b : Bounds) (f : Nat) (cancelAt : Option Nat) (T : Nat) : RunRes :=
  if cancelled cancelAt T then .canceled
  else if b.passes ≠ 0 ∧ b.passes ≤ T / f then .errPasses else .errLimit

theorem mapSentinel_preRes (b : Bounds) (f : Nat) (cancelAt : Option Nat) (T : Nat) :
    mapSentinel (preRes b f cancelAt T) = endRes cancelAt T := by
  unfold preRes endRes
  split
  · rfl
  · split <;> rfl

theorem preloaded_spec (F : List α) (b : Bounds) (cancelAt : Option Nat) (T : Nat) (hf : 0 < F.length)
    (tg : Tgt b.limit b.passes F.length cancelAt T) :
    ∀ fuel k, k ≤ T → T + 1 ≤ fuel + k →
      preloaded F b cancelAt fuel k (cycTake F k) = some (cycTake F T, preRes b F.length cancelAt T) := by
  intro fuel
  induction fuel with
  | zero => intro k hk hfuel; omega
  | succ fuel ih =>
    intro k hk hfuel
    unfold preloaded
    rw [length_cycTake F k hf]
    by_cases hc : cancelled cancelAt k = true
    · obtain ⟨c, hc1, hc2⟩ := (cancelled_true_iff _ _).mp hc
      have hT : k = T := by have := tg.le_cancel c hc1; omega
      subst hT
      rw [if_pos hc]
      simp [preRes, hc]
    · rw [if_neg hc]
      have hnc : ∀ c, cancelAt = some c → k < c := (cancelled_false_iff _ _).mp (by simpa using hc)
      by_cases hp : b.passes ≠ 0 ∧ b.passes ≤ k / F.length
      · have h1 : b.passes * F.length ≤ k := (Nat.le_div_iff_mul_le hf).mp hp.2
        have hT : k = T := by have := tg.le_pass hp.1; omega
        subst hT
        rw [if_pos hp]
        have hc' : cancelled cancelAt k = false := by simpa using hc
        simp [preRes, hc', hp]
      · rw [if_neg hp]
        by_cases hl : b.limit ≠ 0 ∧ b.limit ≤ k
        · have hT : k = T := by have := tg.le_limit hl.1; omega
          subst hT
          rw [if_pos hl]
          have hc' : cancelled cancelAt k = false := by simpa using hc
          simp [preRes, hc', hp]
        · rw [if_neg hl]
          have hkT : k < T := by
            rcases tg.attained with ⟨h0, hT⟩ | ⟨h0, hT⟩ | hT
            · omega
            · have : ¬ b.passes ≤ k / F.length := fun h => hp ⟨h0, h⟩
              rw [Nat.le_div_iff_mul_le hf] at this
              omega
            · have := hnc T hT; omega
          have hmod : k % F.length < F.length := Nat.mod_lt _ hf
          obtain ⟨a, ha⟩ : ∃ a, F[k % F.length]? = some a := ⟨F[k % F.length], List.getElem?_eq_getElem hmod⟩
          simp only [ha]
          rw [← cycTake_succ F k a ha]
          exact ih (k + 1) (by omega) (by omega)

theorem runPreloaded_spec (F : List α) (b : Bounds) (cancelAt : Option Nat) (T : Nat) (hf : 0 < F.length)
    (tg : Tgt b.limit b.passes F.length cancelAt T) (fuel : Nat) (hfuel : T + 1 ≤ fuel) :
    runPreloaded F b cancelAt fuel = some (cycTake F T, preRes b F.length cancelAt T) := by
  unfold runPreloaded
  rw [if_neg (by omega)]
  have := preloaded_spec F b cancelAt T hf tg fuel 0 (by omega) (by omega)
  rwa [cycTake_zero] at this

/-- everything read in `q` complete passes plus `r` entries (no filter) -/
def cyc2 (file : List α) (q r : Nat) : List α := rep q file ++ file.take r

theorem cyc2_len (file : List α) (q r : Nat) (hr : r ≤ file.length) : (cyc2 file q r).length = q * file.length + r := by
  simp [cyc2, Nat.min_eq_left hr]

theorem cyc2_eq_cycTake (file : List α) (q r : Nat) (hn : 0 < file.length) :
    cyc2 file q r = cycTake file (cyc2 file q r).length :=
  eq_cycTake_of_prefix _ _ _ hn (take_prefix_rep file q r)

theorem cyc2_next (file : List α) (q r : Nat) (a : α) (h : file[r]? = some a) :
    cyc2 file q (r + 1) = cyc2 file q r ++ [a] := by
  simp only [cyc2, take_succ_getElem file r a h, List.append_assoc]

theorem cyc2_full (file : List α) (q : Nat) : cyc2 file q file.length = cyc2 file (q + 1) 0 := by
  simp [cyc2, rep_succ]

/-- `grpcjson.Provider.start` (no chosencases) -/
theorem grpcLoop_spec (file : List α) (b : Bounds) (cancelAt : Option Nat) (T : Nat) (hn : 0 < file.length)
    (tg : Tgt b.limit b.passes file.length cancelAt T) :
    ∀ fuel D q r, r ≤ file.length → (b.passes = 0 ∨ q < b.passes) → (cyc2 file q r).length ≤ T →
      q + D = T / file.length → (D + 1) * (file.length + 1) + 1 ≤ fuel + r →
      grpcLoop file (fun _ => true) b cancelAt fuel ⟨q + 1, r, (cyc2 file q r).length⟩ (cyc2 file q r)
        = some (cycTake file T, .nil) := by
  intro fuel
  induction fuel with
  | zero =>
    intro D q r hr _ _ _ hfuel
    have := succ_mul' D (file.length + 1)
    omega
  | succ fuel ih =>
    intro D q r hr hq hlen hD hfuel
    have hcyc := cyc2_eq_cycTake file q r hn
    have hL := cyc2_len file q r hr
    unfold grpcLoop
    by_cases hA : r < file.length ∧ (b.limit = 0 ∨ (cyc2 file q r).length < b.limit)
    · -- an entry is read and sent
      obtain ⟨a, ha⟩ : ∃ a, file[r]? = some a := ⟨file[r], List.getElem?_eq_getElem hA.1⟩
      simp only [hA, and_self, if_true, ha]
      by_cases hc : cancelled cancelAt (cyc2 file q r).length = true
      · obtain ⟨c, hc1, hc2⟩ := (cancelled_true_iff _ _).mp hc
        have hT : (cyc2 file q r).length = T := by have := tg.le_cancel c hc1; omega
        rw [if_pos hc, ← hT, ← hcyc]
      · rw [if_neg hc]
        have hnc : ∀ c, cancelAt = some c → (cyc2 file q r).length < c :=
          (cancelled_false_iff _ _).mp (by simpa using hc)
        have hnext := cyc2_next file q r a ha
        have hlen' : (cyc2 file q (r + 1)).length ≤ T := by
          rw [cyc2_len file q (r + 1) (by omega)]
          rcases tg.attained with ⟨h0, hT⟩ | ⟨h0, hT⟩ | hT
          · omega
          · have h2 : (q + 1) * file.length ≤ b.passes * file.length := Nat.mul_le_mul_right _ (by omega)
            have := succ_mul' q file.length
            omega
          · have := hnc T hT; omega
        have hLn : (cyc2 file q r).length + 1 = (cyc2 file q (r + 1)).length := by
          rw [hnext, List.length_append, List.length_singleton]
        rw [hLn, ← hnext]
        exact ih D q (r + 1) (by omega) hq hlen' hD (by omega)
    · rw [if_neg hA]
      by_cases hl : b.limit ≠ 0 ∧ b.limit ≤ (cyc2 file q r).length
      · have hT : (cyc2 file q r).length = T := by have := tg.le_limit hl.1; omega
        rw [if_pos hl, ← hT, ← hcyc]
      · rw [if_neg hl]
        have hrn : r = file.length := by omega
        subst hrn
        by_cases hp : b.passes ≠ 0 ∧ b.passes ≤ q + 1
        · have hpq : b.passes = q + 1 := by omega
          have hT : (cyc2 file q file.length).length = T := by
            have := tg.le_pass hp.1
            rw [hpq] at this
            have := succ_mul' q file.length
            omega
          rw [if_pos hp, ← hT, ← hcyc]
        · rw [if_neg hp]
          have hp' : b.passes = 0 ∨ q + 1 < b.passes := by omega
          have hq1 : q + 1 ≤ T / file.length := by
            rw [Nat.le_div_iff_mul_le hn]
            have := succ_mul' q file.length
            omega
          obtain ⟨D', hD'⟩ : ∃ D', D = D' + 1 := ⟨D - 1, by omega⟩
          subst hD'
          have hmul := succ_mul' (D' + 1) (file.length + 1)
          rw [cyc2_full] at hlen ⊢
          exact ih D' (q + 1) 0 (by omega) hp' hlen (by omega) (by omega)

/-- `DecodeProvider.Run` over `MultiPassReader` -/
theorem decodeLoop_spec (file : List α) (b : Bounds) (cancelAt : Option Nat) (T : Nat) (hn : 0 < file.length)
    (tg : Tgt b.limit b.passes file.length cancelAt T) :
    ∀ fuel q r, r ≤ file.length → (b.passes = 0 ∨ q < b.passes) → (cyc2 file q r).length ≤ T →
      T + 1 ≤ fuel + (cyc2 file q r).length →
      decodeLoop file b cancelAt fuel (cyc2 file q r).length ⟨r, q⟩ (cyc2 file q r) = some (cycTake file T, .nil) := by
  intro fuel
  induction fuel with
  | zero => intro q r _ _ hlen hfuel; omega
  | succ fuel ih =>
    intro q r hr hq hlen hfuel
    have hcyc := cyc2_eq_cycTake file q r hn
    have hL := cyc2_len file q r hr
    unfold decodeLoop
    by_cases hl : b.limit = 0 ∨ (cyc2 file q r).length < b.limit
    · rw [if_neg (not_not_intro hl)]
      -- what Decode returns
      have hdec : (r < file.length ∧ decodeNext b.passes file.length 2 ⟨r, q⟩ = (.entry r, ⟨r + 1, q⟩)) ∨
          (r = file.length ∧ (b.passes = 0 ∨ q + 1 < b.passes) ∧
            decodeNext b.passes file.length 2 ⟨r, q⟩ = (.entry 0, ⟨1, q + 1⟩)) ∨
          (r = file.length ∧ b.passes ≠ 0 ∧ b.passes ≤ q + 1 ∧
            ∃ m, decodeNext b.passes file.length 2 ⟨r, q⟩ = (.eof, m)) := by
        by_cases hrn : r < file.length
        · left; exact ⟨hrn, by simp [decodeNext, hrn]⟩
        · have hrn' : r = file.length := by omega
          right
          by_cases hp : b.passes = 0 ∨ q + 1 < b.passes
          · left
            have h1 : b.passes ≠ 1 := by omega
            exact ⟨hrn', hp, by simp [decodeNext, hrn', h1, hp, hn]⟩
          · right
            refine ⟨hrn', by omega, by omega, ?_⟩
            by_cases h1 : b.passes = 1
            · exact ⟨⟨file.length, q⟩, by simp [decodeNext, hrn', h1]⟩
            · exact ⟨⟨file.length, q + 1⟩, by simp [decodeNext, hrn', h1, hp]⟩
      -- sending an entry
      have hsend : ∀ (q' r' i : Nat) (m' : Mpr) (a : α), file[i]? = some a →
          cyc2 file q' r' = cyc2 file q r ++ [a] → r' ≤ file.length → (b.passes = 0 ∨ q' < b.passes) →
          m' = ⟨r', q'⟩ →
          (match file[i]? with
            | some a =>
              if cancelled cancelAt (cyc2 file q r).length then some (cyc2 file q r, RunRes.nil)
              else decodeLoop file b cancelAt fuel ((cyc2 file q r).length + 1) m' (cyc2 file q r ++ [a])
            | none => some (cyc2 file q r, RunRes.errOther)) = some (cycTake file T, .nil) := by
        intro q' r' i m' a ha hnext hr' hq' hm'
        subst hm'
        simp only [ha]
        by_cases hc : cancelled cancelAt (cyc2 file q r).length = true
        · obtain ⟨c, hc1, hc2⟩ := (cancelled_true_iff _ _).mp hc
          have hT : (cyc2 file q r).length = T := by have := tg.le_cancel c hc1; omega
          rw [if_pos hc, ← hT, ← hcyc]
        · rw [if_neg hc]
          have hnc : ∀ c, cancelAt = some c → (cyc2 file q r).length < c :=
            (cancelled_false_iff _ _).mp (by simpa using hc)
          have hLn : (cyc2 file q r).length + 1 = (cyc2 file q' r').length := by
            rw [hnext, List.length_append, List.length_singleton]
          have hlen' : (cyc2 file q' r').length ≤ T := by
            rw [← hLn]
            rcases tg.attained with ⟨h0, hT⟩ | ⟨h0, hT⟩ | hT
            · omega
            · have h2 : (q' + 1) * file.length ≤ b.passes * file.length := Nat.mul_le_mul_right _ (by omega)
              have h3 := succ_mul' q' file.length
              have h4 := cyc2_len file q' r' hr'
              omega
            · have := hnc T hT; omega
          rw [hLn, ← hnext]
          exact ih q' r' hr' hq' hlen' (by omega)
      rcases hdec with ⟨hrn, hd⟩ | ⟨hrn, hp, hd⟩ | ⟨hrn, hp0, hp, m, hd⟩
      · obtain ⟨a, ha⟩ : ∃ a, file[r]? = some a := ⟨file[r], List.getElem?_eq_getElem hrn⟩
        rw [hd]
        exact hsend q (r + 1) r _ a ha (cyc2_next file q r a ha) (by omega) hq rfl
      · obtain ⟨a, ha⟩ : ∃ a, file[0]? = some a := ⟨file[0], List.getElem?_eq_getElem hn⟩
        rw [hd]
        subst hrn
        refine hsend (q + 1) 1 0 _ a ha ?_ (by omega) hp rfl
        rw [cyc2_full]; exact cyc2_next file (q + 1) 0 a ha
      · rw [hd]
        subst hrn
        have hpq : b.passes = q + 1 := by omega
        have hT : (cyc2 file q file.length).length = T := by
          have := tg.le_pass hp0
          rw [hpq] at this
          have := succ_mul' q file.length
          omega
        simp only []
        rw [← hT, ← hcyc]
    · have hl' : b.limit ≠ 0 ∧ b.limit ≤ (cyc2 file q r).length := by omega
      have hT : (cyc2 file q r).length = T := by have := tg.le_limit hl'.1; omega
      rw [if_pos hl, ← hT, ← hcyc]
