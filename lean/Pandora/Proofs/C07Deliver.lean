/-
C07 — provider level: wrap-around (`cycleTake`), limit (`deliver`), request materialisation, the verdict function.
-/
import Pandora.Proofs.C07Raw

namespace Pandora.Proofs.C07
open Pandora.Model.C07 Pandora.Spec.C07

theorem deliver_eof {α : Type} (xs : List α) (k : Nat) (pre : Bool) :
    deliver (xs, Stop.eof) k pre = if xs.isEmpty then ([], .err .noammo) else (cycleTake xs k, .eof) := by
  simp [deliver]

theorem fits_of_linesFitL {lim : Option Nat} {file : Bytes} (h : linesFitL lim file = true) : fits lim file := by
  intro l hl
  simp only [linesFitL, List.all_eq_true, Bool.not_eq_true'] at h
  exact h l hl

theorem fits_of_linesFit {file : Bytes} (h : linesFit file = true) : fits (some maxTok) file :=
  fits_of_linesFitL h

/-- without a token limit every file fits -/
theorem fits_none (file : Bytes) : fits none file := fun _ _ => rfl

theorem layoutOK_parts {lay : Layout} (h : layoutOK lay = true) :
    lay.lead.all padOK = true ∧ lay.per.all itemLayOK = true ∧ padOK lay.trail = true := by
  simp only [layoutOK, Bool.and_eq_true] at h
  exact ⟨h.1.1, h.1.2, h.2⟩

/-! ### cycleTake -/

theorem flatten_replicate_length {α : Type} (xs : List α) (k : Nat) :
    ((List.replicate k xs).flatten).length = k * xs.length := by
  induction k with
  | zero => simp
  | succ k ih => simp [List.replicate_succ, ih, Nat.succ_mul, Nat.add_comm]

theorem flatten_replicate_get {α : Type} (xs : List α) :
    ∀ (k i : Nat), i < k * xs.length → ((List.replicate k xs).flatten)[i]? = xs[i % xs.length]? := by
  intro k
  induction k with
  | zero => intro i hi; simp at hi
  | succ k ih =>
    intro i hi
    simp only [List.replicate_succ, List.flatten_cons]
    by_cases hlt : i < xs.length
    · rw [List.getElem?_append_left hlt, Nat.mod_eq_of_lt hlt]
    · have hge : xs.length ≤ i := Nat.le_of_not_lt hlt
      rw [List.getElem?_append_right hge, ih (i - xs.length) (by rw [Nat.succ_mul] at hi; omega)]
      congr 1
      conv => rhs; rw [← Nat.sub_add_cancel hge, Nat.add_mod_right]

theorem cycleTake_length {α : Type} (xs : List α) (hx : xs ≠ []) (k : Nat) : (cycleTake xs k).length = k := by
  unfold cycleTake
  rw [List.length_take, flatten_replicate_length]
  have : 0 < xs.length := List.length_pos_iff.mpr hx
  have : k ≤ k * xs.length := Nat.le_mul_of_pos_right k this
  omega

/-- position `i` of the delivered sequence is entry `i mod n` -/
theorem cycleTake_get {α : Type} (xs : List α) (hx : xs ≠ []) (k i : Nat) (hi : i < k) :
    (cycleTake xs k)[i]? = xs[i % xs.length]? := by
  unfold cycleTake
  rw [List.getElem?_take_of_lt hi]
  apply flatten_replicate_get xs
  have : 0 < xs.length := List.length_pos_iff.mpr hx
  have : k ≤ k * xs.length := Nat.le_mul_of_pos_right k this
  omega

theorem cycleTake_map {α β : Type} (g : α → β) (xs : List α) (k : Nat) :
    (cycleTake xs k).map g = cycleTake (xs.map g) k := by
  simp [cycleTake, List.map_take, List.map_flatten, List.map_replicate]

theorem cycleTake_nil {α : Type} (k : Nat) : cycleTake ([] : List α) k = [] := by
  simp [cycleTake]

/-! ### BuildRequest on the expected ammo -/

theorem allSome_map_some {α : Type} (xs : List α) : allSome (xs.map some) = some xs := by
  induction xs with
  | nil => rfl
  | cons a r ih => simp [allSome, ih]

theorem buildReq_known (m u b t : Bytes) (h : Hdrs) (hu : (parseURL u).isSome = true) :
    buildReq { method := m, url := u, body := b, tag := t, hdrs := h } =
      some (mkReq m (targetParts u).2 (targetParts u).1 b t h) := by
  obtain ⟨p, hp⟩ := Option.isSome_iff_exists.mp hu
  obtain ⟨host, path⟩ := p
  simp [buildReq, targetParts, hp, mkReq]

theorem parseURL_of_uriOK {u : Bytes} (hu : uriOK u = true) : parseURL u = some ([], u) := by
  simp [parseURL, hu]

theorem targetParts_of_uriOK {u : Bytes} (hu : uriOK u = true) : targetParts u = ([], u) := by
  simp [targetParts, parseURL_of_uriOK hu]

theorem expAmmo_buildReq (f : Fmt) (hf : f ≠ .raw) (cfg : Hdrs) : ∀ (items : List Item) (h : Hdrs), targetsKnown items = true →
    ((expAmmo f h items).map (Ammo.withCfg cfg)).map buildReq = (expReqs f cfg h items).map some
  | [], _, _ => rfl
  | .hdr k v :: r, h, hk => by
    simp only [expAmmo, expReqs]
    exact expAmmo_buildReq f hf cfg r _ (by simpa [targetsKnown] using hk)
  | .req u t b :: r, h, hk => by
    simp only [targetsKnown, List.all_cons, Bool.and_eq_true] at hk
    have ih := expAmmo_buildReq f hf cfg r h (by simpa [targetsKnown] using hk.2)
    simp only [expAmmo, expReqs, List.map_cons, ih]
    congr 1
    simp only [Ammo.withCfg]
    rw [buildReq_known _ _ _ _ _ hk.1]
    by_cases hp : f = .uripost
    · simp [hp]
    · simp [hp]
  | .frame t fr :: r, h, hk => by
    simp only [expAmmo, expReqs]
    exact expAmmo_buildReq f hf cfg r _ (by simpa [targetsKnown] using hk)

/-! ### the `headers` option never overrides the file -/

theorem hget_append_of_some (h t : Hdrs) (k v : Bytes) (hk : hget h k = some v) : hget (h ++ t) k = some v := by
  induction h with
  | nil => simp [hget] at hk
  | cons x r ih =>
    obtain ⟨k', v'⟩ := x
    simp only [hget, List.cons_append] at hk ⊢
    split
    · rename_i he; simpa [he] using hk
    · rename_i he; simp only [he, if_false] at hk; exact ih hk

/-- a key the file defined keeps the file's value -/
theorem mergeCfg_keeps (cfg h : Hdrs) (k v : Bytes) (hk : hget h k = some v) : hget (mergeCfg h cfg) k = some v := by
  unfold mergeCfg
  induction cfg generalizing h with
  | nil => simpa using hk
  | cons kv r ih =>
    simp only [List.foldl_cons]
    apply ih
    split
    · exact hk
    · exact hget_append_of_some _ _ _ _ hk

theorem mergeCfg_nil (h : Hdrs) : mergeCfg h [] = h := rfl

theorem withCfg_nil (a : Ammo) : Ammo.withCfg [] a = a := rfl

theorem map_withCfg_nil (as : List Ammo) : as.map (Ammo.withCfg []) = as := by
  induction as with
  | nil => rfl
  | cons a r ih => simp [withCfg_nil, ih]

/-! ### the verdict function accepts exactly-equal observations -/

theorem diff_refl : ∀ (xs : List String) (i : Nat) (prev : Option String), diff i xs xs prev = .same
  | [], _, _ => by simp [diff]
  | x :: xs, i, prev => by
    rw [diff]
    simp only [beq_self_eq_true, if_true]
    exact diff_refl xs (i + 1) (some x)

theorem judge_refl (xs : List String) (e : String) : judge xs e xs e = "ok" := by
  unfold judge
  rw [diff_refl]
  simp

/-- if the decoder model delivered exactly the expected ammo, its observation passes the Spec -/
theorem modelObs_ok (f : Fmt) (hf : f ≠ .raw) (cfg : Hdrs) (items : List Item) (k : Nat) (hk : targetsKnown items = true)
    (res : List Ammo × Stop)
    (hres : res = if (expAmmo f [] items).isEmpty then ([], .err .noammo) else (cycleTake (expAmmo f [] items) k, .eof)) :
    ∃ e rs, modelObs (withCfgRes cfg res) = some (e, rs) ∧
      judge (expected ((expReqs f cfg [] items).map reqStr) k) (expectedErr ((expReqs f cfg [] items).map reqStr)) rs e = "ok" := by
  have hmap := expAmmo_buildReq f hf cfg items [] hk
  have hempty : (expAmmo f [] items).isEmpty = ((expReqs f cfg [] items).map reqStr).isEmpty := by
    have := congrArg List.length hmap
    simp only [List.length_map] at this
    cases h1 : expAmmo f [] items <;> cases h2 : expReqs f cfg [] items <;> simp [h1, h2] at this ⊢
  by_cases hE : (expAmmo f [] items).isEmpty = true
  · have hE' := hE; rw [hempty] at hE'
    rw [if_pos hE] at hres
    refine ⟨"noammo", [], by subst hres; rfl, ?_⟩
    have : (expReqs f cfg [] items).map reqStr = [] := List.isEmpty_iff.mp hE'
    rw [this]
    simp [expected, expectedErr, cycleTake_nil, judge_refl]
  · have hE' := hE; rw [hempty] at hE'
    rw [if_neg hE] at hres
    refine ⟨"ok", (cycleTake (expReqs f cfg [] items) k).map reqStr, ?_, ?_⟩
    · subst hres
      simp only [modelObs, withCfgRes, cycleTake_map, hmap]
      rw [← cycleTake_map, allSome_map_some]
      simp [stopName, cycleTake_map]
    · have : expectedErr ((expReqs f cfg [] items).map reqStr) = "ok" := by
        simp only [expectedErr]; simp only [Bool.not_eq_true] at hE'; simp [hE']
      rw [this, expected, cycleTake_map]
      exact judge_refl _ _

/-! ### http/json -/

theorem cut_recompose (sep : UInt8) (s : Bytes) :
    s = (cut sep s).1 ++ (if (cut sep s).2.2 then sep :: (cut sep s).2.1 else []) ∧ sep ∉ (cut sep s).1 := by
  induction s with
  | nil => simp [cut]
  | cons b r ih =>
    unfold cut
    by_cases hb : b = sep
    · simp [hb]
    · simp only [hb, if_false]
      refine ⟨?_, ?_⟩
      · rw [List.cons_append, ← ih.1]
      · simp only [List.mem_cons, not_or]
        exact ⟨fun e => hb e.symm, ih.2⟩

theorem hostOK_noSlash (host : Bytes) (h : hostOK host = true) : (47 : UInt8) ∉ host := by
  simp only [hostOK, Bool.and_eq_true, Bool.not_eq_true', Bool.or_eq_true, List.all_eq_true] at h
  obtain ⟨⟨_, hname⟩, hport⟩ := h
  have hr := (cut_recompose COLON host).1
  intro hm
  rw [hr] at hm
  rcases List.mem_append.mp hm with hm | hm
  · have := hname _ hm; simp [isHostByte] at this
  · by_cases hf : (cut COLON host).2.2 = true
    · rw [if_pos hf] at hm
      rcases hport with hp | hp
      · rw [hf] at hp; simp at hp
      · simp only [List.mem_cons] at hm
        rcases hm with hm | hm
        · simp [COLON] at hm
        · have := hp.2 _ hm; simp [isDigit] at this
    · rw [if_neg hf] at hm; simp at hm

theorem uriOK_shape {u : Bytes} (h : uriOK u = true) : ∃ r, u = 47 :: r := by
  unfold uriOK at h
  split at h
  · simp at h
  · exact ⟨_, rfl⟩
  · simp at h

theorem parseURL_http (host uri : Bytes) (hh : host.isEmpty = true ∨ hostOK host = true) (hu : uriOK uri = true) :
    parseURL (httpPrefix ++ host ++ uri) = some (host, uri) := by
  obtain ⟨r, hr⟩ := uriOK_shape hu
  have hns : (47 : UInt8) ∉ host := by
    rcases hh with hh | hh
    · rw [List.isEmpty_iff.mp hh]; simp
    · exact hostOK_noSlash host hh
  have hnot : uriOK (httpPrefix ++ host ++ uri) = false := by
    simp [httpPrefix, uriOK]
  have hpre : httpPrefix.isPrefixOf (httpPrefix ++ host ++ uri) = true := by
    simp [List.append_assoc]
  have hdrop : (httpPrefix ++ host ++ uri).drop httpPrefix.length = host ++ 47 :: r := by
    rw [List.append_assoc, List.drop_left, hr]
  unfold parseURL
  simp only [hnot, Bool.false_eq_true, if_false, hpre, if_true, hdrop, cut_append_sep 47 host r hns]
  rw [← hr]
  have : (host.isEmpty || hostOK host) = true := by
    rcases hh with hh | hh <;> simp [hh]
  simp [this, hu]

theorem entity_buildReq (cfg : Hdrs) (e : Entity) (hk : entityKnown e = true) :
    ∃ a, entityAmmo e = .ok a ∧ buildReq (a.withCfg cfg) = some (entityReq cfg e.host e.method e.uri e.tag e.body e.headers) := by
  simp only [entityKnown, Bool.and_eq_true, Bool.or_eq_true] at hk
  obtain ⟨⟨⟨hu, hh⟩, hm⟩, _⟩ := hk
  refine ⟨{ method := e.method, url := httpPrefix ++ e.host ++ e.uri, body := e.body, tag := e.tag,
             hdrs := e.headers.foldl (fun h kv => hset h kv.1 kv.2) [] }, by simp [entityAmmo, hm], ?_⟩
  simp only [Ammo.withCfg, buildReq, parseURL_http e.host e.uri hh hu, entityReq, mkReq]
  rfl


theorem jsonPass_known (cfg : Hdrs) : ∀ (ents : List Entity), ents.all entityKnown = true →
    ∃ as, jsonPass ents = (as, .eof) ∧ as.length = ents.length ∧
      (as.map (Ammo.withCfg cfg)).map buildReq = ents.map (fun e => some (entityReq cfg e.host e.method e.uri e.tag e.body e.headers))
  | [], _ => ⟨[], rfl, rfl, rfl⟩
  | e :: r, hk => by
    simp only [List.all_cons, Bool.and_eq_true] at hk
    obtain ⟨as, h1, h2, h3⟩ := jsonPass_known cfg r hk.2
    obtain ⟨a, ha, hb⟩ := entity_buildReq cfg e hk.1
    refine ⟨a :: as, ?_, by simp [h2], by simp [hb, h3]⟩
    simp [jsonPass, ha, h1]

end Pandora.Proofs.C07
