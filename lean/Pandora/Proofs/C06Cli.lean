/-
C06 helper lemmas: invariant of the process-shutdown transition system (repaired `awaitPandoraTermination`).
-/
import Pandora.Model.C06CliShutdown

namespace Pandora.Proofs.C06Cli
open Pandora.Model.CliShutdown

structure Inv (st : St) : Prop where
  errsOk : st.errsReady = some true → st.flushed = true
  sigsLe : st.sigs ≤ st.delivered
  waited : (st.pc = .sigWait ∨ st.pc = .sigWaitTasks) → st.sigs + 1 ≤ st.delivered
  exitOk : ∀ x, st.exit = some x →
    x.flushed = true ∨ (x.reason = .timeout ∧ st.timerFired = true) ∨ (x.reason = .secondSignal ∧ 2 ≤ st.delivered)
  exitPc : st.exit ≠ none → st.pc = .exited

theorem inv_init : Inv {} := by
  refine ⟨?_, ?_, ?_, ?_, ?_⟩ <;> simp

theorem inv_step {st : St} (h : Inv st) (e : Ev) : Inv (step true st e) := by
  obtain ⟨h1, h2, h3, h4, h5⟩ := h
  unfold step
  by_cases hx : st.pc = .exited
  · simp only [hx, if_true]; exact ⟨h1, h2, h3, h4, h5⟩
  · have hne : st.exit = none := by
      cases he : st.exit with
      | none => rfl
      | some x => exact absurd (h5 (by simp [he])) hx
    simp only [hx, if_false]
    cases e with
    | signal s =>
      dsimp only
      split
      · refine ⟨h1, by simp; omega, fun hp => by simp at hp ⊢; have := h3 hp; omega,
          fun x hxe => by simp [hne] at hxe, by simpa using h5⟩
      · refine ⟨h1, by simp; omega, fun hp => by simp at hp ⊢; have := h3 hp; omega,
          fun x hxe => by simp [hne] at hxe, by simpa using h5⟩
    | engineReturned ok =>
      dsimp only
      split
      · exact ⟨h1, h2, h3, h4, h5⟩
      · split
        · exact ⟨h1, h2, h3, h4, h5⟩
        · rename_i hd hk
          refine ⟨?_, h2, h3, by simpa using h4, by simpa using h5⟩
          intro he
          simp at he
          subst he
          simpa using hk
    | tasksDone =>
      dsimp only
      exact ⟨fun _ => rfl, h2, h3, by simpa using h4, by simpa using h5⟩
    | timerFires =>
      dsimp only
      split
      · refine ⟨h1, h2, h3, ?_, by simpa using h5⟩
        intro x hxe
        simp [hne] at hxe
      · exact ⟨h1, h2, h3, h4, h5⟩
    | takeSignal =>
      dsimp only
      split
      · exact ⟨h1, h2, h3, h4, h5⟩
      · rename_i hs
        split
        · refine ⟨h1, by simp; omega, fun _ => by simp; omega, by simp [hne], by simp [hne]⟩
        · rename_i hp
          have := h3 (Or.inl hp)
          refine ⟨h1, by simp [St.die]; omega, fun _ => by simp [St.die]; omega, ?_, by simp [St.die]⟩
          intro x hxe
          simp [St.die] at hxe
          subst hxe
          right; right
          exact ⟨rfl, by (try simp [St.die]); omega⟩
        · rename_i hp
          have := h3 (Or.inr hp)
          refine ⟨h1, by simp [St.die]; omega, fun _ => by simp [St.die]; omega, ?_, by simp [St.die]⟩
          intro x hxe
          simp [St.die] at hxe
          subst hxe
          right; right
          exact ⟨rfl, by (try simp [St.die]); omega⟩
        · exact ⟨h1, h2, h3, h4, h5⟩
    | takeErrs =>
      dsimp only
      split
      · rename_i he hp
        refine ⟨by simp [St.die], by simpa [St.die] using h2, by simp [St.die], ?_, by simp [St.die]⟩
        intro x hxe
        simp [St.die] at hxe
        subst hxe
        left
        exact h1 he
      · refine ⟨by simp, by simpa using h2, by simp, by simp [hne], by simp [hne]⟩
      · rename_i hp
        simp only [if_true]
        refine ⟨by simp, by simpa using h2, fun _ => by simpa using h3 (Or.inl hp), by simp [hne], by simp [hne]⟩
      · exact ⟨h1, h2, h3, h4, h5⟩
    | takeTimeout =>
      dsimp only
      split
      · rename_i hf
        split
        all_goals first
          | exact ⟨h1, h2, h3, h4, h5⟩
          | (refine ⟨by simpa [St.die] using h1, by simpa [St.die] using h2, by simp [St.die], ?_, by simp [St.die]⟩
             intro x hxe
             simp [St.die] at hxe
             subst hxe
             right; left
             exact ⟨rfl, by simpa [St.die] using hf⟩)
      · exact ⟨h1, h2, h3, h4, h5⟩
    | takeWaitDone =>
      dsimp only
      split
      · rename_i hf
        split
        all_goals first
          | exact ⟨h1, h2, h3, h4, h5⟩
          | (refine ⟨by simpa [St.die] using h1, by simpa [St.die] using h2, by simp [St.die], ?_, by simp [St.die]⟩
             intro x hxe
             simp [St.die] at hxe
             subst hxe
             left
             exact hf)
      · exact ⟨h1, h2, h3, h4, h5⟩

theorem inv_run (tr : List Ev) {st : St} (h : Inv st) : Inv (run true st tr) := by
  induction tr generalizing st with
  | nil => exact h
  | cons e es ih => exact ih (inv_step h e)

end Pandora.Proofs.C06Cli
